(* C08 - pointer, stack and call/return macros (stl/ptrlib.fj, stl/hex/pointers/*.fj, stl/bit/pointers.fj).

   Part 1: operand domains given as explicit value lists (a pointer operand ranges over the ADDRESSES of the
           cells of a buffer, an index over negative values too) and finite unions of such products.
   Part 2: the statement proved for every C08 harness block: the frame equation of StlSpec.block_correct
           PLUS the consistency of the library's global pointer cells (ptr_consistent).
   Part 3: one small function per documented macro (type StlSpec.bspec), transcribed from the `like:` line of
           the doc comment above its `def`; the abstract stack and the abstract call tree.

   A buffer of k cells is one operand: the number whose base-2^cb digits are the cell contents (cb = 8 for the
   byte cells of the hex namespace, cb = 1 for bit cells); cell i lives in the jump word of op i of the buffer,
   as value*dw, exactly like a hex/bit variable.  Pointers are operands holding a BIT ADDRESS. *)
From FJ Require Import Lib.Base Spec.MachineSpec Spec.StlSpec.
Local Open Scope N_scope.

(* ------------------------------------------------------------------------------------------- *)
(* Part 1: explicit-list domains                                                                *)

(* one explicit list of admissible values per operand *)
Definition in_ldom (ls : list (list N)) (vs : list N) : Prop := Forall2 (fun v l => In v l) vs ls.
(* a finite union of such products *)
Definition in_udom (ds : list (list (list N))) (vs : list N) : Prop := Exists (fun d => in_ldom d vs) ds.

(* value lists are written with these in the generated statements *)
Definition cell (cb : N) (B i : N) : N := N.land (N.shiftr B (cb * i)) (N.ones cb).
Definition set_cell (cb : N) (B i v : N) : N :=
  N.lor (N.ldiff B (N.shiftl (N.ones cb) (cb * i))) (N.shiftl (N.land v (N.ones cb)) (cb * i)).
(* `from lo n` = [lo; lo+1; ...; lo+n-1] *)
Definition from (lo : N) (n : nat) : list N := map (fun i => lo + N.of_nat i) (seq 0 n).
(* addresses of the k cells of a buffer at bit address base: base, base+step, ... *)
Definition addrs (base step : N) (k : nat) : list N := map (fun i => base + step * N.of_nat i) (seq 0 k).

(* ------------------------------------------------------------------------------------------- *)
(* Part 2: the statement                                                                        *)

(* value of a hex/bit vector variable in a memory (inverse of StlSpec.patch_var) *)
Fixpoint read_digits (ww bits : N) (mm : mem) (a : N) (n : nat) : N :=
  match n with
  | O => 0
  | S k => N.land (N.shiftr (mget0 mm a) (ww + 1)) (N.ones bits) + N.shiftl (read_digits ww bits mm (a + 2) k) bits
  end.
Definition read_var (ww : N) (mm : mem) (x : var) : N := read_digits ww x.(v_bits) mm x.(v_jw) (N.to_nat x.(v_n)).

(* The invariant the library keeps between its shared ops and their variable copies
   (basic_pointers.fj: "to_flip_var: the hex-vector (pointer) that also holds the flipping address"):
   the flip word of `to_flip` equals the value of `to_flip_var`, the jump word of `to_jump` equals the value
   of `to_jump_var`.  set_flip_pointer / set_jump_pointer rely on it: they xor the OLD variable value into
   the op to clear it before xoring the new pointer in.  A pair is (word address of the op word, variable). *)
Definition ptr_consistent (ww : N) (pcs : list (N * var)) (mm : mem) : Prop :=
  Forall (fun p => mget0 mm (fst p) = read_var ww mm (snd p)) pcs.

(* block_correct + the global pointer cells (which are scratch for the frame equation) are consistent *)
Definition ptr_block_correct (ww : N) (sg : list (N * N)) (img : mem) (b : block) (pcs : list (N * var))
           (S : bspec) (vs : list N) : Prop :=
  match S vs with
  | None => True
  | Some (vs', x) =>
    exists xa marker k s,
      nth_error b.(b_exits) (N.to_nat x) = Some (xa, marker) /\
      run ww sg k (init (start_mem ww img b vs) []) = (Looping, s) /\
      s.(ip) = xa /\ out_bytes s.(outp) = (marker, []) /\
      (forall a, eq_mod (scratch_mask b a) (mget0 s.(m) a) (mget0 (start_mem ww img b vs') a) = true) /\
      ptr_consistent ww pcs s.(m)
  end.

(* ------------------------------------------------------------------------------------------- *)
(* Part 3: the documented functions                                                             *)

Section P.
Variable ww : N.                       (* log2 w *)
Let DW := dw ww.                       (* 2w: one op = one cell *)
Let DBIT := w ww + ww + 1.             (* dbit = w + #w: offset of the data bits inside a cell *)
Let WMOD := 2 ^ (w ww).                (* pointers are w-bit numbers *)

(* the index of the cell a pointer points at: p must be op-aligned inside the buffer [base, base + k*dw) *)
Definition cell_index (base k p : N) : option N :=
  if (base <=? p) && ((p - base) mod DW =? 0) && ((p - base) / DW <? k) then Some ((p - base) / DW) else None.
Definition with_cell (base k p : N) (f : N -> option (list N * N)) : option (list N * N) :=
  match cell_index base k p with Some i => f i | None => None end.
(* n consecutive cells starting at i, the low part (mod md) of each, packed into db-bit digits *)
Fixpoint gather (cb md db B i : N) (n : nat) : N :=
  match n with O => 0 | S r => cell cb B i mod md + N.shiftl (gather cb md db B (i + 1) r) db end.
(* store / xor the db-bit digits of s into n consecutive cells starting at i; f old digit = new cell *)
Fixpoint scatter (cb db : N) (f : N -> N -> N) (B i s : N) (n : nat) : N :=
  match n with
  | O => B
  | S r => scatter cb db f (set_cell cb B i (f (cell cb B i) (N.land s (N.ones db)))) (i + 1) (N.shiftr s db) r
  end.
Definition keep_high (md : N) (old new : N) : N := (old / md) * md + new.

(* ---- read through a pointer:    like:  dst = *ptr      (read_hex: the least-significant hex of the cell) ---- *)
(* hex.read_hex dst, ptr (md = 16) ; hex.read_byte dst, ptr (md = 256) *)
Definition ptr_load (cb md base k : N) : bspec :=
  fun vs => match vs with [_; p; B] => with_cell base k p (fun i => ok [cell cb B i mod md; p; B]) | _ => None end.
(*   like:  dst ^= *ptr        hex.xor_hex_from_ptr, hex.xor_byte_from_ptr, bit.xor_from_ptr *)
Definition ptr_xor_load (cb md base k : N) : bspec :=
  fun vs => match vs with [d; p; B] => with_cell base k p (fun i => ok [N.lxor d (cell cb B i mod md); p; B]) | _ => None end.
(*   like:  dst = *ptr ; ptr++     hex.read_hex_and_inc, hex.read_byte_and_inc *)
Definition ptr_load_inc (cb md base k : N) : bspec :=
  fun vs => match vs with
            | [_; p; B] => with_cell base k p (fun i => ok [cell cb B i mod md; (p + DW) mod WMOD; B])
            | _ => None end.
(*   like:  dst[:n] = *ptr[:n]     hex.read_hex n (md = 16, db = 4), hex.read_byte n (md = 256, db = 8); ptr unchanged *)
Definition ptr_load_n (cb md db base k n : N) : bspec :=
  fun vs => match vs with
            | [_; p; B] => with_cell base k p (fun i => if i + n <=? k then ok [gather cb md db B i (N.to_nat n); p; B] else None)
            | _ => None end.
(*   dst = *(ptr + index*2w)       hex.read_nth_hex, hex.read_nth_byte; index signed; ptr, index preserved *)
Definition ptr_load_nth (cb md base k : N) : bspec :=
  fun vs => match vs with
            | [_; p; ix; B] => with_cell base k ((p + ix * DW) mod WMOD) (fun i => ok [cell cb B i mod md; p; ix; B])
            | _ => None end.

(* ---- write through a pointer:   like:  *ptr = src ---- *)
(* hex.write_hex ptr, src (md = 16: the hex of the cell; the bits above the hex are not part of it and stay)
   hex.write_byte ptr, src (md = 256) *)
Definition ptr_store (cb md base k : N) : bspec :=
  fun vs => match vs with
            | [p; s; B] => with_cell base k p (fun i => ok [p; s; set_cell cb B i (keep_high md (cell cb B i) s)])
            | _ => None end.
Definition ptr_store_inc (cb md base k : N) : bspec :=
  fun vs => match vs with
            | [p; s; B] => with_cell base k p (fun i => ok [(p + DW) mod WMOD; s; set_cell cb B i (keep_high md (cell cb B i) s)])
            | _ => None end.
(*   like:  *ptr[:n] = src[:n]     hex.write_hex n (md 16, db 4), hex.write_byte n (md 256, db 8) *)
Definition ptr_store_n (cb md db base k n : N) : bspec :=
  fun vs => match vs with
            | [p; s; B] => with_cell base k p (fun i => if i + n <=? k then ok [p; s; scatter cb db (keep_high md) B i s (N.to_nat n)] else None)
            | _ => None end.
(*   like:  *ptr = 0               hex.zero_ptr *)
Definition ptr_zero (cb base k : N) : bspec :=
  fun vs => match vs with [p; B] => with_cell base k p (fun i => ok [p; set_cell cb B i 0]) | _ => None end.
(*   *(ptr + index*2w) = src       hex.write_nth_hex, hex.write_nth_byte; ptr, index, src preserved *)
Definition ptr_store_nth (cb md base k : N) : bspec :=
  fun vs => match vs with
            | [p; ix; s; B] => with_cell base k ((p + ix * DW) mod WMOD)
                                 (fun i => ok [p; ix; s; set_cell cb B i (keep_high md (cell cb B i) s)])
            | _ => None end.

(* ---- xor through a pointer:     like:  hex.xor *ptr, hex ---- *)
(* hex.xor_hex_to_ptr ptr, hex ; hex.xor_byte_to_ptr ptr, hex ; bit.xor_to_ptr ptr, bit *)
Definition ptr_xor_store (cb base k : N) : bspec :=
  fun vs => match vs with
            | [p; s; B] => with_cell base k p (fun i => ok [p; s; set_cell cb B i (N.lxor (cell cb B i) s)])
            | _ => None end.
(*   like:  hex.xor *ptr[:n], hex[:n]     (db = 4) ; hex[:2n] (db = 8) *)
Definition ptr_xor_store_n (cb db base k n : N) : bspec :=
  fun vs => match vs with
            | [p; s; B] => with_cell base k p (fun i => if i + n <=? k then ok [p; s; scatter cb db N.lxor B i s (N.to_nat n)] else None)
            | _ => None end.

(* ---- flip through a pointer ---- *)
(*   like:  *ptr;        ptr holds ANY bit address: here data bit j of cell i, p = base + i*dw + dbit + j *)
Definition ptr_flip_bit (cb base k : N) : bspec :=
  fun vs => match vs with
            | [p; B] => if (base + DBIT <=? p) && ((p - base - DBIT) mod DW <? cb) && ((p - base - DBIT) / DW <? k)
                        then ok [p; N.lxor B (N.shiftl 1 (cb * ((p - base - DBIT) / DW) + (p - base - DBIT) mod DW))]
                        else None
            | _ => None end.
(*   like:  ( *ptr )+dbit;     hex.ptr_flip_dbit, bit.ptr_flip_dbit: data bit 0 of the pointed cell *)
Definition ptr_flip_dbit (cb base k : N) : bspec :=
  fun vs => match vs with
            | [p; B] => with_cell base k p (fun i => ok [p; set_cell cb B i (N.lxor (cell cb B i) 1)])
            | _ => None end.
(*   like:  wflip *ptr, value         (ptr_wflip: ptr = the cell's second word, off = w)
     like:  wflip ( *ptr )+w, value     (ptr_wflip_2nd_word: ptr = the cell, off = 0);   value = c*dw *)
Definition ptr_wflip_cell (cb off base k c : N) : bspec :=
  fun vs => match vs with
            | [p; B] => with_cell (base + off) k p (fun i => ok [p; set_cell cb B i (N.lxor (cell cb B i) c)])
            | _ => None end.

(* ---- jump through a pointer:    like:  ;*ptr       exit j+1 = the j-th of k targets x1, x1+stride, ... ---- *)
Definition ptr_jump_to (x1 stride k : N) : bspec :=
  fun vs => match vs with
            | [p] => if (x1 <=? p) && ((p - x1) mod stride =? 0) && ((p - x1) / stride <? k)
                     then goto vs (1 + (p - x1) / stride) else None
            | _ => None end.

(* ---- pointer arithmetic: whole cells ---- *)
(*   ptr[:w/4] += value * 2w   (ptr_inc: value = 1; sp_inc, sp_add likewise on the stack pointer) *)
Definition ptr_add_c (c : N) : bspec := fun vs => match vs with [p] => ok [(p + c * DW) mod WMOD] | _ => None end.
(*   ptr[:w/4] -= value * 2w *)
Definition ptr_sub_c (c : N) : bspec :=
  fun vs => match vs with [p] => ok [(p + WMOD - (c * DW) mod WMOD) mod WMOD] | _ => None end.
(*   dst[:w/4] = ptr + index*2w     index is a signed w-bit number (two's complement) *)
Definition ptr_index_of : bspec :=
  fun vs => match vs with [_; p; ix] => ok [(p + ix * DW) mod WMOD; p; ix] | _ => None end.
(*   dst[:w/4] = sp *)
Definition ptr_get : bspec := fun vs => match vs with [_; s] => ok [s; s] | _ => None end.
End P.

(* ---- the stack: last in, first out ---- *)
Inductive skind := Hex | Byte | Vec (n : N).          (* push_hex / push_byte / push n *)
Inductive sop := Push (k : skind) (v : nat) | Pop (k : skind) (v : nat).   (* v = position of the operand *)
Definition skind_eqb (a b : skind) : bool :=
  match a, b with Hex, Hex | Byte, Byte => true | Vec n, Vec m => n =? m | _, _ => false end.
(* the abstract stack holds what was pushed; a pop returns the top into its operand.  "The push/pop usage
   must be coordinated": a pop of another kind than the matching push, a pop on the empty stack and an
   unbalanced word are outside the documented domain.  The stack pointer is one of the operands and is
   never touched here: it must be back at its initial value. *)
Fixpoint stack_run (ops : list sop) (stk : list (skind * N)) (vs : list N) : option (list N) :=
  match ops with
  | [] => match stk with [] => Some vs | _ => None end
  | Push k i :: r => stack_run r ((k, nth i vs 0) :: stk) vs
  | Pop k i :: r => match stk with
                    | (k', v) :: stk' => if skind_eqb k k' then stack_run r stk' (upd_nth vs i v) else None
                    | [] => None
                    end
  end.
Definition stack_word (ops : list sop) : bspec :=
  fun vs => match stack_run ops [] vs with Some vs' => ok vs' | None => None end.

(* ---- call / return, fcall / fret: the abstract call tree ---- *)
(* a body is a list of items: print a marker byte, call function f (stl.call / stl.call with stack parameters
   pushed before / stl.fcall); every function ends with stl.return (fret for the fcall'ed ones) *)
Inductive citem := Mark (c : N) | Call (f : nat) | CallP (f : nat) (nparams : N) | FCall (f : nat).
Fixpoint call_trace (fuel : nat) (fs : list (list citem)) (body : list citem) : list N :=
  match fuel with
  | O => []
  | S fu => flat_map (fun it => match it with
                                | Mark c => [c]
                                | Call f | CallP f _ | FCall f => call_trace fu fs (nth f fs [])
                                end) body
  end.
(* the block of a call tree prints call_trace and leaves every operand (the stack pointer) as it was *)
Definition calls_keep : bspec := fun vs => ok vs.
