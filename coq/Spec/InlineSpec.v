From FJ Require Import Lib.Base.
(* C03 - what "macro expansion is hygienic inlining" MEANS.  Specification only.

   The input is the parsed program (Model/Ast.v): names are RESOLVED (a label declared `p:` inside namespace N is
   called "N.p"; `.p`, `N.p`, `..M.p` are already the dotted names they stand for - section 5 states that rule).

   1. [subst]       one-pass simultaneous substitution of names by expressions (the replacement is not searched again)
   2. [bind_macro]  the bindings of one expansion: parameter -> argument, local `@` label -> a fresh name; inside
                    namespace N every parameter/local p is entered under both `p` and `N.p` (the language's aliasing
                    rule: within the macro every spelling that resolves to N.p denotes p)
   3. [inline]      the textual inliner: every call replaced by the callee's body under its bindings, every
                    `rep(n, i) m args` by the n bodies of m for args[i := 0] .. args[i := n-1] (n <= 0: nothing; n is
                    the value of the count expression, which must be a constant expression once the arguments are
                    substituted), every expansion identified by its position in the call tree ([path]) so that the
                    names `fresh path local` of different expansions are different
   4. [admissible]  what "fresh" means: generated names are pairwise different and are not names a user can write
   5. [ns_resolve]  dotted / relative names: k leading dots strip k-1 namespace levels

   The result of [inline] is a macro-free program (only primitive statements); the property says that it assembles
   to the same image as the macro program. *)
From FJ Require Import Model.Ast Model.Expr.        (* Expr: only [exact_eval], the value of an expression (C12) *)
Local Open Scope string_scope.

(* ------------------------------------------------------------------------------------------ *)
(** * 1. Substitution *)

Fixpoint subst (sg : string -> option expr) (e : expr) : expr :=
  match e with
  | EInt _ => e
  | ELbl s => match sg s with Some r => r | None => e end
  | EOp o args => EOp o (map (subst sg) args)
  end.

Definition binding := list (string * expr).

Fixpoint lookup (b : binding) (s : string) : option expr :=
  match b with
  | [] => None
  | (k, v) :: b' => if String.eqb k s then Some v else lookup b' s
  end.

(* sg[i := v] : the innermost binder wins *)
Definition override (sg : string -> option expr) (i : string) (v : expr) : string -> option expr :=
  fun s => if String.eqb s i then Some v else sg s.

(* ------------------------------------------------------------------------------------------ *)
(** * 2. The bindings of one expansion *)

(* An expansion is identified by the calls that lead to it from the top level: for each, the index of the calling
   statement in its body, the statement itself, and the repetition index when it is a `rep`. *)
Record step := mkstep { sp_index : nat; sp_call : stmt; sp_rep : option Z }.
Definition path := list step.

Definition qualify (ns : string) (b : binding) : binding :=
  if String.eqb ns "" then [] else map (fun kv => (ns ++ "." ++ fst kv, snd kv)) b.

Section Inline.
Variable fresh : path -> string -> string.     (* the name given to local label l of the expansion at path pi *)
Variable D : macro_dict.

Definition bind_macro (m : macro) (args : list expr) (pi : path) : binding :=
  let base := (combine (m_params m) args ++ map (fun l => (l, ELbl (fresh pi l))) (m_locals m))%list in
  (base ++ qualify (m_ns m) base)%list.

(* ------------------------------------------------------------------------------------------ *)
(** * 3. The inliner *)

(* the value of a constant expression (no name left in it) *)
Definition const_value (e : expr) : option Z :=
  match exact_eval (fun _ => None) e with Ok z => Some z | _ => None end.

(* a declared label whose name is a parameter takes the name passed for it *)
Definition rename_label (sg : string -> option expr) (name : string) : option string :=
  match sg name with
  | None => Some name
  | Some (ELbl s) => Some s
  | Some _ => None                    (* a non-name was passed where a label is declared: no inlining exists *)
  end.

Definition app2 (a b : option (list stmt)) : option (list stmt) :=
  match a, b with Some x, Some y => Some (x ++ y)%list | _, _ => None end.

Section Ops.
(* the inlined body of one call: macro name, arguments (already substituted), path of the new expansion *)
Variable expand : macro_name -> list expr -> path -> option (list stmt).

Fixpoint unroll (mn : macro_name) (sg : string -> option expr) (iter : string) (args : list expr)
         (pi : path) (k : nat) (c : stmt) (n : nat) (i : Z) : option (list stmt) :=
  match n with
  | O => Some []
  | S n' => app2 (expand mn (map (subst (override sg iter (EInt i))) args) (pi ++ [mkstep k c (Some i)])%list)
                 (unroll mn sg iter args pi k c n' (i + 1)%Z)
  end.

Definition inline_stmt (sg : string -> option expr) (pi : path) (k : nat) (s : stmt) : option (list stmt) :=
  match s with
  | SFlipJump f j p => Some [SFlipJump (subst sg f) (subst sg j) p]
  | SWordFlip a v r p => Some [SWordFlip (subst sg a) (subst sg v) (subst sg r) p]
  | SPad e p => Some [SPad (subst sg e) p]
  | SSegment e p => Some [SSegment (subst sg e) p]
  | SReserve e p => Some [SReserve (subst sg e) p]
  | SLabel name p => match rename_label sg name with Some n => Some [SLabel n p] | None => None end
  | SMacroCall name args p =>
      expand (call_name name args) (map (subst sg) args) (pi ++ [mkstep k s None])%list
  | SRepCall times iter name args p =>
      match const_value (subst sg times) with
      | Some n => unroll (call_name name args) sg iter args pi k s (Z.to_nat n) 0%Z
      | None => None                  (* the count depends on label addresses: outside this specification *)
      end
  end.

Fixpoint inline_ops (sg : string -> option expr) (pi : path) (k : nat) (ops : list stmt) : option (list stmt) :=
  match ops with
  | [] => Some []
  | s :: rest => app2 (inline_stmt sg pi k s) (inline_ops sg pi (S k) rest)
  end.
End Ops.

(* [fuel] bounds the nesting depth of calls (the language has no recursion base case: a recursive macro has no
   inlining) *)
Fixpoint inline_call (fuel : nat) (mn : macro_name) (args : list expr) (pi : path) : option (list stmt) :=
  match fuel with
  | O => None
  | S f =>
      match find_macro D mn with
      | None => None
      | Some m => inline_ops (inline_call f) (lookup (bind_macro m args pi)) pi 0 (m_ops m)
      end
  end.

Definition inline (fuel : nat) : option (list stmt) :=
  inline_ops (inline_call fuel) (fun _ => None) [] 0 (main_ops D).

End Inline.

(* the macro-free program as a tree: only the main macro *)
Definition prim_tree (P : list stmt) : macro_dict :=
  [(main_macro_name, mkmacro [] [] P "" (mkpos "" "" 1%N))].

(* ------------------------------------------------------------------------------------------ *)
(** * 4. Fresh names *)

(* the characters of an identifier: [a-zA-Z_0-9] (fj_parser.id_re) *)
Definition ident_char (c : ascii) : bool :=
  let n := nat_of_ascii c in
  (((97 <=? n) && (n <=? 122)) || ((65 <=? n) && (n <=? 90)) || ((48 <=? n) && (n <=? 57)) || (n =? 95))%nat.

Fixpoint string_forall (f : ascii -> bool) (s : string) : bool :=
  match s with EmptyString => true | String c r => f c && string_forall f r end.

Definition is_ident (s : string) : bool := string_forall ident_char s.
(* every name a program can spell: identifiers joined by dots, or `$` *)
Definition user_name (s : string) : bool :=
  string_forall (fun c => ident_char c || Ascii.eqb c ".") s || String.eqb s "$".

Definition admissible (fresh : path -> string -> string) : Prop :=
  (forall p1 l1 p2 l2, fresh p1 l1 = fresh p2 l2 -> p1 = p2 /\ l1 = l2) /\
  (forall p l, user_name (fresh p l) = false).

(* ------------------------------------------------------------------------------------------ *)
(** * 5. Namespace resolution of a spelled name *)

(* inside namespaces [curr] (outermost first) the name written with [dots] leading dots and then [rest] *)
Definition ns_resolve (curr : list string) (dots : nat) (rest : string) : option string :=
  match dots with
  | O => Some rest                                                       (* as written *)
  | S k => if (k <=? List.length curr)%nat
           then Some (String.concat "." (firstn (List.length curr - k) curr ++ [rest])%list)
           else None                                                     (* more dots than levels: an error *)
  end.
