(* The FlipJump machine: the definition every engine is compared with (DESIGN 3.1).
   Parameter ww = log2 w.  Addresses are unbounded naturals and never wrap. *)
From FJ Require Import Lib.Base.
Local Open Scope N_scope.

Inductive cause := Looping | EOFc | NullIP | MemErr (a : N) | OutOfFuel.

Definition cause_eqb (a b : cause) : bool :=
  match a, b with
  | Looping, Looping | EOFc, EOFc | NullIP, NullIP | OutOfFuel, OutOfFuel => true
  | MemErr x, MemErr y => x =? y
  | _, _ => false
  end.

Record st := mkst {
  ip : N;            (* bit address of the next op *)
  m : mem;           (* word address -> word *)
  inp : list bool;   (* input bits still to be read *)
  outp : list bool;  (* output bits, most recent first *)
  ops : N;           (* executed ops *)
  hist : list N      (* addresses of the ops started, most recent first *)
}.

Section W.
Variable ww : N.              (* log2 w ; w = 2^ww *)
Variable sg : list (N * N).   (* segments: (start, length) in words *)

Definition w := N.shiftl 1 ww.
Definition dw := 2 * w.
Definition in_addr := 3 * w + ww + 1.   (* 3w + #w, #w = bit_length w = ww+1 *)
Definition wmask := N.ones w.

Definition valid (a : N) : bool :=
  existsb (fun s => (fst s <=? a) && (a <? fst s + snd s)) sg.

(* a word read: None = outside every segment; an in-segment word never written is 0 *)
Definition rdw (mm : mem) (a : N) : option N :=
  if valid a then Some (mget0 mm a) else None.

(* word at a bit address (aligned or not): inl fault-bit-address | inr value *)
Definition get_word (mm : mem) (ba : N) : N + N :=
  let wa := N.shiftr ba ww in
  let off := N.land ba (w - 1) in
  match rdw mm wa with
  | None => inl (N.shiftl wa ww)
  | Some lo =>
    if off =? 0 then inr lo else
    match rdw mm (wa + 1) with
    | None => inl (N.shiftl (wa + 1) ww)
    | Some hi => inr (N.land (N.lor (N.shiftr lo off) (N.shiftl hi (w - off))) wmask)
    end
  end.

Definition flip_bit (v : N) (f : N) : N := N.lxor v (N.shiftl 1 (N.land f (w - 1))).

Definition set_bit (v : N) (pos : N) (b : bool) : N :=
  let bit := N.shiftl 1 pos in
  if b then N.lor v bit else N.land v (N.lxor wmask bit).

Definition is_output (f : N) : bool := (dw <=? f) && (f <=? dw + 1).
Definition covers_input (i : N) : bool := (i <=? in_addr) && (in_addr <? i + dw).

(* one op; inl = continue, inr = halt with a cause *)
Definition step (s : st) : st + (cause * st) :=
  let s0 := mkst s.(ip) s.(m) s.(inp) s.(outp) s.(ops) (s.(ip) :: s.(hist)) in
  match get_word s.(m) s.(ip) with
  | inl a => inr (MemErr a, s0)
  | inr f =>
    let out1 := if is_output f then (f =? dw + 1) :: s.(outp) else s.(outp) in
    let h := s.(ip) :: s.(hist) in
    let do_flip (mm : mem) (inp' : list bool) : st + (cause * st) :=
      let fw := N.shiftr f ww in
      match rdw mm fw with
      | None => inr (MemErr (N.shiftl fw ww), mkst s.(ip) mm inp' out1 s.(ops) h)
      | Some v =>
        let mm' := mset mm fw (flip_bit v f) in
        match get_word mm' (s.(ip) + w) with
        | inl a => inr (MemErr a, mkst s.(ip) mm' inp' out1 s.(ops) h)
        | inr j =>
          let s' := mkst j mm' inp' out1 (s.(ops) + 1) h in
          if (j =? s.(ip)) && negb ((s.(ip) <=? f) && (f <? s.(ip) + dw)) then inr (Looping, s')
          else if j <? dw then inr (NullIP, s')
          else inl s'
        end
      end in
    if covers_input s.(ip) then
      match s.(inp) with
      | [] => inr (EOFc, mkst s.(ip) s.(m) [] out1 s.(ops) h)
      | b :: rest =>
        let iw := N.shiftr in_addr ww in
        match rdw s.(m) iw with
        | None => inr (MemErr (N.shiftl iw ww), mkst s.(ip) s.(m) rest out1 s.(ops) h)
        | Some v => do_flip (mset s.(m) iw (set_bit v (N.land in_addr (w - 1)) b)) rest
        end
      end
    else do_flip s.(m) s.(inp)
  end.

Fixpoint run (fuel : nat) (s : st) : cause * st :=
  match fuel with
  | O => (OutOfFuel, s)
  | S k => match step s with inl s' => run k s' | inr r => r end
  end.

Definition init (m0 : mem) (input : list bool) : st := mkst 0 m0 input [] 0 [].

(* what the loader can produce and the engines accept *)
Definition seg_ok (s : N * N) : bool :=
  N.even (fst s) && N.even (snd s) && (0 <? snd s) && (fst s + snd s <=? N.shiftl 1 (w - ww)).
Fixpoint disjoint_from (s : N * N) (l : list (N * N)) : bool :=
  match l with
  | [] => true
  | t :: l' => ((fst s + snd s <=? fst t) || (fst t + snd t <=? fst s)) && disjoint_from s l'
  end.
Fixpoint pairwise_disjoint (l : list (N * N)) : bool :=
  match l with [] => true | s :: l' => disjoint_from s l' && pairwise_disjoint l' end.
Definition runnable : bool := existsb (fun s => (fst s =? 0) && (2 <=? snd s)) sg.
Definition loadable_segs : bool := forallb seg_ok sg && pairwise_disjoint sg.
Definition words_ok (m0 : mem) : Prop := forall a v, mget m0 a = Some v -> v < N.shiftl 1 w.

End W.

(* input bytes -> bits, least significant first (what FixedIO feeds; proved in C17) *)
Definition byte_bits (b : N) : list bool :=
  map (fun i => N.testbit b i) [0;1;2;3;4;5;6;7].
Definition bytes_bits (bs : list N) : list bool := flat_map byte_bits bs.

(* output bits in emission order -> full bytes (lsb first) and the incomplete trailing bits *)
Fixpoint bits_val (l : list bool) : N :=
  match l with [] => 0 | b :: r => N.b2n b + 2 * bits_val r end.
Fixpoint pack_bytes (fuel : nat) (l : list bool) : list N * list bool :=
  match fuel with
  | O => ([], l)
  | S k =>
    match l with
    | b0 :: b1 :: b2 :: b3 :: b4 :: b5 :: b6 :: b7 :: r =>
        let '(bs, t) := pack_bytes k r in (bits_val [b0;b1;b2;b3;b4;b5;b6;b7] :: bs, t)
    | _ => ([], l)
    end
  end.
Definition out_bytes (o : list bool) : list N * list bool := pack_bytes (length o) (rev o).
