(* C17 - what "byte-exact" means for the bit-level IO devices.  No implementation detail:
   bits <-> bytes (lsb first), what a device must answer to every operation after every history,
   and the keyboard's polling protocol.  `byte_bits`, `bytes_bits` (a byte string as bits, least
   significant first), `bits_val` and `pack_bytes` are the definitions of Spec/MachineSpec.v that the
   engine campaigns (C01) use for the machine's input and output. *)
From FJ Require Import Lib.Base Spec.MachineSpec.
From Coq Require Import Permutation Sorted.
Local Open Scope N_scope.

(* ---- bits and bytes ------------------------------------------------------------------------ *)

(* The packing relation, stated without any algorithm: `bs` is the bits of `bytes`, least
   significant bit of each byte first, followed by fewer than 8 pending bits. *)
Definition packs (bs : list bool) (bytes : list N) (pend : list bool) : Prop :=
  bs = bytes_bits bytes ++ pend /\ (length pend < 8)%nat /\ Forall (fun b => b < 256) bytes.

(* the same as a function (C17_pack_characterised: pack bs = (bytes, pend) <-> packs bs bytes pend) *)
Definition pack (bs : list bool) : list N * list bool := pack_bytes (length bs) bs.

(* ---- operations on a device and what it answers ------------------------------------------------ *)

Inductive op := OpRead | OpWrite (b : bool) | OpGet (allow_incomplete : bool).

Inductive obs :=
| OBit (b : bool)        (* read_bit returned b *)
| OEof                   (* read_bit raised IOReadOnEOF *)
| ODone                  (* write_bit returned *)
| OBytes (l : list N)    (* get_output returned these bytes *)
| OIncomplete            (* get_output raised IncompleteOutput *)
| OBroken                (* BrokenIOUsed *)
| ORaw (code : N).       (* any other exception: 1 OverflowError, 2 IndexError; never allowed by the spec *)

Definition written (h : list op) : list bool :=
  flat_map (fun o => match o with OpWrite b => [b] | _ => [] end) h.
Definition reads_done (h : list op) : nat :=
  length (filter (fun o => match o with OpRead => true | _ => false end) h).

(* get_output after the bits bs were written *)
Definition get_answer (bs : list bool) (allow_incomplete : bool) : obs :=
  let '(bytes, pend) := pack bs in
  if allow_incomplete || (length pend =? 0)%nat then OBytes bytes else OIncomplete.

(* The answer to operation o after the history h, for a device whose input stream is `ins`
   (ins k = the bit returned by read number k, counted from 0; None = end of input). *)
Definition answer (ins : nat -> option bool) (h : list op) (o : op) : obs :=
  match o with
  | OpWrite _ => ODone
  | OpRead => match ins (reads_done h) with Some b => OBit b | None => OEof end
  | OpGet a => get_answer (written h) a
  end.

Fixpoint answers (ins : nat -> option bool) (h : list op) (ops : list op) : list obs :=
  match ops with
  | [] => []
  | o :: r => answer ins h o :: answers ins (h ++ [o]) r
  end.

(* what a fresh device answers to a whole sequence of operations (reads, writes, get_output in any order) *)
Definition device_trace (ins : nat -> option bool) (ops : list op) : list obs := answers ins [] ops.

(* FixedIO(input) / StandardIO with `input` on stdin: bit k of the input, EOF from read 8*|input| (counted from 0) on *)
Definition fixed_input (input : list N) : nat -> option bool := fun k => nth_error (bytes_bits input) k.

(* BrokenIO *)
Definition broken_trace (ops : list op) : list obs := map (fun _ => OBroken) ops.

(* ---- the keyboard ------------------------------------------------------------------------------ *)

Record kev := mkkev { k_tic : Z; k_down : bool; k_code : Z }.   (* one script line: tic, down/up, keycode *)

Definition nibble (v : N) : list bool := map (fun i => N.testbit v i) [0; 1; 2; 3].

(* Delivery order: by tic, script order among equal tics.  Stated on the events decorated with their
   script position; C17_keyboard_order_unique shows the relation determines d. *)
Definition key_lt (a b : nat * kev) : Prop :=
  (k_tic (snd a) < k_tic (snd b))%Z \/ (k_tic (snd a) = k_tic (snd b) /\ (fst a < fst b)%nat).
Definition delivery_order (script d : list kev) : Prop :=
  exists d', Permutation d' (combine (seq 0 (length script)) script) /\ StronglySorted key_lt d' /\ d = map snd d'.

(* the same as a function (insertion sort on the decorated events; C17_keyboard_deliver_is_order) *)
Definition key_ltb (a b : nat * kev) : bool :=
  (k_tic (snd a) <? k_tic (snd b))%Z || ((k_tic (snd a) =? k_tic (snd b))%Z && (fst a <? fst b)%nat).
Fixpoint key_insert (x : nat * kev) (l : list (nat * kev)) : list (nat * kev) :=
  match l with
  | [] => [x]
  | y :: r => if key_ltb x y then x :: l else y :: key_insert x r
  end.
Definition deliver (script : list kev) : list kev :=
  map snd (fold_right key_insert [] (combine (seq 0 (length script)) script)).

(* One poll at tic t with the undelivered events d (in delivery order): the first event is delivered
   if its tic has come (status 9 = pressed / 8 = released, then the keycode byte); otherwise status 0. *)
Definition poll_one (d : list kev) (t : Z) : list bool * list kev :=
  match d with
  | e :: d' =>
      if (k_tic e <=? t)%Z then (nibble (if k_down e then 9 else 8) ++ byte_bits (Z.to_N (k_code e)), d')
      else (nibble 0, d)
  | [] => (nibble 0, [])
  end.

(* the input bits produced by n successive polls starting at tic t *)
Fixpoint kb_polls (d : list kev) (t : Z) (n : nat) : list bool :=
  match n with
  | O => []
  | S n' => let '(bits, d') := poll_one d t in bits ++ kb_polls d' (t + 1) n'
  end.

(* Input stream of KeyboardIO over the script: the concatenation of the polls from tic 0; every poll
   yields at least 4 bits, so k+1 polls contain bit k; the stream never ends. *)
Definition kb_input (script : list kev) : nat -> option bool :=
  fun k => nth_error (kb_polls (deliver script) 0 (S k)) k.
