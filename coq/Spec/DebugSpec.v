(* C15 - what "debugging never changes the program and stops exactly where asked" means.
   Everything here talks about the UNDEBUGGED machine (Spec.MachineSpec) only:
   - the observables of a run,
   - the places where a debugger driven by a given sequence of resuming actions has to pause,
   - the value a read of a bit/hex/byte vector has to report. *)
From FJ Require Import Lib.Base Spec.MachineSpec.
Local Open Scope N_scope.

(* the resuming actions of the debugger *)
Inductive action := AStep | ASkip (n : N) | AContinue | AContinueAll | AExit.

(* observables of a finished run: output bits (most recent first), cause (carries the fault address), executed ops *)
Definition mobs (r : cause * st) : list bool * cause * N := (outp (snd r), fst r, ops (snd r)).

Section W.
Variable ww : N.
Variable sg : list (N * N).

(* (address of the next op, ops executed so far) at the head of every iteration of the undebugged run *)
Fixpoint trace (fuel : nat) (s : st) : list (N * N) :=
  match fuel with
  | O => []
  | S k => (ip s, ops s) :: match step ww sg s with inl s' => trace k s' | inr _ => [] end
  end.

(* the state after exactly n completed ops (None: the run halts earlier) *)
Fixpoint nsteps (n : nat) (s : st) : option st :=
  match n with
  | O => Some s
  | S k => match step ww sg s with inl s' => nsteps k s' | inr _ => None end
  end.

(* Where a debugger has to pause.  nb = op count of the pending step/skip target (None: none pending);
   alive = false after continue-all.  A pause happens at the head of an iteration, before the op, exactly when
   the op's address is a breakpoint or the op count equals the pending target.  Each pause consumes one action:
   step -> target c+1, skip N -> target c+N, continue -> no target, continue-all -> never pause again,
   exit (or no action left = end of input) -> this pause is the last one. *)
Fixpoint expected_pauses (bps : list N) (tr : list (N * N)) (nb : option N) (acts : list action) : list (N * N) :=
  match tr with
  | [] => []
  | (i, c) :: t =>
    if (match nb with Some x => x =? c | None => false end) || existsb (N.eqb i) bps then
      match acts with
      | [] => [(i, c)]
      | AStep :: r => (i, c) :: expected_pauses bps t (Some (c + 1)) r
      | ASkip n :: r => (i, c) :: expected_pauses bps t (Some (c + n)) r
      | AContinue :: r => (i, c) :: expected_pauses bps t None r
      | AContinueAll :: _ => [(i, c)]
      | AExit :: _ => [(i, c)]
      end
    else expected_pauses bps t nb acts
  end.

(* The value of a flipjump variable: `len` ops starting `2*len*idx` words after `addr`, one field of `bpw`
   bits per op, taken from bit #w = ww+1 upwards of the op's jump word, least significant field first. *)
Definition field (mm : mem) (bpw : N) (base : N) (i : N) : N :=
  match get_word ww sg mm (base + (2 * i + 1) * w ww) with
  | inr v => N.land (N.shiftr v (ww + 1)) (N.ones bpw)
  | inl _ => 0
  end.

Fixpoint var_value (mm : mem) (bpw : N) (base : N) (i0 : N) (n : nat) : N :=
  match n with
  | O => 0
  | S k => field mm bpw base i0 + N.shiftl (var_value mm bpw base (i0 + 1) k) bpw
  end.

End W.
