From FJ Require Import Lib.Base.
(* C02: what an assembled image must contain for a macro-free source program.  Specification only:
   nothing here mentions how the assembler places anything (no sharing table, no pad-hole stack).

   A program P is the statement list of the main macro, restricted to the primitive statements
   (flip;jump op, wflip, pad, label, segment, reserve - Model/Ast.v).  `Denotes ww P img lbls` says:

   * addresses follow from the statement sequence alone (`place`): an op or a wflip advances the address by 2w,
     `pad n` moves to the next multiple of n*2w (and needs an op-aligned address), `segment a` sets it to a,
     `reserve r` adds r, a label does not move it; the program starts at address 0;
   * a label's value (in the saved label table lbls) is the address of the statement that follows it;
   * each op's two words hold exactly the values of its two expressions, where `$` is the address after the op
     and the other names are looked up in lbls (Python integer semantics, `eval_expr`);
   * a reserved range is inside one of the image's segments and reads zero;
   * `wflip a, v, r`, EXECUTED on the machine of Spec/MachineSpec.v from the statement's own address on the
     image's initial memory, performs max 1 (popcount v) ops, flips exactly the bits a+i (v_i = 1), each once
     (bit 0 of word 0, the language's null-flip scratch bit, when v = 0) and then is at r; every op it executes
     after the first one is auxiliary: it overlaps no op / wflip / reserve of the program and lies in a pad hole or
     after the code of a segment, inside that segment of the image;
   * side conditions under which the wflip clause is claimed (`wflip_side_ok`, stated, not hidden): the
     statement is not the op that holds the input cell, the target words exist, and no target word is one
     of the words of the wflip's own chain ops. *)
From FJ Require Import Spec.MachineSpec Model.Ast.
From Coq Require Import Permutation.
Local Open Scope Z_scope.

(* ---------- expression values: Python's unbounded-integer operators ---------- *)

Definition zb (b : bool) : Z := if b then 1 else 0.
Definition bit_length (x : Z) : Z := if x =? 0 then 0 else Z.log2 (Z.abs x) + 1.

Definition apply_op (o : opname) (args : list Z) : option Z :=
  match o, args with
  | OAdd, [a; b] => Some (a + b)
  | OSub, [a; b] => Some (a - b)
  | OMul, [a; b] => Some (a * b)
  | ODiv, [a; b] => if b =? 0 then None else Some (a / b)            (* floor division *)
  | OMod, [a; b] => if b =? 0 then None else Some (a mod b)          (* sign of the divisor *)
  | OPow, [a; b] => if b <? 0 then None else Some (a ^ b)
  | OShl, [a; b] => if b <? 0 then None else Some (Z.shiftl a b)
  | OShr, [a; b] => if b <? 0 then None else Some (Z.shiftr a b)
  | OXor, [a; b] => Some (Z.lxor a b)
  | OOr, [a; b] => Some (Z.lor a b)
  | OAnd, [a; b] => Some (Z.land a b)
  | OLand, [a; b] => Some (zb (negb (a =? 0) && negb (b =? 0)))
  | OLor, [a; b] => Some (zb (negb (a =? 0) || negb (b =? 0)))
  | OBitlen, [a] => Some (bit_length a)
  | ONot, [a] => Some (Z.lnot a)
  | OCond, [a; b; c] => Some (if a =? 0 then c else b)               (* all three are evaluated first *)
  | OLt, [a; b] => Some (zb (a <? b))
  | OGt, [a; b] => Some (zb (a >? b))
  | OLe, [a; b] => Some (zb (a <=? b))
  | OGe, [a; b] => Some (zb (a >=? b))
  | OEq, [a; b] => Some (zb (a =? b))
  | ONe, [a; b] => Some (zb (negb (a =? b)))
  | _, _ => None
  end.

Fixpoint eval_expr (env : string -> option Z) (e : expr) : option Z :=
  match e with
  | EInt z => Some z
  | ELbl s => env s
  | EOp o args =>
    match (fix evs (l : list expr) : option (list Z) :=
             match l with
             | [] => Some []
             | x :: l' => match eval_expr env x, evs l' with Some v, Some vs => Some (v :: vs) | _, _ => None end
             end) args with
    | Some vs => apply_op o vs
    | None => None
    end
  end.

(* the label table: name -> address, as saved by the assembler *)
Definition labels := list (string * Z).
Fixpoint lookup (l : labels) (s : string) : option Z :=
  match l with [] => None | (k, v) :: l' => if String.eqb k s then Some v else lookup l' s end.
(* inside an op or a wflip, `$` is the address after the statement *)
Definition env_at (l : labels) (dollar : Z) (s : string) : option Z :=
  if String.eqb s "$" then Some dollar else lookup l s.

Record image := mkimg { i_segs : list (N * N); i_mem : mem }.   (* segments (start, length) in words; word -> value *)

Section Denote.
Variable ww : N.
Definition wz : Z := Z.of_N (w ww).
Definition dwz : Z := 2 * wz.

(* ---------- addresses follow from the statement sequence ---------- *)

Definition round_up (a k : Z) : Z := ((a + k - 1) / k) * k.

Definition next_addr (env : string -> option Z) (s : stmt) (a : Z) : option Z :=
  match s with
  | SFlipJump _ _ _ | SWordFlip _ _ _ _ => Some (a + dwz)
  | SLabel _ _ => Some a
  | SPad e _ =>
    match eval_expr env e with
    | Some n => if (0 <? n) && (a mod dwz =? 0) then Some (round_up a (n * dwz)) else None
    | None => None
    end
  | SSegment e _ => eval_expr env e
  | SReserve e _ => match eval_expr env e with Some r => Some (a + r) | None => None end
  | SMacroCall _ _ _ | SRepCall _ _ _ _ _ => None      (* not a primitive statement *)
  end.

Record placed := mkpl { pl_stmt : stmt; pl_addr : Z; pl_next : Z }.   (* statement, its address, the address after it *)

Fixpoint place (env : string -> option Z) (P : list stmt) (a : Z) : option (list placed) :=
  match P with
  | [] => Some []
  | s :: P' =>
    match next_addr env s a with
    | Some a' => match place env P' a' with Some L => Some (mkpl s a a' :: L) | None => None end
    | None => None
    end
  end.

(* ---------- what the image holds ---------- *)

Variable img : image.
Definition segs := i_segs img.
Definition mem0 := i_mem img.

(* the word at word address wa exists and holds v *)
Definition word_is (wa v : Z) : Prop :=
  0 <= wa /\ valid segs (Z.to_N wa) = true /\ 0 <= v < 2 ^ wz /\ mget0 mem0 (Z.to_N wa) = Z.to_N v.

(* ---------- wflip: executed on the machine ---------- *)
Local Open Scope N_scope.
Definition wN : N := w ww.

Definition bit_indices : list N := map N.of_nat (seq 0 (N.to_nat wN)).
(* the bits `wflip A, V` has to flip; V = 0 is the null flip: bit 0 of word 0 *)
Definition flip_bits (A V : N) : list N :=
  if V =? 0 then [0] else map (fun i => A + i) (filter (N.testbit V) bit_indices).

(* n ops of the machine from s; returns the state reached and the bit flipped by each op, in order.  The last op
   may make the machine stop because it arrived at an address below 2w or at itself; any other stop is a failure. *)
Fixpoint chain_exec (n : nat) (s : st) : option (st * list N) :=
  match n with
  | O => Some (s, [])
  | S k =>
    match get_word ww segs s.(m) s.(ip) with
    | inl _ => None
    | inr f =>
      match step ww segs s with
      | inl s' => match chain_exec k s' with Some (s'', fl) => Some (s'', f :: fl) | None => None end
      | inr (NullIP, s') | inr (Looping, s') => match k with O => Some (s', [f]) | S _ => None end
      | inr _ => None
      end
    end
  end.

Definition op_words (x : N) : list N := [x / wN; x / wN + 1].

(* the ops a chain starting at x consists of, as stored in the initial image (follow the jump words) *)
Fixpoint static_chain (n : nat) (x : N) : list N :=
  match n with
  | O => []
  | S k => x :: match get_word ww segs mem0 (x + wN) with inr j => static_chain k j | inl _ => [] end
  end.

Definition wflip_side_ok (a A V : N) : bool :=
  negb (covers_input ww a) &&
  forallb (fun f => valid segs (f / wN) &&
                    negb (existsb (N.eqb (f / wN)) (flat_map op_words (static_chain (List.length (flip_bits A V)) a))))
          (flip_bits A V).

(* ---------- auxiliary ops ---------- *)
Local Open Scope Z_scope.

(* a statement occupies the bits [pl_addr, pl_next); a `reserve 0` (pl_next <= pl_addr) occupies nothing and so cannot
   be overlapped: without this test the empty interval of a zero-size reserve placed (in another segment) at the middle
   word of an auxiliary op counted as an overlap although no bit is shared *)
Definition occupies (p : placed) : bool :=
  match pl_stmt p with SFlipJump _ _ _ | SWordFlip _ _ _ _ | SReserve _ _ => pl_addr p <? pl_next p | _ => false end.
Definition is_pad (p : placed) : bool := match pl_stmt p with SPad _ _ => true | _ => false end.
Definition is_segment (p : placed) : bool := match pl_stmt p with SSegment _ _ => true | _ => false end.

(* where the code of a segment ends: just before each `segment` statement, and at the end of the program *)
Definition code_ends (L : list placed) : list Z :=
  map pl_addr (filter is_segment L) ++ [last (map pl_next L) 0].

Definition aux_ok (L : list placed) (xn : N) : bool :=
  let x := Z.of_N xn in
  (x mod wz =? 0) &&
  forallb (fun p => negb (occupies p) || (x + dwz <=? pl_addr p) || (pl_next p <=? x)) L &&
  (existsb (fun p => is_pad p && (pl_addr p <=? x) && (x + dwz <=? pl_next p)) L ||
   existsb (fun e => existsb (fun s => (Z.of_N (fst s) * wz <=? e) && (e <=? x) &&
                                       (x + dwz <=? Z.of_N (fst s + snd s) * wz)) segs) (code_ends L)).

Definition wflip_ok (L : list placed) (a A V R : N) : Prop :=
  wflip_side_ok a A V = true ->
  exists s' fl aux,
    chain_exec (List.length (flip_bits A V)) (mkst a mem0 [] [] 0 []) = Some (s', fl)
    /\ rev s'.(hist) = a :: aux /\ forallb (aux_ok L) aux = true
    /\ Permutation fl (flip_bits A V)
    /\ s'.(ip) = R.

(* ---------- the denotation ---------- *)

Definition stmt_ok (L : list placed) (lbls : labels) (p : placed) : Prop :=
  let a := pl_addr p in
  let a' := pl_next p in
  match pl_stmt p with
  | SLabel name _ => lookup lbls name = Some a
  | SFlipJump f j _ =>
    exists vf vj, eval_expr (env_at lbls a') f = Some vf /\ eval_expr (env_at lbls a') j = Some vj
                  /\ 0 <= a /\ a mod wz = 0 /\ word_is (a / wz) vf /\ word_is (a / wz + 1) vj
  | SWordFlip ea ev er _ =>
    exists A V R, eval_expr (env_at lbls a') ea = Some A /\ eval_expr (env_at lbls a') ev = Some V
                  /\ eval_expr (env_at lbls a') er = Some R
                  (* V = 0 flips nothing of the word at A (the null flip): A is then not looked at *)
                  /\ 0 <= a /\ a mod wz = 0 /\ (V = 0 \/ 0 <= A) /\ 0 <= V < 2 ^ wz /\ 0 <= R
                  /\ wflip_ok L (Z.to_N a) (Z.to_N A) (Z.to_N V) (Z.to_N R)
  | SPad _ _ => True
  | SSegment _ _ => a' mod wz = 0      (* whatever is then placed there has its own clause *)
  | SReserve _ _ =>
    0 <= a <= a' /\ a mod wz = 0 /\ a' mod wz = 0
    /\ (a < a' -> exists s, In s segs /\ Z.of_N (fst s) <= a / wz /\ a' / wz <= Z.of_N (fst s + snd s))
    /\ forall wa, a / wz <= wa < a' / wz -> mget0 mem0 (Z.to_N wa) = 0%N
  | SMacroCall _ _ _ | SRepCall _ _ _ _ _ => False
  end.

Definition Denotes (P : list stmt) (lbls : labels) : Prop :=
  exists L, place (lookup lbls) P 0 = Some L
            /\ loadable_segs ww segs = true
            /\ Forall (stmt_ok L lbls) L.

End Denote.
