From FJ Require Import Lib.Base.
(* C12 - what a FlipJump constant expression MEANS.  Readable definition, no implementation detail.

   1. expressions and their value: unbounded-integer arithmetic, eager, left to right
   2. substitution (what "resolving identifiers at some stage" means)
   3. the documented precedence table and the reference parser it drives
   4. the value of a literal in every notation
   5. the documentation tables frozen for the source tie (Tie/C12_tie.v compares them with the
      tables regenerated from the current source into Gen/Facts_C12.v on every run)            *)
From Coq Require Export String Ascii.
Local Open Scope string_scope.
Local Open Scope Z_scope.

(* ------------------------------------------------------------------------------------------ *)
(** * 1. Expressions and their value *)

Inductive unop := UBitLen (* # *) | UNot (* ~ *).
Inductive binop :=
  | BAdd | BSub | BMul | BDiv | BMod | BPow | BShl | BShr | BXor | BOr | BAnd
  | BLand (* && *) | BLor (* || *) | BLt | BGt | BLe | BGe | BEq | BNe.

Inductive sexpr :=
  | SInt (z : Z)                       (* a literal, already decoded (section 4) *)
  | SId (s : string)                   (* constant, macro parameter, rep iterator, label or "$" *)
  | SUn (u : unop) (a : sexpr)
  | SBin (o : binop) (a b : sexpr)
  | SCond (c a b : sexpr).             (* c ? a : b *)

(* unary minus is not an operator of its own: the language defines -e as 0 - e *)
Definition SNeg (e : sexpr) : sexpr := SBin BSub (SInt 0) e.

Inductive error := DivByZero | ModByZero | NegativeShift | NegativeExponent | Unbound (s : string).
Inductive value := Val (z : Z) | Err (e : error).

Definition value_of (v : value) : option Z := match v with Val z => Some z | Err _ => None end.

Definition truthy (z : Z) : bool := negb (z =? 0).
Definition of_bool (b : bool) : Z := if b then 1 else 0.

(* number of binary digits of |z| *)
Definition bit_length (z : Z) : Z := if z =? 0 then 0 else Z.log2 (Z.abs z) + 1.

Definition eval_un (u : unop) (a : Z) : Z :=
  match u with
  | UBitLen => bit_length a
  | UNot => - a - 1                                   (* two's complement of an unbounded integer *)
  end.

(* Coq's [/] and [mod] on Z are floor division and the modulo that takes the divisor's sign
   (restated as C12_floor_division_and_modulo_sign in Properties/C12.v; likewise C12_arithmetic_shifts,
   C12_twos_complement_bit_operators, C12_bit_length for the other operators). *)
Definition eval_bin (o : binop) (a b : Z) : value :=
  match o with
  | BAdd => Val (a + b)
  | BSub => Val (a - b)
  | BMul => Val (a * b)
  | BDiv => if b =? 0 then Err DivByZero else Val (a / b)
  | BMod => if b =? 0 then Err ModByZero else Val (a mod b)
  | BPow => if b <? 0 then Err NegativeExponent else Val (a ^ b)
  | BShl => if b <? 0 then Err NegativeShift else Val (a * 2 ^ b)
  | BShr => if b <? 0 then Err NegativeShift else Val (a / 2 ^ b)          (* arithmetic shift *)
  | BXor => Val (Z.lxor a b)                    (* bitwise on infinite two's complement *)
  | BOr => Val (Z.lor a b)
  | BAnd => Val (Z.land a b)
  | BLand => Val (of_bool (truthy a && truthy b))
  | BLor => Val (of_bool (truthy a || truthy b))
  | BLt => Val (of_bool (a <? b))
  | BGt => Val (of_bool (a >? b))
  | BLe => Val (of_bool (a <=? b))
  | BGe => Val (of_bool (a >=? b))
  | BEq => Val (of_bool (a =? b))
  | BNe => Val (of_bool (negb (a =? b)))
  end.

Definition env := string -> option Z.

(* Every operand is evaluated (&&, || and ?: do not short-circuit); the leftmost error wins. *)
Fixpoint eval (rho : env) (e : sexpr) : value :=
  match e with
  | SInt z => Val z
  | SId s => match rho s with Some z => Val z | None => Err (Unbound s) end
  | SUn u a => match eval rho a with Val x => Val (eval_un u x) | Err r => Err r end
  | SBin o a b =>
      match eval rho a with
      | Err r => Err r
      | Val x => match eval rho b with Err r => Err r | Val y => eval_bin o x y end
      end
  | SCond c a b =>
      match eval rho c with
      | Err r => Err r
      | Val x =>
          match eval rho a with
          | Err r => Err r
          | Val y => match eval rho b with Err r => Err r | Val z => Val (if truthy x then y else z) end
          end
      end
  end.

(* ------------------------------------------------------------------------------------------ *)
(** * 2. Substitution *)

(* simultaneous, not iterated: the replacement is not searched again *)
Fixpoint subst (sigma : string -> option sexpr) (e : sexpr) : sexpr :=
  match e with
  | SInt z => SInt z
  | SId s => match sigma s with Some t => t | None => SId s end
  | SUn u a => SUn u (subst sigma a)
  | SBin o a b => SBin o (subst sigma a) (subst sigma b)
  | SCond c a b => SCond (subst sigma c) (subst sigma a) (subst sigma b)
  end.

Definition int_subst (rho : env) : string -> option sexpr :=
  fun s => match rho s with Some z => Some (SInt z) | None => None end.

(* the environment that results from resolving with rho1 first and with rho2 what is left *)
Definition env_then (rho1 rho2 : env) : env :=
  fun s => match rho1 s with Some z => Some z | None => rho2 s end.

Fixpoint env_chain (rhos : list env) : env :=
  match rhos with [] => fun _ => None | r :: rs => env_then r (env_chain rs) end.

Definition env_of_list (l : list (string * Z)) : env :=
  fun s => match find (fun p => String.eqb (fst p) s) l with Some p => Some (snd p) | None => None end.

(* ------------------------------------------------------------------------------------------ *)
(** * 3. Precedence and associativity *)

Inductive assoc := LeftA | RightA | NonA.

(* The 14 rows, lowest precedence first.  Names are token names; UMINUS / UNOT are the unary
   minus / complement; LEADING_ID is a statement-level marker that no operator uses. *)
Definition doc_precedence : list (assoc * list string) :=
  [ (RightA, ["?"; ":"]);
    (LeftA, ["LOR"]);
    (LeftA, ["LAND"]);
    (LeftA, ["|"]);
    (LeftA, ["^"]);
    (NonA, ["<"; ">"; "LE"; "GE"]);
    (LeftA, ["EQ"; "NEQ"]);
    (LeftA, ["&"]);
    (LeftA, ["SHL"; "SHR"]);
    (LeftA, ["+"; "-"]);
    (LeftA, ["*"; "/"; "%"]);
    (RightA, ["#"; "UMINUS"; "UNOT"]);
    (RightA, ["POW"]);
    (NonA, ["LEADING_ID"]) ].

(* The lexer's token table, in declaration order (earlier regular expressions are tried first):
   name -> regular expression; "=x" means "defined by the module-level regular expression x",
   ID[kw] = T remaps the identifier kw to the keyword token T.  Then the one-character literals. *)
Definition doc_lexer_tokens : list (string * string) :=
  [ ("ignore_ending_comment", "//.*");
    ("ignore_line_continuation", "\\[ \t]*\n");
    ("DOT_ID", "=dot_id_re");
    ("ID", "=id_re");
    ("NUMBER", "=number_re");
    ("STRING", "=string_re");
    ("ID[def]", "=DEF");
    ("ID[rep]", "=REP");
    ("ID[ns]", "=NS");
    ("ID[wflip]", "=WFLIP");
    ("ID[pad]", "=PAD");
    ("ID[segment]", "=SEGMENT");
    ("ID[reserve]", "=RESERVE");
    ("LE", "<=");
    ("GE", ">=");
    ("EQ", "==");
    ("NEQ", "!=");
    ("SHL", "<<");
    ("SHR", ">>");
    ("POW", "\*\*");
    ("LAND", "&&");
    ("LOR", "\|\|");
    ("NL", "[\r\n]");
    ("SC", ";");
    ("ignore", " 	") ].

Definition doc_lexer_literals : list string :=
  [""""; "#"; "$"; "%"; "&"; "("; ")"; "*"; "+"; ","; "-"; "/"; ":"; "<"; "="; ">"; "?"; "@"; "^"; "{"; "|"; "}"; "~"].

Definition binop_token (o : binop) : string :=
  match o with
  | BAdd => "+" | BSub => "-" | BMul => "*" | BDiv => "/" | BMod => "%" | BPow => "POW"
  | BShl => "SHL" | BShr => "SHR" | BXor => "^" | BOr => "|" | BAnd => "&"
  | BLand => "LAND" | BLor => "LOR" | BLt => "<" | BGt => ">" | BLe => "LE" | BGe => "GE"
  | BEq => "EQ" | BNe => "NEQ"
  end.

(* row number (1 = binds weakest) and associativity of a token name in a table *)
Fixpoint prec_lookup (tbl : list (assoc * list string)) (row : nat) (name : string) : option (nat * assoc) :=
  match tbl with
  | [] => None
  | (a, names) :: rest =>
      if existsb (String.eqb name) names then Some (row, a) else prec_lookup rest (S row) name
  end.

Definition prec_of (name : string) : nat * assoc :=
  match prec_lookup doc_precedence 1 name with Some p => p | None => (O, NonA) end.

(* What a yacc-style table says about  a o1 b o2 c : *)
Inductive pair_shape := GroupLeft (* (a o1 b) o2 c *) | GroupRight (* a o1 (b o2 c) *) | SyntaxError.

Definition pair_shape_of (o1 o2 : binop) : pair_shape :=
  let '(p1, _) := prec_of (binop_token o1) in
  let '(p2, a2) := prec_of (binop_token o2) in
  if (p2 <? p1)%nat then GroupLeft
  else if (p1 <? p2)%nat then GroupRight
  else match a2 with LeftA => GroupLeft | RightA => GroupRight | NonA => SyntaxError end.

(* prefix operators:  u a o b  groups as (u a) o b exactly when the row of u is above the row of o *)
Inductive prefix := PMinus | PTilde | PHash.
Definition prefix_row_name (u : prefix) : string :=
  match u with PMinus => "UMINUS" | PTilde => "UNOT" | PHash => "#" end.
Definition prefix_binds_tighter (u : prefix) (o : binop) : bool :=
  (fst (prec_of (binop_token o)) <? fst (prec_of (prefix_row_name u)))%nat.

(* Tokens of the expression sub-language.  "-" is the same token in prefix and infix position. *)
Inductive token :=
  | TNum (z : Z) | TIdent (s : string) | TBinop (o : binop)
  | TTilde | THash | TQuest | TColon | TLParen | TRParen.

(* The reference parser: precedence climbing driven by [doc_precedence].
   [parse_from fuel minp ts] parses the longest expression whose top-level operators all sit in a
   row >= minp.  [None] is a syntax error.  Fuel: one unit per recursive call; 4*|ts|+4 suffices. *)
Section RefParser.
  Let p_unary : nat := fst (prec_of "UMINUS").
  Let p_cond : nat := fst (prec_of "?").

  Fixpoint parse_from (fuel : nat) (minp : nat) (ts : list token) {struct fuel} : option (sexpr * list token) :=
    match fuel with
    | O => None
    | S fuel =>
        let primary :=
          match ts with
          | TNum z :: r => Some (SInt z, r)
          | TIdent s :: r => Some (SId s, r)
          | TLParen :: r =>
              match parse_from fuel 0 r with
              | Some (e, TRParen :: r') => Some (e, r')
              | _ => None
              end
          | TBinop BSub :: r =>
              match parse_from fuel p_unary r with Some (e, r') => Some (SNeg e, r') | None => None end
          | TTilde :: r =>
              match parse_from fuel p_unary r with Some (e, r') => Some (SUn UNot e, r') | None => None end
          | THash :: r =>
              match parse_from fuel p_unary r with Some (e, r') => Some (SUn UBitLen e, r') | None => None end
          | _ => None
          end in
        match primary with
        | None => None
        | Some (lhs, r) => climb fuel minp lhs r
        end
    end
  with climb (fuel : nat) (minp : nat) (lhs : sexpr) (ts : list token) {struct fuel} : option (sexpr * list token) :=
    match fuel with
    | O => None
    | S fuel =>
        match ts with
        | TBinop o :: r =>
            let '(p, a) := prec_of (binop_token o) in
            if (p <? minp)%nat then Some (lhs, ts)
            else
              match parse_from fuel (match a with RightA => p | _ => S p end) r with
              | None => None
              | Some (rhs, r') =>
                  match a, r' with
                  | NonA, TBinop o' :: _ =>
                      if (fst (prec_of (binop_token o')) =? p)%nat then None   (* a < b < c *)
                      else climb fuel minp (SBin o lhs rhs) r'
                  | _, _ => climb fuel minp (SBin o lhs rhs) r'
                  end
              end
        | TQuest :: r =>
            if (p_cond <? minp)%nat then Some (lhs, ts)
            else
              match parse_from fuel 0 r with
              | Some (mid, TColon :: r') =>
                  match parse_from fuel p_cond r' with       (* right associative *)
                  | Some (els, r'') => climb fuel minp (SCond lhs mid els) r''
                  | None => None
                  end
              | _ => None
              end
        | _ => Some (lhs, ts)
        end
    end.
End RefParser.

Definition parse (ts : list token) : option sexpr :=
  match parse_from (4 * List.length ts + 4) 0 ts with
  | Some (e, []) => Some e
  | _ => None
  end.

Definition prefix_token (u : prefix) : token :=
  match u with PMinus => TBinop BSub | PTilde => TTilde | PHash => THash end.
Definition prefix_apply (u : prefix) (e : sexpr) : sexpr :=
  match u with PMinus => SNeg e | PTilde => SUn UNot e | PHash => SUn UBitLen e end.

(* ------------------------------------------------------------------------------------------ *)
(** * 4. Literals.  Characters are given by their code (Z); a text is a list of codes. *)

Definition text := list Z.

(* positional notation, most significant digit first *)
Fixpoint positional (base : Z) (ds : list Z) : Z :=
  match ds with
  | [] => 0
  | d :: t => d * base ^ Z.of_nat (List.length t) + positional base t
  end.

(* a string literal is the little-endian number whose i-th byte is its i-th character *)
Fixpoint little_endian (cs : list Z) : Z :=
  match cs with [] => 0 | c :: t => c + 256 * little_endian t end.

Definition dec_digit (c : Z) : option Z := if (48 <=? c) && (c <=? 57) then Some (c - 48) else None.
Definition bin_digit (c : Z) : option Z := if (48 <=? c) && (c <=? 49) then Some (c - 48) else None.
Definition hex_digit (c : Z) : option Z :=
  if (48 <=? c) && (c <=? 57) then Some (c - 48)
  else if (65 <=? c) && (c <=? 70) then Some (c - 55)
  else if (97 <=? c) && (c <=? 102) then Some (c - 87)
  else None.

(* escape letter (code) -> character value *)
Definition doc_char_escapes : list (Z * Z) :=
  [ (48, 0) (* \0 *); (97, 7) (* \a *); (98, 8) (* \b *); (101, 27) (* \e *); (102, 12) (* \f *);
    (110, 10) (* \n *); (114, 13) (* \r *); (116, 9) (* \t *); (118, 11) (* \v *);
    (92, 92) (* \\ *); (39, 39) (* \' *); (34, 34) (* \dquote *); (63, 63) (* \? *) ].

Definition escape_value (tbl : list (Z * Z)) (c : Z) : option Z :=
  match find (fun p => fst p =? c) tbl with Some p => Some (snd p) | None => None end.

(* one character of a char / string literal as written in the source *)
Inductive char_item :=
  | Plain (c : Z)                  (* printable ASCII except the backslash *)
  | Escaped (c : Z)                (* backslash + letter of the table *)
  | HexEscaped (x h1 h2 : Z).      (* backslash + x|X + two hex digits *)

Definition item_ok (it : char_item) : bool :=
  match it with
  | Plain c => (32 <=? c) && (c <=? 126) && negb (c =? 92)
  | Escaped c => match escape_value doc_char_escapes c with Some _ => true | None => false end
  | HexEscaped x h1 h2 =>
      ((x =? 120) || (x =? 88)) &&
      match hex_digit h1, hex_digit h2 with Some _, Some _ => true | _, _ => false end
  end.

Definition item_text (it : char_item) : text :=
  match it with Plain c => [c] | Escaped c => [92; c] | HexEscaped x h1 h2 => [92; x; h1; h2] end.

Definition item_value (it : char_item) : Z :=
  match it with
  | Plain c => c
  | Escaped c => match escape_value doc_char_escapes c with Some v => v | None => 0 end
  | HexEscaped _ h1 h2 =>
      match hex_digit h1, hex_digit h2 with Some a, Some b => 16 * a + b | _, _ => 0 end
  end.

Definition items_text (its : list char_item) : text := flat_map item_text its.

(* A string literal ends at the first double quote that is not part of an escape: inside a string
   the quote character must be written as an escape. *)
Definition item_is_bare_quote (it : char_item) : bool :=
  match it with Plain c => c =? 34 | _ => false end.

Definition no_bare_quote (its : list char_item) : bool := forallb (fun it => negb (item_is_bare_quote it)) its.

(* the digit values of a text, when every character is a digit *)
Fixpoint digits_of (digit : Z -> option Z) (s : text) : option (list Z) :=
  match s with
  | [] => Some []
  | c :: t => match digit c, digits_of digit t with Some d, Some ds => Some (d :: ds) | _, _ => None end
  end.

(* ------------------------------------------------------------------------------------------ *)
(** * 5. Tables frozen for the source tie *)

(* The tiny fragment of Python in which the operator table of expr.py is written. *)
Inductive pyexpr :=
  | PName (s : string)
  | PConst (z : Z)
  | PIfExp (test body orelse : pyexpr)           (* body if test else orelse *)
  | PAnd (a b : pyexpr)                          (* a and b *)
  | POr (a b : pyexpr)                           (* a or b *)
  | PCompare (op : string) (a b : pyexpr)        (* ast class name of the comparison *)
  | PInvert (a : pyexpr)                         (* ~a *)
  | PBitLength (a : pyexpr)                      (* a.bit_length() *)
  | PPow (a b : pyexpr)                          (* a ** b *)
  | PInt (a : pyexpr).                           (* int(a) *)

Inductive pystmt :=
  | PIfRaise (test : pyexpr) (exc : string)      (* if test: raise exc(...) *)
  | PReturn (e : pyexpr).

Inductive pyfun :=
  | POperator (name : string)                    (* function imported from the `operator` module *)
  | PLambda (params : list string) (body : pyexpr)
  | PDef (params : list string) (body : list pystmt).

(* op_string_to_function of flipjump/assembler/inner_classes/expr.py *)
Definition doc_op_table : list (string * pyfun) :=
  [ ("+", POperator "add");
    ("-", POperator "sub");
    ("*", POperator "mul");
    ("/", POperator "floordiv");
    ("%", POperator "mod");
    ("**", PDef ["base"; "exp"]
             [ PIfRaise (PCompare "Lt" (PName "exp") (PConst 0)) "FlipJumpExprException";
               PReturn (PInt (PPow (PName "base") (PName "exp"))) ]);
    ("<<", POperator "lshift");
    (">>", POperator "rshift");
    ("^", POperator "xor");
    ("|", POperator "or_");
    ("&", POperator "and_");
    ("&&", PLambda ["a"; "b"] (PIfExp (PAnd (PName "a") (PName "b")) (PConst 1) (PConst 0)));
    ("||", PLambda ["a"; "b"] (PIfExp (POr (PName "a") (PName "b")) (PConst 1) (PConst 0)));
    ("#", PLambda ["x"] (PBitLength (PName "x")));
    ("~", PLambda ["a"] (PInvert (PName "a")));
    ("?:", PLambda ["a"; "b"; "c"] (PIfExp (PName "a") (PName "b") (PName "c")));
    ("<", PLambda ["a"; "b"] (PIfExp (PCompare "Lt" (PName "a") (PName "b")) (PConst 1) (PConst 0)));
    (">", PLambda ["a"; "b"] (PIfExp (PCompare "Gt" (PName "a") (PName "b")) (PConst 1) (PConst 0)));
    ("<=", PLambda ["a"; "b"] (PIfExp (PCompare "LtE" (PName "a") (PName "b")) (PConst 1) (PConst 0)));
    (">=", PLambda ["a"; "b"] (PIfExp (PCompare "GtE" (PName "a") (PName "b")) (PConst 1) (PConst 0)));
    ("==", PLambda ["a"; "b"] (PIfExp (PCompare "Eq" (PName "a") (PName "b")) (PConst 1) (PConst 0)));
    ("!=", PLambda ["a"; "b"] (PIfExp (PCompare "NotEq" (PName "a") (PName "b")) (PConst 1) (PConst 0))) ].

(* The grammar actions of fj_parser.FJParser that build expressions:
   (production, operator key handed to get_minimized_expr, arguments).  An argument is the
   k-th expr_ of the production or the literal Expr(0) of the unary minus. *)
Inductive rule_arg := RSub (k : nat) | RZero.

Definition doc_grammar_rules : list (string * (string * list rule_arg)) :=
  [ ("expr_ ""+"" expr_", ("+", [RSub 0; RSub 1]));
    ("expr_ ""-"" expr_", ("-", [RSub 0; RSub 1]));
    ("""-"" expr_ %prec UMINUS", ("-", [RZero; RSub 0]));
    ("""~"" expr_ %prec UNOT", ("~", [RSub 0]));
    ("expr_ ""*"" expr_", ("*", [RSub 0; RSub 1]));
    ("expr_ POW expr_", ("**", [RSub 0; RSub 1]));
    ("""#"" expr_", ("#", [RSub 0]));
    ("expr_ ""/"" expr_", ("/", [RSub 0; RSub 1]));
    ("expr_ ""%"" expr_", ("%", [RSub 0; RSub 1]));
    ("expr_ SHL expr_", ("<<", [RSub 0; RSub 1]));
    ("expr_ SHR expr_", (">>", [RSub 0; RSub 1]));
    ("expr_ ""^"" expr_", ("^", [RSub 0; RSub 1]));
    ("expr_ ""|"" expr_", ("|", [RSub 0; RSub 1]));
    ("expr_ ""&"" expr_", ("&", [RSub 0; RSub 1]));
    ("expr_ LAND expr_", ("&&", [RSub 0; RSub 1]));
    ("expr_ LOR expr_", ("||", [RSub 0; RSub 1]));
    ("expr_ ""?"" expr_ "":"" expr_", ("?:", [RSub 0; RSub 1; RSub 2]));
    ("expr_ ""<"" expr_", ("<", [RSub 0; RSub 1]));
    ("expr_ "">"" expr_", (">", [RSub 0; RSub 1]));
    ("expr_ LE expr_", ("<=", [RSub 0; RSub 1]));
    ("expr_ GE expr_", (">=", [RSub 0; RSub 1]));
    ("expr_ EQ expr_", ("==", [RSub 0; RSub 1]));
    ("expr_ NEQ expr_", ("!=", [RSub 0; RSub 1])) ].
