From FJ Require Import Lib.Base.
(* What C06 and C10 talk about, without any implementation detail.

   C06: a sequence of writer calls declares a *logical image*: segments (start, length, in words)
   each with the words supplied for it; the word at an address inside a segment is the supplied
   data, then zeros up to the segment length; an address outside every segment is invalid.
   Reading the written file must give exactly that, in every version.

   C10: opening a byte string gives an image, or the library's read error - nothing else; a strict
   prefix of a written file is rejected or still gives the same image; an accepted file has a
   consistent segment table. *)
Local Open Scope N_scope.

(* ---- the logical image ------------------------------------------------------------------------ *)

Record lseg := mklseg { l_start : N; l_len : N; l_words : list N }.
Definition limage := list lseg.

Definition in_lseg (a : N) (s : lseg) : bool := (l_start s <=? a) && (a <? l_start s + l_len s).

(* the i-th word of a segment: the supplied data, then zeros *)
Definition data_then_zeros (ws : list N) (i : N) : N :=
  if N.of_nat (length ws) <=? i then 0 else nth (N.to_nat i) ws 0.

(* the word at word address a: Some v inside a segment, None outside all segments *)
Definition lword (L : limage) (a : N) : option N :=
  match find (in_lseg a) L with
  | Some s => Some (data_then_zeros (l_words s) (a - l_start s))
  | None => None
  end.

Definition lsegs (L : limage) : list (N * N) := map (fun s => (l_start s, l_len s)) L.

(* ---- a loaded image, as it can be observed on the reader: the segment list, the explicit words
        (Reader.memory) and the lazily-zero ranges (Reader.zeros_boundaries) ------------------------ *)

Definition in_range (a : N) (z : N * N) : bool := (fst z <=? a) && (a <? snd z).

Definition word_of (m : mem) (zeros : list (N * N)) (a : N) : option N :=
  match mget m a with
  | Some v => Some v
  | None => if existsb (in_range a) zeros then Some 0 else None
  end.

(* the loaded image is the declared one *)
Definition same_image (segs : list (N * N)) (m : mem) (zeros : list (N * N)) (L : limage) : Prop :=
  segs = lsegs L /\ forall a, word_of m zeros a = lword L a.

(* ---- what the file format can represent --------------------------------------------------------- *)

Definition ldisjoint (s t : lseg) : bool :=
  (l_start s + l_len s <=? l_start t) || (l_start t + l_len t <=? l_start s).

Fixpoint pairwise (A : Type) (r : A -> A -> bool) (l : list A) : bool :=
  match l with [] => true | x :: t => forallb (r x) t && pairwise A r t end.
Arguments pairwise {A}.

Definition lseg_representable (w : N) (s : lseg) : bool :=
  (0 <? l_len s) && N.even (l_start s) && N.even (l_len s) &&
  (N.of_nat (length (l_words s)) <=? l_len s) && N.even (N.of_nat (length (l_words s))) &&
  forallb (fun x => x <? 2 ^ w) (l_words s) &&
  (l_start s <? 2 ^ 64) && (l_len s <? 2 ^ 64).

Definition representable (w : N) (L : limage) : bool :=
  forallb (lseg_representable w) L && pairwise ldisjoint L.

(* ---- the outcome of opening a byte string -------------------------------------------------------- *)

Inductive outcome (I : Type) := Loaded (i : I) | Rejected | OtherException.
Arguments Loaded {I}. Arguments Rejected {I}. Arguments OtherException {I}.

Definition total_outcome {I} (o : outcome I) : Prop := o <> OtherException.

(* a torn file is rejected, or decodes to the same image as the whole file *)
Definition torn_ok {I} (whole torn : outcome I) : Prop :=
  torn = Rejected \/ (exists i, torn = Loaded i /\ whole = Loaded i).

(* ---- a consistent segment table: entries are (segment_start, segment_length, data_start, data_length) *)

Definition tseg := (N * N * N * N)%type.

Definition tdisjoint (s t : tseg) : bool :=
  let '(s1, l1, _, _) := s in let '(s2, l2, _, _) := t in (s1 + l1 <=? s2) || (s2 + l2 <=? s1).

Definition tentry_ok (pool_len : N) (t : tseg) : bool :=
  let '(ss, sl, ds, dl) := t in
  (ss + sl <? 2 ^ 64) &&
  (0 <? sl) && N.even ss && N.even sl && (dl <=? sl) && N.even dl && (ds + dl <=? pool_len).

Definition consistent_table (pool_len : N) (t : list tseg) : bool :=
  forallb (tentry_ok pool_len) t && pairwise tdisjoint t.
