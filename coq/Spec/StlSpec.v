(* What the standard library documents (C04 hex namespace, C05 bit namespace; reused by C08/C09).

   Part 1: the statement proved for every harness block - the FRAME EQUATION block_correct.
   Part 2: one small function per documented macro, transcribed from the doc comment above its `def`
           (quoted before each definition; the check copies the doc line found in the CURRENT source
           into the evidence next to the spec name, so a reader can compare them).

   A spec has the uniform type bspec: values of the block's operand variables (in declaration order)
   -> Some (values afterwards, exit taken) | None (operands outside the documented domain).
   Exit 0 is "falls through to the op after the macro"; exit k>=1 is the macro's k-th label parameter. *)
From FJ Require Import Lib.Base Spec.MachineSpec.
Local Open Scope N_scope.

(* ------------------------------------------------------------------------------------------- *)
(* Part 1: variables, blocks, the frame equation                                                *)

(* a hex.vec / bit.vec variable: v_n ops; digit i is stored as digit*dw in the jump word of op i *)
Record var := mkvar {
  v_bits : N;   (* bits per digit: 4 = hex, 1 = bit *)
  v_jw : N;     (* word address of the jump word of digit 0 (digit i is at v_jw + 2i) *)
  v_n : N       (* number of digits *)
}.

Record block := mkblock {
  b_entry : N;                      (* bit address of the first op of the block *)
  b_vars : list var;                (* the operand variables, in the order the spec takes them *)
  b_exits : list (N * list N);      (* exit index -> (bit address of its `stl.loop`, bytes printed before it) *)
  b_scratch : mem;                  (* word address -> mask of the bits that are allowed to differ (absent = none) *)
  b_depth : nat                     (* evaluation budget 2^(b_depth+1)-1 ops; not part of the statement *)
}.

Fixpoint patch_digits (ww bits : N) (mm : mem) (a : N) (n : nat) (v : N) : mem :=
  match n with
  | O => mm
  | S k => patch_digits ww bits (mset mm a (N.shiftl (N.land v (N.ones bits)) (ww + 1))) (a + 2) k (N.shiftr v bits)
  end.
Definition patch_var (ww : N) (mm : mem) (x : var) (v : N) : mem :=
  patch_digits ww x.(v_bits) mm x.(v_jw) (N.to_nat x.(v_n)) v.
Fixpoint patch_vars (ww : N) (mm : mem) (xs : list var) (vs : list N) : mem :=
  match xs, vs with
  | x :: xs', v :: vs' => patch_vars ww (patch_var ww mm x v) xs' vs'
  | _, _ => mm
  end.

(* the program that is run: the assembled image with the operands written into the variables and the
   first op (word 1 = jump word of `;code_start`) redirected to the block *)
Definition start_mem (ww : N) (img : mem) (b : block) (vs : list N) : mem :=
  mset (patch_vars ww img b.(b_vars) vs) 1 b.(b_entry).

Fixpoint digit_words (a : N) (n : nat) : list N :=
  match n with O => [] | S k => a :: digit_words (a + 2) k end.
Definition vars_words (xs : list var) : list N :=
  flat_map (fun x => digit_words x.(v_jw) (N.to_nat x.(v_n))) xs.

Definition scratch_mask (b : block) (a : N) : N := mget0 b.(b_scratch) a.
Definition eq_mod (mask x y : N) : bool := N.ldiff (N.lxor x y) mask =? 0.

Definition bspec := list N -> option (list N * N).

(* THE FRAME EQUATION.  Started on the patched image the machine halts by the self-loop of the exit the
   spec names, has printed exactly that exit's marker bytes, and EVERY word of the final memory equals
   the initial image patched with the values the spec gives - except the declared scratch bits. *)
Definition block_correct (ww : N) (sg : list (N * N)) (img : mem) (b : block) (S : bspec) (vs : list N) : Prop :=
  match S vs with
  | None => True
  | Some (vs', x) =>
    exists xa marker k s,
      nth_error b.(b_exits) (N.to_nat x) = Some (xa, marker) /\
      run ww sg k (init (start_mem ww img b vs) []) = (Looping, s) /\
      s.(ip) = xa /\ out_bytes s.(outp) = (marker, []) /\
      forall a, eq_mod (scratch_mask b a) (mget0 s.(m) a) (mget0 (start_mem ww img b vs') a) = true
  end.

(* operand domains: one half-open range per operand *)
Definition in_dom (rs : list (N * N)) (vs : list N) : Prop :=
  Forall2 (fun v r => fst r <= v < snd r) vs rs.

(* ------------------------------------------------------------------------------------------- *)
(* Part 2: the documented functions                                                             *)

Definition ok (vs : list N) : option (list N * N) := Some (vs, 0).
Definition goto (vs : list N) (x : N) : option (list N * N) := Some (vs, x).

(* sequencing (composition harnesses): S2 starts from the state S1 left; S1 must fall through *)
Definition seq_spec (S1 S2 : bspec) : bspec :=
  fun vs => match S1 vs with Some (vs', 0) => S2 vs' | Some _ => None | None => None end.
(* a spec acting on the sub-list of variables with the given positions *)
Fixpoint upd_nth (l : list N) (i : nat) (v : N) : list N :=
  match l, i with [], _ => [] | _ :: r, O => v :: r | x :: r, S j => x :: upd_nth r j v end.
Fixpoint upd_all (l : list N) (idx : list nat) (vs : list N) : list N :=
  match idx, vs with i :: idx', v :: vs' => upd_all (upd_nth l i v) idx' vs' | _, _ => l end.
Definition at_vars (idx : list nat) (S : bspec) : bspec :=
  fun vs => match S (map (fun i => nth i vs 0) idx) with
            | Some (vs', x) => Some (upd_all vs idx vs', x)
            | None => None
            end.

(* a spec restricted by an explicit boolean guard (used only for operands on which a KNOWN, reported defect of the
   library makes the documented formula false; each use comes with a generated `_refuted` example) *)
Definition guarded (defect : list N -> bool) (S : bspec) : bspec := fun vs => if defect vs then None else S vs.

Definition sgn (k : N) (x : N) : Z := if x <? 2 ^ (k - 1) then Z.of_N x else (Z.of_N x - 2 ^ Z.of_N k)%Z.
Definition usg (k : N) (z : Z) : N := Z.to_N (z mod 2 ^ Z.of_N k).
Fixpoint pop_pos (p : positive) : N := match p with xH => 1 | xO q => pop_pos q | xI q => 1 + pop_pos q end.
Definition popcount (x : N) : N := match x with N0 => 0 | Npos p => pop_pos p end.

(* ---- vectors of k-bit digits: the formulas shared by both namespaces (M = 2^bits) ---- *)
(* k = total number of bits of the vector: 4n for hex, n for bit *)

Definition v_zero (k : N) : bspec := fun vs => match vs with [_] => ok [0] | _ => None end.
Definition v_ones (k : N) : bspec := fun vs => match vs with [_] => ok [2 ^ k - 1] | _ => None end.
Definition v_keep (k : N) : bspec := fun vs => ok vs.
Definition v_mov (k : N) : bspec := fun vs => match vs with [_; s] => ok [s; s] | _ => None end.
Definition v_swap (k : N) : bspec := fun vs => match vs with [a; b] => ok [b; a] | _ => None end.
Definition v_set (k : N) (c : N) : bspec := fun vs => match vs with [_] => ok [c mod 2 ^ k] | _ => None end.
Definition v_xor_by (k : N) (c : N) : bspec := fun vs => match vs with [x] => ok [N.lxor x (c mod 2 ^ k)] | _ => None end.
Definition v_xor (k : N) : bspec := fun vs => match vs with [d; s] => ok [N.lxor d s; s] | _ => None end.
Definition v_xor_zero (k : N) : bspec := fun vs => match vs with [d; s] => ok [N.lxor d s; 0] | _ => None end.
Definition v_double_xor (k : N) : bspec :=
  fun vs => match vs with [d1; d2; s] => ok [N.lxor d1 s; N.lxor d2 s; s] | _ => None end.
Definition v_or (k : N) : bspec := fun vs => match vs with [d; s] => ok [N.lor d s; s] | _ => None end.
Definition v_and (k : N) : bspec := fun vs => match vs with [d; s] => ok [N.land d s; s] | _ => None end.
Definition v_not (k : N) : bspec := fun vs => match vs with [x] => ok [2 ^ k - 1 - x] | _ => None end.
Definition v_inc (k : N) : bspec := fun vs => match vs with [x] => ok [(x + 1) mod 2 ^ k] | _ => None end.
Definition v_dec (k : N) : bspec := fun vs => match vs with [x] => ok [(x + 2 ^ k - 1) mod 2 ^ k] | _ => None end.
Definition v_neg (k : N) : bspec := fun vs => match vs with [x] => ok [(2 ^ k - x) mod 2 ^ k] | _ => None end.
Definition v_abs (k : N) : bspec :=
  fun vs => match vs with [x] => ok [if x <? 2 ^ k / 2 then x else (2 ^ k - x) mod 2 ^ k] | _ => None end.
Definition v_add (k : N) : bspec := fun vs => match vs with [d; s] => ok [(d + s) mod 2 ^ k; s] | _ => None end.
Definition v_sub (k : N) : bspec := fun vs => match vs with [d; s] => ok [(d + 2 ^ k - s) mod 2 ^ k; s] | _ => None end.
Definition v_add_const (k : N) (c : N) : bspec := fun vs => match vs with [d] => ok [(d + c) mod 2 ^ k] | _ => None end.
Definition v_sub_const (k : N) (c : N) : bspec :=
  fun vs => match vs with [d] => ok [(d + 2 ^ k - c mod 2 ^ k) mod 2 ^ k] | _ => None end.
Definition v_add_self (k : N) : bspec := fun vs => match vs with [x] => ok [(x + x) mod 2 ^ k] | _ => None end.
Definition v_mul10 (k : N) : bspec := fun vs => match vs with [x] => ok [(x * 10) mod 2 ^ k] | _ => None end.
Definition v_mul3 (k : N) : bspec := fun vs => match vs with [_; a; b] => ok [(a * b) mod 2 ^ k; a; b] | _ => None end.
Definition v_mul2 (k : N) : bspec := fun vs => match vs with [d; s] => ok [(d * s) mod 2 ^ k; s] | _ => None end.
Definition v_square (k : N) : bspec := fun vs => match vs with [x] => ok [(x * x) mod 2 ^ k] | _ => None end.
Definition v_shl (k : N) (t : N) : bspec := fun vs => match vs with [x] => ok [(x * 2 ^ t) mod 2 ^ k] | _ => None end.
Definition v_shr (k : N) (t : N) : bspec := fun vs => match vs with [x] => ok [x / 2 ^ t] | _ => None end.
Definition v_shra (k : N) (t : N) : bspec :=
  fun vs => match vs with [x] => ok [usg k (Z.shiftr (sgn k x) (Z.of_N t))] | _ => None end.
Definition v_ror (k : N) : bspec := fun vs => match vs with [x] => ok [x / 2 + (x mod 2) * (2 ^ k / 2)] | _ => None end.
Definition v_rol (k : N) : bspec := fun vs => match vs with [x] => ok [(2 * x) mod 2 ^ k + x / (2 ^ k / 2)] | _ => None end.
Definition v_min (k : N) : bspec := fun vs => match vs with [_; a; b] => ok [N.min a b; a; b] | _ => None end.
Definition v_max (k : N) : bspec := fun vs => match vs with [_; a; b] => ok [N.max a b; a; b] | _ => None end.

(* conditional jumps: variables unchanged, the exit is the label parameter taken *)
Definition v_if (k : N) (x0 x1 : N) : bspec :=         (* x == 0 -> exit x0, else exit x1 *)
  fun vs => match vs with [x] => goto vs (if x =? 0 then x0 else x1) | _ => None end.
Definition v_sign (k : N) (xneg xzpos : N) : bspec :=
  fun vs => match vs with [x] => goto vs (if x <? 2 ^ k / 2 then xzpos else xneg) | _ => None end.
Definition v_cmp (k : N) : bspec :=                     (* lt = 1, eq = 2, gt = 3 *)
  fun vs => match vs with [a; b] => goto vs (if a <? b then 1 else if a =? b then 2 else 3) | _ => None end.
Definition v_scmp (k : N) : bspec :=
  fun vs => match vs with
            | [a; b] => goto vs (if (sgn k a <? sgn k b)%Z then 1 else if a =? b then 2 else 3)
            | _ => None end.

(* unsigned division; b == 0 leaves everything unchanged and takes exit x0 *)
Definition v_div (k : N) (x0 : N) (kb : N) : bspec :=    (* [q; r; a; b] *)
  fun vs => match vs with
            | [q; r; a; b] => if b =? 0 then goto vs x0 else ok [a / b; a mod b; a; b]
            | _ => None end.
(* signed division.  rem_opt 0: sign r = sign b (floor);  1: sign r = sign a (truncate);  2: r >= 0.
   always a = q*b + r (mod 2^k); kb = number of bits of r and b *)
Definition v_idiv (k : N) (x0 : N) (kb : N) (rem_opt : N) : bspec :=
  fun vs => match vs with
            | [q; r; a; b] =>
              if b =? 0 then goto vs x0 else
              let za := sgn k a in let zb := sgn kb b in
              let zr := match rem_opt with 0%N => (za mod zb)%Z | 1%N => Z.rem za zb | _ => (za mod Z.abs zb)%Z end in
              let zq := ((za - zr) / zb)%Z in
              ok [usg k zq; usg kb zr; a; b]
            | _ => None end.

(* -------------------------------- hex namespace (C04) ------------------------------------- *)
(* hex/memory.fj *)
Definition hex_zero n := v_zero (4 * n).                 (*   x[:n] = 0 *)
Definition hex_mov n := v_mov (4 * n).                   (*   dst[:n] = src[:n] *)
Definition hex_mov_self (n : N) := v_keep n.               (*   (safe if dst and src are the exact same address) *)
Definition hex_set n c := v_set (4 * n) c.               (*   hex[:n] = val (constant) *)
Definition hex_swap n := v_swap (4 * n).                 (*   hex1[:n], hex2[:n] = hex2[:n], hex1[:n] *)
Definition hex_swap_self (n : N) := v_keep n.
Definition hex_xor_by n c := v_xor_by (4 * n) c.         (*   hex[:n] ^= val (constant) *)
(* hex/logics.fj *)
Definition hex_xor n := v_xor (4 * n).                   (*   dst[:n] ^= src[:n] *)
Definition hex_xor_self n := v_zero (4 * n).             (*   hex.zero is `.xor hex, hex` *)
Definition hex_xor_zero n := v_xor_zero (4 * n).         (*   dst[:n] ^= src[:n] ; src[:n] = 0 *)
Definition hex_double_xor := v_double_xor 4.             (*   dst1 ^= src ; dst2 ^= src *)
Definition hex_not n := v_not (4 * n).                   (*   x[:n] = !x[:n] *)
Definition hex_or n := v_or (4 * n).                     (*   dst[:n] |= src[:n] *)
Definition hex_and n := v_and (4 * n).                   (*   dst[:n] &= src[:n] *)
(* hex/math_basic.fj *)
Definition hex_inc n := v_inc (4 * n).                   (*   hex[:n]++ *)
Definition hex_dec n := v_dec (4 * n).                   (*   hex[:n]-- *)
Definition hex_neg n := v_neg (4 * n).                   (*   x[:n] = -x[:n] *)
Definition hex_abs n := v_abs (4 * n).                   (*   x[:n] = |x[:n]|  (the minimal value stays itself) *)
(*   hex++  (if overflows - jump to carry1; else jump to carry0)     exits: carry0 = 1, carry1 = 2 *)
Definition hex_inc1 : bspec := fun vs => match vs with [x] => goto [(x + 1) mod 16] (if x =? 15 then 2 else 1) | _ => None end.
(*   hex--  (if underflows - jump to borrow1; else jump to borrow0) *)
Definition hex_dec1 : bspec := fun vs => match vs with [x] => goto [(x + 15) mod 16] (if x =? 0 then 2 else 1) | _ => None end.
(*   sign-extends hex[:signed_n] into hex[:full_n] *)
Definition hex_sign_extend (fn sn : N) : bspec :=
  fun vs => match vs with
            | [x] => let lo := x mod 16 ^ sn in ok [if lo <? 16 ^ sn / 2 then lo else lo + (16 ^ fn - 16 ^ sn)]
            | _ => None end.
(*   dst[:n] += src.#on-bits (between 0->4)      dst is hex.vec n, src is hex *)
Definition hex_add_count_bits n : bspec :=
  fun vs => match vs with [d; s] => ok [(d + popcount s) mod 16 ^ n; s] | _ => None end.
(*   dst[:small_n] = x[:n].#on-bits *)
Definition hex_count_bits (n : N) : bspec := fun vs => match vs with [_; x] => ok [popcount x; x] | _ => None end.
(* hex/math.fj *)
Definition hex_add n := v_add (4 * n).                   (*   dst[:n] += src[:n] *)
Definition hex_add_self n := v_add_self (4 * n).
Definition hex_sub n := v_sub (4 * n).                   (*   dst[:n] -= src[:n] *)
Definition hex_sub_self n := v_zero (4 * n).
(*   dst[:dst_n] += src[:src_n] << (4*hex_shift) *)
Definition hex_add_shifted (dn sn sh : N) : bspec :=
  fun vs => match vs with [d; s] => ok [(d + s * 16 ^ sh) mod 16 ^ dn; s] | _ => None end.
(*   dst[:dst_n] -= src[:src_n] << (4*hex_shift) *)
Definition hex_sub_shifted (dn sn sh : N) : bspec :=
  fun vs => match vs with [d; s] => ok [(d + 16 ^ dn - (s * 16 ^ sh) mod 16 ^ dn) mod 16 ^ dn; s] | _ => None end.
Definition hex_add_constant n c := v_add_const (4 * n) c.  (*   dst[:n] += const *)
Definition hex_sub_constant n c := v_sub_const (4 * n) c.  (*   dst[:dst_n] -= const *)
(* hex/mul.fj *)
Definition hex_mul n := v_mul3 (4 * n).                  (*   res[:n] = a[:n] * b[:n] *)
Definition hex_mul10 n := v_mul10 (4 * n).               (*   x[n] *= 10 *)
(*   res[n] += a[n] * b[1] *)
Definition hex_add_mul n : bspec :=
  fun vs => match vs with [r; a; b] => ok [(r + a * b) mod 16 ^ n; a; b] | _ => None end.
(* hex/div.fj    exits: div0 = 1 *)
Definition hex_div n nb := v_div (4 * n) 1 (4 * nb).      (*   if b==0: goto div0 ; q = a/b ; r = a%b (unsigned) *)
Definition hex_idiv n nb ro := v_idiv (4 * n) 1 (4 * nb) ro.
(* hex/shifts.fj *)
Definition hex_shl_bit n := v_shl (4 * n) 1.             (*   dst[:n] <<= 1 *)
Definition hex_shr_bit n := v_shr (4 * n) 1.             (*   dst[:n] >>= 1 *)
Definition hex_shl_hex n t := v_shl (4 * n) (4 * t).     (*   dst[:n] <<= 4*times *)
Definition hex_shr_hex n t := v_shr (4 * n) (4 * t).     (*   dst[:n] >>= 4*times *)
(* hex/cond_jumps.fj    exits: l0 = 1, l1 = 2 *)
(*   if flags&(1<<hex) is true: jump to l1; else jump to l0. *)
Definition hex_if_flags (flags : N) : bspec :=
  fun vs => match vs with [x] => goto vs (if N.testbit flags x then 2 else 1) | _ => None end.
Definition hex_if n := v_if (4 * n) 1 2.                 (*   if hex[:n]==0 goto l0, else goto l1. *)
Definition hex_if0 n := v_if (4 * n) 1 0.                (*   if hex[:n]==0 goto l0, else continue. *)
Definition hex_if1 n := v_if (4 * n) 0 1.                (*   if hex[:n]!=0 goto l1, else continue. *)
Definition hex_sign n := v_sign (4 * n) 1 2.             (*   if number[:n] < 0 jump to neg, else jump to zpos *)
Definition hex_cmp n := v_cmp (4 * n).                           (*   a<b: goto lt; a==b: goto eq; a>b: goto gt *)
Definition hex_scmp n := v_scmp (4 * n).                 (*   like cmp but SIGNED (two's complement) *)
Definition hex_min n := v_min (4 * n).                           (*   dst[:n] = min(a[:n], b[:n])   (unsigned) *)
Definition hex_max n := v_max (4 * n).                           (*   dst[:n] = max(a[:n], b[:n])   (unsigned) *)

(* -------------------------------- bit namespace (C05) ------------------------------------- *)
(* bit/memory.fj *)
Definition bit_zero n := v_zero n.                       (*   x[:n] = 0 *)
Definition bit_one n := v_ones n.                        (*   x[:n] = (1<<n) - 1 *)
Definition bit_mov n := v_mov n.                         (*   dst[:n] = src[:n] *)
Definition bit_mov_self (n : N) := v_keep n.               (*   note: works if dst==src *)
Definition bit_swap n := v_swap n.                       (*   a[:n], b[:n] = b[:n], a[:n] *)
(* bit/logics.fj *)
Definition bit_xor n := v_xor n.                         (*   dst[:n] ^= src[:n] *)
Definition bit_xor_self n := v_zero n.
Definition bit_xor_zero n := v_xor_zero n.               (*   dst[:n] ^= src[:n] ; src[:n] = 0 *)
Definition bit_double_exact_xor := v_double_xor 1.       (*   dst1 ^= src ; dst2 ^= src *)
Definition bit_or n := v_or n.                           (*   dst[:n] |= src[:n] *)
Definition bit_and n := v_and n.                         (*   dst[:n] &= src[:n] *)
Definition bit_not n := v_not n.                         (*   dst[:n] ^= (1<<n)-1 *)
(* bit/cond_jumps.fj    exits: if: l0 = 1, l1 = 2 ; cmp: lt = 1, eq = 2, gt = 3 *)
Definition bit_if n := v_if n 1 2.                       (*   if x[:n] == 0 jump to l0, else jump to l1 *)
Definition bit_if0 n := v_if n 1 0.                      (*   if x[:n] == 0 jump to l0 *)
Definition bit_if1 n := v_if n 0 1.                      (*   if x[:n] != 0 jump to l1 *)
Definition bit_cmp (n : N) := v_cmp n.                     (*   a<b: lt ; a=b: eq ; a>b: gt *)
(* bit/shifts.fj *)
Definition bit_shr n t := v_shr n t.                     (*   x[:n] >>= times *)
Definition bit_shra n t := v_shra n t.                   (*   x[:n] >>= times (arithmetic shift right) *)
Definition bit_shl n t := v_shl n t.                     (*   x[:n] <<= times *)
Definition bit_ror n := v_ror n.                         (*   rotate x[:n] right by 1-bit *)
Definition bit_rol n := v_rol n.                         (*   rotate x[:n] left by 1-bit *)
(* bit/math.fj *)
(*   {carry:dst}++      read with the file header "carry is both input and output": dst += carry, carry = carry out *)
Definition bit_inc1 : bspec :=
  fun vs => match vs with [d; c] => ok [(d + c) mod 2; (d + c) / 2] | _ => None end.
(*   {carry:dst} += src     (same reading: dst + src + carry) *)
Definition bit_add1 : bspec :=
  fun vs => match vs with [d; s; c] => ok [(d + s + c) mod 2; s; (d + s + c) / 2] | _ => None end.
Definition bit_inc n := v_inc n.                         (*   x[:n]++ *)
Definition bit_dec n := v_dec n.                         (*   x[:n]-- *)
Definition bit_neg n := v_neg n.                         (*   x[:n] = -x[:n]   (the doc line says "x[:n]--": copy-paste slip, the title is neg) *)
Definition bit_add n := v_add n.                         (*   dst[:n] += src[:n] *)
Definition bit_sub n := v_sub n.                         (*   dst[:n] -= src[:n] *)
(* bit/mul.fj *)
Definition bit_mul10 n := v_mul10 n.                     (*   x[:n] *= 10 *)
Definition bit_mul n := v_mul2 n.                        (*   dst[:n] *= src[:n] *)
Definition bit_mul_self n := v_square n.                 (*   safe when dst and src are the same address (squaring) *)
(* bit/div.fj *)
(*   dst[:n], src[:n] = src[:n] / 10, src[:n] % 10. *)
Definition bit_div10 (n : N) : bspec := fun vs => match vs with [_; s] => ok [s / 10; s mod 10] | _ => None end.
(*   if b==0: goto end (do nothing) ; q = a/b ; r = a%b      operands [a; b; q; r] *)
Definition bit_div (n : N) : bspec :=
  fun vs => match vs with
            | [a; b; q; r] => if b =? 0 then ok vs else ok [a; b; a / b; a mod b]
            | _ => None end.
(*   signed: sign(r)==sign(a) *)
Definition bit_idiv (n : N) : bspec :=
  fun vs => match vs with
            | [a; b; q; r] => if b =? 0 then ok vs else
                              ok [a; b; usg n (Z.quot (sgn n a) (sgn n b)); usg n (Z.rem (sgn n a) (sgn n b))]
            | _ => None end.
