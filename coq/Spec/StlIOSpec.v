(* What the input / print / cast / buffer macros of the standard library document (C09).

   Part 1: the statement proved for every harness block: the FRAME EQUATION WITH INPUT AND OUTPUT,
           block_correct_io.  It extends Spec.StlSpec.block_correct: the machine is started with the input
           byte string `inb` (as the bit list the IO device feeds, MachineSpec.bytes_bits), and the spec also
           fixes the exact output bytes, the exact number of input bits consumed, and - when the input ends
           before the macro is done - that the run ends with cause EOF.
   Part 2: one small function per documented macro, transcribed from the doc comment above its `def`
           (quoted before each definition; ./check C09 copies the doc lines found in the CURRENT source into
           the evidence next to the spec name).

   A spec has the uniform type iospec:
      values of the block's operand variables (declaration order) -> input bytes ->
        Some (IoDone values' exit output used clobbered)   the macro finishes: variables afterwards, exit taken
                                                           (0 = falls through, k = k-th label parameter), bytes
                                                           printed, input BITS consumed, and the indices of the
                                                           variables whose value the documentation leaves open on
                                                           this exit (e.g. `hex` after "if can't cast, jumps to error")
      | Some (IoEof output)                                the input ends first: the run stops with cause EOF
      | None                                               operands outside the documented domain. *)
From FJ Require Import Lib.Base Spec.MachineSpec Spec.StlSpec.
Local Open Scope N_scope.

(* ------------------------------------------------------------------------------------------- *)
(* Part 1                                                                                       *)

Inductive iores :=
| IoDone (vs' : list N) (x : N) (out : list N) (used : N) (clob : list nat)
| IoEof (out : list N).
Definition iospec := list N -> list N -> option iores.

(* the data bits of variable x, seen from word a (0 when a is not one of its digit words) *)
Definition var_mask (ww : N) (x : var) (a : N) : N :=
  if existsb (N.eqb a) (digit_words x.(v_jw) (N.to_nat x.(v_n)))
  then N.shiftl (N.ones x.(v_bits)) (ww + 1) else 0.
Definition clob_mask (ww : N) (b : block) (clob : list nat) (a : N) : N :=
  fold_right (fun i acc => match nth_error b.(b_vars) i with
                           | Some x => N.lor (var_mask ww x a) acc
                           | None => acc end) 0 clob.

(* THE FRAME EQUATION WITH IO.  Started on the patched image with the input `inb`, the machine
   - halts by the self-loop of the exit the spec names, has printed exactly the spec's bytes followed by that
     exit's marker, has consumed exactly `used` bits of the input, and EVERY word of the final memory equals
     the initial image patched with the values the spec gives, except the declared scratch bits and the data
     bits of the variables the documentation leaves open;
   - or, when the spec says the input ends first, stops with cause EOF after printing exactly the spec's bytes. *)
Definition block_correct_io (ww : N) (sg : list (N * N)) (img : mem) (b : block) (S : iospec)
           (vs inb : list N) : Prop :=
  match S vs inb with
  | None => True
  | Some (IoDone vs' x out used clob) =>
    exists xa marker k s,
      nth_error b.(b_exits) (N.to_nat x) = Some (xa, marker) /\
      run ww sg k (init (start_mem ww img b vs) (bytes_bits inb)) = (Looping, s) /\
      s.(ip) = xa /\ out_bytes s.(outp) = (out ++ marker, []) /\
      s.(inp) = skipn (N.to_nat used) (bytes_bits inb) /\
      forall a, eq_mod (N.lor (scratch_mask b a) (clob_mask ww b clob a))
                       (mget0 s.(m) a) (mget0 (start_mem ww img b vs') a) = true
  | Some (IoEof out) =>
    exists k s,
      run ww sg k (init (start_mem ww img b vs) (bytes_bits inb)) = (EOFc, s) /\
      out_bytes s.(outp) = (out, [])
  end.

(* input domains: all strings over an alphabet (a list of byte values) up to a length *)
Definition in_alpha (alpha : list N) (inb : list N) : Prop := Forall (fun c => In c alpha) inb.
(* a string given by the positions of its symbols in the alphabet (how the domains are enumerated) *)
Definition decode (alpha : list N) (idx : list N) : list N := map (fun i => nth (N.to_nat i) alpha 0) idx.
Definition all_bytes : list N := map N.of_nat (seq 0 256).

(* a spec restricted by an explicit boolean guard: only for inputs on which a KNOWN, reported defect makes the
   documented formula false; every use comes with a generated `_refuted` example *)
Definition guarded_io (defect : list N -> list N -> bool) (S : iospec) : iospec :=
  fun vs inb => if defect vs inb then None else S vs inb.

(* a spec that neither reads nor prints *)
Definition io_pure (S : bspec) : iospec :=
  fun vs _ => match S vs with Some (vs', x) => Some (IoDone vs' x [] 0 []) | None => None end.

(* ------------------------------------------------------------------------------------------- *)
(* Part 2: the byte encodings                                                                   *)

Definition pr (vs : list N) (out : list N) : option iores := Some (IoDone vs 0 out 0 []).
Definition len (l : list N) : N := N.of_nat (length l).

Fixpoint digits_lsf (base : N) (n : nat) (x : N) : list N :=
  match n with O => [] | S k => x mod base :: digits_lsf base k (x / base) end.
Definition digits_msf (base : N) (n : N) (x : N) : list N := rev (digits_lsf base (N.to_nat n) x).
Definition le_bytes (n : N) (x : N) : list N := digits_lsf 256 (N.to_nat n) x.
Fixpoint le_val (base : N) (l : list N) : N := match l with [] => 0 | d :: r => d + base * le_val base r end.
(* no leading zeros, but at least one digit *)
Fixpoint strip0 (l : list N) : list N :=
  match l with
  | d :: (_ :: _) as r => if d =? 0 then strip0 r else l
  | _ => l
  end.
Definition hexdig (upper : bool) (d : N) : N := if d <? 10 then 48 + d else (if upper then 55 else 87) + d.
Definition hex_text (upper : bool) (n : N) (x : N) : list N := map (hexdig upper) (digits_msf 16 n x).
Definition hex_text_nz (upper : bool) (n : N) (x : N) : list N := map (hexdig upper) (strip0 (digits_msf 16 n x)).
Definition dec_text (x : N) : list N := map (fun d => 48 + d) (strip0 (digits_msf 10 (N.log2 x + 1) x)).
Definition prefix0x (p : N) : list N := if p =? 0 then [] else [48; 120].
Definition is_neg (k : N) (x : N) : bool := 2 ^ (k - 1) <=? x.
Definition magnitude (k : N) (x : N) : N := if is_neg k x then 2 ^ k - x else x.
Definition minus_if (b : bool) : list N := if b then [45] else [].
Fixpoint until_nul (n : nat) (l : list N) : list N :=
  match n, l with S k, c :: r => if c =? 0 then [] else c :: until_nul k r | _, _ => [] end.

(* ---- runlib.fj: output constants ---- *)
(*   ascii is a constant. The macro outputs the byte (ascii & 0xff) *)
Definition stl_output_char (c : N) : iospec := fun vs _ => pr vs [c mod 256].
(*   str is a constant. The macro outputs the bytes of it (from lsB to msB) until it becomes all zeros. *)
Definition stl_output_str (c : N) : iospec := fun vs _ => pr vs (le_bytes ((N.size c + 7) / 8) c).
(*   bit is a constant. 0 will output 0, anything else will output 1.    (eight calls: the bits of c, lsb first) *)
Definition stl_output_bits (c : N) : iospec := fun vs _ => pr vs [c mod 256].

(* ---- hex/output.fj ---- *)
(*   output 4 bits from hex  (lsb first)          (two calls: one byte) *)
Definition hex_output2 : iospec := fun vs _ => match vs with [a; b] => pr vs [a + 16 * b] | _ => None end.
(*   output n bytes from x[:2n]  (lsb first) *)
Definition hex_print (n : N) : iospec := fun vs _ => match vs with [x] => pr vs (le_bytes n x) | _ => None end.
(*   prints the ascii of the hexadecimal representation of x[:n].   use_uppercase: uppercase, else lowercase *)
Definition hex_print_as_digit (n up : N) : iospec :=
  fun vs _ => match vs with [x] => pr vs (hex_text (negb (up =? 0)) n x) | _ => None end.
(*   print the unsigned x[:n], without leading zeros.   x_prefix: print with the "0x" prefix *)
Definition hex_print_uint (n p up : N) : iospec :=
  fun vs _ => match vs with [x] => pr vs (prefix0x p ++ hex_text_nz (negb (up =? 0)) n x) | _ => None end.
(*   print the ascii of the hexadecimal representation of hex (skip leading zeros, based on printed_something)
     printed_something (bit [inout]): have any digit printed yet? (the macro also updates it) *)
Definition hex_print_digit (up : N) : iospec :=
  fun vs _ => match vs with
              | [h; ps] => if (ps =? 0) && (h =? 0) then pr vs [] else pr [h; 1] [hexdig (negb (up =? 0)) h]
              | _ => None end.
(*   print the signed x[:n], without leading zeros. *)
Definition hex_print_int (n p up : N) : iospec :=
  fun vs _ => match vs with
              | [x] => pr vs (minus_if (is_neg (4 * n) x) ++ prefix0x p ++
                              hex_text_nz (negb (up =? 0)) n (magnitude (4 * n) x))
              | _ => None end.
(*   prints x[:n] as an unsigned DECIMAL number (without leading zeros). *)
Definition hex_print_dec_uint (n : N) : iospec := fun vs _ => match vs with [x] => pr vs (dec_text x) | _ => None end.
(*   prints x[:n] as a signed DECIMAL number (without leading zeros). *)
Definition hex_print_dec_int (n : N) : iospec :=
  fun vs _ => match vs with
              | [x] => pr vs (minus_if (is_neg (4 * n) x) ++ dec_text (magnitude (4 * n) x))
              | _ => None end.

(* ---- bit/output.fj ---- *)
(*   outputs the bit 'x'.        (followed by seven constant 0 bits: one byte) *)
Definition bit_output : iospec := fun vs _ => match vs with [x] => pr vs [x] | _ => None end.
(*   outputs n bytes from x[:8n] (a bit vector. from lsb to msb). *)
Definition bit_print (n : N) : iospec := fun vs _ => match vs with [x] => pr vs (le_bytes n x) | _ => None end.
(*   Prints the first n-chars of the string at x[:8n], or until reaches the first '\0' (the earlier). *)
Definition bit_print_str (n : N) : iospec :=
  fun vs _ => match vs with [x] => pr vs (until_nul (N.to_nat n) (le_bytes n x)) | _ => None end.
(*   Prints one byte of a null-terminated string; jumps to `end` when it hits '\0'.     exit 1 = end *)
Definition bit_print_str_one_char : iospec :=
  fun vs _ => match vs with [c] => if c =? 0 then Some (IoDone vs 1 [] 0 []) else pr vs [c] | _ => None end.
(*   prints x[:n] as n ascii-characters ('0's and '1's, msb first - the way the number is written). *)
Definition bit_print_as_digit (n : N) : iospec :=
  fun vs _ => match vs with [x] => pr vs (map (fun d => 48 + d) (digits_msf 2 n x)) | _ => None end.
(*   print x[:n] as an unsigned hexadecimal number, without leading zeros (digits & capital-letters). *)
Definition bit_print_hex_uint (n p : N) : iospec :=
  fun vs _ => match vs with [x] => pr vs (prefix0x p ++ hex_text_nz true (n / 4) x) | _ => None end.
(*   Prints one hex digit, but only after the first non-zero digit has been seen (suppresses leading zeros). *)
Definition bit_print_hex_digit : iospec :=
  fun vs _ => match vs with
              | [h; fl] => if (fl =? 0) && (h =? 0) then pr vs [] else pr [h; 1] [hexdig true h]
              | _ => None end.
(*   print x[:n] as a signed hexadecimal number, without leading zeros (digits & capital-letters). *)
Definition bit_print_hex_int (n p : N) : iospec :=
  fun vs _ => match vs with
              | [x] => pr vs (minus_if (is_neg n x) ++ prefix0x p ++ hex_text_nz true (n / 4) (magnitude n x))
              | _ => None end.
(*   prints x[:n] as an unsigned decimal number (without leading zeros). *)
Definition bit_print_dec_uint (n : N) : iospec := fun vs _ => match vs with [x] => pr vs (dec_text x) | _ => None end.
(*   prints x[:n] as a signed decimal number (without leading zeros). *)
Definition bit_print_dec_int (n : N) : iospec :=
  fun vs _ => match vs with [x] => pr vs (minus_if (is_neg n x) ++ dec_text (magnitude n x)) | _ => None end.
(*   if char_flag:  print the ascii representation of the decimal digit ascii4[:4]. *)
Definition bit_print_char : iospec :=
  fun vs _ => match vs with
              | [a; fl] => if 9 <? a then None else pr vs (if fl =? 0 then [] else [48 + a])
              | _ => None end.

(* ---- reading: shared ---- *)
Definition used_bytes (inb rest : list N) (extra : N) : N := 8 * (len inb - len rest + extra).
Definition is_digit (c : N) : bool := (48 <=? c) && (c <=? 57).
(* value of the leading decimal digits and the rest, which starts at the first non-digit byte *)
Fixpoint read_dec (acc : N) (l : list N) : N * list N :=
  match l with
  | c :: r => if is_digit c then read_dec (10 * acc + (c - 48)) r else (acc, l)
  | [] => (acc, [])
  end.
Definition hexval (c : N) : option N :=
  if is_digit c then Some (c - 48)
  else if (65 <=? c) && (c <=? 70) then Some (c - 55)
  else if (97 <=? c) && (c <=? 102) then Some (c - 87)
  else None.

(* ---- bit/input.fj ---- *)
(*   input one bit into the bit-variable, 'dst'. *)
Definition bit_input_bit : iospec :=
  fun vs inb => match vs, inb with
                | [_], c :: _ => Some (IoDone [c mod 2] 0 [] 1 [])
                | [_], [] => Some (IoEof [])
                | _, _ => None end.
(*   inputs n bytes into dst[:8n]: the first byte read becomes the MOST significant byte of the 8*n bits number
     (i.e. the input is read as a big endian number; each byte is stored lsb first, as in bit.input dst).
     (n = 1, `def input dst`: input one byte into dst[:8] (lsb first)) *)
Definition bit_input (n : N) : iospec :=
  fun vs inb => match vs with
                | [_] => if len inb <? n then Some (IoEof [])
                         else Some (IoDone [le_val 256 (rev (firstn (N.to_nat n) inb))] 0 [] (8 * n) [])
                | _ => None end.

(* ---- hex/input.fj ---- *)
(*   hex := input(4bits)     // lsb first *)
Definition hex_input_hex : iospec :=
  fun vs inb => match vs, inb with
                | [_], c :: _ => Some (IoDone [c mod 16] 0 [] 4 [])
                | [_], [] => Some (IoEof [])
                | _, _ => None end.
(*   bytes[:2n] = input(8n-bits)   // lsb first *)
Definition hex_input (n : N) : iospec :=
  fun vs inb => match vs with
                | [_] => if len inb <? n then Some (IoEof [])
                         else Some (IoDone [le_val 256 (firstn (N.to_nat n) inb)] 0 [] (8 * n) [])
                | _ => None end.
(*   hex[:n] = hex_from_ascii(input(n-bytes))
     *supports 0-9,a-f,A-F.  if can't cast, jumps to error.           exit 1 = error; the first character is the
     most significant digit; reading stops at the first character that cannot be cast; hex is left open then *)
Fixpoint read_hex_digits (n : nat) (acc : N) (l : list N) (all : list N) : option iores :=
  match n with
  | O => Some (IoDone [acc] 0 [] (used_bytes all l 0) [])
  | S k => match l with
           | [] => Some (IoEof [])
           | c :: r => match hexval c with
                       | Some v => read_hex_digits k (16 * acc + v) r all
                       | None => Some (IoDone [acc] 1 [] (used_bytes all r 0) [0%nat])
                       end
           end
  end.
Definition hex_input_as_hex (n : N) : iospec :=
  fun vs inb => match vs with [_] => read_hex_digits (N.to_nat n) 0 inb inb | _ => None end.
(*   dst[:n] = the unsigned decimal number read from input (mod 16^n).
     Reads ASCII '0'..'9' and STOPS at the first non-digit byte, which is stored in stop_byte[:2]. *)
Definition hex_input_dec_uint_until (n : N) : iospec :=
  fun vs inb => match vs with
                | [_; _] => let '(v, rest) := read_dec 0 inb in
                            match rest with
                            | [] => Some (IoEof [])
                            | b :: _ => Some (IoDone [v mod 16 ^ n; b] 0 [] (used_bytes inb rest 1) [])
                            end
                | _ => None end.
(*   dst[:n] = the signed decimal number read from input (two's complement, mod 16^n).
     Reads an optional leading '-', then ASCII '0'..'9', and STOPS at the first non-digit byte,
     which gets stored in stop_byte[:2] (note that a leading '+' stops with dst=0). *)
Definition read_dec_int (n : N) (inb : list N) : N * list N :=
  match inb with
  | c :: r => if c =? 45 then let '(v, rest) := read_dec 0 r in ((16 ^ n - v mod 16 ^ n) mod 16 ^ n, rest)
              else let '(v, rest) := read_dec 0 inb in (v mod 16 ^ n, rest)
  | [] => (0, [])
  end.
Definition hex_input_dec_int_until (n : N) : iospec :=
  fun vs inb => match vs with
                | [_; _] => let '(v, rest) := read_dec_int n inb in
                            match rest with
                            | [] => Some (IoEof [])
                            | b :: _ => Some (IoDone [v; b] 0 [] (used_bytes inb rest 1) [])
                            end
                | _ => None end.
(*   dst[:n] = the unsigned decimal number read from input (mod 16^n).
     Reads ASCII '0'..'9' until a '\n' or '\0' (EOF) terminator; jumps to error on any other byte.
     exit 1 = error (dst is left open on that exit) *)
Definition is_terminator (b : N) : bool := (b =? 10) || (b =? 0).
Definition hex_input_dec_uint (n : N) : iospec :=
  fun vs inb => match vs with
                | [_] => let '(v, rest) := read_dec 0 inb in
                         match rest with
                         | [] => Some (IoEof [])
                         | b :: _ => if is_terminator b then Some (IoDone [v mod 16 ^ n] 0 [] (used_bytes inb rest 1) [])
                                     else Some (IoDone [v mod 16 ^ n] 1 [] (used_bytes inb rest 1) [0%nat])
                         end
                | _ => None end.
(*   dst[:n] = the signed decimal number read from input (two's complement, mod 16^n).
     Reads an optional leading '-', then ASCII '0'..'9' until a '\n'/'\0' terminator; jumps to error on any other byte *)
Definition hex_input_dec_int (n : N) : iospec :=
  fun vs inb => match vs with
                | [_] => let '(v, rest) := read_dec_int n inb in
                         match rest with
                         | [] => Some (IoEof [])
                         | b :: _ => if is_terminator b then Some (IoDone [v] 0 [] (used_bytes inb rest 1) [])
                                     else Some (IoDone [v] 1 [] (used_bytes inb rest 1) [0%nat])
                         end
                | _ => None end.

(* ---- bit/casting.fj (no input, no output) ---- *)
Definition cast (f : list N -> option (list N * N * list nat)) : iospec :=
  fun vs _ => match f vs with Some (vs', x, cl) => Some (IoDone vs' x [] 0 cl) | None => None end.
(*   ascii := the ascii representation of the value of bin.        ascii is bit[:8], bin is a bit. *)
Definition bit_bin2ascii : iospec := cast (fun vs => match vs with [_; b] => Some ([48 + b; b], 0, []) | _ => None end).
(*   ascii := the ascii representation of the value of dec.        ascii is bit[:8], dec is bit[:4]. *)
Definition bit_dec2ascii : iospec :=
  cast (fun vs => match vs with [_; d] => if 9 <? d then None else Some ([48 + d; d], 0, []) | _ => None end).
(*   ascii := the ascii representation of the value of hex (digits & capital-letters). *)
Definition bit_hex2ascii : iospec := cast (fun vs => match vs with [_; h] => Some ([hexdig true h; h], 0, []) | _ => None end).
(*   if ascii is '0'/'1', set bit to 0/1 (end error=0).  else, set error=1.      [error; bin; ascii] *)
Definition bit_ascii2bin : iospec :=
  cast (fun vs => match vs with
                  | [_; bn; a] => if (a =? 48) || (a =? 49) then Some ([0; a - 48; a], 0, []) else Some ([1; bn; a], 0, [1%nat])
                  | _ => None end).
(*   if ascii is '0'-'9', set dec to that decimal digit value (end error=0).  else, set error=1. *)
Definition bit_ascii2dec : iospec :=
  cast (fun vs => match vs with
                  | [_; d; a] => if is_digit a then Some ([0; a - 48; a], 0, []) else Some ([1; d; a], 0, [1%nat])
                  | _ => None end).
(*   if ascii is '0'-'9'/'a'-'f'/'A'-'F', set hex to that hexadecimal digit value (end error=0).  else, set error=1.
     The documentation is silent about `ascii` afterwards and the macro does change it (it increments its low three bits on
     the letter paths): `ascii` is a clobbered operand of this macro (decision recorded with the findings ledger). *)
Definition bit_ascii2hex : iospec :=
  cast (fun vs => match vs with
                  | [_; h; a] => match hexval a with
                                 | Some v => Some ([0; v; a], 0, [2%nat])
                                 | None => Some ([1; h; a], 0, [1%nat; 2%nat]) end
                  | _ => None end).

(* ---- casting.fj ---- *)
(*   hex = bit *)
(*   hex[:(n+3)/4] = bit[:n] *)
Definition stl_bit2hex (n : N) : iospec := cast (fun vs => match vs with [_; b] => Some ([b; b], 0, []) | _ => None end).
(*   bit[:4] = hex *)
(*   bit[:4n] = hex[:n] *)
Definition stl_hex2bit (n : N) : iospec := cast (fun vs => match vs with [_; h] => Some ([h; h], 0, []) | _ => None end).
(* round trips: the value survives hex -> bit -> hex, bit -> hex -> bit, value -> ASCII -> value *)
Definition cast_roundtrip3 : iospec := cast (fun vs => match vs with [a; _; _] => Some ([a; a; a], 0, []) | _ => None end).
(*   [ascii; v; error; v2]:  v -> ascii (hex2ascii / dec2ascii / bin2ascii) -> v2, error = 0
     (kind 16: the intermediate ascii is clobbered by ascii2hex, see there) *)
Definition ascii_roundtrip (kind : N) : iospec :=
  cast (fun vs => match vs with
                  | [_; v; _; _] =>
                      if (kind =? 10) && (9 <? v) then None
                      else Some ([(if kind =? 16 then hexdig true v else 48 + v); v; 0; v], 0,
                                 if kind =? 16 then [0%nat] else [])
                  | _ => None end).

(* ---- hex/strings.fj: buffers of byte cells behind a pointer (each cell one variable, last variables len/count) ---- *)
Fixpoint line_of (l : list N) : option (list N * N) :=      (* bytes before the first '\n' / NUL, and that terminator *)
  match l with
  | [] => None
  | c :: r => if is_terminator c then Some ([], c)
              else match line_of r with Some (ln, t) => Some (c :: ln, t) | None => None end
  end.
Fixpoint overwrite (new old : list N) : list N :=
  match new, old with n :: new', _ :: old' => n :: overwrite new' old' | _, _ => old end.
(*   Reads bytes from input into a pointed buffer, until a '\n' or a 0-byte (EOF); writes the byte count into len[:w/4].
     variables: the k buffer cells, then len *)
Definition hex_input_ptr_line (k : N) : iospec :=
  fun vs inb =>
    if negb (len vs =? k + 1) then None else
    match line_of inb with
    | None => if k <? len inb then None else Some (IoEof [])      (* more unterminated bytes than cells: outside the spec *)
    | Some (ln, _) => if k <? len ln then None
                      else Some (IoDone (overwrite ln (firstn (N.to_nat k) vs) ++ [len ln]) 0 [] (8 * (len ln + 1)) [])
    end.
(*   Prints "len[:w/4]" bytes from the pointed buffer.          variables: the k cells, then len (<= k) *)
Definition hex_print_ptr_text (k : N) : iospec :=
  fun vs _ =>
    if negb (len vs =? k + 1) then None else
    let ln := nth (N.to_nat k) vs 0 in
    if k <? ln then None else pr vs (firstn (N.to_nat ln) vs).
(*   Prints bytes from the pointed buffer, until a '\n' or a 0-byte (EOF); writes the byte count into len[:w/4].
     A terminating '\n' is printed too (a terminating 0-byte is not); either way len excludes it.
     variables: the k cells, then len; a buffer without terminator is outside the spec *)
Definition hex_print_ptr_line (k : N) : iospec :=
  fun vs _ =>
    if negb (len vs =? k + 1) then None else
    match line_of (firstn (N.to_nat k) vs) with
    | None => None
    | Some (ln, t) => pr (firstn (N.to_nat k) vs ++ [len ln]) (ln ++ (if t =? 10 then [10] else []))
    end.
(*   Fills "count[:w/4]" bytes of the pointed buffer with the value byte.   All three are preserved.
     variables: the k cells, count (<= k), value[:2] *)
Definition hex_fill_bytes (k : N) : iospec :=
  fun vs _ =>
    if negb (len vs =? k + 2) then None else
    let cnt := nth (N.to_nat k) vs 0 in let v := nth (N.to_nat k + 1) vs 0 in
    if k <? cnt then None
    else pr (overwrite (repeat v (N.to_nat cnt)) (firstn (N.to_nat k) vs) ++ [cnt; v]) [].
(*   Copies "count[:w/4]" bytes from the src-pointed buffer to the dst-pointed buffer.   All three are preserved.
     variables: k dst cells, k src cells, count (<= k) *)
Definition hex_copy_bytes (k : N) : iospec :=
  fun vs _ =>
    if negb (len vs =? 2 * k + 1) then None else
    let d := firstn (N.to_nat k) vs in let s := firstn (N.to_nat k) (skipn (N.to_nat k) vs) in
    let cnt := nth (N.to_nat (2 * k)) vs 0 in
    if k <? cnt then None
    else pr (overwrite (firstn (N.to_nat cnt) s) d ++ s ++ [cnt]) [].

(* ---- exact inverses, composed: read then print (two calls in one block) ---- *)
(*   hex.input n, x ; hex.print n, x :   the n bytes read are echoed *)
Definition echo_bytes (n : N) : iospec :=
  fun vs inb => match vs with
                | [_] => if len inb <? n then Some (IoEof [])
                         else let bs := firstn (N.to_nat n) inb in Some (IoDone [le_val 256 bs] 0 bs (8 * n) [])
                | _ => None end.
(*   bit.input n, x ; bit.print n, x :   bit.input stores the first byte read as the most significant one and bit.print
     prints from the least significant byte: the n bytes read come out in REVERSE order *)
Definition echo_bytes_rev (n : N) : iospec :=
  fun vs inb => match vs with
                | [_] => if len inb <? n then Some (IoEof [])
                         else let bs := rev (firstn (N.to_nat n) inb) in Some (IoDone [le_val 256 bs] 0 bs (8 * n) [])
                | _ => None end.
(*   hex.input_dec_int n, x, error ; hex.print_dec_int n, x :   the canonical text of the number read (mod 16^n, signed) is
     printed; nothing is printed on the error exit *)
Definition echo_dec_int (n : N) : iospec :=
  fun vs inb => match vs with
                | [_] => let '(v, rest) := read_dec_int n inb in
                         match rest with
                         | [] => Some (IoEof [])
                         | b :: _ =>
                           if is_terminator b
                           then Some (IoDone [v] 0 (minus_if (is_neg (4 * n) v) ++ dec_text (magnitude (4 * n) v))
                                             (used_bytes inb rest 1) [])
                           else Some (IoDone [v] 1 [] (used_bytes inb rest 1) [0%nat])
                         end
                | _ => None end.
(*   hex.input_as_hex n, x, error ; hex.print_as_digit n, x, 0 :   the n hex digits read are printed back in lower case *)
Definition echo_hex_digits (n : N) : iospec :=
  fun vs inb => match vs with
                | [_] => match read_hex_digits (N.to_nat n) 0 inb inb with
                         | Some (IoDone [v] 0 _ u _) => Some (IoDone [v] 0 (hex_text false n v) u [])
                         | r => r
                         end
                | _ => None end.

(* ---- the SAME code instance executed twice ----
   The harness sends the fall-through exit back to the block entry once (flag b<k>_rf), so the second pass starts from
   whatever the first one left in the macro's own local cells (sign / zero / printed flags, digit buffers, carries).
   The first nv variables are the macro's; with mix = 1 the harness xors the extra variable into variable 0 between the
   passes (printers: a second, different value).  The second pass reads the input where the first one stopped (whole
   bytes).  A first pass that ends in EOF or leaves through a label exit is the result. *)
Definition io_twice (nv mix : N) (S : iospec) : iospec :=
  fun vs inb =>
    let a := firstn (N.to_nat nv) vs in
    let ex := skipn (N.to_nat nv) vs in
    match S a inb with
    | Some (IoDone v1 x1 o1 u1 c1) =>
        if negb (x1 =? 0) then Some (IoDone (v1 ++ ex) x1 o1 u1 c1) else
        if negb (u1 mod 8 =? 0) then None else
        let v1' := if mix =? 0 then v1
                   else match v1, ex with x :: r, e :: _ => N.lxor x e :: r | _, _ => v1 end in
        match S v1' (skipn (N.to_nat (u1 / 8)) inb) with
        | Some (IoDone v2 x2 o2 u2 c2) => Some (IoDone (v2 ++ ex) x2 (o1 ++ o2) (u1 + u2) (c1 ++ c2))
        | Some (IoEof o2) => Some (IoEof (o1 ++ o2))
        | None => None
        end
    | r => r
    end.

(* ---- known-defect predicates: none at present.  (The bit.input n byte order and the bit.print_as_digit n doc line, found with
   this check, were resolved in the repo by documentation fixes; guarded_io above stays available for the next one.) *)
