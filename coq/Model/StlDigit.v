(* Compositional verification of the "rep over the digit positions" macros of the standard library (DESIGN 4,
   "S beyond enumeration, by composition"): the executable side.  No proofs in this file.

   Part 1: the run instrumented with its FOOTPRINT (run_fp: the word addresses the ops read or write, and the
           written ones) - used by Proofs/Locality.v for the machine of Spec/MachineSpec.v.
   Part 2: a CHAIN: a harness block whose macro is   prologue ; digit step 0 ; ... ; digit step n-1 ; exit tail.
           The code of step i runs from the bit address A_i to A_(i+1) (ch_marks); step i works on digit position i
           (ch_rev: n-1-i, hex.cmp starts at the most significant digit).  A step may LEAVE the macro through an exit
           (ch_outs: hex.inc is done at the first digit that does not overflow, hex.cmp goes to lt/gt at the first
           differing digit); running through all steps reaches the tail of exit ch_fall at A_n.
           Between the steps the memory is the assembled image except for (a) the operand digits, (b) the digit-encoded
           temporaries PRIVATE to one step (ch_priv: `_src` of bit.add1; scratch) and (c) a few STATE CELLS (ch_cells:
           the carry kept in the jump word of the addition table or in bit.add's `carry`, word 0 whose bit 0 every
           `;label` op flips, word 1 = the entry redirect, the output port for the blocks that print an exit marker).
           Every check below is a finite computation on the image over a domain that is stated where it is used:
             pro_check              one run: op 0 .. A_0
             digit_check i (r, cv)  digits r of the row of step i (one per operand and private temporary), cell values cv:
                                    A_i .. A_(i+1) or an exit tail, compared with the digit specification D
             epi_all                every exit tail x every cell state: .. that exit's `stl.loop`, its marker printed
           each compares the WHOLE footprint of its run with `image overridden by the expected digits/cells`, and
           checks that the footprint avoids the words of every other step (so the step cannot depend on them).
   Part 3: digit specifications (dspec_add/sub/map2/map1/inc/dec/cmp) and the digit-list arithmetic they refer to.
   Proofs/StlCompose.v turns "all checks are true" into block_correct for ALL operand values. *)
From FJ Require Import Lib.Base Spec.MachineSpec Spec.StlSpec Model.StlRun.
Local Open Scope N_scope.

(* ------------------------------------------------------------------------------------------- *)
(* Part 1: the footprint of a run                                                               *)

Section W.
Variable ww : N.
Variable sg : list (N * N).

(* the words get_word may look at *)
Definition gw_touch (ba : N) : list N :=
  let wa := N.shiftr ba ww in
  if N.land ba (w ww - 1) =? 0 then [wa] else [wa; wa + 1].

(* every word one op may read or write (step_writes of Model/StlRun.v is the written part) *)
Definition step_touch (s : st) : list N :=
  gw_touch s.(ip) ++
  match get_word ww sg s.(m) s.(ip) with
  | inl _ => []
  | inr f => N.shiftr f ww :: (if covers_input ww s.(ip) then [N.shiftr (in_addr ww) ww] else [])
             ++ gw_touch (s.(ip) + w ww)
  end.

(* MachineSpec.run, logging the touched words T and the written words W *)
Fixpoint run_fp (fuel : nat) (s : st) (T W : list N) : cause * st * list N * list N :=
  match fuel with
  | O => (OutOfFuel, s, T, W)
  | S k =>
    match step ww sg s with
    | inl s' => run_fp k s' (step_touch s ++ T) (step_writes ww sg s ++ W)
    | inr (c, s') => (c, s', step_touch s ++ T, step_writes ww sg s ++ W)
    end
  end.

(* run until the op at one of the bit addresses `stops` is about to execute *)
Fixpoint run_tol (stops : list N) (fuel : nat) (s : st) (T W : list N) : option (st * list N * list N) :=
  match fuel with
  | O => None
  | S k =>
    if existsb (N.eqb s.(ip)) stops then Some (s, T, W) else
    match step ww sg s with
    | inl s' => run_tol stops k s' (step_touch s ++ T) (step_writes ww sg s ++ W)
    | inr _ => None
    end
  end.

(* run until the op at bit address `stop` is about to execute *)
Fixpoint run_to (stop : N) (fuel : nat) (s : st) (T W : list N) : option (st * list N * list N) :=
  match fuel with
  | O => None
  | S k =>
    if s.(ip) =? stop then Some (s, T, W) else
    match step ww sg s with
    | inl s' => run_to stop k s' (step_touch s ++ T) (step_writes ww sg s ++ W)
    | inr _ => None
    end
  end.

(* ------------------------------------------------------------------------------------------- *)
(* Part 2: chains                                                                               *)

(* a memory given as the image overridden by an association list (first match wins) *)
Fixpoint upd (mm : mem) (l : list (N * N)) : mem :=
  match l with [] => mm | p :: r => mset (upd mm r) (fst p) (snd p) end.
Fixpoint lookup (l : list (N * N)) (a : N) : option N :=
  match l with [] => None | p :: r => if fst p =? a then Some (snd p) else lookup r a end.
Definition over (mm : mem) (l : list (N * N)) (a : N) : N :=
  match lookup l a with Some v => v | None => mget0 mm a end.

Definition memb (a : N) (l : list N) : bool := existsb (N.eqb a) l.
Fixpoint nodupb (l : list N) : bool :=
  match l with [] => true | a :: r => negb (memb a r) && nodupb r end.
Fixpoint pairs_eqb (a b : list (N * N)) : bool :=
  match a, b with
  | [], [] => true
  | x :: a', y :: b' => (fst x =? fst y) && (snd x =? snd y) && pairs_eqb a' b'
  | _, _ => false
  end.
Fixpoint find_idx (v : N) (l : list N) : option N :=
  match l with
  | [] => None
  | x :: r => if x =? v then Some 0 else match find_idx v r with Some i => Some (i + 1) | None => None end
  end.
(* is `p` a prefix of `l` *)
Fixpoint prefixb (p l : list N) : bool :=
  match p, l with
  | [], _ => true
  | x :: p', y :: l' => (x =? y) && prefixb p' l'
  | _ :: _, [] => false
  end.
(* all lists that pick one element of each list *)
Fixpoint prod_lists (ls : list (list N)) : list (list N) :=
  match ls with
  | [] => [[]]
  | l :: r => let tl := prod_lists r in flat_map (fun v => map (cons v) tl) l
  end.

Record chain := mkchain {
  ch_block : block;                (* entry, operand variables, exits, scratch - the same descriptor the enumerated theorems use *)
  ch_bits : N;                     (* bits per digit of every operand variable (4 = hex, 1 = bit) *)
  ch_n : nat;                      (* number of digit positions *)
  ch_marks : list N;               (* A_0 .. A_n: the code of digit i runs from bit address A_i to A_(i+1) *)
  ch_cells : list (N * list N);    (* state cells: word address, the values it may hold at a mark *)
  ch_priv : list (list N);         (* per digit position: the words of the digit-encoded temporaries PRIVATE to that digit
                                      step (`_src` of bit.add1); they are scratch and behave like extra digits of the row *)
  ch_rev : bool;                   (* step i works on digit position n-1-i (hex.cmp starts at the most significant digit) *)
  ch_fall : N;                     (* the exit reached by running through all steps: after A_n comes that exit's tail *)
  ch_outs : list (N * N);          (* early leaves: (exit index, bit address where that exit's tail starts); hex.inc: (0, A_n) *)
  ch_fuel : nat                    (* evaluation budget of one segment (ops); not part of any statement *)
}.

Section Chain.
Variable img : mem.
Variable ch : chain.

Definition sh (d : N) : N := N.shiftl d (ww + 1).
Definition cvars := b_vars (ch_block ch).
(* the digit position step i works on *)
Definition pos (i : nat) : nat := if ch_rev ch then (ch_n ch - 1 - i)%nat else i.
Definition var_addrs (i : nat) : list N := map (fun x => v_jw x + 2 * N.of_nat (pos i)) cvars.
Definition priv_addrs (i : nat) : list N := nth i (ch_priv ch) [].
(* the words of digit position i: digit i of every operand, then the private temporaries of step i *)
Definition row_addrs (i : nat) : list N := var_addrs i ++ priv_addrs i.
Definition cell_addrs : list N := map fst (ch_cells ch).

(* digit k of a value *)
Definition digit (k : nat) (v : N) : N := N.land (N.shiftr v (ch_bits ch * N.of_nat k)) (N.ones (ch_bits ch)).
(* the operand part of the rows (what a digit specification and the arithmetic talk about) *)
Definition rows_of (vs : list N) : list (list N) := map (fun k => map (digit (pos k)) vs) (seq 0 (ch_n ch)).
(* the full rows at block entry: operand digits, then the private temporaries as the image has them *)
Definition priv0 (k : nat) : list N := map (fun a => N.shiftr (mget0 img a) (ww + 1)) (priv_addrs k).
Definition frows_of (vs : list N) : list (list N) := map (fun k => map (digit (pos k)) vs ++ priv0 k) (seq 0 (ch_n ch)).
Definition vpart (r : list N) : list N := firstn (length cvars) r.

(* the words of the digit steps other than i (i = ch_n: of every step): a = v_jw x + 2p for an operand x and a digit
   position p < n other than the one step i works on, or a private temporary of another step.  (The operand part is decided arithmetically:
   this runs once per footprint word of every evaluated state.) *)
Definition foreign (i : nat) (a : N) : bool :=
  existsb (fun x => if v_jw x <=? a then
                      let o := a - v_jw x in
                      if N.even o then
                        if N.div2 o <? N.of_nat (ch_n ch)
                        then negb ((i <? ch_n ch)%nat && (N.div2 o =? N.of_nat (pos i))) else false
                      else false
                    else false) cvars
  || existsb (fun p => negb (fst p =? i)%nat && memb a (snd p)) (combine (seq 0 (ch_n ch)) (ch_priv ch)).

(* the overrides: digits r at position i, cells cv *)
Definition sig_cells (cv : list N) : list (N * N) := combine cell_addrs cv.
Definition sig (i : nat) (r cv : list N) : list (N * N) := combine (row_addrs i) (map sh r) ++ sig_cells cv.

(* the value every cell has when the block is entered: the image, with word 1 redirected to the block *)
Definition cv0 : list N :=
  map (fun a => if a =? 1 then b_entry (ch_block ch) else mget0 img a) cell_addrs.

Fixpoint cv_ok (cells : list (N * list N)) (cv : list N) : bool :=
  match cells, cv with
  | [], [] => true
  | c :: cells', v :: cv' => memb v (snd c) && cv_ok cells' cv'
  | _, _ => false
  end.
Definition row_ok (i : nat) (r : list N) : bool :=
  (length r =? length (row_addrs i))%nat && forallb (fun d => d <? N.shiftl 1 (ch_bits ch)) r.

(* cell values -> their positions in the declared value lists (what a digit specification talks about) *)
Fixpoint cv_idx (cells : list (N * list N)) (cv : list N) : list N :=
  match cells, cv with
  | c :: cells', v :: cv' => match find_idx v (snd c) with Some i => i | None => 0 end :: cv_idx cells' cv'
  | _, _ => []
  end.

(* what is common to the three kinds of segment: after the run, the memory on the footprint and on the overridden
   addresses is the image overridden by what is read back there; no foreign word was touched *)
Definition seg_post (F : N -> bool) (l : list (N * N)) (sf : st) (T : list N) : option (list (N * N)) :=
  let l' := map (fun p => (fst p, mget0 sf.(m) (fst p))) l in
  if match sf.(inp) with [] => true | _ => false end
     && forallb (fun a => negb (F a)) T
     && forallb (fun a => mget0 sf.(m) a =? over img l' a) (T ++ map fst l)
  then Some l' else None.

(* a segment that ends (not halted, nothing printed) at one of the bit addresses `stops`; also returns where *)
Definition seg_eval (F : N -> bool) (A : N) (stops : list N) (l : list (N * N)) : option (list (N * N) * N) :=
  match run_tol stops (ch_fuel ch) (mkst A (upd img l) [] [] 0 []) [] [] with
  | Some (sf, T, _) => match sf.(outp) with
                       | [] => match seg_post F l sf T with Some l' => Some (l', sf.(ip)) | None => None end
                       | _ => None
                       end
  | None => None
  end.

(* a digit specification: operand digits of the step's position (one per operand), positions of the cell values
   -> the operand digits afterwards, the positions the FIRST cells must have afterwards (the others are free), and
      how the step ends: None = the next step follows; Some e = the macro LEAVES through exit e (hex.inc is done at the
      first digit that does not overflow: exit 0; hex.cmp leaves to `lt` / `gt` at the first differing digit) *)
Definition dspec := list N -> list N -> option (list N * list N * option N).

(* split an override list read back after digit i into digits and cell values *)
Definition decode (i : nat) (l' : list (N * N)) : option (list N * list N) :=
  let nr := length (row_addrs i) in
  let r' := map (fun p => N.shiftr (snd p) (ww + 1)) (firstn nr l') in
  let cv' := map snd (skipn nr l') in
  if pairs_eqb l' (sig i r' cv') && row_ok i r' && cv_ok (ch_cells ch) cv' then Some (r', cv') else None.

Definition mark (i : nat) : N := nth i (ch_marks ch) 0.

(* where a leave through exit e continues; the exit reached by running through all steps comes first *)
Definition outs' : list (N * N) := (ch_fall ch, mark (ch_n ch)) :: ch_outs ch.
Definition oN_eqb (a b : option N) : bool :=
  match a, b with None, None => true | Some x, Some y => x =? y | _, _ => false end.

(* digit step i ends at A_(i+1) (None), or at the tail of an exit (Some e) *)
Definition digit_result (i : nat) (r cv : list N) : option (list N * list N * option N) :=
  match seg_eval (foreign i) (mark i) (mark (S i) :: map snd (ch_outs ch)) (sig i r cv) with
  | Some (l', ipf) =>
    match decode i l' with
    | Some (r', cv') =>
      if ipf =? mark (S i) then Some (r', cv', None) else
      match find (fun p => snd p =? ipf) (ch_outs ch) with
      | Some p => Some (r', cv', Some (fst p))
      | None => None
      end
    | None => None
    end
  | None => None
  end.

(* at the last step, leaving through the fall-through exit to A_n is the same as running on to A_n *)
Definition same_end (i : nat) (dn' dn : option N) : bool :=
  oN_eqb dn' dn
  || ((S i =? ch_n ch)%nat && oN_eqb dn' None && oN_eqb dn (Some (ch_fall ch))
      && existsb (fun p => (fst p =? ch_fall ch) && (snd p =? mark (ch_n ch))) (ch_outs ch)).

(* THE DIGIT LEMMA's content, for one digit step and one (digits, cells) state *)
Definition digit_check (D : dspec) (i : nat) (x : list N * list N) : bool :=
  let '(r, cv) := x in
  match digit_result i r cv, D (vpart r) (cv_idx (ch_cells ch) cv) with
  | Some (r', cv', dn'), Some (r2, exp, dn) =>
      nlist_eqb (vpart r') r2 && prefixb exp (cv_idx (ch_cells ch) cv') && same_end i dn' dn
  | _, _ => false
  end.

(* the domain of the digit lemma: every digit value of every word of the row x every declared value of every cell *)
Definition digit_dom (i : nat) : list (list N * list N) :=
  let rows := prod_lists (map (fun _ => range 0 (N.shiftl 1 (ch_bits ch))) (row_addrs i)) in
  let cvs := prod_lists (map snd (ch_cells ch)) in
  flat_map (fun r => map (fun cv => (r, cv)) cvs) rows.
Definition cell_dom : list (list N) := prod_lists (map snd (ch_cells ch)).

(* prologue: op 0 (whose jump word is redirected to the block) .. A_0; pexp = the positions the first cells must have *)
Definition pro_result : option (list N) :=
  match seg_eval (foreign (ch_n ch)) 0 [mark 0] (sig_cells cv0) with
  | Some (l', _) => let cv' := map snd l' in
                    if pairs_eqb l' (sig_cells cv') && cv_ok (ch_cells ch) cv' then Some cv' else None
  | None => None
  end.
Definition pro_check (pexp : list N) : bool :=
  match pro_result with Some cv' => prefixb pexp (cv_idx (ch_cells ch) cv') | None => false end.

(* epilogue of exit e: the tail that starts at bit address A .. the self-loop of exit e, its marker printed; every cell
   ends equal to its value at block entry modulo the scratch mask *)
Definition epi_result (e A : N) (cv : list N) : option (st * list N) :=
  match nth_error (b_exits (ch_block ch)) (N.to_nat e) with
  | Some (xa, marker) =>
    match run_fp (ch_fuel ch) (mkst A (upd img (sig_cells cv)) [] [] 0 []) [] [] with
    | (Looping, sf, T, _) =>
      match seg_post (foreign (ch_n ch)) (sig_cells cv) sf T with
      | Some l' =>
        if (sf.(ip) =? xa) && out_is sf.(outp) marker
           && pairs_eqb l' (sig_cells (map snd l'))
           && forallb (fun a => eq_mod (scratch_mask (ch_block ch) a) (over img l' a) (over img (sig_cells cv0) a)) cell_addrs
        then Some (sf, map snd l') else None
      | None => None
      end
    | _ => None
    end
  | None => None
  end.
Definition epi_check (p : N * N) (cv : list N) : bool := match epi_result (fst p) (snd p) cv with Some _ => true | None => false end.
(* all tails x all cell states *)
Definition epi_all : bool := forallb (fun p => forallb (epi_check p) cell_dom) outs'.

(* the static side conditions: sizes, distinct addresses, marks, the entry state is in the domain, the private
   temporaries are digit-encoded in the image and entirely scratch *)
Definition chain_static : bool :=
  forallb (fun x => (v_bits x =? ch_bits ch) && (N.to_nat (v_n x) =? ch_n ch)%nat) cvars
  && (length (ch_marks ch) =? S (ch_n ch))%nat
  && nodupb (vars_words cvars)
  && memb 1 cell_addrs
  && forallb (fun a => negb (foreign (ch_n ch) a)) cell_addrs
  && forallb (fun i => nodupb (row_addrs i) && forallb (fun a => negb (foreign i a)) (row_addrs i)) (seq 0 (ch_n ch))
  && cv_ok (ch_cells ch) cv0
  && forallb (fun i => forallb (fun a =>
         negb (memb a (1 :: vars_words cvars))
         && (mget0 img a =? sh (N.shiftr (mget0 img a) (ww + 1))) && (N.shiftr (mget0 img a) (ww + 1) <? N.shiftl 1 (ch_bits ch))
         && forallb (fun d => eq_mod (scratch_mask (ch_block ch) a) (sh d) (mget0 img a)) (range 0 (N.shiftl 1 (ch_bits ch))))
       (priv_addrs i)) (seq 0 (ch_n ch)).

(* diagnostics for the harness (not used by theorems) *)
Definition digit_observe (D : dspec) (i : nat) (x : list N * list N) :=
  let '(r, cv) := x in
  (digit_result i r cv, D (vpart r) (cv_idx (ch_cells ch) cv),
   match run_tol (mark (S i) :: map snd (ch_outs ch)) (ch_fuel ch) (mkst (mark i) (upd img (sig i r cv)) [] [] 0 []) [] [] with
   | Some (sf, T, _) => (sf.(ops), filter (foreign i) T,
                         map (fun a => (a, mget0 sf.(m) a, mget0 img a))
                             (filter (fun a => negb (memb a (map fst (sig i r cv))) && negb (mget0 sf.(m) a =? mget0 img a)) T))
   | None => (0, [], [])
   end).

End Chain.
End W.

(* ------------------------------------------------------------------------------------------- *)
(* Part 3: digit specifications and the arithmetic of digit lists (least significant digit first) *)

Fixpoint value (B : N) (ds : list N) : N :=
  match ds with [] => 0 | d :: r => d + B * value B r end.

(* ripple-carry addition of two digit lists in base B; the last carry is dropped *)
Fixpoint ripple (B : N) (ds ss : list N) (c : N) : list N :=
  match ds, ss with
  | d :: ds', s :: ss' => (d + s + c) mod B :: ripple B ds' ss' ((d + s + c) / B)
  | _, _ => []
  end.

(* hex.add / bit.add style step: cell 0 is the carry *)
Definition dspec_add (B : N) : dspec := fun r ci =>
  match r, ci with
  | [d; s], c :: _ => Some ([(d + s + c) mod B; s], [(d + s + c) / B], None)
  | _, _ => None
  end.

(* hex.sub style step: cell 0 is the borrow *)
Definition dspec_sub (B : N) : dspec := fun r ci =>
  match r, ci with
  | [d; s], c :: _ => Some ([(d + B - s - c) mod B; s], [if d <? s + c then 1 else 0], None)
  | _, _ => None
  end.

(* digit-wise steps without any carry: dst digit := f dst src / x digit := f x *)
Definition dspec_map2 (f : N -> N -> N) : dspec := fun r _ =>
  match r with [d; s] => Some ([f d s; s], [], None) | _ => None end.
Definition dspec_map1 (f : N -> N) : dspec := fun r _ =>
  match r with [d] => Some ([f d], [], None) | _ => None end.

Fixpoint zipf (f : N -> N -> N) (ds ss : list N) : list N :=
  match ds, ss with d :: ds', s :: ss' => f d s :: zipf f ds' ss' | _, _ => [] end.

(* the documented functions of the digit-wise macros, as block specifications *)
Definition v_map2 (F : N -> N -> N) : bspec := fun vs => match vs with [d; s] => ok [F d s; s] | _ => None end.
Definition v_map1 (F : N -> N) : bspec := fun vs => match vs with [x] => ok [F x] | _ => None end.

(* hex.inc / hex.dec: one operand, the macro is done at the first digit that does not overflow / underflow *)
Definition dspec_inc (B : N) : dspec := fun r _ =>
  match r with [d] => Some ([(d + 1) mod B], [], if d =? B - 1 then None else Some 0) | _ => None end.
Definition dspec_dec (B : N) : dspec := fun r _ =>
  match r with [d] => Some ([(d + B - 1) mod B], [], if d =? 0 then None else Some 0) | _ => None end.
Fixpoint inc_digits (B : N) (ds : list N) : list N :=
  match ds with [] => [] | d :: r => if d =? B - 1 then 0 :: inc_digits B r else (d + 1) :: r end.
Fixpoint dec_digits (B : N) (ds : list N) : list N :=
  match ds with [] => [] | d :: r => if d =? 0 then (B - 1) :: dec_digits B r else (d - 1) :: r end.

(* hex.cmp: steps from the most significant digit; leaves to lt (exit 1) / gt (exit 3) at the first differing digit;
   running through all steps is eq (exit 2) *)
Definition dspec_cmp : dspec := fun r _ =>
  match r with [d; s] => Some ([d; s], [], if d <? s then Some 1 else if s <? d then Some 3 else None) | _ => None end.
Fixpoint cmp_lex (ds ss : list N) : N :=
  match ds, ss with
  | d :: ds', s :: ss' => if d <? s then 1 else if s <? d then 3 else cmp_lex ds' ss'
  | _, _ => 2
  end.

(* hex.if / bit.if n (and if0 / if1): steps from digit 0, leaves through exit x at the first non-zero digit *)
Definition dspec_if (x : N) : dspec := fun r _ =>
  match r with [d] => Some ([d], [], if d =? 0 then None else Some x) | _ => None end.

(* bit.inc n: cell 0 is the carry (set by the prologue); a step that finds it clear leaves, else dst++ with carry out *)
Definition dspec_binc : dspec := fun r ci =>
  match r, ci with
  | [d], c :: _ => if c =? 0 then Some ([d], [0], Some 0) else Some ([(d + 1) mod 2], [(d + 1) / 2], None)
  | _, _ => None
  end.

(* digit-wise steps that change both operands: dst digit := f dst src, src digit := g dst src (xor_zero, swap) *)
Definition dspec_map22 (f g : N -> N -> N) : dspec := fun r _ =>
  match r with [d; s] => Some ([f d s; g d s], [], None) | _ => None end.
Definition v_map22 (F G : N -> N -> N) : bspec := fun vs => match vs with [d; s] => ok [F d s; G d s] | _ => None end.
