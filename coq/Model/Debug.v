(* C15 - executable transcription of the debugger as coded:
     flipjump/interpreter/fjm_run.py            _run_featured (the loop with the breakpoint handler)
     flipjump/interpreter/debugging/breakpoints.py   should_break, handle_breakpoint, query_user_for_debug_action,
                                                     apply_debug_action, handle_read_memory, show_memory_address,
                                                     handle_read_f_j, calculate_variable_value
     flipjump/interpreter/debugging/user_queries.py  ask_for_command (input().strip(), EOF -> None)
     flipjump/fjm/fjm_reader.py                      Reader.get_word (with its word-address wrap)
   Text is a list of character codes; the domain is ASCII (codes < 128) lines shorter than 4300 characters.
   Not modelled: the label decoration of addresses (get_address_str / get_nice_label_repr) - only the numbers
   of every message are compared.  No proofs in this file. *)
From FJ Require Import Lib.Base Spec.MachineSpec Spec.DebugSpec.
From Coq Require Import String Ascii.
Local Open Scope N_scope.

Definition line := list N.
Definition L (s : string) : line := map N_of_ascii (list_ascii_of_string s).

Fixpoint line_eqb (a b : line) : bool :=
  match a, b with [], [] => true | x :: a', y :: b' => (x =? y) && line_eqb a' b' | _, _ => false end.
Definition in_words (c : line) (ws : list line) : bool := existsb (line_eqb c) ws.

(* ---- python text primitives (ASCII) ---- *)
Definition is_space (c : N) : bool := ((9 <=? c) && (c <=? 13)) || ((28 <=? c) && (c <=? 32)).  (* str.isspace *)
Definition is_cspace (c : N) : bool := ((9 <=? c) && (c <=? 13)) || (c =? 32).                  (* C isspace, used by int() *)
Definition lower_c (c : N) : N := if (65 <=? c) && (c <=? 90) then c + 32 else c.
Definition lower (l : line) : line := map lower_c l.

Fixpoint drop_while (p : N -> bool) (l : line) : line :=
  match l with [] => [] | c :: r => if p c then drop_while p r else l end.
Definition strip_by (p : N -> bool) (l : line) : line := rev (drop_while p (rev (drop_while p l))).
Definition strip := strip_by is_space.

(* str.split(): the maximal runs of non-space characters; cur = the run being collected, reversed *)
Fixpoint split_ws (l : line) (cur : line) : list line :=
  match l with
  | [] => match cur with [] => [] | _ => [rev cur] end
  | c :: r => if is_space c then match cur with [] => split_ws r [] | _ => rev cur :: split_ws r [] end
              else split_ws r (c :: cur)
  end.

Fixpoint join_sp (ts : list line) : line :=
  match ts with [] => [] | [t] => t | t :: r => t ++ 32 :: join_sp r end.

(* digits *)
Definition dec_digit (c : N) : option N := if (48 <=? c) && (c <=? 57) then Some (c - 48) else None.
Definition hex_digit (c : N) : option N :=
  if (48 <=? c) && (c <=? 57) then Some (c - 48)
  else if (97 <=? c) && (c <=? 102) then Some (c - 87)
  else if (65 <=? c) && (c <=? 70) then Some (c - 55) else None.
Definition oct_digit (c : N) : option N := if (48 <=? c) && (c <=? 55) then Some (c - 48) else None.
Definition bin_digit (c : N) : option N := if (48 <=? c) && (c <=? 49) then Some (c - 48) else None.
Definition zero_digit (c : N) : option N := if c =? 48 then Some 0 else None.

(* (digit | digit '_')* ending in a digit, at least one digit, no leading or doubled underscore *)
Fixpoint digs (dv : N -> option N) (base : N) (l : line) (acc : N) (prev_digit : bool) : option N :=
  match l with
  | [] => if prev_digit then Some acc else None
  | c :: r => if c =? 95 then (if prev_digit then digs dv base r acc false else None)
              else match dv c with Some d => digs dv base r (acc * base + d) true | None => None end
  end.
(* after a base prefix one underscore may come first *)
Definition digs_prefixed (dv : N -> option N) (base : N) (l : line) : option N :=
  match l with 95 :: r => digs dv base r 0 false | _ => digs dv base l 0 false end.

Definition signed (l : line) (body : line -> option N) : option Z :=
  match l with
  | 43 :: r => option_map Z.of_N (body r)
  | 45 :: r => option_map (fun n => (- Z.of_N n)%Z) (body r)
  | _ => option_map Z.of_N (body l)
  end.

(* int(s, 0) *)
Definition int0_body (l : line) : option N :=
  match l with
  | 48 :: c :: r =>
      if (c =? 120) || (c =? 88) then digs_prefixed hex_digit 16 r
      else if (c =? 111) || (c =? 79) then digs_prefixed oct_digit 8 r
      else if (c =? 98) || (c =? 66) then digs_prefixed bin_digit 2 r
      else digs zero_digit 10 l 0 false           (* a decimal literal starting with 0 is all zeros *)
  | 48 :: [] => Some 0
  | _ => digs dec_digit 10 l 0 false
  end.
Definition py_int0 (l : line) : option Z := signed (strip_by is_cspace l) int0_body.

(* int(s) and int(s, 16) *)
Definition py_int10 (l : line) : option Z := signed (strip_by is_cspace l) (fun b => digs dec_digit 10 b 0 false).
Definition int16_body (l : line) : option N :=
  match l with
  | 48 :: c :: r => if (c =? 120) || (c =? 88) then digs_prefixed hex_digit 16 r else digs hex_digit 16 l 0 false
  | _ => digs hex_digit 16 l 0 false
  end.
Definition py_int16 (l : line) : option Z := signed (strip_by is_cspace l) int16_body.

(* ---- query_user_for_debug_action: one command line ---- *)
Inductive cmd :=
| CEmpty | CHelp | CUsage | CRead (target : line) | CAct (a : action)
| CSkipNaN | CSkipNonPos (n : Z) | CUnknown.

Definition parse_line (l : line) : cmd :=
  let sl := strip l in
  match split_ws sl [] with
  | [] => CEmpty
  | t0 :: args =>
    let c := lower t0 in
    let noarg := match args with [] => true | _ => false end in
    if in_words c [L "h"; L "help"; L "?"] then CHelp
    else if in_words c [L "r"; L "read"] then (if noarg then CUsage else CRead (join_sp args))
    else if in_words c [L "s"; L "step"] && noarg then CAct AStep
    else if in_words c [L "s"; L "skip"] && negb noarg then
      match py_int0 (hd [] args) with
      | None => CSkipNaN
      | Some n => if (n <=? 0)%Z then CSkipNonPos n else CAct (ASkip (Z.to_N n))
      end
    else if in_words c [L "c"; L "cont"; L "continue"] && noarg then CAct AContinue
    else if in_words c [L "c*"; L "ca"] || line_eqb (lower sl) (L "continue all") then CAct AContinueAll
    else if in_words c [L "q"; L "quit"; L "exit"] then CAct AExit
    else CUnknown
  end.

(* ---- what the debugger prints ---- *)
Inductive event :=
| EvPause (isbp : bool) (i c : N) (f j : option N)   (* banner: title Breakpoint / Debug Step, address, ops executed,
                                                         flip, jump; None = '(outside the memory segments)' *)
| EvAct (a : action)                       (* ": step" ... printed when the prompt returns *)
| EvHelp | EvUsage | EvUnknown | EvSkipNaN | EvSkipNonPos (n : Z)
| EvReadWord (a : Z) (v : N) | EvReadVar (first last : Z) (v : N)
| EvBadAddr (a : Z) | EvReadFail (a : Z) (fault : Z) | EvInvalid.

Section W.
Variable ww : N.
Variable sg : list (N * N).
Notation w := (w ww).
Notation dw := (dw ww).
Notation wmask := (wmask ww).

(* Reader.get_word as coded: the word address is reduced mod 2^w (_bit_address_decompose); an unaligned read in
   the last word raises with the BIT address; a word outside every segment raises with the word's bit address.
   inl a = FlipJumpRuntimeMemoryException with memory_address a *)
Definition rd_get_word (mm : mem) (ba : N) : N + N :=
  let wa := N.land (N.shiftr ba ww) wmask in
  let off := N.land ba (w - 1) in
  if off =? 0 then
    match rdw sg mm wa with None => inl (N.shiftl wa ww) | Some v => inr v end
  else if wa =? wmask then inl ba
  else
    match rdw sg mm wa with
    | None => inl (N.shiftl wa ww)
    | Some lo =>
      match rdw sg mm (N.land (wa + 1) wmask) with
      | None => inl (N.shiftl (N.land (wa + 1) wmask) ww)
      | Some hi => inr (N.land (N.lor (N.shiftr lo off) (N.shiftl hi (w - off))) wmask)
      end
    end.

(* ---- reads ---- *)
(* re.match on the target with the pattern  ':' [bhBfj] digits ':' [digits+ ':'] non-colons  -> (type char, length, index), rest *)
Fixpoint span_digits (l : line) (acc : line) : line * line :=
  match l with
  | c :: r => match dec_digit c with Some _ => span_digits r (c :: acc) | None => (rev acc, l) end
  | [] => (rev acc, [])
  end.
Fixpoint take_until_colon (l : line) : line :=
  match l with [] => [] | c :: r => if c =? 58 then [] else c :: take_until_colon r end.
Definition dec_value (ds : line) : N := fold_left (fun a c => a * 10 + (c - 48)) ds 0.

Definition is_type_char (c : N) : bool := (c =? 98) || (c =? 104) || (c =? 66) || (c =? 102) || (c =? 106).

Definition parse_target (t : line) : option (N * N * N) * line :=
  match t with
  | 58 :: ty :: r =>
    if is_type_char ty then
      let '(ds, r1) := span_digits r [] in
      match r1 with
      | 58 :: r2 =>
        let len := match ds with [] => 1 | _ => dec_value ds end in
        let '(is, r3) := span_digits r2 [] in
        match is, r3 with
        | _ :: _, 58 :: r4 => (Some (ty, len, dec_value is), take_until_colon r4)
        | _, _ => (Some (ty, len, 0), take_until_colon r2)
        end
      | _ => (None, t)
      end
    else (None, t)
  | _ => (None, t)
  end.

Fixpoint lookup (tbl : list (line * Z)) (k : line) : option Z :=
  match tbl with [] => None | (n, a) :: r => if line_eqb n k then Some a else lookup r k end.

(* the list comprehension of calculate_variable_value: words at a, a+2w, ... ; the first raise wins *)
Fixpoint read_words (mm : mem) (a : N) (n : nat) : N + list N :=
  match n with
  | O => inr []
  | S k =>
    match rd_get_word mm a with
    | inl f => inl f
    | inr v => match read_words mm (a + dw) k with inl f => inl f | inr l => inr (v :: l) end
    end
  end.

Definition bits_per_word (ty : N) : N := if ty =? 98 then 1 else if ty =? 104 then 4 else 8.

Definition decode (bpw : N) (words : list N) : N :=
  fold_left (fun value word => N.lor (N.shiftl value bpw) (N.land (N.shiftr word (ww + 1)) (N.ones bpw))) (rev words) 0.

(* show_memory_address *)
Definition show_addr (mm : mem) (pre : option (N * N * N)) (a : Z) : event :=
  if negb ((a mod Z.of_N w) =? 0)%Z || (a <? 0)%Z || (Z.of_N (N.shiftl 1 w) <=? a)%Z then EvBadAddr a
  else
    let an := Z.to_N a in
    match pre with
    | None =>
      match rd_get_word mm an with inr v => EvReadWord a v | inl f => EvReadFail a (Z.of_N f) end
    | Some (ty, len, idx) =>
      if (ty =? 102) || (ty =? 106) then            (* handle_read_f_j: f / j *)
        let added := 2 * len * idx + (if ty =? 106 then 1 else 0) in
        let a' := an + w * added in
        match rd_get_word mm a' with inr v => EvReadWord (Z.of_N a') v | inl f => EvReadFail (Z.of_N a') (Z.of_N f) end
      else
        let first := an + 2 * len * idx * w in
        let last := first + 2 * w * len in
        match read_words mm (first + w) (N.to_nat len) with
        | inr ws => EvReadVar (Z.of_N first) (Z.of_N last) (decode (bits_per_word ty) ws)
        | inl f => EvReadFail a (Z.of_N f)
        end
    end.

(* handle_read_memory *)
Definition read_event (mm : mem) (tbl : list (line * Z)) (target : line) : event :=
  let '(pre, tgt) := parse_target target in
  match lookup tbl tgt with
  | Some a => show_addr mm pre a
  | None =>
    match py_int10 tgt with
    | Some a => show_addr mm pre a
    | None => match py_int16 tgt with Some a => show_addr mm pre a | None => EvInvalid end
    end
  end.

(* the prompt loop: consumes command lines until one resumes the run; no line left = EOF = exit.
   returns (action, reached EOF, what was printed, remaining lines) *)
Fixpoint query (mm : mem) (tbl : list (line * Z)) (script : list line) : action * bool * list event * list line :=
  match script with
  | [] => (AExit, true, [], [])
  | l :: rest =>
    let more e := let '(a, eof, evs, r) := query mm tbl rest in (a, eof, e ++ evs, r) in
    match parse_line l with
    | CAct a => (a, false, [], rest)
    | CEmpty => more []
    | CHelp => more [EvHelp]
    | CUsage => more [EvUsage]
    | CRead t => more [read_event mm tbl t]
    | CSkipNaN => more [EvSkipNaN]
    | CSkipNonPos n => more [EvSkipNonPos n]
    | CUnknown => more [EvUnknown]
    end
  end.

(* ---- the featured loop with the handler ---- *)
Inductive hstate := HGone | HAlive (next_break : option N).       (* HGone: handler dropped by continue-all *)
Inductive dcause := DM (c : cause) | DQuit | DEof.   (* DQuit/DEof: KeyboardInterrupt *)
Record dres := mkdres { d_cause : dcause; d_st : st; d_events : list event; d_rest : list line }.

Definition should_break (bps : list N) (nb : option N) (i c : N) : bool :=
  (match nb with Some x => x =? c | None => false end) || existsb (N.eqb i) bps.

(* register_op_address(ip) has happened when the handler runs *)
Definition touch (s : st) : st := mkst s.(ip) s.(m) s.(inp) s.(outp) s.(ops) (s.(ip) :: s.(hist)).

(* get_breakpoint_message_body / _get_word_str: the flip word and the jump word are read BEFORE the op, each on its
   own; a FlipJumpRuntimeMemoryException is caught and shown as '(outside the memory segments)' - the banner never
   ends the run (this was finding F11 before the fix) *)
Definition word_str (r : N + N) : option N := match r with inr v => Some v | inl _ => None end.
Definition banner (mm : mem) (i : N) : option N * option N :=
  (word_str (rd_get_word mm i), word_str (rd_get_word mm (i + w))).

(* apply_debug_action *)
Definition apply_action (a : action) (c : N) : option hstate :=
  match a with
  | AStep => Some (HAlive (Some (c + 1)))
  | ASkip n => Some (HAlive (Some (c + n)))
  | AContinue => Some (HAlive None)
  | AContinueAll => Some HGone
  | AExit => None                                  (* KeyboardInterrupt *)
  end.

Definition prepend (evs : list event) (r : dres) : dres :=
  mkdres r.(d_cause) r.(d_st) (evs ++ r.(d_events)) r.(d_rest).

(* the head of one loop iteration: should_break + handle_breakpoint.  PStop = the run ends here (exit); PGo = the op at ip is executed next with this handler state, remaining script and printed text *)
Inductive pre := PStop (d : dcause) (evs : list event) (rest : list line)
               | PGo (h' : hstate) (rest : list line) (evs : list event).

Definition pre_op (bps : list N) (tbl : list (line * Z)) (s : st) (h : hstate) (script : list line) : pre :=
  match h with
  | HGone => PGo HGone script []
  | HAlive nb =>
    if should_break bps nb s.(ip) s.(ops) then
      let '(f, j) := banner s.(m) s.(ip) in
      let '(act, eof, evs, rest) := query s.(m) tbl script in
      let evs' := EvPause (existsb (N.eqb s.(ip)) bps) s.(ip) s.(ops) f j :: evs ++ [EvAct act] in
      match apply_action act s.(ops) with
      | Some h' => PGo h' rest evs'
      | None => PStop (if eof then DEof else DQuit) evs' rest
      end
    else PGo h script []
  end.

Fixpoint drun (bps : list N) (tbl : list (line * Z)) (fuel : nat) (s : st) (h : hstate) (script : list line) : dres :=
  match fuel with
  | O => mkdres (DM OutOfFuel) s [] script
  | S k =>
    match pre_op bps tbl s h script with
    | PStop d evs rest => mkdres d (touch s) evs rest
    | PGo h' rest evs =>
      match step ww sg s with
      | inl s' => prepend evs (drun bps tbl k s' h' rest)
      | inr (c, s') => mkdres (DM c) s' evs rest
      end
    end
  end.

Definition debug_run (bps : list N) (tbl : list (line * Z)) (fuel : nat) (m0 : mem) (input : list bool)
                     (script : list line) : dres :=
  drun bps tbl fuel (init m0 input) (HAlive None) script.

End W.

(* ---- derived views used by the theorems and by the campaign ---- *)
Definition actions_of (script : list line) : list action :=
  flat_map (fun l => match parse_line l with CAct a => [a] | _ => [] end) script.

Definition no_quit (script : list line) : bool :=
  forallb (fun l => match parse_line l with CAct AExit => false | _ => true end) script.

Fixpoint pauses (evs : list event) : list (N * N) :=
  match evs with
  | [] => []
  | EvPause _ i c _ _ :: r => (i, c) :: pauses r
  | _ :: r => pauses r
  end.

Definition ran_dry (r : dres) : bool := match d_cause r with DEof => true | _ => false end.

(* how fjm_run.run reports the end of a debugged run: KeyboardInterrupt is not a machine cause *)
Definition reported_cause (d : dcause) : option cause :=
  match d with DM c => Some c | DQuit | DEof => None end.
Definition dobs (r : dres) : option (list bool * cause * N) :=
  match reported_cause (d_cause r) with
  | Some c => Some (outp (d_st r), c, ops (d_st r))
  | None => None
  end.

(* numeric encoding of the transcript for the campaign (same numbering as workers/debugger.py) *)
Definition action_code (a : action) : list Z :=
  match a with AStep => [0] | ASkip _ => [1] | AContinue => [2] | AContinueAll => [3] | AExit => [4] end%Z.
Definition optz (o : option N) : Z := match o with Some v => Z.of_N v | None => (-1)%Z end.
(* code 1 (a pause whose banner raised) is produced by the worker only: the model has no such event any more *)
Definition event_code (e : event) : list Z :=
  match e with
  | EvPause b i c f j => [0; if b then 1 else 0; Z.of_N i; Z.of_N c; optz f; optz j]
  | EvAct a => 2 :: action_code a
  | EvHelp => [3] | EvUsage => [4] | EvUnknown => [5] | EvSkipNaN => [6] | EvSkipNonPos n => [7; n]
  | EvReadWord a v => [8; a; Z.of_N v]
  | EvReadVar f l v => [9; f; l; Z.of_N v]
  | EvBadAddr a => [10; a]
  | EvReadFail a f => [11; a; f]
  | EvInvalid => [12]
  end%Z.

(* ---- evaluation of one campaign case (harness/fjverif/checks/c15.py) ---- *)
Record dcase := mkdcase {
  k_ww : N; k_segs : list (N * N); k_words : list (N * N); k_input : list N; k_fuel : N;
  k_bps : list N; k_tbl : list (line * Z); k_script : list line;
  (* observed on the real debugger *)
  x_cause : N; x_ops : N; x_fault : N; x_outn : N; x_outb : list N; x_outv : N;
  x_lastk : N; x_last : list N; x_mem : list (N * N); x_events : list (list Z); x_consumed : N
}.

Definition dcause_code (d : dcause) : N * N :=
  match d with
  | DM Looping => (0, 0) | DM EOFc => (1, 0) | DM NullIP => (2, 0) | DM (MemErr a) => (5, a) | DM OutOfFuel => (7, 0)
  | DQuit | DEof => (6, 0)
  end.

Definition run_dcase (c : dcase) : dres :=
  debug_run c.(k_ww) c.(k_segs) c.(k_bps) c.(k_tbl) (N.to_nat c.(k_fuel))
            (mem_of_list c.(k_words)) (bytes_bits c.(k_input)) c.(k_script).

Fixpoint nlist_eqb (a b : list N) : bool :=
  match a, b with [], [] => true | x :: a', y :: b' => (x =? y) && nlist_eqb a' b' | _, _ => false end.
Fixpoint zlist_eqb (a b : list Z) : bool :=
  match a, b with [], [] => true | x :: a', y :: b' => (x =? y)%Z && zlist_eqb a' b' | _, _ => false end.
Fixpoint zlists_eqb (a b : list (list Z)) : bool :=
  match a, b with [], [] => true | x :: a', y :: b' => zlist_eqb x y && zlists_eqb a' b' | _, _ => false end.

Definition nonzero_words (mm : mem) : N := PositiveMap.fold (fun _ v n => if v =? 0 then n else n + 1) mm 0.

(* what the model predicts, in the shape the worker reports *)
Definition dobserve (c : dcase) :=
  let r := run_dcase c in
  let s := d_st r in
  let '(ob, ot) := out_bytes s.(outp) in
  (dcause_code (d_cause r), s.(ops), (N.of_nat (List.length s.(outp)), ob, bits_val ot),
   rev (firstn (N.to_nat c.(x_lastk)) s.(hist)), map event_code (d_events r),
   N.of_nat (List.length c.(k_script) - List.length (d_rest r)), nonzero_words s.(m)).

Definition check_dcase (c : dcase) : bool :=
  let r := run_dcase c in
  let s := d_st r in
  let '(cc, fa) := dcause_code (d_cause r) in
  let '(ob, ot) := out_bytes s.(outp) in
  (cc =? c.(x_cause)) && (fa =? c.(x_fault)) && (s.(ops) =? c.(x_ops)) &&
  (N.of_nat (List.length s.(outp)) =? c.(x_outn)) && nlist_eqb ob c.(x_outb) && (bits_val ot =? c.(x_outv)) &&
  nlist_eqb (rev (firstn (N.to_nat c.(x_lastk)) s.(hist))) c.(x_last) &&
  forallb (fun p => mget0 s.(m) (fst p) =? snd p) c.(x_mem) && (nonzero_words s.(m) =? N.of_nat (List.length c.(x_mem))) &&
  zlists_eqb (map event_code (d_events r)) c.(x_events) &&
  (N.of_nat (List.length c.(k_script) - List.length (d_rest r)) =? c.(x_consumed)).

(* the pause specification evaluated on the OBSERVED transcript: the (address, ops executed) pairs the real
   debugger printed against expected_pauses over the undebugged machine trace. *)
Fixpoint observed_pauses (evs : list (list Z)) : list (N * N) :=
  match evs with
  | [] => []
  | (0 :: _ :: i :: c :: _)%Z :: r => (Z.to_N i, Z.to_N c) :: observed_pauses r
  | _ :: r => observed_pauses r
  end.
Fixpoint pairs_eqb (a b : list (N * N)) : bool :=
  match a, b with [], [] => true
  | x :: a', y :: b' => (fst x =? fst y) && (snd x =? snd y) && pairs_eqb a' b' | _, _ => false end.
Definition spec_pauses_dcase (c : dcase) : bool :=
  let tr := trace c.(k_ww) c.(k_segs) (N.to_nat c.(k_fuel)) (init (mem_of_list c.(k_words)) (bytes_bits c.(k_input))) in
  let ex := expected_pauses c.(k_bps) tr None (actions_of c.(k_script)) in
  pairs_eqb (observed_pauses c.(x_events)) ex.

(* triage helper: is the first event on which model and observation differ a read answer? *)
Fixpoint first_diff (a b : list (list Z)) : option (list Z * list Z) :=
  match a, b with
  | [], [] => None
  | x :: a', y :: b' => if zlist_eqb x y then first_diff a' b' else Some (x, y)
  | x :: _, [] => Some (x, [])
  | [], y :: _ => Some ([], y)
  end.
Definition is_read_code (e : list Z) : bool := match e with c :: _ => (8 <=? c)%Z && (c <=? 12)%Z | [] => false end.
Definition diff_is_read (c : dcase) : bool :=
  match first_diff (map event_code (d_events (run_dcase c))) c.(x_events) with
  | Some (x, y) => is_read_code x || is_read_code y
  | None => false
  end.
