From FJ Require Import Lib.Base Lib.Bytes Spec.ImageSpec.
(* Executable transcription of flipjump/fjm/{fjm_consts,fjm_writer,fjm_reader}.py (DESIGN 3.2).
   No proofs in this file.

   Python ints are Z in the writer (callers may pass negative / oversized values) and N in the reader
   (everything comes out of struct.unpack).  Every way a call can end is a constructor:
     writer call : OpOk | OpLib (FlipJumpWriteFjmException) | OpRaw e (any other exception)
     write       : WOk file | WLib | WRaw e partial-file-left-on-disk
     read        : ROk image | RErr k (FlipJumpReadFjmException) | RRaw e (any other exception)
   LZMA is a pair of function arguments (compress, decompress); theorems take them as Section
   variables, campaigns pass the answers of the real codec.

   The model follows the tree after the `fix:` commits 3bd0fc0 (writer validates what the format cannot
   represent, F3-F5), ff20c4b (reader validates the segment table, F6) and 0d847a9 (reader rejects a segment
   whose end is not a 64-bit word address, F19). *)

(* ---- fjm_consts.py ------------------------------------------------------------------------------- *)

Definition FJ_MAGIC : N := 19014.                 (* ord('F') + (ord('J') << 8) = 0x4a46 *)
Definition reserved_dict_threshold : N := 1000.
Definition header_base_size : nat := 20.          (* '<HHQQ' *)
Definition header_extension_size : nat := 12.     (* '<QL'   *)
Definition segment_size : nat := 32.              (* '<QQQQ' *)
Definition max_version : N := 3.                  (* FJMVersion: 0 Base, 1 Normal, 2 RelativeJump, 3 Compressed *)

(* {8: 'B', 16: 'H', 32: 'L', 64: 'Q'}[w] -> bytes per word; None = KeyError *)
Definition word_bytes (w : N) : option nat :=
  if (w =? 8)%N then Some 1%nat else if (w =? 16)%N then Some 2%nat else
  if (w =? 32)%N then Some 4%nat else if (w =? 64)%N then Some 8%nat else None.

Definition supported_width (w : N) : bool := ((w =? 8) || (w =? 16) || (w =? 32) || (w =? 64))%N.

(* ================================================================================================= *)
(* Writer                                                                                            *)
(* ================================================================================================= *)
Section Writer.
Local Open Scope Z_scope.

Inductive wexn := ExStruct | ExIndex | ExKey.      (* struct.error, IndexError, KeyError *)

Record wcfg := mkcfg { c_w : Z; c_ver : Z; c_flags : Z; c_preset : Z }.
Record wstate := mkws { ws_segs : list (Z * Z * Z * Z); ws_data : list Z }.

Definition ws_empty := mkws [] [].

(* Writer.__init__: false = FlipJumpWriteFjmException.  (version arrives as an FJMVersion member) *)
Definition cfg_valid (c : wcfg) : bool :=
  (0 <=? c_w c) && supported_width (Z.to_N (c_w c)) &&
  (0 <=? c_ver c) && (c_ver c <=? 3) &&
  (0 <=? c_flags c) && (c_flags c <? 2 ^ 64) &&
  (negb (c_ver c =? 0) || (c_flags c =? 0)) &&
  (negb (c_ver c =? 3) || ((0 <=? c_preset c) && (c_preset c <=? 9))).

Definition is_rel (c : wcfg) : bool := (c_ver c =? 2) || (c_ver c =? 3).

Inductive opres := OpOk (st : wstate) (ret : Z) | OpLib | OpRaw (e : wexn).

Definition word_ok (w x : Z) : bool := (0 <=? x) && (x <? 2 ^ w).

(* add_data: the loop over the words raises at the first one outside [0, 2^w), before anything is appended *)
Definition add_data (c : wcfg) (st : wstate) (l : list Z) : opres :=
  if negb (forallb (word_ok (c_w c)) l) then OpLib else
  OpOk (mkws (ws_segs st) (ws_data st ++ l)) (Z.of_nat (length (ws_data st))).

(* _is_collision, on closed intervals [start, end] *)
Definition is_collision (s1 e1 s2 e2 : Z) : bool :=
  ((s2 <=? s1) && (s1 <=? e2)) || ((s2 <=? e1) && (e1 <=? e2)) ||
  ((s1 <=? s2) && (s2 <=? e1)) || ((s1 <=? e2) && (e2 <=? e1)).

(* _validate_segment_addresses_not_overlapping: true = raises *)
Definition addresses_overlap (segs : list (Z * Z * Z * Z)) (s l : Z) : bool :=
  existsb (fun seg => let '(ss, sl, _, _) := seg in is_collision ss (ss + sl - 1) s (s + l - 1)) segs.

(* _validate_segment_data_not_overlapping: true = raises *)
Definition data_overlap (segs : list (Z * Z * Z * Z)) (ds dl : Z) : bool :=
  if dl =? 0 then false else
  existsb (fun seg => let '(_, _, ds', dl') := seg in
                      if dl' =? 0 then false else is_collision ds' (ds' + dl' - 1) ds (ds + dl - 1)) segs.

(* Python list indexing self.data[k]: negative k counts from the end; None = IndexError *)
Definition py_index (len k : Z) : option nat :=
  if (0 <=? k) && (k <? len) then Some (Z.to_nat k)
  else if (- len <=? k) && (k <? 0) then Some (Z.to_nat (len + k))
  else None.

Fixpoint set_nth (l : list Z) (n : nat) (v : Z) : list Z :=
  match l, n with
  | [], _ => []
  | _ :: r, O => v :: r
  | x :: r, S k => x :: set_nth r k v
  end.

(* the body of _update_to_relative_jumps, n iterations starting at i (i = 1, 3, 5, ...) *)
Fixpoint rel_loop (n : nat) (w s ds i : Z) (data : list Z) : option (list Z) :=
  match n with
  | O => Some data
  | S n' =>
    match py_index (Z.of_nat (length data)) (ds + i) with
    | None => None
    | Some k => rel_loop n' w s ds (i + 2)
                  (set_nth data k (Z.land (nth k data 0 - (s + i) * w) (Z.ones w)))
    end
  end.

(* _update_to_relative_jumps: for i in range(1, data_length, 2).  The loop runs dl/2 times; its
   indices ds+1, ds+3, .. increase through Python's contiguous valid index range [-len, len), so it
   raises IndexError iff its first index is below -len or its last index is at or above len.  These two
   tests come first only to keep the iteration count of the model bounded by the pool length. *)
Definition update_to_relative_jumps (w s ds dl : Z) (data : list Z) : option (list Z) :=
  let len := Z.of_nat (length data) in
  let n := dl / 2 in
  if dl <? 2 then Some data else
  if (ds + 1 <? - len) || (len <=? ds + 2 * n - 1) then None else
  rel_loop (Z.to_nat n) w s ds 1 data.

(* add_segment *)
Definition add_segment (c : wcfg) (st : wstate) (s l ds dl : Z) : opres :=
  if l <=? 0 then OpLib else
  if l <? dl then OpLib else
  if (s mod 2 =? 1) || (l mod 2 =? 1) then OpLib else
  if dl mod 2 =? 1 then OpLib else
  if (s <? 0) || (2 ^ 64 <=? s + l) then OpLib else
  if (ds <? 0) || (dl <? 0) || (Z.of_nat (length (ws_data st)) <? ds + dl) then OpLib else
  if addresses_overlap (ws_segs st) s l then OpLib else
  if is_rel c && data_overlap (ws_segs st) ds dl then OpLib else
  if is_rel c then
    match update_to_relative_jumps (c_w c) s ds dl (ws_data st) with
    | None => OpRaw ExIndex
    | Some d => OpOk (mkws (ws_segs st ++ [(s, l, ds, dl)]) d) 0
    end
  else OpOk (mkws (ws_segs st ++ [(s, l, ds, dl)]) (ws_data st)) 0.

(* struct.pack of one unsigned little-endian field of n bytes; None = struct.error *)
Definition pack_u (n : nat) (v : Z) : option bytes :=
  if (0 <=? v) && (v <? 256 ^ Z.of_nat n) then Some (le_enc n (Z.to_N v)) else None.

Definition pack_seg (seg : Z * Z * Z * Z) : option bytes :=
  let '(s, l, ds, dl) := seg in
  match pack_u 8 s, pack_u 8 l, pack_u 8 ds, pack_u 8 dl with
  | Some a, Some b, Some c, Some d => Some (a ++ b ++ c ++ d)
  | _, _, _, _ => None
  end.

(* the loop "for segment in self.segments: f.write(pack(...))": bytes written, and whether it completed *)
Fixpoint pack_segs (segs : list (Z * Z * Z * Z)) : bytes * bool :=
  match segs with
  | [] => ([], true)
  | s :: r => match pack_seg s with
              | None => ([], false)
              | Some b => let '(rb, ok) := pack_segs r in (b ++ rb, ok)
              end
  end.

Fixpoint pack_words (wb : nat) (data : list Z) : option bytes :=
  match data with
  | [] => Some []
  | x :: r => match pack_u wb x with
              | None => None
              | Some b => match pack_words wb r with None => None | Some rb => Some (b ++ rb) end
              end
  end.

Inductive wres := WOk (file : bytes) | WLib | WRaw (e : wexn) (partial : bytes).

(* write_to_file.  The file is opened (truncated) before anything is packed, so an exception leaves
   what had been written so far. *)
Definition write (compress : bytes -> option bytes) (c : wcfg) (st : wstate) : wres :=
  match word_bytes (Z.to_N (c_w c)) with
  | None => WRaw ExKey []      (* raised before open() *)
  | Some wb =>
    match pack_u 2 (Z.of_N FJ_MAGIC), pack_u 2 (c_w c), pack_u 8 (c_ver c), pack_u 8 (Z.of_nat (length (ws_segs st))) with
    | Some a, Some b, Some cc, Some d =>
      let hdr := a ++ b ++ cc ++ d in
      match (if c_ver c =? 0 then Some [] else
             match pack_u 8 (c_flags c), pack_u 4 0 with Some x, Some y => Some (x ++ y) | _, _ => None end) with
      | None => WRaw ExStruct hdr
      | Some ext =>
        let '(sb, ok) := pack_segs (ws_segs st) in
        if negb ok then WRaw ExStruct (hdr ++ ext ++ sb) else
        match pack_words wb (ws_data st) with
        | None => WRaw ExStruct (hdr ++ ext ++ sb)
        | Some raw =>
          if c_ver c =? 3 then
            match compress raw with
            | None => WLib                      (* lzma.LZMAError -> FlipJumpWriteFjmException *)
            | Some z => WOk (hdr ++ ext ++ sb ++ z)
            end
          else WOk (hdr ++ ext ++ sb ++ raw)
        end
      end
    | _, _, _, _ => WRaw ExStruct []
    end
  end.

(* a sequence of calls on one Writer *)
Inductive wop := AddData (l : list Z) | AddSeg (s l ds dl : Z).

Definition apply_op (c : wcfg) (st : wstate) (op : wop) : opres :=
  match op with
  | AddData l => add_data c st l
  | AddSeg s l ds dl => add_segment c st s l ds dl
  end.

(* runs the calls in order; a library error leaves the state unchanged and the sequence goes on (all
   library-error exits of add_segment/add_data precede every mutation); any other exception ends it.
   Result: the per-call outcomes (0 ok + return value, 1 library error, 2/3/4 other exception) and the
   final state (None after an other exception). *)
Definition wexn_code (e : wexn) : N := match e with ExStruct => 2%N | ExIndex => 3%N | ExKey => 4%N end.

Fixpoint exec (c : wcfg) (ops : list wop) (st : wstate) : list (N * Z) * option wstate :=
  match ops with
  | [] => ([], Some st)
  | op :: r =>
    match apply_op c st op with
    | OpOk st' ret => let '(l, f) := exec c r st' in ((0%N, ret) :: l, f)
    | OpLib => let '(l, f) := exec c r st in ((1%N, 0) :: l, f)
    | OpRaw e => ([(wexn_code e, 0)], None)
    end
  end.

(* pool and table small enough for their lengths / offsets to be u64 (always so on a real machine) *)
Definition fits_u64 (st : wstate) : bool :=
  (Z.of_nat (length (ws_data st)) <? 2 ^ 64) && (Z.of_nat (length (ws_segs st)) <? 2 ^ 64).

End Writer.

(* ================================================================================================= *)
(* Reader                                                                                            *)
(* ================================================================================================= *)
Section Reader.
Local Open Scope N_scope.

Inductive rerr := EStruct | EVersion | EMagic | EWidth | EReserved | ELzma | EOddData | EPool | ETable.
Inductive rexn := RxKey | RxIndex | RxFuel.       (* KeyError, IndexError; RxFuel = the model's own fuel ran out *)

Record image := mkimg {
  i_w : N; i_ver : N; i_flags : N;
  i_table : list tseg;            (* the raw segment table (not kept by the Reader; used by the C10 statement) *)
  i_pool_len : N;                 (* number of words in the data pool *)
  i_segs : list (N * N);          (* Reader.memory_segments *)
  i_mem : mem;                    (* Reader.memory *)
  i_zeros : list (N * N)          (* Reader.zeros_boundaries *)
}.

Inductive rres := ROk (i : image) | RErr (k : rerr) | RRaw (e : rexn).

(* two loaded images are the same Reader state (the Reader does not keep the pool) *)
Definition same_loaded (a b : image) : Prop :=
  i_w a = i_w b /\ i_ver a = i_ver b /\ i_flags a = i_flags b /\ i_table a = i_table b /\
  i_segs a = i_segs b /\ i_mem a = i_mem b /\ i_zeros a = i_zeros b.

(* _init_segments: [unpack('<QQQQ', f.read(32)) for _ in range(segment_num)] *)
Definition seg_of_bytes (c : bytes) : tseg := (u_at 0 8 c, u_at 8 8 c, u_at 16 8 c, u_at 24 8 c).

Fixpoint read_segs (k : nat) (b : bytes) : option (list tseg * bytes) :=
  match k with
  | O => Some ([], b)
  | S k' => match take segment_size b with
            | None => None
            | Some (c, r) => match read_segs k' r with
                             | None => None
                             | Some (l, r') => Some (seg_of_bytes c :: l, r')
                             end
            end
  end.

(* The same comprehension exactly as Python runs it, with its cost: `range(segment_num)` is lazy (O(1) even for
   segment_num = 2^64-1), each iteration does one f.read(32) + unpack, and the first short read raises
   struct.error.  Returns (number of reads performed, outcome).  fuel = S (len(remaining bytes)); it is never
   exhausted (Proofs/FjmBound.v), and the outcome equals the bounded form used in read_thr. *)
Fixpoint init_segments_loop (fuel : nat) (n : N) (b : bytes) : nat * option (list tseg * bytes) :=
  if n =? 0 then (O, Some ([], b)) else
  match fuel with
  | O => (O, None)
  | S f =>
    match take segment_size b with
    | None => (1%nat, None)
    | Some (c, r) =>
      let '(k, res) := init_segments_loop f (n - 1) r in
      (S k, match res with None => None | Some (l, r') => Some (seg_of_bytes c :: l, r') end)
    end
  end.

(* [unpack(tag, file_data[i:i+wb])[0] for i in range(0, len(file_data), wb)]: a trailing partial word
   is a struct.error.  fuel = len(file_data). *)
Inductive ures := UOk (l : list N) | UStruct | UFuel.

Fixpoint unpack_words (fuel wb : nat) (b : bytes) : ures :=
  match b with
  | [] => UOk []
  | _ :: _ =>
    match fuel with
    | O => UFuel
    | S f => match take wb b with
             | None => UStruct
             | Some (c, r) => match unpack_words f wb r with
                              | UOk l => UOk (le_dec c :: l)
                              | e => e
                              end
             end
    end
  end.

(* for i in range(data_length): memory[segment_start + i] = data[data_start + i] *)
Fixpoint store_plain (m : mem) (a : N) (ws : list N) : mem :=
  match ws with [] => m | x :: r => store_plain (mset m a x) (a + 1) r end.

(* for i in range(0, data_length, 2): memory[s+i] = data[ds+i];
                                      memory[s+i+1] = (data[ds+i+1] + (s+i+1) * w) & ((1 << w) - 1) *)
Fixpoint store_rel (w : N) (m : mem) (a : N) (ws : list N) : mem :=
  match ws with
  | x :: y :: r => store_rel w (mset (mset m a x) (a + 1) (N.land (y + (a + 1) * w) (N.ones w))) (a + 2) r
  | _ => m
  end.

(* for i in range(data_length, segment_length): memory[segment_start + i] = 0 *)
Fixpoint zero_fill (m : mem) (a : N) (n : nat) : mem :=
  match n with O => m | S k => zero_fill (mset m a 0) (a + 1) k end.

(* _validate_segments: true = raises FlipJumpReadFjmException *)
Definition seg_shape_bad (t : tseg) : bool :=
  let '(ss, sl, _, dl) := t in (sl =? 0) || N.odd ss || N.odd sl || (sl <? dl) || (2 ^ 64 <=? ss + sl).

(* sorted(...) of (start, end) tuples: lexicographic order; any sort returns the same list *)
Definition range_leb (a b : N * N) : bool := (fst a <? fst b) || ((fst a =? fst b) && (snd a <=? snd b)).
Fixpoint insert_range (x : N * N) (l : list (N * N)) : list (N * N) :=
  match l with
  | [] => [x]
  | y :: r => if range_leb x y then x :: l else y :: insert_range x r
  end.
Definition sort_ranges (l : list (N * N)) : list (N * N) := fold_right insert_range [] l.

(* for (_, previous_end), (next_start, _) in zip(s, s[1:]): next_start < previous_end *)
Fixpoint adjacent_overlap (l : list (N * N)) : bool :=
  match l with
  | a :: (b :: _) as r => (fst b <? snd a) || adjacent_overlap r
  | _ => false
  end.

Definition validate_segments (table : list tseg) : bool :=
  existsb seg_shape_bad table ||
  adjacent_overlap (sort_ranges (map (fun t : tseg => let '(ss, sl, _, _) := t in (ss, ss + sl)) table)).

Inductive sres := SOk (m : mem) (z : list (N * N)) | SErr (k : rerr) | SRaw (e : rexn).

(* the body of the loop of _init_memory for one table entry *)
Definition init_segment (thr w : N) (rel : bool) (data : list N) (dlen : N) (m : mem) (t : tseg) : sres :=
  let '(ss, sl, ds, dl) := t in
  if N.odd dl then SErr EOddData else
  if dlen <? ds + dl then SErr EPool else
  let ws := firstn (N.to_nat dl) (skipn (N.to_nat ds) data) in
  if N.of_nat (length ws) <? dl then SRaw RxIndex else     (* data[data_start + i] out of range *)
  let m1 := if rel then store_rel w m ss ws else store_plain m ss ws in
  if dl <? sl then
    if sl - dl <? thr then SOk (zero_fill m1 (ss + dl) (N.to_nat (sl - dl))) []
    else SOk m1 [(ss + dl, ss + sl)]
  else SOk m1 [].

Inductive mres := MOk (segs : list (N * N)) (m : mem) (z : list (N * N)) | MErr (k : rerr) | MRaw (e : rexn).

Fixpoint init_memory (thr w : N) (rel : bool) (data : list N) (dlen : N) (m : mem) (table : list tseg) : mres :=
  match table with
  | [] => MOk [] m []
  | t :: r =>
    match init_segment thr w rel data dlen m t with
    | SErr k => MErr k
    | SRaw e => MRaw e
    | SOk m1 z1 =>
      let sg := (fst (fst (fst t)), snd (fst (fst t))) in
      match init_memory thr w rel data dlen m1 r with
      | MOk segs m2 z2 => MOk (sg :: segs) m2 (z1 ++ z2)
      | e => e
      end
    end
  end.

(* Reader.__init__ *)
Definition read_thr (thr : N) (decompress : bytes -> option bytes) (b : bytes) : rres :=
  (* _init_header_fields *)
  match take header_base_size b with
  | None => RErr EStruct
  | Some (h, r1) =>
    let magic := u_at 0 2 h in
    let w := u_at 2 2 h in
    let ver := u_at 4 8 h in
    let segnum := u_at 12 8 h in
    if max_version <? ver then RErr EVersion else          (* FJMVersion(version) -> ValueError *)
    match (if ver =? 0 then Some (0, 0, r1)
           else match take header_extension_size r1 with
                | None => None
                | Some (e, r2) => Some (u_at 0 8 e, u_at 8 4 e, r2)
                end) with
    | None => RErr EStruct
    | Some (flags, reserved, r2) =>
      (* _validate_header *)
      if negb (magic =? FJ_MAGIC) then RErr EMagic else
      if negb (supported_width w) then RErr EWidth else
      if negb (reserved =? 0) then RErr EReserved else
      (* _init_segments: the comprehension hits a short read (struct.error) before it ends whenever
         32 * segment_num exceeds what is left; tested first so that the iteration count is bounded *)
      if N.of_nat (length r2) <? 32 * segnum then RErr EStruct else
      match read_segs (N.to_nat segnum) r2 with
      | None => RErr EStruct
      | Some (table, payload) =>
        (* _read_decompressed_data *)
        match word_bytes w with
        | None => RRaw RxKey
        | Some wb =>
          match (if ver =? 3 then decompress payload else Some payload) with
          | None => RErr ELzma
          | Some fd =>
            match unpack_words (length fd) wb fd with
            | UStruct => RErr EStruct
            | UFuel => RRaw RxFuel
            | UOk data =>
              (* _init_memory *)
              if validate_segments table then RErr ETable else
              let dlen := N.of_nat (length data) in
              match init_memory thr w ((ver =? 2) || (ver =? 3)) data dlen (PositiveMap.empty N) table with
              | MErr k => RErr k
              | MRaw e => RRaw e
              | MOk segs m z => ROk (mkimg w ver flags table dlen segs m z)
              end
            end
          end
        end
      end
    end
  end.

Definition read := read_thr reserved_dict_threshold.

(* _get_memory_word under GarbageHandling.Stop, without the memoisation of zeros: None = memory error *)
Definition get_memory_word (i : image) (a : N) : option N :=
  word_of (i_mem i) (i_zeros i) (N.land a (N.ones (i_w i))).

(* get_word(bit_address): inl (memory_address of the exception) | inr word *)
Definition get_word (i : image) (ba : N) : N + N :=
  let w := i_w i in
  let ww := N.log2 w in                                     (* w.bit_length() - 1 *)
  let wa := N.land (N.shiftr ba ww) (N.ones w) in
  let off := N.land ba (w - 1) in
  let rd (a : N) : N + N :=
    match get_memory_word i a with
    | Some v => inr v
    | None => inl (N.shiftl (N.land a (N.ones w)) ww)
    end in
  if off =? 0 then rd wa else
  if wa =? N.ones w then inl ba else
  match rd wa with
  | inl e => inl e
  | inr lsw => match rd (wa + 1) with
               | inl e => inl e
               | inr msw => inr (N.land (N.lor (N.shiftr lsw off) (N.shiftl msw (w - off))) (N.ones w))
               end
  end.

(* assert_runnable: false = FlipJumpReadFjmException *)
Definition runnable (i : image) : bool :=
  existsb (fun s => (fst s =? 0) && (2 <=? snd s)) (i_segs i).

End Reader.

(* ================================================================================================= *)
(* Campaign glue: one record per case holding the input and what the real code did (harness/fjverif/  *)
(* checks/c06.py, c10.py).  check* compares with the model, spec* evaluates the spec on the observed  *)
(* behaviour.                                                                                        *)
(* ================================================================================================= *)
Section Glue.
Local Open Scope N_scope.

Fixpoint pairs_eqb (a b : list (N * N)) : bool :=
  match a, b with
  | [], [] => true
  | x :: a', y :: b' => (fst x =? fst y) && (snd x =? snd y) && pairs_eqb a' b'
  | _, _ => false
  end.

Fixpoint zpairs_eqb (a b : list (N * Z)) : bool :=
  match a, b with
  | [], [] => true
  | x :: a', y :: b' => (fst x =? fst y) && (snd x =? snd y)%Z && zpairs_eqb a' b'
  | _, _ => false
  end.

(* the map equals the finite list of (address, value) pairs (addresses pairwise different) *)
Definition mem_eqb (m : mem) (l : list (N * N)) : bool :=
  (N.of_nat (PositiveMap.cardinal m) =? N.of_nat (length l)) &&
  forallb (fun p => match mget m (fst p) with Some v => v =? snd p | None => false end) l.

(* compact literal of an observed Reader.memory: runs (start, explicit values, number of zeros that follow) *)
Fixpoint vals_from (a : N) (vs : list N) : list (N * N) :=
  match vs with [] => [] | v :: r => (a, v) :: vals_from (a + 1) r end.
Fixpoint zeros_from (a : N) (n : nat) : list (N * N) :=
  match n with O => [] | S k => (a, 0) :: zeros_from (a + 1) k end.
Definition expand_mem (runs : list (N * list N * N)) : list (N * N) :=
  flat_map (fun r => let '(a, vs, nz) := r in
                     vals_from a vs ++ zeros_from (a + N.of_nat (length vs)) (N.to_nat nz)) runs.

(* a probe: bit address, kind (0 = word, 1 = memory error), value or memory_address *)
Definition probe_eqb (r : N + N) (kind v : N) : bool :=
  match r with inr x => (kind =? 0) && (x =? v) | inl a => (kind =? 1) && (a =? v) end.

(* ---- C06 ---------------------------------------------------------------------------------------- *)

Record c06 := mk06 {
  k_w : Z; k_ver : Z; k_flags : Z; k_preset : Z;
  k_ops : list wop;
  (* observed on the real Writer / Reader *)
  k_ctor : bool;                       (* the constructor accepted the configuration *)
  k_opres : list (N * Z);              (* per call: outcome code and return value, up to the first other exception *)
  k_write : N;                         (* 0 ok, 1 library error, 2/3/4 other exception, 9 not attempted *)
  k_file : bytes;                      (* the file, or what an exception left on disk *)
  k_lz : option (bytes * bytes);       (* v3: (compressed payload, its decompression by the real codec) *)
  k_read : N;                          (* 0 image, 1 read error, 2 other exception, 9 not attempted *)
  k_segs : list (N * N); k_mem : list (N * N); k_zeros : list (N * N);
  k_probes : list (N * N * N)          (* get_word probes: bit address, kind, value *)
}.

Definition lz_compress (c : c06) : bytes -> option bytes :=
  fun raw => match k_lz c with
             | Some (z, d) => if bytes_eqb raw d then Some z else None
             | None => None
             end.
Definition lz_decompress (c : c06) : bytes -> option bytes :=
  fun z => match k_lz c with
           | Some (z', d) => if bytes_eqb z z' then Some d else None
           | None => None
           end.

Definition wres_code (r : wres) : N * bytes :=
  match r with WOk f => (0, f) | WLib => (1, []) | WRaw e p => (wexn_code e, p) end.

Definition check06 (c : c06) : bool :=
  let cfg := mkcfg (k_w c) (k_ver c) (k_flags c) (k_preset c) in
  if negb (cfg_valid cfg) then negb (k_ctor c) else
  k_ctor c &&
  let '(res, fin) := exec cfg (k_ops c) ws_empty in
  zpairs_eqb res (k_opres c) &&
  match fin with
  | None => k_write c =? 9
  | Some st =>
    let '(code, file) := wres_code (write (lz_compress c) cfg st) in
    (code =? k_write c) && bytes_eqb file (k_file c) &&
    if code =? 0 then
      match read (lz_decompress c) file with
      | ROk i => (k_read c =? 0) && pairs_eqb (i_segs i) (k_segs c) && mem_eqb (i_mem i) (k_mem c) &&
                 pairs_eqb (i_zeros i) (k_zeros c) &&
                 forallb (fun p => probe_eqb (get_word i (fst (fst p))) (snd (fst p)) (snd p)) (k_probes c)
      | RErr _ => k_read c =? 1
      | RRaw _ => false
      end
    else k_read c =? 9
  end.

(* The spec on the observed behaviour.  The logical image is computed from the calls and from which
   of them the real writer accepted - nothing else of the implementation enters. *)
Fixpoint zs_to_ns (l : list Z) : option (list N) :=
  match l with
  | [] => Some []
  | x :: r => if (x <? 0)%Z then None else
              match zs_to_ns r with None => None | Some t => Some (Z.to_N x :: t) end
  end.

(* logical pool and declared segments; None = some accepted call has no meaning as an image
   (negative field or word, data range outside the words supplied so far) *)
Fixpoint logical (ops : list wop) (res : list (N * Z)) (pool : list N) : option limage :=
  match ops, res with
  | op :: ops', (code, _) :: res' =>
    if negb (code =? 0) then logical ops' res' pool else
    match op with
    | AddData l => match zs_to_ns l with None => None | Some nl => logical ops' res' (pool ++ nl) end
    | AddSeg s l ds dl =>
      if ((s <? 0) || (l <? 0) || (ds <? 0) || (dl <? 0) || (Z.of_nat (length pool) <? ds + dl))%Z then None else
      match logical ops' res' pool with
      | None => None
      | Some L => Some (mklseg (Z.to_N s) (Z.to_N l) (firstn (Z.to_nat dl) (skipn (Z.to_nat ds) pool)) :: L)
      end
    end
  | _, _ => Some []
  end.

(* finite test of `same_image` on an observed (segs, memory pairs, zero ranges):
   every explicit word and every zero range lies in a declared segment with the declared value, the
   ranges are disjoint from the explicit words, and the number of covered addresses equals the total
   declared length (so nothing is missing). *)
Definition lword_is (L : limage) (a v : N) : bool :=
  match lword L a with Some x => x =? v | None => false end.

Definition zero_range_ok (L : limage) (mem : list (N * N)) (z : N * N) : bool :=
  (fst z <? snd z) &&
  match find (in_lseg (fst z)) L with
  | Some s => (l_start s + N.of_nat (length (l_words s)) <=? fst z) && (snd z <=? l_start s + l_len s)
  | None => false
  end &&
  forallb (fun p => negb (in_range (fst p) z)) mem.

Definition same_image_b (L : limage) (segs mem zeros : list (N * N)) : bool :=
  pairs_eqb segs (lsegs L) &&
  forallb (fun p => lword_is L (fst p) (snd p)) mem &&
  forallb (zero_range_ok L mem) zeros &&
  pairwise (fun a b => (snd a <=? fst b) || (snd b <=? fst a)) zeros &&
  (fold_right N.add 0 (map l_len L) =? N.of_nat (length mem) + fold_right N.add 0 (map (fun z => snd z - fst z) zeros)).

Definition spec06 (c : c06) : bool :=
  let w := Z.to_N (k_w c) in
  forallb (fun r => fst r <? 2) (k_opres c) &&                      (* no call ended in an other exception *)
  ((k_write c =? 0) || (k_write c =? 1) || (k_write c =? 9)) &&
  ((negb (k_write c =? 0)) ||
   match logical (k_ops c) (k_opres c) [] with
   | None => false                                                   (* accepted something with no meaning *)
   | Some L =>
     (k_read c =? 0) && same_image_b L (k_segs c) (k_mem c) (k_zeros c) &&
     forallb (fun p => let '(ba, kind, v) := p in
                       if (ba mod w =? 0) && (ba / w <? 2 ^ w)
                       then match lword L (ba / w) with
                            | Some x => (kind =? 0) && (x =? v)
                            | None => kind =? 1
                            end
                       else true) (k_probes c)
   end).

(* ---- C10 ---------------------------------------------------------------------------------------- *)

Record c10 := mk10 {
  t_file : bytes;
  t_off : nat;                         (* where the payload starts according to the header (harness-side parse) *)
  t_lz : option bytes;                 (* what the real decoder answers on that payload (None = LZMAError) *)
  (* observed *)
  t_class : N;                         (* Reader(path): 0 image, 1 read error, 2 other exception *)
  t_run : N;                           (* fjm_run.run(path): 0 got past loading, 1 read error, 2 other, 9 not run *)
  t_w : N; t_ver : N;
  t_segs : list (N * N); t_mem : list (N * N); t_zeros : list (N * N);
  t_table : list tseg; t_pool : N      (* harness-side parse of an accepted file: its table and pool length *)
}.

(* a file with the bytes at offset off replaced by p (single-field corruption) *)
Definition patch (b : bytes) (off : nat) (p : bytes) : bytes := firstn off b ++ p ++ skipn (off + length p) b.

Definition lz_oracle (c : c10) : bytes -> option bytes :=
  fun z => if bytes_eqb z (skipn (t_off c) (t_file c)) then t_lz c else None.

Definition check10 (c : c10) : bool :=
  match read (lz_oracle c) (t_file c) with
  | ROk i => (t_class c =? 0) && (i_w i =? t_w c) && (i_ver i =? t_ver c) &&
             pairs_eqb (i_segs i) (t_segs c) && mem_eqb (i_mem i) (t_mem c) && pairs_eqb (i_zeros i) (t_zeros c) &&
             ((t_run c =? 9) || (t_run c =? (if runnable i then 0 else 1)))
  | RErr _ => (t_class c =? 1) && ((t_run c =? 9) || (t_run c =? 1))
  | RRaw _ => false
  end.

Definition code06 (c : c06) : N := (if check06 c then 1 else 0) + (if spec06 c then 2 else 0).

Definition spec10 (c : c10) : bool :=
  negb (t_class c =? 2) && negb (t_run c =? 2) &&
  (negb (t_class c =? 0) || consistent_table (t_pool c) (t_table c)).

Definition code10 (c : c10) : N := (if check10 c then 1 else 0) + (if spec10 c then 2 else 0).

Definition fjm_consts : list N :=
  [FJ_MAGIC; reserved_dict_threshold; N.of_nat header_base_size; N.of_nat header_extension_size;
   N.of_nat segment_size; max_version].

End Glue.
