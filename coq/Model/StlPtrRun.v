(* C08: evaluation of a pointer/stack/call harness block on the machine definition.  Same checker as
   Model.StlRun.check_block (one instrumented run, the frame equation decided on the written words) with the
   pointer-cell consistency clause added, and enumeration of explicit-list operand domains.
   No proofs in this file. *)
From FJ Require Import Lib.Base Spec.MachineSpec Spec.StlSpec Spec.StlPtrSpec Model.StlRun.
Local Open Scope N_scope.

Definition ptr_consistent_b (ww : N) (pcs : list (N * var)) (mm : mem) : bool :=
  forallb (fun p => mget0 mm (fst p) =? read_var ww mm (snd p)) pcs.

Section W.
Variable ww : N.
Variable sg : list (N * N).

Definition check_ptr_block (img : mem) (b : block) (pcs : list (N * var)) (S : bspec) (vs : list N) : bool :=
  match S vs with
  | None => true
  | Some (vs', x) =>
    match nth_error b.(b_exits) (N.to_nat x) with
    | None => false
    | Some (xa, marker) =>
      let m0 := start_mem ww img b vs in
      let me := start_mem ww img b vs' in
      match run_pow ww sg b.(b_depth) (init m0 []) [] with
      | Halt Looping s wl =>
          (s.(ip) =? xa) && out_is s.(outp) marker && vals_in_range b.(b_vars) vs' &&
          (* word 0 (target of every `;label` op's null flip) is on the log once per op: it is checked once, below *)
          forallb (fun a => match a with 0 => true | _ => word_ok b s.(m) me a end) wl &&
          forallb (word_ok b s.(m) me) (0 :: 1 :: vars_words b.(b_vars)) &&
          ptr_consistent_b ww pcs s.(m)
      | _ => false
      end
    end
  end.

(* diagnostics: StlRun.observe_block + (op word, value of the variable copy) of every pointer-cell pair *)
Definition observe_ptr_block (img : mem) (b : block) (pcs : list (N * var)) (vs vs' : list N) :=
  (observe_block ww sg img b vs vs',
   match run_pow ww sg b.(b_depth) (init (start_mem ww img b vs) []) [] with
   | Halt _ s _ => map (fun p => (mget0 s.(m) (fst p), read_var ww s.(m) (snd p))) pcs
   | Cont _ _ => []
   end).

End W.

(* every operand tuple of a product of explicit lists / of a union of products *)
Fixpoint enum_ldom (ls : list (list N)) : list (list N) :=
  match ls with
  | [] => [[]]
  | l :: ls' => let tl := enum_ldom ls' in flat_map (fun v => map (cons v) tl) l
  end.
Definition enum_udom (ds : list (list (list N))) : list (list N) := flat_map enum_ldom ds.
