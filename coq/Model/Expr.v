From FJ Require Import Lib.Base.
(* C12 - executable transcription of flipjump/assembler/inner_classes/expr.py and of the
   expression-building / literal-decoding parts of flipjump/assembler/fj_parser.py.
   Every point where Python can raise is an explicit exit:
     LibError k : an exception of the library's own hierarchy (FlipJumpException subclasses)
     RawExn x   : a Python exception that escapes the function as it is
   No proofs in this file (Proofs/ExprProps.v).                                               *)
From FJ Require Import Model.Ast Spec.ExprSpec.
Local Open Scope string_scope.
Local Open Scope Z_scope.

(* ------------------------------------------------------------------------------------------ *)
(** * Outcomes *)

Inductive pyexn :=
  | ZeroDivisionError       (* int // 0, int % 0 *)
  | ValueError              (* negative shift count; int('zz', 16) *)
  | TypeError               (* wrong number of arguments *)
  | KeyError                (* op_string_to_function[op] *)
  | IndexError              (* s[0] of an empty string *)
  | NameError               (* a name the fragment does not bind *)
  | FloatResult.            (* int ** negative int is a float: not modelled (unreachable behind _pow's test) *)

Inductive liberr :=
  | ExprOpRaised                          (* FlipJumpExprException raised by an operator function (_pow) *)
  | ExprBadMath (cause : option pyexn)    (* "... bad math operation (op): ..." wrapper of eval_new / exact_eval;
                                             None = the wrapped exception was itself a FlipJumpExprException *)
  | ExprCantEvaluateLabel (s : string)    (* exact_eval: label not in the dictionary *)
  | ParseCantEvaluate                     (* `x = expr` with unresolved names: syntax error *)
  | LexLiteralTooLong.                    (* FJLexer._decimal_value: lexing error, reported as FlipJumpParsingException *)

Inductive outcome (A : Type) :=
  | Ok (a : A)
  | LibError (k : liberr)
  | RawExn (x : pyexn).
Arguments Ok {A} a.
Arguments LibError {A} k.
Arguments RawExn {A} x.

Definition bind {A B} (r : outcome A) (f : A -> outcome B) : outcome B :=
  match r with Ok a => f a | LibError k => LibError k | RawExn x => RawExn x end.

Definition ok_value (r : outcome Z) : option Z := match r with Ok z => Some z | _ => None end.

(* ------------------------------------------------------------------------------------------ *)
(** * CPython integer primitives (Objects/longobject.c), on unbounded Z *)

(* l_divmod: C-style truncated division, then one correction step *)
Definition py_floordiv (a b : Z) : outcome Z :=
  if b =? 0 then RawExn ZeroDivisionError
  else let q := Z.quot a b in let r := Z.rem a b in
       if ((r <? 0) && (0 <? b)) || ((0 <? r) && (b <? 0)) then Ok (q - 1) else Ok q.

Definition py_mod (a b : Z) : outcome Z :=
  if b =? 0 then RawExn ZeroDivisionError
  else let r := Z.rem a b in
       if ((r <? 0) && (0 <? b)) || ((0 <? r) && (b <? 0)) then Ok (r + b) else Ok r.

Definition py_lshift (a n : Z) : outcome Z :=
  if n <? 0 then RawExn ValueError else Ok (Z.shiftl a n).

(* long_rshift: a negative operand is shifted as ~((~a) >> n) *)
Definition py_rshift (a n : Z) : outcome Z :=
  if n <? 0 then RawExn ValueError
  else if a <? 0 then Ok (- (Z.shiftr (- a - 1) n) - 1) else Ok (Z.shiftr a n).

Definition py_invert (a : Z) : Z := - (a + 1).

(* int.bit_length: number of digits of the magnitude *)
Definition py_bit_length (a : Z) : Z :=
  match a with Z0 => 0 | Zpos p => Zpos (Pos.size p) | Zneg p => Zpos (Pos.size p) end.

Definition py_pow (a b : Z) : outcome Z := if b <? 0 then RawExn FloatResult else Ok (a ^ b).

(* the functions of the `operator` module the table refers to *)
Definition py_operator (name : string) (args : list Z) : outcome Z :=
  match args with
  | [a; b] =>
      if String.eqb name "add" then Ok (a + b)
      else if String.eqb name "sub" then Ok (a - b)
      else if String.eqb name "mul" then Ok (a * b)
      else if String.eqb name "floordiv" then py_floordiv a b
      else if String.eqb name "mod" then py_mod a b
      else if String.eqb name "lshift" then py_lshift a b
      else if String.eqb name "rshift" then py_rshift a b
      else if String.eqb name "xor" then Ok (Z.lxor a b)
      else if String.eqb name "or_" then Ok (Z.lor a b)
      else if String.eqb name "and_" then Ok (Z.land a b)
      else RawExn NameError
  | _ => RawExn TypeError
  end.

(* ------------------------------------------------------------------------------------------ *)
(** * Denotation of the Python fragment of the operator table (Spec.ExprSpec.pyexpr) *)

Definition pyenv := list (string * Z).

Definition py_lookup (env : pyenv) (s : string) : outcome Z :=
  match find (fun p => String.eqb (fst p) s) env with Some p => Ok (snd p) | None => RawExn NameError end.

Definition py_compare (op : string) (a b : Z) : outcome Z :=
  if String.eqb op "Lt" then Ok (of_bool (a <? b))
  else if String.eqb op "Gt" then Ok (of_bool (a >? b))
  else if String.eqb op "LtE" then Ok (of_bool (a <=? b))
  else if String.eqb op "GtE" then Ok (of_bool (a >=? b))
  else if String.eqb op "Eq" then Ok (of_bool (a =? b))
  else if String.eqb op "NotEq" then Ok (of_bool (negb (a =? b)))
  else RawExn NameError.

(* bool results are represented by 1 / 0 (only their truth value is ever used) *)
Fixpoint py_eval (env : pyenv) (e : pyexpr) : outcome Z :=
  match e with
  | PName s => py_lookup env s
  | PConst z => Ok z
  | PIfExp t b o => bind (py_eval env t) (fun tv => if truthy tv then py_eval env b else py_eval env o)
  | PAnd a b => bind (py_eval env a) (fun av => if truthy av then py_eval env b else Ok av)
  | POr a b => bind (py_eval env a) (fun av => if truthy av then Ok av else py_eval env b)
  | PCompare op a b => bind (py_eval env a) (fun x => bind (py_eval env b) (fun y => py_compare op x y))
  | PInvert a => bind (py_eval env a) (fun x => Ok (py_invert x))
  | PBitLength a => bind (py_eval env a) (fun x => Ok (py_bit_length x))
  | PPow a b => bind (py_eval env a) (fun x => bind (py_eval env b) (fun y => py_pow x y))
  | PInt a => py_eval env a
  end.

Definition py_raise (exc : string) : outcome Z :=
  if String.eqb exc "FlipJumpExprException" then LibError ExprOpRaised else RawExn NameError.

Fixpoint py_exec (env : pyenv) (body : list pystmt) : outcome Z :=
  match body with
  | [] => RawExn TypeError                                  (* falls off the end: returns None *)
  | PIfRaise t exc :: rest => bind (py_eval env t) (fun tv => if truthy tv then py_raise exc else py_exec env rest)
  | PReturn e :: _ => py_eval env e
  end.

Definition py_call (f : pyfun) (args : list Z) : outcome Z :=
  match f with
  | POperator name => py_operator name args
  | PLambda params body =>
      if (List.length params =? List.length args)%nat then py_eval (combine params args) body else RawExn TypeError
  | PDef params body =>
      if (List.length params =? List.length args)%nat then py_exec (combine params args) body else RawExn TypeError
  end.

(* op_string_to_function[op] applied to the arguments: the table is the one frozen in the spec, which Tie/C12_tie.v
   proves equal to the table regenerated from the current source *)
Definition op_function (tbl : list (string * pyfun)) (o : opname) : option pyfun :=
  match find (fun p => String.eqb (fst p) (opname_str o)) tbl with Some p => Some (snd p) | None => None end.

Definition apply_op_in (tbl : list (string * pyfun)) (o : opname) (args : list Z) : outcome Z :=
  match op_function tbl o with Some f => py_call f args | None => RawExn KeyError end.

Definition apply_op : opname -> list Z -> outcome Z := apply_op_in doc_op_table.

(* ------------------------------------------------------------------------------------------ *)
(** * expr.py *)

Definition is_int (e : expr) : bool := match e with EInt _ => true | _ => false end.
Definition int_values (l : list expr) : list Z := flat_map (fun e => match e with EInt z => [z] | _ => [] end) l.

(* get_minimized_expr(op, params):  try: ... except FlipJumpExprException: raise
                                     except Exception as e: raise FlipJumpExprException("... bad math operation ...") *)
Definition get_minimized_expr (o : opname) (params : list expr) : outcome expr :=
  if forallb is_int params
  then match apply_op o (int_values params) with
       | Ok z => Ok (EInt z)
       | LibError k => LibError k
       | RawExn x => LibError (ExprBadMath (Some x))
       end
  else Ok (EOp o params).

Definition msubst := string -> option expr.

(* Expr.eval_new(params_dict).  `return self` / `return Expr((op, tuple(evaluated_args)))` differ
   only in object identity when nothing changed; values have no identity here. *)
Fixpoint eval_new (sigma : msubst) (e : expr) : outcome expr :=
  match e with
  | EInt _ => Ok e
  | ELbl s => match sigma s with Some r => Ok r | None => Ok e end
  | EOp o args =>
      let fix go (l : list expr) : outcome (list expr) :=
        match l with
        | [] => Ok []
        | a :: t => bind (eval_new sigma a) (fun a' => bind (go t) (fun t' => Ok (a' :: t')))
        end in
      bind (go args) (fun args' =>
        if forallb is_int args'
        then match apply_op o (int_values args') with          (* try: ... except Exception as e: *)
             | Ok z => Ok (EInt z)
             | LibError _ => LibError (ExprBadMath None)
             | RawExn x => LibError (ExprBadMath (Some x))
             end
        else Ok (EOp o args'))
  end.

(* Expr.exact_eval(labels): the argument generator is consumed inside the try block *)
Fixpoint exact_eval (labels : string -> option Z) (e : expr) : outcome Z :=
  match e with
  | EInt z => Ok z
  | ELbl s => match labels s with Some v => Ok v | None => LibError (ExprCantEvaluateLabel s) end
  | EOp o args =>
      let fix go (l : list expr) : outcome (list Z) :=
        match l with
        | [] => Ok []
        | a :: t => bind (exact_eval labels a) (fun v => bind (go t) (fun vs => Ok (v :: vs)))
        end in
      match bind (go args) (apply_op o) with
      | Ok z => Ok z
      | LibError k => LibError k                               (* except FlipJumpExprException: raise *)
      | RawExn x => LibError (ExprBadMath (Some x))            (* except Exception as e: raise FlipJumpExprException *)
      end
  end.

(* ------------------------------------------------------------------------------------------ *)
(** * fj_parser.py: how the grammar actions build an Expr from the source expression *)

Definition unop_name (u : unop) : opname := match u with UBitLen => OBitlen | UNot => ONot end.
Definition binop_name (o : binop) : opname :=
  match o with
  | BAdd => OAdd | BSub => OSub | BMul => OMul | BDiv => ODiv | BMod => OMod | BPow => OPow
  | BShl => OShl | BShr => OShr | BXor => OXor | BOr => OOr | BAnd => OAnd
  | BLand => OLand | BLor => OLor | BLt => OLt | BGt => OGt | BLe => OLe | BGe => OGe
  | BEq => OEq | BNe => ONe
  end.

(* Bottom-up, left operand first (LALR reduction order); an identifier that is a known constant
   is replaced by its (integer) Expr in the `id` action; every operator action calls
   get_minimized_expr. *)
Fixpoint parse_build (consts : env) (e : sexpr) : outcome expr :=
  match e with
  | SInt z => Ok (EInt z)
  | SId s => match consts s with Some z => Ok (EInt z) | None => Ok (ELbl s) end
  | SUn u a => bind (parse_build consts a) (fun a' => get_minimized_expr (unop_name u) [a'])
  | SBin o a b =>
      bind (parse_build consts a) (fun a' =>
      bind (parse_build consts b) (fun b' => get_minimized_expr (binop_name o) [a'; b']))
  | SCond c a b =>
      bind (parse_build consts c) (fun c' =>
      bind (parse_build consts a) (fun a' =>
      bind (parse_build consts b) (fun b' => get_minimized_expr OCond [c'; a'; b'])))
  end.

(* the tree the parser builds when nothing can be folded *)
Fixpoint embed (e : sexpr) : expr :=
  match e with
  | SInt z => EInt z
  | SId s => ELbl s
  | SUn u a => EOp (unop_name u) [embed a]
  | SBin o a b => EOp (binop_name o) [embed a; embed b]
  | SCond c a b => EOp OCond [embed c; embed a; embed b]
  end.

Definition int_msubst (rho : env) : msubst :=
  fun s => match rho s with Some z => Some (EInt z) | None => None end.

(* `ID "=" expr`:  evaluated = p.expr.eval_new(self.consts); self.consts[name] = Expr(int(evaluated)) *)
Definition define_const (consts : env) (e : sexpr) : outcome Z :=
  bind (parse_build consts e) (fun m =>
  bind (eval_new (int_msubst consts) m) (fun m' =>
  match m' with EInt z => Ok z | _ => LibError ParseCantEvaluate end)).

(* ------------------------------------------------------------------------------------------ *)
(** * The three code paths composed: parser folding, any number of eval_new passes, exact_eval *)

Inductive stage := AtParse | AtSubst (n : nat) | AtFinal.

Fixpoint run_stages (n : nat) (stages : list msubst) (m : expr) : stage * outcome expr :=
  match stages with
  | [] => (AtFinal, Ok m)
  | sg :: rest =>
      match eval_new sg m with
      | Ok m' => run_stages (S n) rest m'
      | LibError k => (AtSubst n, LibError k)
      | RawExn x => (AtSubst n, RawExn x)
      end
  end.

Definition staged_trace (consts : env) (stages : list msubst) (labels : env) (e : sexpr) : stage * outcome Z :=
  match parse_build consts e with
  | LibError k => (AtParse, LibError k)
  | RawExn x => (AtParse, RawExn x)
  | Ok m =>
      match run_stages 0 stages m with
      | (_, Ok m') => (AtFinal, exact_eval labels m')
      | (st, LibError k) => (st, LibError k)
      | (st, RawExn x) => (st, RawExn x)
      end
  end.

Definition staged (consts : env) (stages : list msubst) (labels : env) (e : sexpr) : outcome Z :=
  snd (staged_trace consts stages labels e).

(* "m is a partial evaluation of t": m is the tree of t in which some identifier-free
   sub-expressions that evaluate without error have been replaced by their value *)
Definition no_env : env := fun _ => None.

Inductive represents : expr -> sexpr -> Prop :=
  | RepFolded z t : eval no_env t = Val z -> represents (EInt z) t
  | RepId s : represents (ELbl s) (SId s)
  | RepUn u m a : represents m a -> represents (EOp (unop_name u) [m]) (SUn u a)
  | RepBin o m1 m2 a b :
      represents m1 a -> represents m2 b -> represents (EOp (binop_name o) [m1; m2]) (SBin o a b)
  | RepCond m1 m2 m3 c a b :
      represents m1 c -> represents m2 a -> represents m3 b ->
      represents (EOp OCond [m1; m2; m3]) (SCond c a b).

Definition subst_represents (sm : msubst) (st : string -> option sexpr) : Prop :=
  forall s, match sm s, st s with
            | Some m, Some t => represents m t
            | None, None => True
            | _, _ => False
            end.

Definition subst_all (sts : list (string -> option sexpr)) (e : sexpr) : sexpr :=
  fold_left (fun acc st => subst st acc) sts e.

(* how exact_eval reports the errors of the specification *)
Definition final_outcome (v : value) : outcome Z :=
  match v with
  | Val z => Ok z
  | Err DivByZero => LibError (ExprBadMath (Some ZeroDivisionError))
  | Err ModByZero => LibError (ExprBadMath (Some ZeroDivisionError))
  | Err NegativeShift => LibError (ExprBadMath (Some ValueError))
  | Err NegativeExponent => LibError ExprOpRaised
  | Err (Unbound s) => LibError (ExprCantEvaluateLabel s)
  end.

(* how the bare operator functions of the table report them (before any of the three callers wraps them) *)
Definition raw_outcome (v : value) : outcome Z :=
  match v with
  | Val z => Ok z
  | Err DivByZero => RawExn ZeroDivisionError
  | Err ModByZero => RawExn ZeroDivisionError
  | Err NegativeShift => RawExn ValueError
  | Err NegativeExponent => LibError ExprOpRaised
  | Err (Unbound _) => RawExn NameError
  end.

(* ------------------------------------------------------------------------------------------ *)
(** * Literal decoding (FJLexer.NUMBER, FJLexer.STRING, get_char_value_and_length) on the matched text *)

(* int(text, base) for text made of digits of that base (what the token regexes guarantee);
   anything else is reported as ValueError (Python's int() accepts a few more spellings - sign,
   blanks, underscores - that the regexes cannot produce) *)
Fixpoint py_int_digits (digit : Z -> option Z) (base : Z) (acc : Z) (s : text) : outcome Z :=
  match s with
  | [] => Ok acc
  | c :: t => match digit c with Some d => py_int_digits digit base (acc * base + d) t | None => RawExn ValueError end
  end.

Definition py_int (digit : Z -> option Z) (base : Z) (s : text) : outcome Z :=
  match s with [] => RawExn ValueError | _ => py_int_digits digit base 0 s end.

(* get_char_value_and_length(s) *)
Definition get_char_value_and_length (escapes : list (Z * Z)) (s : text) : outcome (Z * nat) :=
  match s with
  | [] => RawExn IndexError
  | c0 :: r =>
      if negb (c0 =? 92) then Ok (c0, 1%nat)
      else match r with
           | [] => RawExn IndexError
           | c1 :: r' =>
               match escape_value escapes c1 with
               | Some v => Ok (v, 2%nat)
               | None => bind (py_int hex_digit 16 (firstn 2 r')) (fun v => Ok (v, 4%nat))
               end
           end
  end.

(* FJLexer._decimal_value(digits):  try: return int(digits)  except ValueError: <lexing error>; return 0
   CPython refuses to convert a decimal string of more than 4300 characters (leading zeros included);
   the recorded lexing error makes the assembly fail after lexing, so the returned 0 is never used. *)
Definition decimal_value (n : text) : outcome Z :=
  if 4300 <? Z.of_nat (List.length n) then LibError LexLiteralTooLong else py_int dec_digit 10 n.

(* FJLexer.NUMBER *)
Definition number_value (escapes : list (Z * Z)) (n : text) : outcome Z :=
  match n with
  | c0 :: c1 :: r =>
      if c0 =? 39 then bind (get_char_value_and_length escapes (removelast (c1 :: r))) (fun p => Ok (fst p))
      else if (c1 =? 120) || (c1 =? 88) then py_int hex_digit 16 r
      else if (c1 =? 98) || (c1 =? 66) then py_int bin_digit 2 r
      else decimal_value n
  | _ => py_int dec_digit 10 n
  end.

(* FJLexer.STRING on the text between the quotes: the list of character values *)
Fixpoint string_chars (escapes : list (Z * Z)) (fuel : nat) (s : text) : outcome (list Z) :=
  match s with
  | [] => Ok []
  | _ =>
      match fuel with
      | O => Ok []                                                   (* unreachable with fuel = |s| *)
      | S fuel =>
          bind (get_char_value_and_length escapes s) (fun p =>
          bind (string_chars escapes fuel (skipn (snd p) s)) (fun vs => Ok (fst p :: vs)))
      end
  end.

(* sum(val << (i * 8) for i, val in enumerate(chars)) *)
Fixpoint shifted_sum (i : Z) (chars : list Z) : Z :=
  match chars with [] => 0 | v :: t => Z.shiftl v (i * 8) + shifted_sum (i + 1) t end.

Definition string_value (escapes : list (Z * Z)) (body : text) : outcome Z :=
  bind (string_chars escapes (List.length body) body) (fun chars => Ok (shifted_sum 0 chars)).

(* The regular expression  "(string_char)*"  applied to the text that follows an opening quote.
   string_char = a printable character other than the backslash and the double quote | backslash +
   escape letter | backslash + x|X + two hex digits.  Each position admits at most one alternative, so
   the greedy star walks one chain of items and stops in front of the first character that starts no
   item; the token exists iff that character is the closing quote (no position inside the chain can
   be a quote, so backtracking cannot find another end). *)
Fixpoint scan_string_items (escapes : list (Z * Z)) (s : text) : list char_item * text :=
  match s with
  | c0 :: r =>
      if (32 <=? c0) && (c0 <=? 126) && negb (c0 =? 92) && negb (c0 =? 34) then
        let '(its, rest) := scan_string_items escapes r in (Plain c0 :: its, rest)
      else if c0 =? 92 then
        match r with
        | c1 :: r1 =>
            match escape_value escapes c1 with
            | Some _ => let '(its, rest) := scan_string_items escapes r1 in (Escaped c1 :: its, rest)
            | None =>
                match r1 with
                | h1 :: h2 :: r2 =>
                    if item_ok (HexEscaped c1 h1 h2)
                    then let '(its, rest) := scan_string_items escapes r2 in (HexEscaped c1 h1 h2 :: its, rest)
                    else ([], s)
                | _ => ([], s)
                end
            end
        | [] => ([], s)
        end
      else ([], s)
  | [] => ([], s)
  end.

(* the body of the STRING token lexed from the text after an opening quote (None: no token) *)
Definition lex_string_body (escapes : list (Z * Z)) (after_quote : text) : option (list char_item) :=
  match scan_string_items escapes after_quote with
  | (its, 34 :: _) => Some its
  | _ => None
  end.

(* ------------------------------------------------------------------------------------------ *)
(** * Correspondence cases: what the campaign of harness/fjverif/checks/c12.py evaluates.
      A case carries the source tokens, how every identifier gets its value (constants, the bindings
      of each eval_new pass in order, labels) and what the real assembler did; the functions below
      compute what the MODEL predicts and what the SPECIFICATION allows. *)

Inductive obs :=
  | ObsWord (z : Z)                  (* the flip / jump word found in the assembled image *)
  | ObsLibError (cls : string)       (* a specific library exception of that class *)
  | ObsCatchAll (cause : string)     (* the "Unknown exception ... please report this bug" wrapper *)
  | ObsSyntaxError.                  (* FlipJumpParsingException *)

Definition obs_eqb (a b : obs) : bool :=
  match a, b with
  | ObsWord x, ObsWord y => x =? y
  | ObsLibError x, ObsLibError y => String.eqb x y
  | ObsCatchAll x, ObsCatchAll y => String.eqb x y
  | ObsSyntaxError, ObsSyntaxError => true
  | _, _ => false
  end.

Fixpoint expr_eqb (a b : expr) : bool :=
  match a, b with
  | EInt x, EInt y => x =? y
  | ELbl s, ELbl t => String.eqb s t
  | EOp o xs, EOp p ys =>
      opname_eqb o p &&
      (fix go (l1 l2 : list expr) : bool :=
         match l1, l2 with
         | [], [] => true
         | x :: l1', y :: l2' => expr_eqb x y && go l1' l2'
         | _, _ => false
         end) xs ys
  | _, _ => false
  end.

(* (i) parser correspondence: the tree built by the real parser (identifiers that are not constants,
   so nothing is folded) against the reference parser of the specification *)
Definition check_parse_case (c : list token * option expr) : bool :=
  match parse (fst c), snd c with
  | Some e, Some m => expr_eqb (embed e) m
  | None, None => true
  | _, _ => false
  end.

Definition binding := list (string * sexpr).      (* one eval_new pass: name -> source expression *)

Definition binding_lookup (b : binding) (s : string) : option sexpr :=
  match find (fun p => String.eqb (fst p) s) b with Some p => Some (snd p) | None => None end.

(* the replacement the implementation holds: the argument as the parser built it *)
Definition model_binding (consts : env) (b : binding) : msubst :=
  fun s => match binding_lookup b s with
           | Some t => match parse_build consts t with Ok m => Some m | _ => Some (ELbl "<argument failed to parse>") end
           | None => None
           end.

Definition spec_binding (consts : env) (b : binding) : string -> option sexpr :=
  fun s => match binding_lookup b s with Some t => Some (subst (int_subst consts) t) | None => None end.

Record ecase := mk_ecase {
  ec_kind : nat;                        (* 0: expression of a flip/jump statement; 1: `x = expr`, observed through `;x` *)
  ec_w : Z;
  ec_is_flip : bool;
  ec_tokens : list token;
  ec_consts : list (string * Z);
  ec_stages : list binding;
  ec_labels : list (string * Z);
  ec_obs : obs }.

(* BinaryData.insert_fj_op: a flip / jump value outside [0, 2^w) is refused ("Not enough space ...") *)
Definition word_obs (w : Z) (z : Z) : obs :=
  if (z <? 0) || (2 ^ w <=? z) then ObsLibError "FlipJumpAssemblerException" else ObsWord z.

Definition expected_obs (w : Z) (r : stage * outcome Z) : obs :=
  match r with
  | (_, Ok z) => word_obs w z
  | (_, LibError ParseCantEvaluate) => ObsSyntaxError
  | (_, LibError LexLiteralTooLong) => ObsSyntaxError
  | (AtParse, LibError _) => ObsLibError "FlipJumpExprException"
  | (AtSubst _, LibError _) => ObsLibError "FlipJumpExprException"
  | (AtFinal, LibError _) => ObsLibError "FlipJumpAssemblerException"
  | (_, RawExn _) => ObsCatchAll "<unexpected>"
  end.

Definition ecase_model (c : ecase) : obs :=
  match parse (ec_tokens c) with
  | None => ObsSyntaxError
  | Some e =>
      let consts := env_of_list (ec_consts c) in
      match ec_kind c with
      | O => expected_obs (ec_w c)
               (staged_trace consts (map (model_binding consts) (ec_stages c)) (env_of_list (ec_labels c)) e)
      | _ => match define_const consts e with
             | Ok z => word_obs (ec_w c) z
             | r => expected_obs (ec_w c)
                      (match parse_build consts e with Ok _ => AtSubst 0 | _ => AtParse end, r)
             end
      end
  end.

(* the value the specification gives (None: error; outer None: syntax error) *)
Definition ecase_spec (c : ecase) : option (option Z) :=
  match parse (ec_tokens c) with
  | None => None
  | Some e =>
      let consts := env_of_list (ec_consts c) in
      match ec_kind c with
      | O => Some (value_of (eval (env_of_list (ec_labels c))
                               (subst_all (map (spec_binding consts) (ec_stages c)) (subst (int_subst consts) e))))
      | _ => Some (value_of (eval consts e))
      end
  end.

(* a value inside [0, 2^w) must be the word; a value outside, or an error, must be reported as an error *)
Definition spec_allows (c : ecase) : bool :=
  match ecase_spec c, ec_obs c with
  | None, ObsSyntaxError => true
  | None, _ => false
  | Some (Some z), ObsWord x => (z =? x) && (0 <=? z) && (z <? 2 ^ ec_w c)
  | Some (Some z), ObsLibError _ => (z <? 0) || (2 ^ ec_w c <=? z)
  | Some (Some _), _ => false
  | Some None, ObsWord _ => false
  | Some None, ObsCatchAll _ => false          (* C14 territory, but never expected here *)
  | Some None, _ => true
  end.

Definition check_ecase (c : ecase) : bool := obs_eqb (ecase_model c) (ec_obs c) && spec_allows c.
Definition diag_ecase (c : ecase) := (ecase_model c, ecase_spec c, obs_eqb (ecase_model c) (ec_obs c), spec_allows c).

(* (iv) literal cases.  kind 0: NUMBER token text; 1: STRING token (items between the quotes);
   3: NUMBER token text of a decimal literal longer than CPython converts (must be refused);
   2: a line with two string literals - lc_text is the text after the first opening quote up to the end of
      the line, lc_items the items of the first literal: the model predicts that the first token ends there *)
Record lcase := mk_lcase {
  lc_kind : nat;
  lc_w : Z;
  lc_shift : Z;                    (* the program is  ;(literal >> shift) & (2^w - 1)  (shift 0: the bare literal) *)
  lc_text : text;
  lc_items : list char_item;       (* kind 1: the items the generator wrote *)
  lc_intended : Z;                 (* the value the language gives to what was written *)
  lc_obs : obs }.

Definition lcase_word (c : lcase) (z : Z) : obs :=
  if lc_shift c =? 0 then word_obs (lc_w c) z else ObsWord ((z / 2 ^ lc_shift c) mod 2 ^ lc_w c).

Definition lcase_model (c : lcase) : obs :=
  let r := match lc_kind c with
           | O => number_value doc_char_escapes (lc_text c)
           | S O => string_value doc_char_escapes (lc_text c)
           | S (S O) => match lex_string_body doc_char_escapes (lc_text c) with
                  | Some its => if (List.length its =? List.length (lc_items c))%nat
                                then Ok (lc_intended c) else RawExn ValueError
                  | None => RawExn ValueError
                  end
           | _ => number_value doc_char_escapes (lc_text c)
           end in
  match r with
  | Ok z => lcase_word c z
  | LibError LexLiteralTooLong => ObsSyntaxError
  | _ => ObsCatchAll "<decoder failed>"
  end.

(* kind 3: a decimal literal of more than 4300 characters, outside the domain of the literal theorem:
   it must be refused as a lexing error (never given another value) *)
Definition lcase_spec (c : lcase) : bool :=
  match lc_kind c with
  | S (S (S O)) => obs_eqb ObsSyntaxError (lc_obs c)
  | _ => obs_eqb (lcase_word c (lc_intended c)) (lc_obs c)
  end.

Definition lcase_wellformed (c : lcase) : bool :=
  match lc_kind c with
  | S O => forallb item_ok (lc_items c) && (little_endian (map item_value (lc_items c)) =? lc_intended c) &&
           (List.length (lc_text c) =? List.length (items_text (lc_items c)))%nat &&
           forallb (fun p => fst p =? snd p) (combine (lc_text c) (items_text (lc_items c)))
  | _ => true
  end.

Definition check_lcase (c : lcase) : bool :=
  lcase_wellformed c && obs_eqb (lcase_model c) (lc_obs c) && lcase_spec c.
Definition diag_lcase (c : lcase) := (lcase_wellformed c, lcase_model c, lcase_spec c).

(* ------------------------------------------------------------------------------------------ *)
(** * The source text this file transcribes (docstrings and comments removed, layout normalised by
      Python's ast.unparse).  Tie/C12_tie.v proves these equal to the text regenerated from the
      current source, so any edit of a transcribed function breaks the tie until the model is
      reviewed. *)
Definition modelled_other_expr_rules : list (string * string) :=
  [ ("expr : expr_", "return p.expr_[0]");
    ("expr_ : ""("" expr_ "")""", "return p.expr_");
    ("expr_ : NUMBER", "return (Expr(p.NUMBER), p.lineno)");
    ("expr_ : STRING", "return (Expr(p.STRING), p.lineno)");
    ("expr_ : ""$""", "return (next_address(), p.lineno)");
    ("expr_ : id %prec LEADING_ID", "id_str, lineno = p.id
if id_str in self.consts:
    return (self.consts[id_str], lineno)
return (Expr(id_str), lineno)") ].

Definition modelled_sources : list (string * string) :=
  [ ("expr.get_minimized_expr",
"def get_minimized_expr(op: str, params: Tuple[Expr, ...]) -> Expr:
    if all((param.is_int() for param in params)):
        try:
            return Expr(op_string_to_function[op](*map(int, params)))
        except FlipJumpExprException:
            raise
        except Exception as e:
            raise FlipJumpExprException(f'{repr(e)}. bad math operation ({op}): {str(Expr((op, params)))}.')
    else:
        return Expr((op, params))");
    ("expr.Expr.__init__",
"def __init__(self, expr: Union[int, str, Tuple[str, Tuple[Expr, ...]]]):
    self.value = expr");
    ("expr.Expr.is_int",
"def is_int(self) -> bool:
    return isinstance(self.value, int)");
    ("expr.Expr.__int__",
"def __int__(self) -> int:
    if self.is_int():
        return self.value
    raise FlipJumpExprException(f""Can't resolve labels:  {', '.join(self.all_unknown_labels())}"")");
    ("expr.Expr.eval_new",
"def eval_new(self, params_dict: Dict[str, Expr]) -> Expr:
    value = self.value
    if isinstance(value, int):
        return self
    if isinstance(value, str):
        replacement = params_dict.get(value)
        return replacement if replacement is not None else self
    op, args = value
    all_ints = True
    unchanged = True
    evaluated_args = []
    for arg in args:
        evaluated_arg = arg.eval_new(params_dict)
        evaluated_args.append(evaluated_arg)
        if evaluated_arg is not arg:
            unchanged = False
        if not isinstance(evaluated_arg.value, int):
            all_ints = False
    if all_ints:
        try:
            return Expr(op_string_to_function[op](*(arg.value for arg in evaluated_args)))
        except Exception as e:
            raise FlipJumpExprException(f'{repr(e)}. bad math operation ({op}): {str(self)}.')
    if unchanged:
        return self
    return Expr((op, tuple(evaluated_args)))");
    ("expr.Expr.exact_eval",
"def exact_eval(self, labels: Dict[str, int]) -> int:
    value = self.value
    if isinstance(value, int):
        return value
    if isinstance(value, str):
        label_value = labels.get(value)
        if label_value is None:
            raise FlipJumpExprException(f""Can't evaluate label {value} in expression {self}"")
        return label_value
    op, args = value
    try:
        return op_string_to_function[op](*(e.exact_eval(labels) for e in args))
    except FlipJumpExprException:
        raise
    except Exception as e:
        raise FlipJumpExprException(f'{repr(e)}. bad math operation ({op}): {str(self)}.')");
    ("fj_parser.bin_num",
"'0[bB][01]+'");
    ("fj_parser.hex_num",
"'0[xX][0-9a-fA-F]+'");
    ("fj_parser.dec_num",
"'[0-9]+'");
    ("fj_parser.escape_chars",
"''.join((k for k in char_escape_dict))");
    ("fj_parser.char",
"f'[\\x20-\\x5B\\x5D-\\x7E]|\\\\[{re.escape(escape_chars)}]|\\\\[xX][0-9a-fA-F]{{2}}'");
    ("fj_parser.number_re",
"f""({bin_num})|({hex_num})|('({char})')|({dec_num})""");
    ("fj_parser.string_char",
"f'[\\x20\\x21\\x23-\\x5B\\x5D-\\x7E]|\\\\[{re.escape(escape_chars)}]|\\\\[xX][0-9a-fA-F]{{2}}'");
    ("fj_parser.string_re",
"f'""({string_char})*""'");
    ("fj_parser.get_char_value_and_length",
"def get_char_value_and_length(s: str) -> Tuple[int, int]:
    if s[0] != '\\':
        return (ord(s[0]), 1)
    if s[1] in char_escape_dict:
        return (char_escape_dict[s[1]], 2)
    return (int(s[2:4], 16), 4)");
    ("fj_parser.FJLexer.NUMBER",
"def NUMBER(self, t: Token) -> Token:
    n = t.value
    if len(n) >= 2:
        if n[0] == ""'"":
            t.value = get_char_value_and_length(n[1:-1])[0]
        elif n[1] in 'xX':
            t.value = int(n, 16)
        elif n[1] in 'bB':
            t.value = int(n, 2)
        else:
            t.value = self._decimal_value(n)
    else:
        t.value = int(t.value)
    return t");
    ("fj_parser.FJLexer._decimal_value",
"def _decimal_value(self, digits: str) -> int:
    try:
        return int(digits)
    except ValueError:
        global error_occurred, all_errors
        error_occurred = True
        error_string = f'Lexing Error in {get_position(self.lineno)}: a decimal literal of {len(digits)} digits is too long (write it in hex)'
        all_errors += f'{error_string}\n'
        print(error_string)
        return 0");
    ("fj_parser.FJLexer.STRING",
"def STRING(self, t: Token) -> Token:
    chars = []
    s = t.value[1:-1]
    i = 0
    while i < len(s):
        val, length = get_char_value_and_length(s[i:])
        chars.append(val)
        i += length
    t.value = sum((val << i * 8 for i, val in enumerate(chars)))
    return t");
    ("fj_parser.FJParser.statement : ID ""="" expr",
"@_('ID ""="" expr')
def statement(self, p: ParsedRule) -> None:
    name = self.ns_full_name(p.ID)
    if name in self.consts:
        syntax_error(p.lineno, f'''Can't redeclare the variable ""{name}"".''')
    evaluated = p.expr.eval_new(self.consts)
    try:
        self.consts[name] = Expr(int(evaluated))
    except FlipJumpExprException:
        syntax_error(p.lineno, f""Can't evaluate expression:  {str(evaluated)}."")") ].
