(* Evaluation of one asynchronous-interrupt case (C18 campaign) on the machine definition.
   A signal is delivered at an arbitrary moment of a run that never halts; the engine returns
   KeyboardInterrupt statistics with an op count N.  The stop is CONSISTENT when everything observed is the
   machine's state after exactly N ops (the list of started ops may already hold the address of op N+1,
   exactly as for a device failure inside op N+1, but none of its effects may be visible). *)
From FJ Require Import Lib.Base Spec.MachineSpec Model.RunCase.
Local Open Scope N_scope.

Definition sig_state (c : rcase) : cause * st :=
  run c.(c_ww) c.(c_segs) (N.to_nat c.(e_ops)) (init (mem_of_list c.(c_words)) (bytes_bits c.(c_input))).

Definition out_is (c : rcase) (o : list bool) : bool :=
  let '(ob, ot) := out_bytes o in
  (N.of_nat (length o) =? c.(e_outn)) && list_eqb ob c.(e_outb) && (bits_val ot =? c.(e_outv)).

Definition mem_is (c : rcase) (mm : mem) : bool :=
  pairs_eqb (map (fun p => (fst p, mget0 mm (fst p))) c.(e_mem)) c.(e_mem).

Definition last_is (c : rcase) (h : list N) : bool :=
  match c.(e_last) with Some (k, l) => list_eqb (rev (firstn (N.to_nat k) h)) l | None => true end.

(* each observed word is the word before or after op N+1 *)
Fixpoint mem_between (obs : list (N * N)) (m0 m1 : mem) : bool :=
  match obs with
  | [] => true
  | (a, v) :: r => ((mget0 m0 a =? v) || (mget0 m1 a =? v)) && mem_between r m0 m1
  end.

(* 0 = consistent stop after e_ops ops; 1 = the stop is inside op e_ops+1 with some of its effects visible;
   2 = neither; 3 = the machine halts before e_ops ops *)
Definition check_signal_case (c : rcase) : N :=
  match sig_state c with
  | (OutOfFuel, s) =>
    if (s.(ops) =? c.(e_ops)) && out_is c s.(outp) && mem_is c s.(m) &&
       (last_is c s.(hist) || last_is c (s.(ip) :: s.(hist)))
    then 0
    else
      let s1 := match step c.(c_ww) c.(c_segs) s with inl x => x | inr (_, x) => x end in
      if (s.(ops) =? c.(e_ops)) && (out_is c s.(outp) || out_is c s1.(outp)) &&
         mem_between c.(e_mem) s.(m) s1.(m) && last_is c (s.(ip) :: s.(hist))
      then 1 else 2
  | _ => 3
  end.
