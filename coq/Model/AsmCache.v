From FJ Require Import Lib.Base.
From Coq Require Import String.
(* C13 - the process-global layer of the assembler (flipjump/assembler/fj_parser.py: the stl-prefix parse
   cache and the parser globals; preprocessor.py: the interpreter-wide recursion limit; assembler.py: assemble).

   What is transcribed function by function: _stl_prefix_length, _stl_cache_key, _restore_parser_from_cache,
   _snapshot_parser_to_cache, _parse_files_into_parser, validate_current_file, lex_parse_curr_file,
   exit_if_errors, parse_macro_tree, assembler.assemble (the order of the stages and of the global writes),
   PreprocessorData.__init__ (sys.setrecursionlimit).

   What is abstract (Section variables, pure functions of exactly the arguments the code hands them):
   lexing+parsing of one file (sly), the final label/constant collision validation, and everything after
   parsing (macro expansion, label resolution, the fjm Writer, the debug-label file) as `backend`.
   The parse of a file receives the recursion limit IN FORCE, because CPython reads it while parsing
   (validate_macro_declaration -> get_used_labels -> Expr.all_unknown_labels recurses on the expression depth).

   Every module-global the pipeline writes is a field of `gstate` (the list is regenerated from the source
   into Gen/Facts_C13.v and compared in Tie/C13_tie.v):
     fj_parser._stl_prefix_cache, curr_file, curr_file_short_name, curr_text, curr_namespace, all_errors,
     error_occurred, and the interpreter recursion limit (sys.setrecursionlimit).

   The `shape` record makes the structural facts that Gen/Facts_C13.v extracts from the source (components
   of the cache key, which containers snapshot/restore copy, which globals are reset where, whether assemble
   puts the recursion limit back) parameters of the model: `code_shape` is the current tree, and
   Tie/C13_tie.v proves by reflexivity that the shape computed from the regenerated facts is `code_shape`.
   (Until commit fe7c037 the limit was not restored - finding F13; that shape is `Variants.limit_not_restored`
   in Proofs/AsmCacheProps.v, where it is refuted.)
   No proofs in this file. *)
Local Open Scope Z_scope.
Local Open Scope string_scope.

Record shape := mkshape {
  k_width : bool; k_werror : bool; k_short : bool; k_path : bool; k_mtime : bool; k_size : bool;
  snap_copy_consts : bool; snap_copy_macros : bool; snap_copy_main : bool;
  rest_copy_consts : bool; rest_copy_macros : bool; rest_copy_main : bool;
  reset_ns_per_file : bool; reset_err_per_call : bool; reset_errtxt_per_call : bool;
  limit_scoped : bool     (* the limit found at entry is put back when assemble returns or raises *)
}.

(* the tree as it is: the key has every component, every container is copied, every global is reset, and
   assemble restores, in a `finally`, the recursion limit it found at entry *)
Definition code_shape : shape :=
  mkshape true true true true true true  true true true  true true true  true true true  true.

(* every structural flag as in the tree; only the treatment of the recursion limit is left open *)
Definition shape_of (scoped : bool) : shape :=
  mkshape true true true true true true  true true true  true true true  true true true  scoped.

Definition GAP : Z := 100.               (* GAP_BETWEEN_PYTHONS_AND_PREPROCESSOR_MACRO_RECURSION_DEPTH *)
Definition DEFAULT_DEPTH : Z := 900.     (* DEFAULT_MAX_MACRO_RECURSION_DEPTH *)
Definition FRESH_LIMIT : Z := 1000.      (* sys.getrecursionlimit() of a fresh CPython process *)

(* cache key: (memory_width, warning_as_errors, ((short_name, str(resolved path), st_mtime_ns, st_size), ...)) *)
Definition fkey := (string * string * Z * Z)%type.
Definition ckey := (Z * bool * list fkey)%type.

Definition fkey_eqb (a b : fkey) : bool :=
  let '(s1, p1, m1, z1) := a in let '(s2, p2, m2, z2) := b in
  String.eqb s1 s2 && String.eqb p1 p2 && Z.eqb m1 m2 && Z.eqb z1 z2.
Fixpoint list_eqb {A} (e : A -> A -> bool) (l1 l2 : list A) : bool :=
  match l1, l2 with
  | [], [] => true
  | a :: r1, b :: r2 => e a b && list_eqb e r1 r2
  | _, _ => false
  end.
Definition ckey_eqb (a b : ckey) : bool :=
  let '(w1, e1, f1) := a in let '(w2, e2, f2) := b in
  Z.eqb w1 w2 && Bool.eqb e1 e2 && list_eqb fkey_eqb f1 f2.

(* what files_seen holds: short names (str) and absolute paths (Path) - different Python types never collide *)
Inductive seen_item := SeenShort (s : string) | SeenAbs (p : string).
Definition seen_eqb (a b : seen_item) : bool :=
  match a, b with
  | SeenShort x, SeenShort y => String.eqb x y
  | SeenAbs x, SeenAbs y => String.eqb x y
  | _, _ => false
  end.

Set Implicit Arguments.
Section Model.
  (* opaque data *)
  Variables text diag consts macros mainops opts output : Type.

  Inductive read_result :=
  | ReadOk (t : text)
  | ReadNotUtf8                    (* UnicodeDecodeError: turned into a FlipJumpParsingException *)
  | ReadRaises (d : diag).         (* any other exception of open/read (OSError): escapes as it is *)

  (* one entry of input_files as the code sees it at the time of the call *)
  Record file := mkfile {
    f_short : string;              (* short_file_name *)
    f_path : string;               (* str(file_path): what CodePosition.file records *)
    f_abs : string;                (* file_path.absolute() *)
    f_resolved : string;           (* str(file_path.resolve()) *)
    f_in_stl : bool;               (* resolve() succeeded and is_relative_to(_STL_DIR) *)
    f_isfile : bool;               (* os.path.isfile *)
    f_stat : option (Z * Z);       (* (st_mtime_ns, st_size); None when stat() raises OSError *)
    f_text : read_result           (* curr_file.open('r', encoding='utf-8').read() *)
  }.

  (* parser.consts, parser.macros (without the op list of the main macro), parser.macros[''].ops *)
  Record pstate := mkps { ps_consts : consts; ps_macros : macros; ps_main : mainops }.

  Record parse_out := mkpo {
    po_state : pstate;             (* parser containers when parser.parse returned or raised *)
    po_ns : list string;           (* curr_namespace left behind *)
    po_errs : list diag;           (* messages appended to all_errors (each one sets error_occurred) *)
    po_exn : option diag           (* an exception escaping lexer/parser actions (RecursionError, ZeroDivisionError, ...) *)
  }.

  Variable init_consts : Z -> consts.                     (* {'w': Expr(memory_width)} *)
  Variable init_macros : string -> string -> macros.      (* {'': Macro([], [], _, '', CodePosition(abs, short, 1))} *)
  Variable init_main : mainops.                           (* [] *)
  (* limit in force, warning_as_errors, curr_namespace on entry, parser state, short name, str(path), text *)
  Variable parse_file : Z -> bool -> list string -> pstate -> string -> string -> text -> parse_out.
  Variable final_validate : pstate -> list diag.          (* validate_no_label_const_collisions *)
  (* limit in force, memory_width, max_recursion_depth, remaining options (version, flags, preset, debug file, stats) *)
  Variable backend : Z -> Z -> Z -> opts -> pstate -> output + diag.

  Record request := mkrq {
    rq_files : list file; rq_width : Z; rq_werror : bool; rq_depth : Z; rq_opts : opts }.

  Inductive err :=
  | E_empty_files
  | E_no_such_file (p : string)
  | E_short_repeated (s : string)
  | E_path_repeated (p : string)
  | E_not_utf8 (p : string)
  | E_parse (file : option (string * string)) (errs : list diag)   (* exit_if_errors: curr_file, all_errors *)
  | E_raw (d : diag)                  (* an exception escaping the parse stage: a library one passes through assemble,
                                         RecursionError / any other one is re-raised as FlipJumpAssemblerException *)
  | E_backend (d : diag).
  Inductive result := R_ok (o : output) | R_err (e : err).

  Definition snapshot := pstate.
  Definition cache := list (ckey * snapshot).

  Record gstate := mkg {
    g_cache : cache;                          (* fj_parser._stl_prefix_cache *)
    g_file : option (string * string);        (* curr_file_short_name, curr_file (unbound before the first call) *)
    g_text : option text;                     (* curr_text *)
    g_ns : list string;                       (* curr_namespace *)
    g_err : bool;                             (* error_occurred *)
    g_errtxt : list diag;                     (* all_errors *)
    g_limit : Z                               (* sys.getrecursionlimit() *)
  }.
  Definition init_g (L : Z) : gstate := mkg [] None None [] false [] L.

  Definition with_cache g c := mkg c (g_file g) (g_text g) (g_ns g) (g_err g) (g_errtxt g) (g_limit g).
  Definition with_file g f := mkg (g_cache g) f (g_text g) (g_ns g) (g_err g) (g_errtxt g) (g_limit g).
  Definition with_text g t := mkg (g_cache g) (g_file g) t (g_ns g) (g_err g) (g_errtxt g) (g_limit g).
  Definition with_ns g n := mkg (g_cache g) (g_file g) (g_text g) n (g_err g) (g_errtxt g) (g_limit g).
  Definition with_errs g e t := mkg (g_cache g) (g_file g) (g_text g) (g_ns g) e t (g_limit g).
  Definition with_limit g l := mkg (g_cache g) (g_file g) (g_text g) (g_ns g) (g_err g) (g_errtxt g) l.

  Fixpoint lookup (k : ckey) (c : cache) : option snapshot :=
    match c with
    | [] => None
    | (k', s) :: r => if ckey_eqb k k' then Some s else lookup k r
    end.
  (* dict assignment *)
  Definition store (k : ckey) (s : snapshot) (c : cache) : cache :=
    (k, s) :: filter (fun e => negb (ckey_eqb k (fst e))) c.

  (* ---- _stl_prefix_length ---- *)
  Fixpoint prefix_length (fs : list file) : nat :=
    match fs with
    | f :: r => if f_in_stl f then S (prefix_length r) else O
    | [] => O
    end.

  (* ---- _stl_cache_key ---- *)
  Definition file_key (sh : shape) (f : file) (st : Z * Z) : fkey :=
    (if k_short sh then f_short f else "", if k_path sh then f_resolved f else "",
     if k_mtime sh then fst st else 0, if k_size sh then snd st else 0).
  Fixpoint files_key (sh : shape) (fs : list file) : option (list fkey) :=
    match fs with
    | [] => Some []
    | f :: r => match f_stat f with
                | None => None
                | Some st => match files_key sh r with
                             | None => None
                             | Some l => Some (file_key sh f st :: l)
                             end
                end
    end.
  Definition stl_cache_key (sh : shape) (prefix : list file) (width : Z) (werror : bool) : option ckey :=
    match files_key sh prefix with
    | None => None
    | Some fk => Some (if k_width sh then width else 0, if k_werror sh then werror else false, fk)
    end.
  Definition request_key (sh : shape) (rq : request) : option ckey :=
    let plen := prefix_length (rq_files rq) in
    match plen with
    | O => None
    | _ => stl_cache_key sh (firstn plen (rq_files rq)) (rq_width rq) (rq_werror rq)
    end.

  (* ---- aliasing between a cache entry and the running parser (only when a copy is missing) ---- *)
  Record alias := mkal { al_key : option ckey; al_consts : bool; al_macros : bool; al_main : bool }.
  Definition no_alias := mkal None false false false.
  (* a container shared with the cache entry holds, afterwards, whatever the parser put in it *)
  Definition sync (al : alias) (ps : pstate) (c : cache) : cache :=
    if al_consts al || al_macros al || al_main al then
      match al_key al with
      | None => c
      | Some k => match lookup k c with
                  | None => c
                  | Some s => store k (mkps (if al_consts al then ps_consts ps else ps_consts s)
                                            (if al_macros al then ps_macros ps else ps_macros s)
                                            (if al_main al then ps_main ps else ps_main s)) c
                  end
      end
    else c.

  (* ---- validate_current_file ---- *)
  Definition validate_current_file (seen : list seen_item) (f : file) : list seen_item + err :=
    if negb (f_isfile f) then inr (E_no_such_file (f_path f))
    else if existsb (seen_eqb (SeenShort (f_short f))) seen then inr (E_short_repeated (f_short f))
    else if existsb (seen_eqb (SeenAbs (f_abs f))) seen then inr (E_path_repeated (f_abs f))
    else inl (SeenAbs (f_abs f) :: SeenShort (f_short f) :: seen).

  Definition exit_if_errors (g : gstate) : option err :=
    if g_err g then Some (E_parse (g_file g) (g_errtxt g)) else None.

  Definition nonempty {A} (l : list A) : bool := match l with [] => false | _ => true end.

  (* ---- lex_parse_curr_file ---- *)
  Definition lex_parse_curr_file (sh : shape) (werror : bool) (g : gstate) (ps : pstate) (f : file)
    : gstate * pstate * option err :=
    match f_text f with
    | ReadRaises d => (g, ps, Some (E_raw d))                (* open/read raises before any global is written *)
    | ReadNotUtf8 => (g, ps, Some (E_not_utf8 (f_path f)))   (* likewise *)
    | ReadOk t =>
      let g1 := with_text g (Some t) in
      let g1 := if reset_ns_per_file sh then with_ns g1 [] else g1 in
      (* lexer.tokenize is lazy: nothing is lexed yet *)
      match exit_if_errors g1 with
      | Some e => (g1, ps, Some e)
      | None =>
        let po := parse_file (g_limit g1) werror (g_ns g1) ps (f_short f) (f_path f) t in
        let g2 := with_ns g1 (po_ns po) in
        let g2 := with_errs g2 (g_err g2 || nonempty (po_errs po)) (g_errtxt g2 ++ po_errs po) in
        match po_exn po with
        | Some d => (g2, po_state po, Some (E_raw d))
        | None => (g2, po_state po, exit_if_errors g2)
        end
      end
    end.

  (* ---- _snapshot_parser_to_cache ---- *)
  Definition snapshot_alias (sh : shape) (k : ckey) : alias :=
    mkal (Some k) (negb (snap_copy_consts sh)) (negb (snap_copy_macros sh)) (negb (snap_copy_main sh)).
  (* ---- _restore_parser_from_cache (the parser object itself is new: FJParser(width, werror, files[0])) ---- *)
  Definition restore (snap : snapshot) : pstate := mkps (ps_consts snap) (ps_macros snap) (ps_main snap).
  Definition restore_alias (sh : shape) (k : ckey) : alias :=
    mkal (Some k) (negb (rest_copy_consts sh)) (negb (rest_copy_macros sh)) (negb (rest_copy_main sh)).

  Record lstate := mkl { l_g : gstate; l_ps : pstate; l_seen : list seen_item; l_al : alias }.

  (* ---- the main loop of _parse_files_into_parser, from file index idx ---- *)
  Fixpoint parse_loop (sh : shape) (werror : bool) (key : option ckey) (plen idx : nat) (fs : list file)
           (st : lstate) : lstate * option err :=
    match fs with
    | [] => (st, None)
    | f :: rest =>
      let g := with_file (l_g st) (Some (f_short f, f_path f)) in        (* the for-loop targets are the globals *)
      match validate_current_file (l_seen st) f with
      | inr e => (mkl g (l_ps st) (l_seen st) (l_al st), Some e)
      | inl seen' =>
        let '(g, ps, oe) := lex_parse_curr_file sh werror g (l_ps st) f in
        match oe with
        | Some e => (mkl g ps seen' (l_al st), Some e)
        | None =>
          let st' :=
            match key with
            | Some k => if Nat.eqb (S idx) plen
                        then mkl (with_cache g (store k ps (g_cache g))) ps seen' (snapshot_alias sh k)
                        else mkl g ps seen' (l_al st)
            | None => mkl g ps seen' (l_al st)
            end in
          parse_loop sh werror key plen (S idx) rest st'
        end
      end
    end.

  (* the skipped prefix files still get their name/path uniqueness validated *)
  Fixpoint validate_prefix (g : gstate) (fs : list file) (seen : list seen_item)
    : gstate * list seen_item * option err :=
    match fs with
    | [] => (g, seen, None)
    | f :: rest =>
      let g := with_file g (Some (f_short f, f_path f)) in
      match validate_current_file seen f with
      | inr e => (g, seen, Some e)
      | inl seen' => validate_prefix g rest seen'
      end
    end.

  Definition finish (r : lstate * option err) : gstate * pstate * option err :=
    let '(st, oe) := r in
    (with_cache (l_g st) (sync (l_al st) (l_ps st) (g_cache (l_g st))), l_ps st, oe).

  (* ---- _parse_files_into_parser ----
     (the `continue` over the first_uncached_index leading files is written as skipn: the loop targets it
      would assign are the ones the validation loop just assigned) *)
  Definition parse_files_into_parser (sh : shape) (g : gstate) (rq : request) (ps0 : pstate)
    : gstate * pstate * option err :=
    let files := rq_files rq in
    let plen := prefix_length files in
    let key := request_key sh rq in
    match match key with Some k => match lookup k (g_cache g) with Some s => Some (k, s) | None => None end
                       | None => None end with
    | Some (k, snap) =>
      match validate_prefix g (firstn plen files) [] with
      | (g1, seen, Some e) => finish (mkl g1 (restore snap) seen (restore_alias sh k), Some e)
      | (g1, seen, None) =>
        finish (parse_loop sh (rq_werror rq) key plen plen (skipn plen files)
                           (mkl g1 (restore snap) seen (restore_alias sh k)))
      end
    | None => finish (parse_loop sh (rq_werror rq) key plen O files (mkl g ps0 [] no_alias))
    end.

  (* ---- parse_macro_tree ---- *)
  Definition parse_macro_tree (sh : shape) (g : gstate) (rq : request) : gstate * (pstate + err) :=
    let g := with_errs g (if reset_err_per_call sh then false else g_err g)
                         (if reset_errtxt_per_call sh then [] else g_errtxt g) in
    match rq_files rq with
    | [] => (g, inr E_empty_files)
    | first :: _ =>
      let ps0 := mkps (init_consts (rq_width rq)) (init_macros (f_short first) (f_abs first)) init_main in
      let '(g, ps, oe) := parse_files_into_parser sh g rq ps0 in
      match oe with
      | Some e => (g, inr e)
      | None =>
        let errs := final_validate ps in
        let g := with_errs g (g_err g || nonempty errs) (g_errtxt g ++ errs) in
        match exit_if_errors g with
        | Some e => (g, inr e)
        | None => (g, inl ps)
        end
      end
    end.

  (* ---- assembler.assemble ---- *)
  Definition assemble_step (sh : shape) (g : gstate) (rq : request) : gstate * result :=
    let entry_limit := g_limit g in            (* recursion_limit_before = sys.getrecursionlimit() *)
    let '(g, r) :=
      match parse_macro_tree sh g rq with
      | (g, inr e) => (g, R_err e)
      | (g, inl ps) =>
        (* resolve_macros -> PreprocessorData.__init__ : sys.setrecursionlimit(max_recursion_depth + GAP) *)
        (* (in force for expansion, label resolution and writing; undone by the `finally` below) *)
        let g := with_limit g (rq_depth rq + GAP) in
        (g, match backend (g_limit g) (rq_width rq) (rq_depth rq) (rq_opts rq) ps with
            | inl o => R_ok o
            | inr d => R_err (E_backend d)
            end)
      end in
    (* finally: sys.setrecursionlimit(recursion_limit_before) - on success and on every failure *)
    (if limit_scoped sh then with_limit g entry_limit else g, r).

  (* a process: the calls it has made so far *)
  Definition run_history (sh : shape) (g : gstate) (h : list request) : gstate :=
    fold_left (fun g rq => fst (assemble_step sh g rq)) h g.

  (* used by the proofs (and by the refuted variant without the restore): the limit a fresh process starts
     with is in force again after every call *)
  Fixpoint limits_ok (sh : shape) (L : Z) (g : gstate) (h : list request) : bool :=
    match h with
    | [] => true
    | rq :: t => let g' := fst (assemble_step sh g rq) in Z.eqb (g_limit g') L && limits_ok sh L g' t
    end.
  Definition limit_restored (sh : shape) (g0 : gstate) (h : list request) : bool :=
    limits_ok sh (g_limit g0) g0 h.

  (* (resolved path, mtime_ns, size) - what the cache key records about a file *)
  Definition same_stat_id (f1 f2 : file) : Prop :=
    f_resolved f1 = f_resolved f2 /\ f_stat f1 = f_stat f2.
End Model.
Arguments init_g {text diag consts macros mainops} L.

(* ---- the property and its stated assumptions ---- *)
Section Statement.
  Variables text diag opts : Type.
  (* U: the calls that can occur in the life of the process under consideration (history and probe) *)
  Variable U : request text diag opts -> Prop.
  (* (resolved path, mtime_ns, size) identifies the content (and kind) of a file ... *)
  Definition content_identified : Prop :=
    forall r1 r2 f1 f2, U r1 -> U r2 -> In f1 (rq_files r1) -> In f2 (rq_files r2) ->
      same_stat_id f1 f2 -> f_text f1 = f_text f2 /\ f_isfile f1 = f_isfile f2.
  (* ... and a file inside the stl directory is always passed under the same spelling
     (str(path) is recorded in every CodePosition; path.absolute() in files_seen and in the main macro) *)
  Definition spelling_identified : Prop :=
    forall r1 r2 f1 f2, U r1 -> U r2 -> In f1 (rq_files r1) -> In f2 (rq_files r2) ->
      f_in_stl f1 = true -> f_in_stl f2 = true ->
      same_stat_id f1 f2 -> f_path f1 = f_path f2 /\ f_abs f1 = f_abs f2.
End Statement.

(* C13 for the layer modelled here, in full: whatever a process (started with recursion limit L0) has
   assembled before, the result of the next call is the result of that call in a fresh process. *)
Definition history_free_statement (sh : shape) : Prop :=
  forall (text diag consts macros mainops opts output : Type)
         (init_consts : Z -> consts) (init_macros : string -> string -> macros) (init_main : mainops)
         (parse_file : Z -> bool -> list string -> pstate consts macros mainops -> string -> string -> text
                       -> parse_out diag consts macros mainops)
         (final_validate : pstate consts macros mainops -> list diag)
         (backend : Z -> Z -> Z -> opts -> pstate consts macros mainops -> output + diag)
         (U : request text diag opts -> Prop),
    content_identified U -> spelling_identified U ->
    forall (L0 : Z) (history : list (request text diag opts)) (probe : request text diag opts),
      Forall U history -> U probe ->
      snd (assemble_step init_consts init_macros init_main parse_file final_validate backend sh
             (run_history init_consts init_macros init_main parse_file final_validate backend sh (init_g L0) history)
             probe)
      = snd (assemble_step init_consts init_macros init_main parse_file final_validate backend sh (init_g L0) probe).

Arguments E_empty_files {diag}.
Arguments E_no_such_file {diag} p.
Arguments E_short_repeated {diag} s.
Arguments E_path_repeated {diag} p.
Arguments E_not_utf8 {diag} p.
Arguments ReadNotUtf8 {text diag}.
Arguments ReadOk {text diag} t.
Arguments ReadRaises {text diag} d.
Arguments R_ok {diag output} o.
Arguments R_err {diag output} e.

(* ------------------------------------------------------------------------------------------------
   A concrete instance used (a) for the refutation witness of the unguarded statement and (b) by the
   correspondence campaign: the opaque functions replay what the real run did (each file carries the
   observed behaviour of ITS parse in THAT call; opts carries the observed backend outcome) and record, as
   tokens inside the parser state, exactly which parses happened with which arguments (short name,
   namespace on entry, limit in force, warning mode).  Everything else - which files are parsed or taken
   from the cache, under which key, what every global holds afterwards - is computed by the model. *)
Module Replay.
  Record behaviour := mkbeh {
    b_need : Z;                    (* the parse raises RecursionError when the limit in force is below this *)
    b_errs : bool;                 (* the parse reports syntax errors *)
    b_warn : bool;                 (* the parse reports warnings (errors iff warning_as_errors) *)
    b_ns : list string;            (* curr_namespace left behind *)
    b_exn : bool                   (* another non-library exception escapes *)
  }.
  Inductive token := Tok (short : string) (ns_in : list string) (limit : Z) (werror : bool) (content : Z).
  Definition text := (Z * behaviour)%type.         (* content id, behaviour *)
  Definition diag := token.
  Definition toks := list token.
  Record bopts := mkbopts { bo_fail : bool; bo_tag : Z }.

  Definition r_parse_file (limit : Z) (werror : bool) (ns : list string)
             (ps : pstate toks toks toks) (short path : string) (t : text) : parse_out token toks toks toks :=
    let '(cid, b) := t in
    let tk := Tok short ns limit werror cid in
    let ps' := mkps (ps_consts ps) (ps_macros ps ++ [tk])%list (ps_main ps ++ [tk])%list in
    if Z.ltb limit (b_need b) then mkpo ps (b_ns b) [] (Some tk)
    else if b_exn b then mkpo ps (b_ns b) [] (Some tk)
    else mkpo ps' (b_ns b) (if b_errs b || (b_warn b && werror) then [tk] else []) None.

  Definition r_init_consts (w : Z) : toks := [Tok "w" [] w false 0].
  Definition r_init_macros (short abs : string) : toks := [Tok short [abs] 0 false 0].
  Definition routput := (Z * Z * Z * Z * toks * toks * toks)%type.
  Definition r_backend (limit width depth : Z) (o : bopts) (ps : pstate toks toks toks) : routput + token :=
    if bo_fail o then inr (Tok "backend" [] limit false (bo_tag o))
    else inl (limit, width, depth, bo_tag o, ps_consts ps, ps_macros ps, ps_main ps).

  (* validate_no_label_const_collisions: the campaign marks a file whose labels collide with constants by a
     negative content id *)
  Definition r_final_validate (ps : pstate toks toks toks) : list token :=
    filter (fun t => match t with Tok _ _ _ _ c => Z.ltb c 0 end) (ps_macros ps).

  Definition rfile := file text token.
  Definition rrequest := request text token bopts.
  Definition rgstate := gstate text token toks toks toks.
  Definition rresult := result token routput.

  Definition step (sh : shape) (g : rgstate) (rq : rrequest) : rgstate * rresult :=
    assemble_step r_init_consts r_init_macros [] r_parse_file r_final_validate r_backend sh g rq.
  Definition g0 : rgstate := init_g FRESH_LIMIT.

  (* what the campaign observes of the real process after each call *)
  Record observed := mkobs {
    o_ok : bool;                               (* the call returned normally *)
    o_class : Z;                               (* 0 ok, 1 empty list, 2 no such file, 3 short name repeated, 4 path repeated,
                                                  5 parsing errors, 6 another exception from the parse stage,
                                                  7 a later stage failed, 8 a file is not utf-8 *)
    o_keys : list ckey;                        (* keys of _stl_prefix_cache *)
    o_ns : list string;                        (* curr_namespace *)
    o_err : bool;                              (* error_occurred *)
    o_haserrs : bool;                          (* all_errors is not empty *)
    o_limit : Z;                               (* sys.getrecursionlimit() *)
    o_file : string;                           (* curr_file_short_name *)
    o_parsed : list (string * list string * Z * Z)
                                               (* lex_parse_curr_file calls that reached parser.parse and returned:
                                                  short name, curr_namespace on entry, limit in force, content id -
                                                  those of this call and, before them, those recorded when the
                                                  restored snapshot was taken *)
  }.

  Definition class_of (r : rresult) : Z :=
    match r with
    | R_ok _ => 0
    | R_err E_empty_files => 1
    | R_err (E_no_such_file _) => 2
    | R_err (E_short_repeated _) => 3
    | R_err (E_path_repeated _) => 4
    | R_err (E_parse _ _) => 5
    | R_err (E_raw _) => 6
    | R_err (E_backend _) => 7
    | R_err (E_not_utf8 _) => 8
    end.

  Fixpoint keys_subset (a b : list ckey) : bool :=
    match a with [] => true | k :: r => existsb (ckey_eqb k) b && keys_subset r b end.
  Definition keys_same (a b : list ckey) : bool :=
    keys_subset a b && keys_subset b a && Nat.eqb (List.length a) (List.length b).

  Definition tok_view (t : token) : string * list string * Z * Z :=
    match t with Tok s ns l _ c => (s, ns, l, Z.abs c) end.
  Definition view_eqb (a b : string * list string * Z * Z) : bool :=
    let '(s1, n1, l1, c1) := a in let '(s2, n2, l2, c2) := b in
    String.eqb s1 s2 && list_eqb String.eqb n1 n2 && Z.eqb l1 l2 && Z.eqb c1 c2.

  (* tokens of the parses that produced the parser state a call ended with: for a successful call they are
     inside the output; for a failed one the campaign compares only what it can see *)
  Definition parsed_of (r : rresult) : option (list (string * list string * Z * Z)) :=
    match r with
    | R_ok (_, _, _, _, _, ms, _) => Some (map tok_view (tl ms))
    | _ => None
    end.

  Definition file_short (g : rgstate) : string :=
    match g_file g with Some (s, _) => s | None => "" end.

  Definition obs_match (g' : rgstate) (r : rresult) (o : observed) : bool :=
    Bool.eqb (o_ok o) (Z.eqb (class_of r) 0) && Z.eqb (o_class o) (class_of r)
    && keys_same (o_keys o) (map fst (g_cache g'))
    && list_eqb String.eqb (o_ns o) (g_ns g')
    && Bool.eqb (o_err o) (g_err g')
    && Bool.eqb (o_haserrs o) (nonempty (g_errtxt g'))
    && Z.eqb (o_limit o) (g_limit g')
    && String.eqb (o_file o) (file_short g')
    && match parsed_of r with Some l => list_eqb view_eqb l (o_parsed o) | None => true end.

  (* a whole history: every call must match what was observed *)
  Fixpoint check_from (sh : shape) (g : rgstate) (h : list (rrequest * observed)) : bool :=
    match h with
    | [] => true
    | (rq, o) :: t => let '(g', r) := step sh g rq in obs_match g' r o && check_from sh g' t
    end.
  Definition check_history (h : list (rrequest * observed)) : bool := check_from code_shape g0 h.

  (* index of the first call that does not match (for diagnostics) *)
  Fixpoint first_mismatch (sh : shape) (g : rgstate) (h : list (rrequest * observed)) (i : Z) : Z :=
    match h with
    | [] => -1
    | (rq, o) :: t => let '(g', r) := step sh g rq in
                      if obs_match g' r o then first_mismatch sh g' t (i + 1) else i
    end.

  (* the spec on a replayed history: the result of the last call equals the result of that call on g0 *)
  Fixpoint last_result (sh : shape) (g : rgstate) (h : list (rrequest * observed)) : option (rrequest * rresult) :=
    match h with
    | [] => None
    | (rq, _) :: t => let '(g', r) := step sh g rq in
                      match t with [] => Some (rq, r) | _ => last_result sh g' t end
    end.
  (* the last call is the probe: does it end the way it ends from g0?  (the tokens record the limit in force,
     which real parsing only feels through RecursionError, so only the outcome class is compared) *)
  Definition spec_on_model (h : list (rrequest * observed)) : bool :=
    match last_result code_shape g0 h with
    | None => true
    | Some (rq, r) => Z.eqb (class_of r) (class_of (snd (step code_shape g0 rq)))
    end.
End Replay.
