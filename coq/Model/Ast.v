From FJ Require Import Lib.Base.
(* The assembler AST: exactly what flipjump/assembler/fj_parser.py:parse_macro_tree returns
   (flipjump/assembler/inner_classes/expr.py and ops.py), as Gallina data.  No proofs here.

   Terms of these types are produced from the REAL parser by harness/fjverif/dump_tree.py
   (fail closed on any node shape not listed here), so the models of the preprocessor and of the
   last assembly phase run on the very trees the implementation runs on.

   Python                                   Coq
   ------                                   ---
   Expr(int)                                EInt z                      (z : Z, unbounded)
   Expr(str)   (label, parameter, "$")      ELbl s
   Expr((op, (e1,..,ek)))                   EOp o [e1;..;ek]            (o : opname, the 22 keys of op_string_to_function)
   CodePosition(file, file_short_name, line) mkpos file short line
   FlipJump(flip, jump, pos)                SFlipJump flip jump pos
   WordFlip(word_address, flip_value, return_address, pos)   SWordFlip a v r pos
   Pad(ops_alignment, pos)                  SPad e pos
   Label(name, pos)                         SLabel name pos
   MacroCall(name, args, pos)               SMacroCall name args pos    (MacroName = (name, length args))
   RepCall(times, iterator, name, args, pos) SRepCall times it name args pos
   Segment(start_address, pos)              SSegment e pos
   Reserve(reserved_bit_size, pos)          SReserve e pos
   Macro(params, local_params, ops, namespace, code_position)  mkmacro ...
   Dict[MacroName, Macro]                   list ((string * N) * macro), in dict (insertion) order;
                                            the main macro is the entry ("", 0).
   The parser validates the `< global` and `> extern` label lists of a `def` and then DROPS them:
   the Macro record of ops.py has no field for them, so neither has `macro`. *)
From Coq Require Export String Ascii.   (* NB: after this, `length` is String.length: write List.length *)

Inductive opname :=
  | OAdd | OSub | OMul | ODiv | OMod | OPow | OShl | OShr | OXor | OOr | OAnd
  | OLand | OLor | OBitlen | ONot | OCond | OLt | OGt | OLe | OGe | OEq | ONe.

(* the source spelling: the key of op_string_to_function *)
Definition opname_str (o : opname) : string :=
  match o with
  | OAdd => "+" | OSub => "-" | OMul => "*" | ODiv => "/" | OMod => "%" | OPow => "**"
  | OShl => "<<" | OShr => ">>" | OXor => "^" | OOr => "|" | OAnd => "&"
  | OLand => "&&" | OLor => "||" | OBitlen => "#" | ONot => "~" | OCond => "?:"
  | OLt => "<" | OGt => ">" | OLe => "<=" | OGe => ">=" | OEq => "==" | ONe => "!="
  end%string.

Definition all_opnames : list opname :=
  [OAdd; OSub; OMul; ODiv; OMod; OPow; OShl; OShr; OXor; OOr; OAnd;
   OLand; OLor; OBitlen; ONot; OCond; OLt; OGt; OLe; OGe; OEq; ONe].

Definition opname_arity (o : opname) : nat :=
  match o with OBitlen | ONot => 1 | OCond => 3 | _ => 2 end.

Definition opname_eqb (a b : opname) : bool := String.eqb (opname_str a) (opname_str b).

Definition opname_of_string (s : string) : option opname :=
  find (fun o => String.eqb (opname_str o) s) all_opnames.

Inductive expr :=
  | EInt (z : Z)
  | ELbl (s : string)
  | EOp (o : opname) (args : list expr).

Record code_pos := mkpos { cp_file : string; cp_short : string; cp_line : N }.

Inductive stmt :=
  | SFlipJump (flip jump : expr) (pos : code_pos)
  | SWordFlip (addr value ret : expr) (pos : code_pos)
  | SPad (align : expr) (pos : code_pos)
  | SLabel (name : string) (pos : code_pos)
  | SMacroCall (name : string) (args : list expr) (pos : code_pos)
  | SRepCall (times : expr) (iter : string) (name : string) (args : list expr) (pos : code_pos)
  | SSegment (start : expr) (pos : code_pos)
  | SReserve (size : expr) (pos : code_pos).

Definition stmt_pos (s : stmt) : code_pos :=
  match s with
  | SFlipJump _ _ p | SWordFlip _ _ _ p | SPad _ p | SLabel _ p | SMacroCall _ _ p
  | SRepCall _ _ _ _ p | SSegment _ p | SReserve _ p => p
  end.

Record macro := mkmacro {
  m_params : list string;     (* Macro.params *)
  m_locals : list string;     (* Macro.local_params  (the `@` list) *)
  m_ops : list stmt;          (* Macro.ops *)
  m_ns : string;              (* Macro.namespace, dot separated, "" at top level *)
  m_pos : code_pos            (* Macro.code_position *)
}.

Definition macro_name := (string * N)%type.          (* MacroName.to_tuple() = (name, parameter_num) *)
Definition macro_dict := list (macro_name * macro).  (* dict order = order of definition; main first *)

Definition macro_name_eqb (a b : macro_name) : bool :=
  String.eqb (fst a) (fst b) && N.eqb (snd a) (snd b).

Fixpoint find_macro (d : macro_dict) (n : macro_name) : option macro :=
  match d with
  | [] => None
  | (k, m) :: d' => if macro_name_eqb k n then Some m else find_macro d' n
  end.

Definition main_macro_name : macro_name := (EmptyString, 0%N).
Definition main_ops (d : macro_dict) : list stmt :=
  match find_macro d main_macro_name with Some m => m_ops m | None => [] end.

(* the name a macro call refers to: MacroCall.macro_name / RepCall.macro_name *)
Definition call_name (name : string) (args : list expr) : macro_name := (name, N.of_nat (List.length args)).

(* a program of the primitive language (C02): no macro call, no rep, only the main macro *)
Definition stmt_primitive (s : stmt) : bool :=
  match s with SMacroCall _ _ _ | SRepCall _ _ _ _ _ => false | _ => true end.
