(* C16 - executable transcription of the debug label table as coded:
     flipjump/assembler/preprocessor.py   label naming in resolve_macro_aux (next_macro_path, local labels, ':start:'),
                                          insert_label (duplicate detection), insert_segment (checked assignment),
                                          insert_macro_start_labels_if_their_address_not_used
     flipjump/assembler/inner_classes/ops.py   CodePosition.short_str, MacroName.__str__
     flipjump/utils/functions.py          save_debugging_labels / load_debugging_labels (json + raw lzma2)
     flipjump/interpreter/debugging/breakpoints.py   get_breakpoints and its three update_* helpers
   Text is a list of character codes.  No proofs in this file. *)
From FJ Require Import Lib.Base.
From Coq Require Import String Ascii.
Local Open Scope N_scope.

Definition str := list N.
Definition S_ (s : string) : str := map N_of_ascii (list_ascii_of_string s).

Fixpoint str_eqb (a b : str) : bool :=
  match a, b with [], [] => true | x :: a', y :: b' => (x =? y) && str_eqb a' b' | _, _ => false end.

(* ---- str(int) for naturals ---- *)
Fixpoint dec_digits (fuel : nat) (n : N) (acc : str) : str :=
  match fuel with
  | O => acc
  | S k => let acc' := (48 + n mod 10) :: acc in if n / 10 =? 0 then acc' else dec_digits k (n / 10) acc'
  end.
Definition dec (n : N) : str := dec_digits (S (N.to_nat (N.size n))) n [].

(* ---- names ---- *)
(* one step of the expansion path: the call statement's position (file short name, line), the repetition index
   for `rep`, the called macro's full name and its number of parameters *)
Record comp := mkcomp { c_file : str; c_line : N; c_rep : option N; c_name : str; c_nargs : N }.

Definition sep : str := [45; 45; 45].                      (* MACRO_SEPARATOR_STRING "---" *)
Definition start_leaf : str := S_ ":start:".               (* STARTING_LABEL_IN_MACROS_STRING *)

(* MacroName.__str__ *)
Definition macro_name_str (name : str) (n : N) : str :=
  if n =? 0 then name else name ++ 40 :: dec n ++ [41].

(* f"{short_str()}:{macro_name}" and f"{short_str()}:rep{i}:{macro_name}", short_str = f"{file_short_name}:l{line}" *)
Definition render_comp (c : comp) : str :=
  c.(c_file) ++ 58 :: 108 :: dec c.(c_line) ++ 58 ::
  match c.(c_rep) with
  | Some i => 114 :: 101 :: 112 :: dec i ++ 58 :: macro_name_str c.(c_name) c.(c_nargs)
  | None => macro_name_str c.(c_name) c.(c_nargs)
  end.

(* labels_prefix of an expansion: (parent_prefix + '---' if parent_prefix else '') + component *)
Fixpoint join_path (p : list comp) : str :=
  match p with
  | [] => []
  | [c] => render_comp c
  | c :: r => render_comp c ++ sep ++ join_path r
  end.

(* f'{labels_prefix}---{leaf}' : macro-local labels (leaf = the @-name) and the ':start:' label *)
Definition render_label (p : list comp) (leaf : str) : str := join_path p ++ sep ++ leaf.

Inductive lname := Global (s : str) | Local (p : list comp) (leaf : str).
Definition render_name (n : lname) : str :=
  match n with Global s => s | Local p leaf => render_label p leaf end.

(* ---- the labels dictionary (insertion ordered, like a python dict) ---- *)
Definition table := list (str * Z).
Fixpoint lookup (t : table) (k : str) : option Z :=
  match t with [] => None | (n, a) :: r => if str_eqb n k then Some a else lookup r k end.
Definition keys (t : table) : list str := map fst t.
Definition has_key (t : table) (k : str) : bool := match lookup t k with Some _ => true | None => false end.
(* label events of one preprocessing, in expansion order *)
Inductive lev :=
| Decl (name : str) (addr : Z)        (* insert_label(name, position) at curr_address *)
| Silent (name : str) (addr : Z).     (* insert_segment: labels['_.wflip_area_start_i'] = curr_address, after the
                                         "label declared twice" check; no code position, not in addresses_with_labels *)

Inductive bres :=
| BOk (t : table)
| BDup (name : str).                  (* "label declared twice" -> FlipJumpPreprocessorException (both insert_label and
                                         insert_segment; the other position may be 'an assembler-internal label') *)

Inductive lerr := LDup (name : str).
Definition bres_of (e : lerr) : bres := match e with LDup n => BDup n end.

(* state: labels dict, names that have a code position, addresses_with_labels *)
Record pstate := mkp { p_tbl : table; p_pos : list str; p_used : list Z }.

Definition mem_str (k : str) (l : list str) : bool := existsb (str_eqb k) l.
Definition mem_z (a : Z) (l : list Z) : bool := existsb (Z.eqb a) l.

Definition insert_label (s : pstate) (name : str) (addr : Z) : pstate + lerr :=
  if has_key s.(p_tbl) name then inr (LDup name)
  else inl (mkp (s.(p_tbl) ++ [(name, addr)]) (name :: s.(p_pos)) (addr :: s.(p_used))).

Fixpoint run_events (evs : list lev) (s : pstate) : pstate + lerr :=
  match evs with
  | [] => inl s
  | Decl n a :: r => match insert_label s n a with inl s' => run_events r s' | inr e => inr e end
  | Silent n a :: r =>
    if has_key s.(p_tbl) n then inr (LDup n)
    else run_events r (mkp (s.(p_tbl) ++ [(n, a)]) s.(p_pos) s.(p_used))
  end.

(* insert_macro_start_labels_if_their_address_not_used: iterates macro_start_labels[::-1] *)
Fixpoint run_starts (rstarts : list (str * Z)) (s : pstate) : pstate + lerr :=
  match rstarts with
  | [] => inl s
  | (n, a) :: r =>
    if mem_z a s.(p_used) then run_starts r s
    else match insert_label s n a with inl s' => run_starts r s' | inr e => inr e end
  end.

(* starts: (label '<prefix>---:start:', start address) of every expansion, in expansion order *)
Definition build (evs : list lev) (starts : list (str * Z)) : bres :=
  match run_events evs (mkp [] [] []) with
  | inr e => bres_of e
  | inl s => match run_starts (rev starts) s with inr e => bres_of e | inl s' => BOk s'.(p_tbl) end
  end.

(* ---- breakpoints ---- *)
Definition bdict := list (Z * option str).
Fixpoint bset (d : bdict) (k : Z) (v : option str) : bdict :=
  match d with
  | [] => [(k, v)]
  | (a, x) :: r => if (a =? k)%Z then (a, v) :: r else (a, x) :: bset r k v
  end.

Fixpoint prefix_of (s l : str) : bool :=
  match s, l with
  | [], _ => true
  | x :: s', y :: l' => (x =? y) && prefix_of s' l'
  | _ :: _, [] => false
  end.
(* `s in l` *)
Fixpoint substr (s l : str) : bool :=
  prefix_of s l || match l with [] => false | _ :: l' => substr s l' end.

(* the three sets are given as lists in the iteration order of the python sets *)
Definition bp_addresses (A : list Z) (d : bdict) : bdict := fold_left (fun d a => bset d a None) A d.
Definition bp_contains (Sub : list str) (t : table) (d : bdict) : bdict :=
  fold_left (fun d la => fold_left (fun d bcl => if substr bcl (fst la) then bset d (snd la) (Some (fst la)) else d) Sub d)
            (rev t) d.
Definition bp_exact (Ls : list str) (t : table) (d : bdict) : bdict :=
  fold_left (fun d bl => match lookup t bl with None => d | Some a => bset d a (Some bl) end) Ls d.
Definition get_breakpoints (A : list Z) (Ls : list str) (Sub : list str) (t : table) : bdict :=
  bp_exact Ls t (bp_contains Sub t (bp_addresses A [])).
(* "Warning:  Breakpoint label ... can't be found!" *)
Definition bp_warnings (Ls : list str) (t : table) : list str := filter (fun bl => negb (has_key t bl)) Ls.

(* ---- save_debugging_labels / load_debugging_labels ----
   json.dumps(...).encode('utf-8'), json.loads(....decode('utf-8')) and raw-LZMA2 compress/decompress are external:
   section variables here, their round-trip laws are section hypotheses of the theorem (Proofs/LabelsProps.v). *)
Section SaveLoad.
Variable bytes : Type.
Variable json_dumps : table -> bytes.
Variable json_loads : bytes -> option table.
Variable lzma_compress : bytes -> bytes.
Variable lzma_decompress : bytes -> option bytes.

Definition save_labels (t : table) : bytes := lzma_compress (json_dumps t).
Definition load_labels (f : bytes) : option table :=
  match lzma_decompress f with Some b => json_loads b | None => None end.
End SaveLoad.

(* ---- evaluation of one campaign case (harness/fjverif/checks/c16.py) ---- *)
Inductive xev :=
| XDecl (n : lname) (addr : Z) (marker : option N)   (* marker: flip word of the op statement the label precedes *)
| XSilent (s : str) (addr : Z).

Record lcase := mklcase {
  l_ww : N;
  l_events : list xev;
  l_starts : list (list comp * Z);
  l_outcome : N;                 (* observed: 0 = assembled, 1 = "label declared twice" error, 2 = catch-all error (never predicted) *)
  l_table : table;               (* observed load_debugging_labels (in file order, ':wflips:' entries removed) *)
  l_words : list (N * N)         (* observed Reader.memory (non-zero words) *)
}.

Definition lev_of (e : xev) : lev :=
  match e with XDecl n a _ => Decl (render_name n) a | XSilent s a => Silent s a end.
Definition starts_of (c : lcase) : list (str * Z) := map (fun pa => (render_label (fst pa) start_leaf, snd pa)) c.(l_starts).
Definition model_build (c : lcase) : bres := build (map lev_of c.(l_events)) (starts_of c).

Fixpoint table_eqb (a b : table) : bool :=
  match a, b with
  | [], [] => true
  | (n, x) :: a', (k, y) :: b' => str_eqb n k && (x =? y)%Z && table_eqb a' b'
  | _, _ => false
  end.

Definition check_lcase (c : lcase) : bool :=
  match model_build c with
  | BOk t => (c.(l_outcome) =? 0) && table_eqb t c.(l_table)
  | BDup _ => c.(l_outcome) =? 1
  end.

(* the specification evaluated on the OBSERVED table and image (no use of `build`):
   (a) every declared label is in the table with the address of its statement, and when it precedes an op statement the
       image holds that op's flip word exactly there;
   (b) every key is a declared label, a segment label or the start label of an expansion;
   (c) a start label sits at its expansion's start address and no declared label has that address;
       every expansion start address carries at least one label. *)
Definition w_of (c : lcase) : Z := Z.of_N (N.shiftl 1 c.(l_ww)).
Definition declared (c : lcase) : list (str * Z) :=
  flat_map (fun e => match e with XDecl n a _ => [(render_name n, a)] | XSilent _ _ => [] end) c.(l_events).
Definition silent (c : lcase) : list str :=
  flat_map (fun e => match e with XSilent s _ => [s] | _ => [] end) c.(l_events).

Definition spec_lcase (c : lcase) : bool :=
  let mem := mem_of_list c.(l_words) in
  let t := c.(l_table) in
  let decl := declared c in
  let st := starts_of c in
  forallb (fun e => match e with
                    | XDecl n a mk =>
                      match lookup t (render_name n) with
                      | Some a' => (a' =? a)%Z &&
                                   match mk with
                                   | Some v => ((a' mod w_of c) =? 0)%Z && (mget0 mem (Z.to_N (a' / w_of c)) =? v)
                                   | None => true
                                   end
                      | None => false
                      end
                    | XSilent _ _ => true
                    end) c.(l_events) &&
  forallb (fun k => mem_str k (map fst decl) || mem_str k (silent c) || mem_str k (map fst st)) (keys t) &&
  forallb (fun sa => (match lookup t (fst sa) with
                      | Some a' => mem_str (fst sa) (map fst decl) || ((a' =? snd sa)%Z && negb (mem_z (snd sa) (map snd decl)))
                      | None => true
                      end) && mem_z (snd sa) (map snd t)) st.

(* breakpoint queries *)
Record bcase := mkbcase {
  b_table : table; b_A : list Z; b_L : list str; b_S : list str;
  b_observed : list (Z * option str); b_warnings : list str
}.
Fixpoint bdict_eqb (a b : bdict) : bool :=
  match a, b with
  | [], [] => true
  | (x, None) :: a', (y, None) :: b' => (x =? y)%Z && bdict_eqb a' b'
  | (x, Some s) :: a', (y, Some u) :: b' => (x =? y)%Z && str_eqb s u && bdict_eqb a' b'
  | _, _ => false
  end.
Fixpoint strs_eqb (a b : list str) : bool :=
  match a, b with [], [] => true | x :: a', y :: b' => str_eqb x y && strs_eqb a' b' | _, _ => false end.
Definition check_bcase (c : bcase) : bool :=
  bdict_eqb (get_breakpoints c.(b_A) c.(b_L) c.(b_S) c.(b_table)) c.(b_observed) &&
  strs_eqb (bp_warnings c.(b_L) c.(b_table)) c.(b_warnings).
(* the specification of the domain and of the warnings, evaluated on the observed dictionary / output *)
Definition spec_bcase (c : bcase) : bool :=
  let dom := map fst c.(b_observed) in
  let want a := mem_z a c.(b_A) ||
                existsb (fun l => match lookup c.(b_table) l with Some x => (x =? a)%Z | None => false end) c.(b_L) ||
                existsb (fun la => (snd la =? a)%Z && existsb (fun s => substr s (fst la)) c.(b_S)) c.(b_table) in
  forallb want dom &&
  forallb (fun a => mem_z a dom) c.(b_A) &&
  forallb (fun l => match lookup c.(b_table) l with Some x => mem_z x dom | None => true end) c.(b_L) &&
  forallb (fun la => negb (existsb (fun s => substr s (fst la)) c.(b_S)) || mem_z (snd la) dom) c.(b_table) &&
  (* the warnings are exactly the exact labels that are not in the table (C16_breakpoint_warnings) *)
  forallb (fun l => mem_str l c.(b_L) && negb (has_key c.(b_table) l)) c.(b_warnings) &&
  forallb (fun l => has_key c.(b_table) l || mem_str l c.(b_warnings)) c.(b_L).
