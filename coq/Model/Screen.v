(* The screen command decoder of flipjump/interpreter/io_devices/ScreenIO.py (InMemoryScreen), statement by
   statement, as a total function from a byte stream and a memory view to the presented frames or an error.
   Every IODeviceException is an `serr` exit; every place where Python could raise something else
   (IndexError on payload[...] / pixel_indices[...], the ValueError of DeviceMemory._require_byte_capable_width)
   is an `sraw` exit, so that "never a non-device exception" is a theorem and not a modelling choice.
   No proofs here. *)
From FJ Require Import Lib.Base Spec.MachineSpec Model.DevMem.
Local Open Scope N_scope.

(* what the screen needs from DeviceMemory: memory_width and read_data_byte *)
Record sview := mksv { sv_w : N; sv_rdb : N -> N }.

Inductive serr :=                 (* IODeviceException, by raise statement *)
| ENoMemory                       (* 'the screen device is not attached to the interpreter memory' *)
| EUnknownCommand (c : N)         (* 'unknown screen-device command' *)
| EBadBpp (b : N)                 (* 'screen bpp must be 4 or 8' *)
| EZeroSize                       (* 'screen size must be nonzero' *)
| ENotInit                        (* 'the screen was not initialized' *)
| ERectBounds.                    (* 'update_rectangle ... exceeds the ... screen' *)

Inductive sraw := RValueError | RIndexError.

Inductive sres (A : Type) := ROk (a : A) | RDev (e : serr) | RRaw (e : sraw).
Arguments ROk {A} a.
Arguments RDev {A} e.
Arguments RRaw {A} e.

Definition rgb := (N * N * N)%type.
(* pixel_indices, palette and last_frame_rgb at the time of _present *)
Definition frame := (list N * list rgb * list rgb)%type.

(* _present: [palette[index] if index < len(palette) else black for index in pixel_indices] *)
Definition expand (palette : list rgb) (pix : list N) : list rgb :=
  map (fun index => nth (N.to_nat index) palette (0, 0, 0)) pix.

Record sstate := mkss {
  s_width : N; s_height : N; s_bpp : N; s_palsize : N;
  s_palette : list rgb; s_pix : list N;
  s_buf : list N;                  (* _command_buffer *)
  s_frames : list frame;           (* presented frames, most recent first *)
  s_rgb : list rgb                 (* last_frame_rgb *)
}.

Definition sinit : sstate := mkss 0 0 8 0 [] [] [] [] [].

Definition nseq (n : N) : list N := map N.of_nat (seq 0 (N.to_nat n)).
Definition nthN (l : list N) (i : N) : N := nth (N.to_nat i) l 0.

Fixpoint upd (l : list N) (i : nat) (v : N) : option (list N) :=
  match l, i with
  | [], _ => None
  | _ :: r, O => Some (v :: r)
  | a :: r, S k => match upd r k v with Some r' => Some (a :: r') | None => None end
  end.

Fixpoint triples (l : list N) : list rgb :=
  match l with a :: b :: c :: r => (a, b, c) :: triples r | _ => [] end.

Section V.
Variable mv : option sview.      (* self.device_memory *)

Definition address_bytes : sres N :=
  match mv with None => RDev ENoMemory | Some v => ROk (sv_w v / 8) end.

Definition require_initialized (st : sstate) : bool := negb ((st.(s_width) =? 0) || (st.(s_height) =? 0)).

Definition command_length (st : sstate) (cmd : N) : sres N :=
  if cmd =? 1 then ROk 8
  else if (cmd =? 2) || (cmd =? 3) then
    match address_bytes with ROk n => ROk (1 + n) | RDev e => RDev e | RRaw e => RRaw e end
  else if cmd =? 4 then
    match address_bytes with ROk n => ROk (9 + n) | RDev e => RDev e | RRaw e => RRaw e end
  else if cmd =? 5 then
    if require_initialized st then ROk (1 + st.(s_width) * st.(s_height)) else RDev ENotInit
  else RDev (EUnknownCommand cmd).

Definition pay (p : list N) (off : nat) : sres N :=
  match nth_error p off with Some b => ROk b | None => RRaw RIndexError end.

Definition u16 (p : list N) (off : nat) : sres N :=
  match pay p off with
  | ROk lo => match pay p (off + 1) with ROk hi => ROk (N.lor lo (N.shiftl hi 8)) | e => e end
  | e => e
  end.

(* for i in range(n): value |= payload[offset + i] << (8 * i) *)
Fixpoint read_address_loop (p : list N) (off : nat) (i : nat) (n : nat) (value : N) : sres N :=
  match n with
  | O => ROk value
  | S k =>
    match pay p (off + i) with
    | ROk b => read_address_loop p off (S i) k (N.lor value (N.shiftl b (8 * N.of_nat i)))
    | e => e
    end
  end.

Definition read_address (p : list N) (off : nat) : sres N :=
  match address_bytes with
  | ROk n => read_address_loop p off 0 (N.to_nat n) 0
  | e => e
  end.

(* _read_packed_bytes: [device_memory.read_data_byte(first + k * dw) for k in range(count)] *)
Definition read_packed_bytes (first count : N) : sres (list N) :=
  match mv with
  | None => RDev ENoMemory
  | Some v =>
    if count =? 0 then ROk []
    else if sv_w v <? 16 then RRaw RValueError
    else ROk (map (fun k => sv_rdb v (first + k * (2 * sv_w v))) (nseq count))
  end.

Definition present (st : sstate) : sstate :=
  let rgbs := expand st.(s_palette) st.(s_pix) in        (* recomputed from the CURRENT palette at every present *)
  mkss st.(s_width) st.(s_height) st.(s_bpp) st.(s_palsize) st.(s_palette) st.(s_pix) st.(s_buf)
       ((st.(s_pix), st.(s_palette), rgbs) :: st.(s_frames)) rgbs.

Definition init_screen (st : sstate) (width height bpp palsize : N) : sres sstate :=
  if negb ((bpp =? 4) || (bpp =? 8)) then RDev (EBadBpp bpp)
  else if (width =? 0) || (height =? 0) then RDev EZeroSize
  else ROk (mkss width height bpp palsize
                 (repeat (0, 0, 0) (N.to_nat palsize)) (repeat 0 (N.to_nat (width * height)))
                 st.(s_buf) st.(s_frames) st.(s_rgb)).

Definition set_palette (st : sstate) (addr : N) : sres sstate :=
  match read_packed_bytes addr (3 * st.(s_palsize)) with
  | ROk rgbs => ROk (mkss st.(s_width) st.(s_height) st.(s_bpp) st.(s_palsize) (triples rgbs) st.(s_pix)
                          st.(s_buf) st.(s_frames) st.(s_rgb))
  | RDev e => RDev e
  | RRaw e => RRaw e
  end.

Definition with_pix (st : sstate) (pix : list N) : sstate :=
  mkss st.(s_width) st.(s_height) st.(s_bpp) st.(s_palsize) st.(s_palette) pix st.(s_buf) st.(s_frames) st.(s_rgb).

Definition pixel_mask (st : sstate) : N := N.ones st.(s_bpp).

Definition update_screen (st : sstate) (addr : N) : sres sstate :=
  if negb (require_initialized st) then RDev ENotInit
  else
    match read_packed_bytes addr (st.(s_width) * st.(s_height)) with
    | ROk raw => ROk (present (with_pix st (map (fun p => N.land p (pixel_mask st)) raw)))
    | RDev e => RDev e
    | RRaw e => RRaw e
    end.

Definition update_screen_raw (st : sstate) (pixels : list N) : sres sstate :=
  if negb (require_initialized st) then RDev ENotInit
  else ROk (present (with_pix st (map (fun p => N.land p (pixel_mask st)) pixels))).

(* for col in range(rect_width): pixel_indices[first + col] = line[col] & mask   (len(line) = rect_width) *)
Fixpoint set_cols (pix : list N) (first : N) (line : list N) (mask : N) : sres (list N) :=
  match line with
  | [] => ROk pix
  | v :: r =>
    match upd pix (N.to_nat first) (N.land v mask) with
    | None => RRaw RIndexError
    | Some pix' => set_cols pix' (first + 1) r mask
    end
  end.

Definition row_first (width x y : N) (row : nat) : N := (y + N.of_nat row) * width + x.

Fixpoint rect_rows (dwv : N) (pix : list N) (width x y rw addr mask : N) (rows : list nat) : sres (list N) :=
  match rows with
  | [] => ROk pix
  | row :: rest =>
    let first := row_first width x y row in
    match read_packed_bytes (addr + first * dwv) rw with
    | ROk line =>
      match set_cols pix first line mask with
      | ROk pix' => rect_rows dwv pix' width x y rw addr mask rest
      | e => e
      end
    | RDev e => RDev e
    | RRaw e => RRaw e
    end
  end.

Definition update_rectangle (st : sstate) (x y rw rh addr : N) : sres sstate :=
  if negb (require_initialized st) then RDev ENotInit
  else
    match mv with
    | None => RDev ENoMemory
    | Some v =>
      if (st.(s_width) <? x + rw) || (st.(s_height) <? y + rh) then RDev ERectBounds
      else
        match rect_rows (2 * sv_w v) st.(s_pix) st.(s_width) x y rw addr (pixel_mask st) (seq 0 (N.to_nat rh)) with
        | ROk pix' => ROk (present (with_pix st pix'))
        | RDev e => RDev e
        | RRaw e => RRaw e
        end
    end.

Definition bind {A B} (r : sres A) (f : A -> sres B) : sres B :=
  match r with ROk a => f a | RDev e => RDev e | RRaw e => RRaw e end.

Definition execute_command (st : sstate) (cmd : N) (p : list N) : sres sstate :=
  if cmd =? 1 then
    bind (u16 p 0) (fun width => bind (u16 p 2) (fun height => bind (pay p 4) (fun bpp => bind (u16 p 5) (fun ps =>
      init_screen st width height bpp ps))))
  else if cmd =? 2 then bind (read_address p 0) (fun a => set_palette st a)
  else if cmd =? 3 then bind (read_address p 0) (fun a => update_screen st a)
  else if cmd =? 4 then
    bind (u16 p 0) (fun x => bind (u16 p 2) (fun y => bind (u16 p 4) (fun rw => bind (u16 p 6) (fun rh =>
      bind (read_address p 8) (fun a => update_rectangle st x y rw rh a)))))
  else if cmd =? 5 then update_screen_raw st p
  else ROk st.

Definition with_buf (st : sstate) (buf : list N) : sstate :=
  mkss st.(s_width) st.(s_height) st.(s_bpp) st.(s_palsize) st.(s_palette) st.(s_pix) buf st.(s_frames) st.(s_rgb).

(* _handle_byte *)
Definition handle_byte (st : sstate) (b : N) : sres sstate :=
  let buf := st.(s_buf) ++ [b] in
  let st1 := with_buf st buf in
  match buf with
  | [] => RRaw RIndexError                              (* self._command_buffer[0] *)
  | cmd :: payload =>
    bind (command_length st1 cmd) (fun n =>
      if n <=? N.of_nat (length buf) then execute_command (with_buf st1 []) cmd payload
      else ROk st1)
  end.

(* the stream is consumed until the first exception (the run ends there) *)
Fixpoint decode (st : sstate) (bs : list N) : sstate * option (serr + sraw) :=
  match bs with
  | [] => (st, None)
  | b :: r =>
    match handle_byte st b with
    | ROk st' => decode st' r
    | RDev e => (st, Some (inl e))
    | RRaw e => (st, Some (inr e))
    end
  end.

End V.

(* the view given by a DeviceMemory adapter over a memory (Model/DevMem.v) *)
Definition view_of (ww : N) (ad : adapter) (d : dview) : sview :=
  mksv (MachineSpec.w ww) (read_data_byte ww ad d).

(* ---- one correspondence case ----------------------------------------------------------------------------- *)

Record scase := mkscase {
  q_mem : option (N * list (N * N));        (* None: no memory attached; Some (ww, words of a dict-backed DeviceMemory) *)
  q_bytes : list N;
  z_err : N;                                (* 0 none, 1 IODeviceException, 2 anything else *)
  z_frames : list (list N * list (N * N * N) * list N);   (* oldest first; last_frame_rgb as r*65536 + g*256 + b *)
  z_pix : list N; z_pal : list (N * N * N);  (* pixel_indices / palette after the stream *)
  z_rgb : list N;                           (* last_frame_rgb after the stream, coded as above *)
  z_geom : list N                           (* width, height, bpp, palette_size after the stream *)
}.

Definition case_view (c : scase) : option sview :=
  match c.(q_mem) with
  | None => None
  | Some (ww, words) => Some (view_of ww AdNative (mkdv (mem_of_list words) []))
  end.

Definition rgb_eqb (a b : rgb) : bool :=
  let '(a1, a2, a3) := a in let '(b1, b2, b3) := b in (a1 =? b1) && (a2 =? b2) && (a3 =? b3).
Fixpoint rgbs_eqb (a b : list rgb) : bool :=
  match a, b with [], [] => true | x :: a', y :: b' => rgb_eqb x y && rgbs_eqb a' b' | _, _ => false end.
Definition rgb_code (c : rgb) : N := let '(r, g, b) := c in r * 65536 + g * 256 + b.
Definition frame_eqb (a : frame) (b : list N * list rgb * list N) : bool :=
  nlist_eqb (fst (fst a)) (fst (fst b)) && rgbs_eqb (snd (fst a)) (snd (fst b)) && nlist_eqb (map rgb_code (snd a)) (snd b).
Fixpoint frames_eqb (a : list frame) (b : list (list N * list rgb * list N)) : bool :=
  match a, b with [], [] => true | x :: a', y :: b' => frame_eqb x y && frames_eqb a' b' | _, _ => false end.

Definition err_code (e : option (serr + sraw)) : N :=
  match e with None => 0 | Some (inl _) => 1 | Some (inr _) => 2 end.

Definition check_scase (c : scase) : bool :=
  let '(st, e) := decode (case_view c) sinit c.(q_bytes) in
  (err_code e =? c.(z_err)) && frames_eqb (rev st.(s_frames)) c.(z_frames) &&
  nlist_eqb st.(s_pix) c.(z_pix) && rgbs_eqb st.(s_palette) c.(z_pal) && nlist_eqb (map rgb_code st.(s_rgb)) c.(z_rgb) &&
  nlist_eqb [st.(s_width); st.(s_height); st.(s_bpp); st.(s_palsize)] c.(z_geom).
