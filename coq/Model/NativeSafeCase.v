From FJ Require Import Lib.Base Model.NativeSafe.
(* C11 tie: the index model of _fjcore.c evaluated on the direct-API call sequences that checks/c11.py runs on
   the sanitizer build, compared call by call (result class, allocated_bytes, storage_mode, returned values).
   No proofs in this file. *)
Local Open Scope N_scope.

Inductive tcall :=
| TInit (w : N) (fmax : N)                (* Memory(w, flat_max_words=) and __init__ on a live object *)
| TAdd (a b : N)
| TSetWord (a v : N)
| TGetWord (a : N)
| TSetWords (a : N) (l : list item)
| TRun (input : list bool) (rspec wspec : option (N * cbres)) (lol : Z) (start_ip : N)
                                          (* rspec/wspec: from its k-th call on, read_bit / write_bit behaves as given *)
| TLastOps                                (* read last_run_last_ops: the kept list *)
| TOom (c : tcall)                        (* the call made while the process can get no more memory *)
| TGet.                                   (* an attribute read: nothing but the observables to compare *)

(* class: 0 ok, 1 ValueError, 2 MemoryError, 3 OverflowError, 4 TypeError, 5 error raised by a callback *)
Record tobs := mkObs { o_cls : N; o_alloc : N; o_mode : N; o_vals : list N }.

Definition exc_code (e : exc) : N :=
  match e with ValueError => 1 | MemoryError => 2 | OverflowError => 3 | TypeError => 4 | CallbackError => 5 end.

(* the sanitizer build's allocator: everything the campaign really allocates succeeds (at most 2^27 bytes);
   the campaign requests nothing between that and 2^44 bytes; larger requests fail *)
Definition al_ok : alloc := fun _ bytes => bytes <? 17592186044416.
Definition env0 : envv := mkEnv false 0 false false.
Definition spec_io (input : list bool) (rspec wspec : option (N * cbres)) : world :=
  mkWorld (fun k => mkCb [] false (match wspec with Some (at_, r) => if at_ <=? k then r else CbBool false | None => CbBool false end))
          (fun k => mkCb [] false (match rspec with
                                   | Some (at_, r) => if at_ <=? k then r
                                                      else match nth_error input (N.to_nat k) with Some b => CbBool b | None => CbEOF end
                                   | None => match nth_error input (N.to_nat k) with Some b => CbBool b | None => CbEOF end
                                   end))
          (fun _ => false).
Definition fixed_io (input : list bool) : world := spec_io input None None.
Definition RUN_FUEL : nat := N.to_nat 6000.

Definition nlist_eqb (a b : list N) : bool := (length a =? length b)%nat && forallb (fun p => fst p =? snd p) (combine a b).
Fixpoint take {A} (n : nat) (l : list A) : list A := match n, l with S n', x :: r => x :: take n' r | _, _ => [] end.

(* the values the worker records for a call *)
Definition run_vals (r : run_out) : option (list N) :=
  match ro_state r with
  | Finished c l => Some (c :: l_ops l :: (match ro_err r with Some a => a + 1 | None => 0 end) :: take 8 (ro_last_ops r))
  | _ => None
  end.

(* memory pressure: either nothing can be allocated, or only small blocks (served from the existing heap) can *)
Definition al_none : alloc := fun _ _ => false.
Definition al_small : alloc := fun _ bytes => bytes <? 65536.

Fixpoint model_call_al (al_ok : alloc) (ev : envv) (c : tcall) (s : st) : res (out (list N) * st) :=
  match c with
  | TInit w f => (api_init w true f ;;; ret []) s
  | TAdd a b => (api_add_segment al_ok a b ;;; ret []) s
  | TSetWord a v => (api_set_word al_ok ov_c a v ;;; ret []) s
  | TGetWord a => (v <- api_get_word al_ok ov_c a;; ret [v]) s
  | TSetWords a l => (api_set_words al_ok ov_c a l ;;; ret []) s
  | TRun inp rs ws lol ip => (r <- api_run ev al_ok ov_c (spec_io inp rs ws) lol ip RUN_FUEL;;
                        match run_vals r with Some v => ret v | None => lift NoFuel end) s
  | TGet => ret [] s
  | TLastOps => ret (last_run_last_ops s) s
  | TOom c' => model_call_al al_ok ev c' s
  end.
Definition model_call := model_call_al al_ok.

(* does the model's outcome of one call agree with what was observed? *)
Definition local_ok (o : tobs) (res_ : res (out (list N) * st)) : bool :=
  match res_ with
  | Ok (Val v, s') => (o_cls o =? 0) && (allocated_bytes s' =? o_alloc o) && (storage_mode s' =? o_mode o) && nlist_eqb v (o_vals o)
  | Ok (Raise e, s') => (o_cls o =? exc_code e) && (allocated_bytes s' =? o_alloc o) && (storage_mode s' =? o_mode o)
  | _ => false
  end.

Fixpoint check_calls (ev : envv) (cs : list (tcall * tobs)) (s : st) : bool :=
  match cs with
  | [] => true
  | (c, o) :: r =>
      let res_ :=
        match c with
        | TOom c' =>
            (* a call under memory pressure that was served anyway is an ordinary call; a refused one must look like the model
               with one of the two refusing allocators - the observables of the call itself tell which *)
            if o_cls o =? 2 then
              (let r1 := model_call_al al_small ev c' s in if local_ok o r1 then r1 else model_call_al al_none ev c' s)
            else model_call ev c' s
        | _ => model_call ev c s
        end in
      if local_ok o res_ then match res_ with Ok (_, s') => check_calls ev r s' | _ => false end else false
  end.

(* a case: the process environment and the calls on one object created by the first TInit (all zero before it) *)
Definition check_case (p : envv * list (tcall * tobs)) : bool := check_calls (fst p) (snd p) zeroed.

(* the model never reports an out-of-bounds access or an exhausted probe on the case *)
Fixpoint safe_calls (ev : envv) (cs : list (tcall * tobs)) (s : st) : bool :=
  match cs with
  | [] => true
  | (c, _) :: r => match model_call ev c s with Ok (_, s') => safe_calls ev r s' | OOB _ => false | NoFuel => true end
  end.
