From FJ Require Import Lib.Base.
(* C14 - the assembly pipeline as a composition of stages over the trees of Model/Ast.v, with EVERY exit made explicit:

     Ok a        the stage succeeded
     LibError k  an exception of the library's own hierarchy (FlipJumpParsing/Preprocessor/Expr/Assembler/WriteFjm...)
     RawExn x    a Python exception that is NOT a FlipJumpException: `assemble` turns it into the catch-all
                 "Unknown exception during assembling the .fj files, please report this bug"; `Hang` never returns.

   Transcribed, function by function, from
     flipjump/assembler/inner_classes/expr.py   get_minimized_expr, Expr.eval_new, Expr.exact_eval, Expr.__str__ (only: can it raise)
     flipjump/assembler/fj_parser.py            the grammar actions' folding (fold_expr), get_used_labels on macro bodies
     flipjump/assembler/preprocessor.py         resolve_macro_aux and everything it calls (PreprocessorData)
     flipjump/assembler/assembler.py            labels_resolve, BinaryData, add_segment_to_fjm, validate_addresses,
                                                assert_first_op_assembled, and the try/except ladder of `assemble`
     flipjump/fjm/fjm_writer.py                 add_data, add_segment (every check), write_to_file (when the file is opened,
                                                what struct.pack accepts)
   The operator semantics are those of Model/Expr.v (C12): `Expr.apply_op`.
   The code modelled is the tree AFTER the fix commits 519ec12 (get_minimized_expr wraps arithmetic errors: F7),
   b770ddf (flip / jump / wflip words are range-checked when the op is inserted: F8), 0ef0f9a (a pad that runs past
   2^w bits is refused: F9, partly), 3bd0fc0 (Writer.add_data / add_segment validate what they are given), 435c753
   (get_wflip_spot skips the op that holds the input bit), 825c6f7 + 7a19742 (a negative reserve is refused), 523f875 + d8bb7f7 (diagnostics print big integers in hex), 0a31844 (RecursionError is a library error: F10) and 07c8d15 (a source
   label spelled like the internal "_.wflip_area_start_<i>" is a 'declared twice' error: N2).

   What is abstracted (and why it does not matter for the classification of failures):
   * fj_words / wflip_words / Writer.data are kept as bags of the values stored in them (positions are irrelevant: add_data
     and struct.pack only ask whether every word fits w bits); padding zeros are not materialised, the COUNT is (that is
     the MemoryError exit);
   * macro-start labels ("<path>---:start:") are not inserted: their names contain ':' so no source label can collide;
   * the interpreter's resources are parameters of `config`: c_exprlim (deepest Expr tree the recursive traversals survive),
     c_replim (largest rep count that terminates within the watchdog), c_padlim (largest pad count that can be materialised),
     c_bitlim (largest shift / power result that can be allocated).
   No proofs in this file (Proofs/AsmErrorsProps.v). *)
From FJ Require Import Model.Ast.
From FJ Require Model.Expr.
From Coq Require Import DecimalString.
Local Open Scope string_scope.
Local Open Scope Z_scope.

(* ------------------------------------------------------------------------------------------------------------------ *)
(** * Exits *)

Inductive rawexn :=
  | ZeroDivisionError | ValueError | TypeError | KeyError | IndexError | NameError
  | MemoryError          (* also OverflowError "too many digits in integer": the allocation is refused *)
  | RecursionError
  | StructError          (* struct.error *)
  | Hang.                (* does not return (watchdog) *)

Inductive libkind :=
  (* FlipJumpExprException *)
  | KNegPow | KBadMath | KBadLabelSwap | KRepArgs | KCantEvalLabel
  (* FlipJumpPreprocessorException (macro_resolve_error) *)
  | KMacroUndefined | KMacroDepth | KLabelTwice | KRepTimes | KPadEval | KPadNonPositive | KPadUnaligned | KPadTooBig
  | KSegmentEval | KSegmentUnaligned | KReserveEval | KReserveUnaligned | KReserveNegative
  (* FlipJumpAssemblerException *)
  | KOpEval | KOpRange | KBoundsUnaligned | KNoSpace | KAddSegment | KNoFirstOp
  | KTooDeep          (* "The source nests too deeply for python's recursion limit ...": assemble's RecursionError clause *)
  (* FlipJumpWriteFjmException *)
  | KWriterData.

Inductive res (A : Type) := Ok (a : A) | LibError (k : libkind) | RawExn (x : rawexn).
Arguments Ok {A} a.
Arguments LibError {A} k.
Arguments RawExn {A} x.

Definition bind {A B} (r : res A) (f : A -> res B) : res B :=
  match r with Ok a => f a | LibError k => LibError k | RawExn x => RawExn x end.
Notation "'do' x <- r ; k" := (bind r (fun x => k)) (at level 200, x pattern, r at level 100, k at level 200).

Record config := mkcfg {
  c_w : Z;            (* memory width: 8, 16, 32, 64 *)
  c_ver : N;          (* fjm version 0..3 *)
  c_maxdepth : nat;   (* max_recursion_depth (default 900) *)
  c_exprlim : nat;    (* deepest expression tree the recursive Expr methods can walk *)
  c_replim : Z;       (* largest rep count that finishes *)
  c_padlim : Z;       (* largest pad count (in ops) that can be materialised *)
  c_bitlim : Z        (* largest number of bits of a shift / power result that can be allocated *)
}.

Definition N_to_string (n : N) : string := NilZero.string_of_uint (N.to_uint n).

(* ------------------------------------------------------------------------------------------------------------------ *)
(** * expr.py *)

Definition of_pyexn (x : Expr.pyexn) : rawexn :=
  match x with
  | Expr.ZeroDivisionError => ZeroDivisionError
  | Expr.ValueError => ValueError
  | Expr.TypeError => TypeError
  | Expr.KeyError => KeyError
  | Expr.IndexError => IndexError
  | Expr.NameError => NameError
  | Expr.FloatResult => TypeError
  end.

(* results that cannot be produced: `a << n` needs n bits at once (MemoryError / OverflowError), `a ** b` grinds forever *)
Definition op_resource (cfg : config) (o : opname) (vs : list Z) : option rawexn :=
  match o, vs with
  | OShl, [a; n] => if negb (a =? 0) && (c_bitlim cfg <? n) then Some MemoryError else None
  | OPow, [a; b] => if (1 <? Z.abs a) && (c_bitlim cfg <? b) then Some Hang else None
  | _, _ => None
  end.

(* op_string_to_function[op] applied to the values *)
Definition op_apply (cfg : config) (o : opname) (vs : list Z) : res Z :=
  match op_resource cfg o vs with
  | Some x => RawExn x
  | None =>
    match Expr.apply_op o vs with
    | Expr.Ok z => Ok z
    | Expr.LibError _ => LibError KNegPow          (* _pow raises FlipJumpExprException itself *)
    | Expr.RawExn x => RawExn (of_pyexn x)
    end
  end.

Definition is_int (e : expr) : bool := match e with EInt _ => true | _ => false end.
Fixpoint ints_of (l : list expr) : list Z :=
  match l with [] => [] | EInt z :: t => z :: ints_of t | _ :: t => ints_of t end.

Fixpoint expr_depth (e : expr) : nat :=
  match e with
  | EOp _ args => S ((fix mx (l : list expr) : nat := match l with [] => O | a :: t => Nat.max (expr_depth a) (mx t) end) args)
  | _ => O
  end.

(* str(int) refuses integers of more than 4300 decimal digits (ValueError).  Since 523f875 / d8bb7f7 every diagnostic
   of the pipeline formats its integers through int_to_str / hex, which cannot raise: no message-building exit is left. *)

(* get_minimized_expr(op, params): `except FlipJumpExprException: raise`, `except Exception as e: raise
   FlipJumpExprException(f'... bad math operation ({op}): {str(Expr((op, params)))}.')` (fix 519ec12) *)
Definition get_minimized_expr (cfg : config) (o : opname) (params : list expr) : res expr :=
  if forallb is_int params then
    match op_apply cfg o (ints_of params) with
    | Ok z => Ok (EInt z)
    | LibError k => LibError k
    | RawExn Hang => RawExn Hang
    | RawExn _ => LibError KBadMath
    end
  else Ok (EOp o params).

(* what the grammar actions compute bottom-up while the LALR driver reduces (no Python recursion involved) *)
Fixpoint fold_expr (cfg : config) (e : expr) : res expr :=
  match e with
  | EOp o args =>
    do args' <- (fix go (l : list expr) : res (list expr) :=
                   match l with [] => Ok [] | a :: t => do a' <- fold_expr cfg a; do t' <- go t; Ok (a' :: t') end) args;
    get_minimized_expr cfg o args'
  | _ => Ok e
  end.

Definition dict (A : Type) := list (string * A).
Fixpoint dict_get {A} (d : dict A) (k : string) : option A :=
  match d with [] => None | (k', v) :: d' => if String.eqb k' k then Some v else dict_get d' k end.
Fixpoint dict_set {A} (d : dict A) (k : string) (v : A) : dict A :=
  match d with
  | [] => [(k, v)]
  | (k', v') :: d' => if String.eqb k' k then (k', v) :: d' else (k', v') :: dict_set d' k v
  end.
Definition dict_mem {A} (d : dict A) (k : string) : bool := match dict_get d k with Some _ => true | None => false end.

(* Expr.eval_new(params_dict), the recursion itself.  `except Exception` around the operator: every exception it raises
   (MemoryError included) becomes FlipJumpExprException("... bad math operation (op): {str(self)}."); a computation that
   never returns stays that way. *)
Fixpoint eval_new_rec (cfg : config) (sg : dict expr) (e : expr) : res expr :=
  match e with
  | EInt _ => Ok e
  | ELbl s => Ok (match dict_get sg s with Some r => r | None => e end)
  | EOp o args =>
    do args' <- (fix go (l : list expr) : res (list expr) :=
                   match l with [] => Ok [] | a :: t => do a' <- eval_new_rec cfg sg a; do t' <- go t; Ok (a' :: t') end) args;
    if forallb is_int args' then
      match op_apply cfg o (ints_of args') with
      | Ok z => Ok (EInt z)
      | RawExn Hang => RawExn Hang
      | _ => LibError KBadMath
      end
    else Ok (EOp o args')
  end.

(* one Python frame per level: a tree deeper than the interpreter allows ends in RecursionError (outside any try) *)
Definition eval_new (cfg : config) (sg : dict expr) (e : expr) : res expr :=
  if (c_exprlim cfg <? expr_depth e)%nat then RawExn RecursionError else eval_new_rec cfg sg e.

Fixpoint eval_new_list (cfg : config) (sg : dict expr) (l : list expr) : res (list expr) :=
  match l with [] => Ok [] | a :: t => do a' <- eval_new cfg sg a; do t' <- eval_new_list cfg sg t; Ok (a' :: t') end.

(* Expr.exact_eval(labels) *)
Fixpoint exact_eval_rec (cfg : config) (lb : dict Z) (e : expr) : res Z :=
  match e with
  | EInt z => Ok z
  | ELbl s => match dict_get lb s with Some v => Ok v | None => LibError KCantEvalLabel end
  | EOp o args =>
    do vs <- (fix go (l : list expr) : res (list Z) :=
                match l with [] => Ok [] | a :: t => do v <- exact_eval_rec cfg lb a; do vs <- go t; Ok (v :: vs) end) args;
    match op_apply cfg o vs with
    | Ok z => Ok z
    | LibError k => LibError k
    | RawExn Hang => RawExn Hang
    | RawExn _ => LibError KBadMath
    end
  end.

Definition exact_eval (cfg : config) (lb : dict Z) (e : expr) : res Z :=
  if (c_exprlim cfg <? expr_depth e)%nat then RawExn RecursionError else exact_eval_rec cfg lb e.

(* ------------------------------------------------------------------------------------------------------------------ *)
(** * fj_parser.py: what happens to a tree while it is being parsed *)

Definition stmt_exprs (s : stmt) : list expr :=
  match s with
  | SFlipJump f j _ => [f; j]
  | SWordFlip a v r _ => [a; v; r]
  | SPad e _ | SSegment e _ | SReserve e _ => [e]
  | SLabel _ _ => []
  | SMacroCall _ args _ => args
  | SRepCall t _ _ args _ => t :: args
  end.

Fixpoint fold_list (cfg : config) (l : list expr) : res (list expr) :=
  match l with [] => Ok [] | a :: t => do a' <- fold_expr cfg a; do t' <- fold_list cfg t; Ok (a' :: t') end.

Definition fold_stmt (cfg : config) (s : stmt) : res stmt :=
  match s with
  | SFlipJump f j p => do f' <- fold_expr cfg f; do j' <- fold_expr cfg j; Ok (SFlipJump f' j' p)
  | SWordFlip a v r p => do a' <- fold_expr cfg a; do v' <- fold_expr cfg v; do r' <- fold_expr cfg r; Ok (SWordFlip a' v' r' p)
  | SPad e p => do e' <- fold_expr cfg e; Ok (SPad e' p)
  | SSegment e p => do e' <- fold_expr cfg e; Ok (SSegment e' p)
  | SReserve e p => do e' <- fold_expr cfg e; Ok (SReserve e' p)
  | SLabel n p => Ok (SLabel n p)
  | SMacroCall n args p => do args' <- fold_list cfg args; Ok (SMacroCall n args' p)
  | SRepCall t it n args p => do t' <- fold_expr cfg t; do args' <- fold_list cfg args; Ok (SRepCall t' it n args' p)
  end.

Fixpoint fold_stmts (cfg : config) (l : list stmt) : res (list stmt) :=
  match l with [] => Ok [] | s :: t => do s' <- fold_stmt cfg s; do t' <- fold_stmts cfg t; Ok (s' :: t') end.

(* validate_macro_declaration -> get_used_labels -> Expr.all_unknown_labels: a recursive walk over every expression of a
   macro body (not of the main macro) *)
Definition walkable (cfg : config) (ops : list stmt) : bool :=
  forallb (fun s => forallb (fun e => (expr_depth e <=? c_exprlim cfg)%nat) (stmt_exprs s)) ops.

Fixpoint parse_macros (cfg : config) (d : macro_dict) : res macro_dict :=
  match d with
  | [] => Ok []
  | (n, m) :: d' =>
    do ops <- fold_stmts cfg (m_ops m);
    if negb (macro_name_eqb n main_macro_name) && negb (walkable cfg ops) then RawExn RecursionError
    else do d'' <- parse_macros cfg d'; Ok ((n, mkmacro (m_params m) (m_locals m) ops (m_ns m) (m_pos m)) :: d'')
  end.

(* ------------------------------------------------------------------------------------------------------------------ *)
(** * preprocessor.py *)

Inductive lastop :=
  | LFlipJump (f j : expr)
  | LWordFlip (a v r : expr)
  | LPadding (n : Z)
  | LNewSeg (start wstart : Z)
  | LReserve (after : Z).

Record pstate := mkp {
  p_addr : Z;                 (* curr_address *)
  p_labels : dict Z;          (* labels *)
  p_ops : list lastop;        (* result_ops after the first NewSegment, most recent first *)
  p_w0 : Z;                   (* wflip_start_address of the first NewSegment (the one __init__ appends; so popleft() in
                                 labels_resolve always finds it) *)
  p_seg : N                   (* curr_segment_index *)
}.

(* last_new_segment.wflip_start_address = v, when the last NewSegment is in the list *)
Fixpoint patch_wflip (rops : list lastop) (v : Z) : option (list lastop) :=
  match rops with
  | [] => None
  | LNewSeg s _ :: r => Some (LNewSeg s v :: r)
  | o :: r => match patch_wflip r v with Some r' => Some (o :: r') | None => None end
  end.

(* patch_last_wflip_address *)
Definition patch_last (st : pstate) : list lastop * Z :=
  match patch_wflip (p_ops st) (p_addr st) with Some l => (l, p_w0 st) | None => (p_ops st, p_addr st) end.

Definition wflip_start_label (i : N) : string := "_.wflip_area_start_" ++ N_to_string i.

(* PreprocessorData.insert_label: `if label in self.labels: other_position = self.labels_code_positions.get(label, ...)`
   (fix 07c8d15: no KeyError for the internal labels, which have no code position) *)
Definition insert_label (st : pstate) (name : string) : res pstate :=
  if dict_mem (p_labels st) name then LibError KLabelTwice
  else Ok (mkp (p_addr st) (dict_set (p_labels st) name (p_addr st)) (p_ops st) (p_w0 st) (p_seg st)).

(* insert_segment (fix 07c8d15: the internal label must not exist yet - 'label declared twice ... is also an
   assembler-internal label') *)
Definition insert_segment (st : pstate) (start : Z) : res pstate :=
  if dict_mem (p_labels st) (wflip_start_label (p_seg st)) then LibError KLabelTwice
  else
    let '(ops, w0) := patch_last st in
    Ok (mkp start (dict_set (p_labels st) (wflip_start_label (p_seg st)) (p_addr st))
            (LNewSeg start (-1) :: ops) w0 (p_seg st + 1)%N).

Definition insert_reserve (st : pstate) (size : Z) : pstate :=
  mkp (p_addr st + size) (p_labels st) (LReserve (p_addr st + size) :: p_ops st) (p_w0 st) (p_seg st).

Definition align_current_address (cfg : config) (st : pstate) (n : Z) : res pstate :=
  let dw := 2 * c_w cfg in
  if negb (p_addr st mod dw =? 0) then LibError KPadUnaligned
  else let k := ((- p_addr st) / dw) mod n in
       if 2 ^ c_w cfg <? p_addr st + k * dw then LibError KPadTooBig        (* fix 0ef0f9a *)
       else Ok (mkp (p_addr st + k * dw) (p_labels st) (LPadding k :: p_ops st) (p_w0 st) (p_seg st)).

Definition push_op (st : pstate) (a : Z) (o : lastop) : pstate :=
  mkp a (p_labels st) (o :: p_ops st) (p_w0 st) (p_seg st).

(* the exception a `calculate_*` helper of ops.py lets through: FlipJumpExprException is re-labelled by the caller,
   anything else passes *)
Definition relabel {A} (r : res A) (k : libkind) : res A :=
  match r with Ok a => Ok a | LibError _ => LibError k | RawExn x => RawExn x end.

Definition macro_name_str (mn : macro_name) : string :=
  if (snd mn =? 0)%N then fst mn else fst mn ++ "(" ++ N_to_string (snd mn) ++ ")".

Definition path_head (prefix : string) : string := if String.eqb prefix "" then "" else prefix ++ "---".
Definition pos_short (p : code_pos) : string := cp_short p ++ ":l" ++ N_to_string (cp_line p).

(* get_params_dictionary *)
Definition params_dictionary (m : macro) (args : list expr) (prefix : string) : dict expr :=
  let d1 := fold_left (fun d kv => dict_set d (fst kv) (snd kv)) (combine (m_params m) args) [] in
  let d2 := fold_left (fun d l => dict_set d l (ELbl (prefix ++ "---" ++ l))) (m_locals m) d1 in
  if String.eqb (m_ns m) "" then d2
  else fold_left (fun d kv => dict_set d (m_ns m ++ "." ++ fst kv) (snd kv)) d2 d2.

Section Resolve.
Variable cfg : config.
Variable macros : macro_dict.

Definition callee_t := pstate -> macro_name -> list expr -> string -> res pstate.

(* `for i in range(rep_times)`: calculate_arguments(i), then the recursive call *)
Fixpoint rep_loop (call : callee_t) (callee : macro_name) (hyg : string) (cargs : list expr) (path : N -> string)
                  (k : nat) (i : Z) (st : pstate) {struct k} : res pstate :=
  match k with
  | O => Ok st
  | S k' =>
    do iargs <- relabel (eval_new_list cfg [(hyg, EInt i)] cargs) KRepArgs;
    do st' <- call st callee iargs (path (Z.to_N i));
    rep_loop call callee hyg cargs path k' (i + 1) st'
  end.

(* one iteration of the `for op in current_macro.ops` loop of resolve_macro_aux.
   rec = None: the call tree is already max_recursion_depth deep (any further call is refused by prepare_macro_call) *)
Definition resolve_op (rec : option callee_t) (sg : dict expr) (prefix : string) (st : pstate) (op : stmt) : res pstate :=
  match op with
  | SLabel name _ =>
    match dict_get sg name with                      (* Label.eval_name *)
    | None => insert_label st name
    | Some (ELbl s) => insert_label st s
    | Some _ => LibError KBadLabelSwap
    end
  | SFlipJump f j _ =>
    let a := p_addr st + 2 * c_w cfg in
    let sg' := dict_set sg "$" (EInt a) in
    do f' <- eval_new cfg sg' f; do j' <- eval_new cfg sg' j;
    Ok (push_op st a (LFlipJump f' j'))
  | SWordFlip x v r _ =>
    let a := p_addr st + 2 * c_w cfg in
    let sg' := dict_set sg "$" (EInt a) in
    do x' <- eval_new cfg sg' x; do v' <- eval_new cfg sg' v; do r' <- eval_new cfg sg' r;
    Ok (push_op st a (LWordFlip x' v' r'))
  | SPad e _ =>
    do e' <- eval_new cfg sg e;
    do n <- relabel (exact_eval cfg (p_labels st) e') KPadEval;
    if n <=? 0 then LibError KPadNonPositive
    else align_current_address cfg st n
  | SSegment e _ =>
    do e' <- eval_new cfg sg e;
    do a <- relabel (exact_eval cfg (p_labels st) e') KSegmentEval;
    if negb (a mod c_w cfg =? 0) then LibError KSegmentUnaligned else insert_segment st a
  | SReserve e _ =>
    do e' <- eval_new cfg sg e;
    do r <- relabel (exact_eval cfg (p_labels st) e') KReserveEval;
    (* fix 825c6f7 / 7a19742: "reserve must get a non-negative size, but got a negative one" (no integer is printed) *)
    if r <? 0 then LibError KReserveNegative
    else if negb (r mod c_w cfg =? 0) then LibError KReserveUnaligned else Ok (insert_reserve st r)
  | SMacroCall name cargs pos =>
    do cargs' <- eval_new_list cfg sg cargs;
    let callee := call_name name cargs' in
    match find_macro macros callee with
    | None => LibError KMacroUndefined
    | Some _ =>
      match rec with
      | None => LibError KMacroDepth
      | Some call => call st callee cargs' (path_head prefix ++ pos_short pos ++ ":" ++ macro_name_str callee)
      end
    end
  | SRepCall times it name cargs pos =>
    let hyg := path_head prefix ++ pos_short pos ++ ":rep:" ++ it in
    do renamed <- eval_new_list cfg [(it, ELbl hyg)] cargs;            (* rename_iterator *)
    do times' <- eval_new cfg sg times;
    do cargs' <- eval_new_list cfg sg renamed;
    do n <- relabel (exact_eval cfg (p_labels st) times') KRepTimes;   (* get_rep_times *)
    if n =? 0 then Ok st
    else
      let callee := call_name name cargs' in
      match find_macro macros callee with
      | None => LibError KMacroUndefined
      | Some _ =>
        match rec with
        | None => LibError KMacroDepth
        | Some call =>
          if c_replim cfg <? n then RawExn Hang
          else rep_loop call callee hyg cargs'
                        (fun i => path_head prefix ++ pos_short pos ++ ":rep" ++ N_to_string i ++ ":" ++ macro_name_str callee)
                        (Z.to_nat n) 0 st
        end
      end
  end.

Fixpoint resolve_ops (step : pstate -> stmt -> res pstate) (ops : list stmt) (st : pstate) : res pstate :=
  match ops with
  | [] => Ok st
  | op :: rest => do st' <- step st op; resolve_ops step rest st'
  end.

(* resolve_macro_aux; fuel = how many more macro calls may be nested (len(curr_tree) <= max_recursion_depth) *)
Fixpoint resolve_aux (fuel : nat) (st : pstate) (mn : macro_name) (args : list expr) (prefix : string) {struct fuel}
  : res pstate :=
  match find_macro macros mn with
  | None => RawExn KeyError                                   (* self.macros[macro_name] *)
  | Some m =>
    resolve_ops (resolve_op (match fuel with O => None | S fuel' => Some (resolve_aux fuel') end)
                            (params_dictionary m args prefix) prefix) (m_ops m) st
  end.

Definition pre_init : pstate := mkp 0 [] [] (-1) 0%N.

(* resolve_macros: the wflip start of the first segment, the rest of the op queue (in order), the label dictionary *)
Definition resolve_macros : res (Z * list lastop * dict Z) :=
  do st <- resolve_aux (c_maxdepth cfg) pre_init main_macro_name [] "";
  let '(ops, w0) := patch_last st in
  Ok (w0, rev ops, p_labels st).

End Resolve.

(* ------------------------------------------------------------------------------------------------------------------ *)
(** * fjm_writer.py (Writer state) and assembler.py (BinaryData) *)

Record wstate := mkw {
  w_segs : list (Z * Z * Z * Z);   (* segments *)
  w_dlen : Z;                       (* len(self.data) *)
  w_data : list Z                   (* the values in self.data (as a bag) *)
}.

Definition is_collision (s1 e1 s2 e2 : Z) : bool :=
  ((s2 <=? s1) && (s1 <=? e2)) || ((s2 <=? e1) && (e1 <=? e2)) ||
  ((s1 <=? s2) && (s2 <=? e1)) || ((s1 <=? e2) && (e2 <=? e1)).

Definition relative_version (cfg : config) : bool := (2 <=? c_ver cfg)%N.

(* Writer.add_segment: every check (None = FlipJumpWriteFjmException).  _update_to_relative_jumps indexes
   self.data[data_start + i], i < data_length: inside the list by the data-range check that precedes it. *)
Definition writer_add_segment (cfg : config) (wr : wstate) (start len dstart dlen : Z) : option wstate :=
  if len <=? 0 then None
  else if len <? dlen then None
  else if (start mod 2 =? 1) || (len mod 2 =? 1) then None
  else if dlen mod 2 =? 1 then None
  else if (start <? 0) || (2 ^ 64 <=? start + len) then None
  else if (dstart <? 0) || (dlen <? 0) || (w_dlen wr <? dstart + dlen) then None
  else if existsb (fun sg => match sg with (s, l, _, _) => is_collision s (s + l - 1) start (start + len - 1) end)
                  (w_segs wr) then None
  else if relative_version cfg && negb (dlen =? 0) &&
          existsb (fun sg => match sg with (_, _, ds, dl) =>
                     negb (dl =? 0) && is_collision ds (ds + dl - 1) dstart (dstart + dlen - 1) end) (w_segs wr)
       then None
  else Some (mkw (w_segs wr ++ [(start, len, dstart, dlen)]) (w_dlen wr) (w_data wr)).

Definition word_ok (cfg : config) (x : Z) : bool := (0 <=? x) && (x <? 2 ^ c_w cfg).
Definition in_memory (cfg : config) (a : Z) : bool := word_ok cfg a.

(* Writer.add_data: `for word in data: if word < 0 or word >= (1 << w): raise FlipJumpWriteFjmException(f"data word {word} ...")` *)
Definition writer_add_data (cfg : config) (wr : wstate) (words : list Z) (n : Z) : res wstate :=
  match find (fun x => negb (word_ok cfg x)) words with
  | Some _ => LibError KWriterData
  | None => Ok (mkw (w_segs wr) (w_dlen wr + n) (words ++ w_data wr))
  end.

Definition validate_addresses (cfg : config) (first last : Z) : option libkind :=
  if negb (first mod c_w cfg =? 0) || negb (last mod c_w cfg =? 0) then Some KBoundsUnaligned
  else if negb (in_memory cfg first) then Some KNoSpace
  else if negb (in_memory cfg (last - 1)) then Some KNoSpace
  else None.

(* add_segment_to_fjm; words = the values of fj_words + wflip_words, n = len(fj_words + wflip_words);
   the boolean says whether the two lists were cleared *)
Definition add_segment_to_fjm (cfg : config) (wr : wstate) (first last : Z) (words : list Z) (n : Z) : res (wstate * bool) :=
  match validate_addresses cfg first last with
  | Some k => LibError k
  | None =>
    if first =? last then Ok (wr, false)
    else
      let dstart := w_dlen wr in
      do wr1 <- writer_add_data cfg wr words n;
      match writer_add_segment cfg wr1 (first / c_w cfg) ((last - first) / c_w cfg) dstart n with
      | None => LibError KAddSegment
      | Some wr2 => Ok (wr2, true)
      end
  end.

Inductive wlist := InFj | InWf.

Record bstate := mkb {
  b_first : Z;                        (* first_address *)
  b_nextw : Z;                        (* next_wflip_address *)
  b_nfj : Z;                          (* len(fj_words) *)
  b_nwf : Z;                          (* len(wflip_words) *)
  b_pads : list (Z * Z);              (* padding_ops_indices as runs (first index, how many), top of the stack first *)
  b_dict : list ((Z * list Z) * Z);   (* wflips_dict: (return_address, remaining flip addresses ascending) -> chain entry *)
  b_fjw : list Z;                     (* the non-zero values stored in fj_words *)
  b_wfw : list Z;                     (* the non-zero values stored in wflip_words *)
  b_wr : wstate
}.

Definition store (st : bstate) (l : wlist) (x : Z) : bstate :=
  match l with
  | InFj => mkb (b_first st) (b_nextw st) (b_nfj st) (b_nwf st) (b_pads st) (b_dict st) (x :: b_fjw st) (b_wfw st) (b_wr st)
  | InWf => mkb (b_first st) (b_nextw st) (b_nfj st) (b_nwf st) (b_pads st) (b_dict st) (b_fjw st) (x :: b_wfw st) (b_wr st)
  end.

(* insert_fj_op (fix b770ddf: both words are range-checked; FlipJumpAssemblerException "Not enough space ...") *)
Definition insert_fj_op (cfg : config) (st : bstate) (f j : Z) : res bstate :=
  if negb (in_memory cfg f) || negb (in_memory cfg j) then LibError KOpRange
  else Ok (mkb (b_first st) (b_nextw st) (b_nfj st + 2) (b_nwf st) (b_pads st) (b_dict st) (f :: j :: b_fjw st) (b_wfw st) (b_wr st)).

Definition bit_length (v : Z) : Z := match v with Z0 => 0 | Zpos p | Zneg p => Zpos (Pos.size p) end.

(* _covers_input_bit: an op at this address would hold the input bit 3w + #w *)
Definition covers_input_bit (cfg : config) (a : Z) : bool :=
  let ib := 3 * c_w cfg + bit_length (c_w cfg) in (a <=? ib) && (ib <? a + 2 * c_w cfg).

(* `while self.padding_ops_indices: index = pop(); if not covers(address): return spot`.  The holes of a run are 2w bits
   apart, so at most one hole of a run covers the input bit: after skipping the top hole the next one is taken. *)
Fixpoint take_pad_hole (cfg : config) (first : Z) (pads : list (Z * Z)) : option (Z * list (Z * Z)) :=
  match pads with
  | [] => None
  | (base, cnt) :: rest =>
    let idx := base + 2 * (cnt - 1) in
    if negb (covers_input_bit cfg (first + c_w cfg * idx)) then
      Some (first + c_w cfg * idx, if 1 <? cnt then (base, cnt - 1) :: rest else rest)
    else if 1 <? cnt then
      Some (first + c_w cfg * (idx - 2), if 2 <? cnt then (base, cnt - 2) :: rest else rest)
    else take_pad_hole cfg first rest
  end.

(* get_wflip_spot (fix 435c753): the list and the address of the op that will hold the next chain element; the wflip area
   steps over the op that holds the input bit (`while covers(next_wflip_address)`: consecutive slots are 2w apart, so the
   loop body runs at most once) *)
Definition get_wflip_spot (cfg : config) (st : bstate) : bstate * (wlist * Z) :=
  match take_pad_hole cfg (b_first st) (b_pads st) with
  | Some (addr, pads') =>
    (mkb (b_first st) (b_nextw st) (b_nfj st) (b_nwf st) pads' (b_dict st) (b_fjw st) (b_wfw st) (b_wr st), (InFj, addr))
  | None =>
    let skip := if covers_input_bit cfg (b_nextw st) then 2 * c_w cfg else 0 in
    let nw := b_nextw st + skip in
    (mkb (b_first st) (nw + 2 * c_w cfg) (b_nfj st) (b_nwf st + (if covers_input_bit cfg (b_nextw st) then 4 else 2)) []
         (b_dict st) (b_fjw st) (b_wfw st) (b_wr st),
     (InWf, nw))
  end.

Fixpoint zlist_eqb (a b : list Z) : bool :=
  match a, b with
  | [], [] => true
  | x :: a', y :: b' => (x =? y) && zlist_eqb a' b'
  | _, _ => false
  end.

Fixpoint wdict_find (d : list ((Z * list Z) * Z)) (ret : Z) (key : list Z) : option Z :=
  match d with
  | [] => None
  | ((r, k), v) :: d' => if (r =? ret) && zlist_eqb k key then Some v else wdict_find d' ret key
  end.

Definition wdict_add (st : bstate) (ret : Z) (key : list Z) (v : Z) : bstate :=
  mkb (b_first st) (b_nextw st) (b_nfj st) (b_nwf st) (b_pads st) (((ret, key), v) :: b_dict st) (b_fjw st) (b_wfw st) (b_wr st).

(* the `while flip_addresses:` loop of insert_wflip_ops.  `rest` = the flip addresses still to place (ascending; Python
   keeps them descending and pops from the end); `prev` = the list holding the op whose jump word is still open.  Each
   iteration fixes that jump word: the address of an existing chain, or of a new op that flips the next address. *)
Fixpoint wflip_chain (cfg : config) (st : bstate) (prev : wlist) (rest : list Z) (ret : Z) : bstate :=
  match rest with
  | [] => store st prev ret
  | a :: rest' =>
    match wdict_find (b_dict st) ret rest with
    | Some chain => store st prev chain
    | None =>
      let '(st1, (l, spot)) := get_wflip_spot cfg st in
      let st2 := wdict_add (store (store st1 prev spot) l a) ret rest spot in
      wflip_chain cfg st2 l rest' ret
    end
  end.

(* [word_address + i for i in range(w) if flip_value & (1 << i)], ascending *)
Definition flip_addresses (cfg : config) (addr v : Z) : list Z :=
  map (fun i => addr + Z.of_nat i) (filter (fun i => Z.testbit v (Z.of_nat i)) (seq 0 (Z.to_nat (c_w cfg)))).

Definition insert_wflip_ops (cfg : config) (st : bstate) (addr v ret : Z) : res bstate :=
  if v =? 0 then insert_fj_op cfg st 0 ret
  else if negb (in_memory cfg v) || negb (in_memory cfg addr) || negb (in_memory cfg (addr + bit_length v - 1))
          || negb (in_memory cfg ret) then LibError KOpRange
  else
    match flip_addresses cfg addr v with
    | [] => RawExn IndexError                                  (* flip_addresses.pop() of an empty list *)
    | a :: rest =>
      do st1 <- insert_fj_op cfg st a 0;
      Ok (wflip_chain cfg st1 InFj rest ret)
    end.

(* insert_padding: `for i in range(...): self.fj_words += (0, 0)` materialises 2*count words *)
Definition insert_padding (cfg : config) (st : bstate) (count : Z) : res bstate :=
  if c_padlim cfg <? count then RawExn MemoryError
  else Ok (mkb (b_first st) (b_nextw st) (b_nfj st + 2 * count) (b_nwf st)
               (if 0 <? count then (b_nfj st, count) :: b_pads st else b_pads st)
               (b_dict st) (b_fjw st) (b_wfw st) (b_wr st)).

Definition close_and_add_segment (cfg : config) (st : bstate) : res bstate :=
  if b_nextw st =? b_first st then Ok st
  else do r <- add_segment_to_fjm cfg (b_wr st) (b_first st) (b_nextw st) (b_fjw st ++ b_wfw st) (b_nfj st + b_nwf st);
       Ok (if snd r then mkb (b_first st) (b_nextw st) 0 0 (b_pads st) (b_dict st) [] [] (fst r)
           else mkb (b_first st) (b_nextw st) (b_nfj st) (b_nwf st) (b_pads st) (b_dict st) (b_fjw st) (b_wfw st) (fst r)).

Definition insert_new_segment (cfg : config) (st : bstate) (first wfirst : Z) : res bstate :=
  do st1 <- close_and_add_segment cfg st;
  (* assert_address_in_memory (fix c350a24: a segment outside the address space is "Not enough space") *)
  if negb (in_memory cfg first) then LibError KNoSpace else
  Ok (mkb first wfirst (b_nfj st1) (b_nwf st1) [] (b_dict st1) (b_fjw st1) (b_wfw st1) (b_wr st1)).

(* insert_reserve_bits: add_segment_to_fjm(..., self.fj_words, []) clears fj_words only *)
Definition insert_reserve_bits (cfg : config) (st : bstate) (after : Z) : res bstate :=
  do r <- add_segment_to_fjm cfg (b_wr st) (b_first st) after (b_fjw st) (b_nfj st);
  Ok (mkb after (b_nextw st) (if snd r then 0 else b_nfj st) (b_nwf st) [] (b_dict st)
          (if snd r then [] else b_fjw st) (b_wfw st) (fst r)).

(* f"{e} in op {op}": str(op) prints every expression of the op (through int_to_str: it cannot raise) *)
Definition op_message (k : libkind) (es : list expr) : res bstate := LibError k.

Definition in_op {A} (r : res A) (es : list expr) (f : A -> res bstate) : res bstate :=
  match r with
  | Ok a => f a
  | LibError _ => op_message KOpEval es               (* except FlipJumpException as e: raise FlipJumpAssemblerException *)
  | RawExn x => RawExn x
  end.

Definition ranged (r : res bstate) (es : list expr) : res bstate :=
  match r with LibError _ => op_message KOpRange es | x => x end.

Definition labels_step (cfg : config) (lb : dict Z) (st : bstate) (op : lastop) : res bstate :=
  match op with
  | LFlipJump f j =>
    in_op (exact_eval cfg lb f) [f; j] (fun fv =>
    in_op (exact_eval cfg lb j) [f; j] (fun jv => ranged (insert_fj_op cfg st fv jv) [f; j]))
  | LWordFlip a v r =>
    in_op (exact_eval cfg lb a) [a; v; r] (fun av =>
    in_op (exact_eval cfg lb v) [a; v; r] (fun vv =>
    in_op (exact_eval cfg lb r) [a; v; r] (fun rv => ranged (insert_wflip_ops cfg st av vv rv) [a; v; r])))
  | LPadding n => insert_padding cfg st n
  | LNewSeg s ws => insert_new_segment cfg st s ws
  | LReserve after => insert_reserve_bits cfg st after
  end.

Fixpoint labels_loop (cfg : config) (lb : dict Z) (st : bstate) (ops : list lastop) : res bstate :=
  match ops with
  | [] => Ok st
  | op :: rest => do st' <- labels_step cfg lb st op; labels_loop cfg lb st' rest
  end.

(* labels_resolve; the first op (popleft) is the NewSegment(0) of PreprocessorData.__init__, carried as its wflip start w0 *)
Definition labels_resolve (cfg : config) (w0 : Z) (ops : list lastop) (lb : dict Z) : res bstate :=
  do st <- labels_loop cfg lb (mkb 0 w0 0 0 [] [] [] [] (mkw [] 0 [])) ops;
  close_and_add_segment cfg st.

Definition first_op_assembled (st : bstate) : bool :=
  existsb (fun sg => match sg with (s, l, _, _) => (s =? 0) && (2 <=? l) end) (w_segs (b_wr st)).

(* ------------------------------------------------------------------------------------------------------------------ *)
(** * write_to_file and the exception ladder of `assemble` *)

(* the output path: untouched; opened and holding the header and the segment table only; complete *)
Inductive fstate := NoFile | PartialFile | CompleteFile.

(* struct.pack(f'<{n}{word_format}', *self.data) needs every word in [0, 2^w) (versions 2 and 3 have replaced the jump
   words by values reduced modulo 2^w: in range as well) *)
Definition packable (cfg : config) (wr : wstate) : bool := forallb (word_ok cfg) (w_data wr).

Inductive verdict := VOk | VLib (k : libkind) | VCatchAll (x : rawexn) | VHang.
Record outcome := mkout { o_verdict : verdict; o_file : fstate }.

(* try: ... except FlipJumpException: raise / except RecursionError: raise FlipJumpAssemblerException("The source nests
   too deeply ...") (fix 0a31844) / except Exception: raise FlipJumpAssemblerException("Unknown exception ...") *)
Definition ladder {A} (r : res A) (f : fstate) (k : A -> outcome) : outcome :=
  match r with
  | Ok a => k a
  | LibError e => mkout (VLib e) f
  | RawExn Hang => mkout VHang f
  | RawExn RecursionError => mkout (VLib KTooDeep) f
  | RawExn x => mkout (VCatchAll x) f
  end.

Definition layout (cfg : config) (t : macro_dict) : res bstate :=
  do t1 <- parse_macros cfg t;
  do r <- resolve_macros cfg t1;
  let '(w0, ops, lb) := r in labels_resolve cfg w0 ops lb.

Definition assemble_model (cfg : config) (t : macro_dict) : outcome :=
  ladder (parse_macros cfg t) NoFile (fun t1 =>
  ladder (resolve_macros cfg t1) NoFile (fun r =>
  ladder (let '(w0, ops, lb) := r in labels_resolve cfg w0 ops lb) NoFile (fun st =>
  if negb (first_op_assembled st) then mkout (VLib KNoFirstOp) NoFile
  else (* with open(output_file, 'wb'): header, segments; then the data words are packed *)
    if packable cfg (b_wr st) then mkout VOk CompleteFile else mkout (VCatchAll StructError) PartialFile))).

(* ------------------------------------------------------------------------------------------------------------------ *)
(** * Guards: one per recorded finding that is still open *)

(* F9b (and the never-returning variants): no count / magnitude beyond what can be materialised - a pad of more ops than
   memory holds, a rep count or a power that does not finish, a shift that cannot be allocated *)
Definition counts_materialisable (cfg : config) (t : macro_dict) : bool :=
  match o_verdict (assemble_model cfg t) with VCatchAll MemoryError | VHang => false | _ => true end.

(* domain: parse_macro_tree always returns a dictionary that holds the main macro ("", 0) *)
Definition has_main (t : macro_dict) : bool := match find_macro t main_macro_name with Some _ => true | None => false end.

(* the property on an outcome *)
Definition specific (o : outcome) : bool := match o_verdict o with VOk | VLib _ => true | _ => false end.
Definition no_file_on_failure (o : outcome) : bool :=
  match o_verdict o, o_file o with VOk, _ => true | _, NoFile => true | _, _ => false end.

(* ------------------------------------------------------------------------------------------------------------------ *)
(** * Coding of outcomes for the correspondence campaign (harness/fjverif/checks/c14.py) *)

Definition libkind_code (k : libkind) : N :=
  match k with
  | KNegPow => 1 | KBadMath => 2 | KBadLabelSwap => 3 | KRepArgs => 4 | KCantEvalLabel => 5
  | KMacroUndefined => 10 | KMacroDepth => 11 | KLabelTwice => 12 | KRepTimes => 13 | KPadEval => 14
  | KPadNonPositive => 15 | KPadUnaligned => 16 | KPadTooBig => 21 | KSegmentEval => 17 | KSegmentUnaligned => 18
  | KReserveEval => 19 | KReserveUnaligned => 20 | KReserveNegative => 22
  | KOpEval => 30 | KOpRange => 31 | KBoundsUnaligned => 32 | KNoSpace => 33 | KAddSegment => 34 | KNoFirstOp => 35 | KTooDeep => 36
  | KWriterData => 40
  end%N.

Definition rawexn_code (x : rawexn) : N :=
  match x with
  | ZeroDivisionError => 1 | ValueError => 2 | TypeError => 3 | KeyError => 4 | IndexError => 5 | MemoryError => 6
  | RecursionError => 7 | StructError => 8 | NameError => 9 | Hang => 100
  end%N.

Definition verdict_code (v : verdict) : N :=
  match v with VOk => 0 | VLib k => 100 + libkind_code k | VCatchAll x => 200 + rawexn_code x | VHang => 300 end%N.
Definition fstate_code (f : fstate) : N := match f with NoFile => 0 | PartialFile => 1 | CompleteFile => 2 end%N.

Record mcase := mkcase { mc_cfg : config; mc_tree : macro_dict }.
Definition case_codes (c : mcase) : N * N :=
  let o := assemble_model (mc_cfg c) (mc_tree c) in (verdict_code (o_verdict o), fstate_code (o_file o)).
