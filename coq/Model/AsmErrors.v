From FJ Require Import Lib.Base.
(* C14 - the assembly pipeline as a composition of stages over the trees of Model/Ast.v, with EVERY exit made explicit:

     Ok a        the stage succeeded
     LibError k  an exception of the library's own hierarchy (FlipJumpParsing/Preprocessor/Expr/Assembler/WriteFjm...)
     RawExn x    a Python exception that is NOT a FlipJumpException: `assemble` turns it into the catch-all
                 "Unknown exception during assembling the .fj files, please report this bug"; `Hang` never returns.

   Transcribed, function by function, from
     flipjump/assembler/inner_classes/expr.py   get_minimized_expr, Expr.eval_new, Expr.exact_eval, Expr.__str__ (only: can it raise)
     flipjump/assembler/fj_parser.py            the grammar actions' folding (fold_expr), get_used_labels on macro bodies
     flipjump/assembler/preprocessor.py         resolve_macro_aux and everything it calls (PreprocessorData)
     flipjump/assembler/assembler.py            labels_resolve, BinaryData, add_segment_to_fjm, validate_addresses,
                                                assert_first_op_assembled, and the try/except ladder of `assemble`
     flipjump/fjm/fjm_writer.py                 add_data, add_segment (every check), write_to_file (when the file is opened,
                                                what struct.pack accepts)
   The operator semantics are those of Model/Expr.v (C12): `Expr.apply_op`.

   What is abstracted (and why it does not matter for the classification of failures):
   * words are kept as two bags (flip words, jump words) instead of one list: write_to_file only asks whether every word
     fits its struct format, and versions 2/3 mask exactly the jump (odd-index) words; padding zeros are not materialised,
     the COUNT is (that is the MemoryError exit);
   * macro-start labels ("<path>---:start:") are not inserted: their names contain ':' so no source label can collide;
   * the interpreter's resources are parameters of `config`: c_exprlim (deepest Expr tree the recursive traversals survive),
     c_replim (largest rep count that terminates within the watchdog), c_padlim (largest pad count that can be materialised),
     c_bitlim (largest shift / power result that can be allocated); str_digits is CPython's int->str limit (4300 digits).
   No proofs in this file (Proofs/AsmErrorsProps.v). *)
From FJ Require Import Model.Ast.
From FJ Require Model.Expr.
From Coq Require Import DecimalString.
Local Open Scope string_scope.
Local Open Scope Z_scope.

(* ------------------------------------------------------------------------------------------------------------------ *)
(** * Exits *)

Inductive rawexn :=
  | ZeroDivisionError | ValueError | TypeError | KeyError | IndexError | NameError
  | MemoryError          (* also OverflowError "too many digits in integer": the allocation is refused *)
  | RecursionError
  | StructError          (* struct.error *)
  | Hang.                (* does not return (watchdog) *)

Inductive libkind :=
  (* FlipJumpExprException *)
  | KNegPow | KBadMath | KBadLabelSwap | KRepArgs | KCantEvalLabel
  (* FlipJumpPreprocessorException (macro_resolve_error) *)
  | KMacroUndefined | KMacroDepth | KLabelTwice | KRepTimes | KPadEval | KPadNonPositive | KPadUnaligned
  | KSegmentEval | KSegmentUnaligned | KReserveEval | KReserveUnaligned
  (* FlipJumpAssemblerException *)
  | KOpEval | KWflipValue | KBoundsUnaligned | KNoSpace | KAddSegment | KNoFirstOp.

Inductive res (A : Type) := Ok (a : A) | LibError (k : libkind) | RawExn (x : rawexn).
Arguments Ok {A} a.
Arguments LibError {A} k.
Arguments RawExn {A} x.

Definition bind {A B} (r : res A) (f : A -> res B) : res B :=
  match r with Ok a => f a | LibError k => LibError k | RawExn x => RawExn x end.
Notation "'do' x <- r ; k" := (bind r (fun x => k)) (at level 200, x pattern, r at level 100, k at level 200).

Record config := mkcfg {
  c_w : Z;            (* memory width: 8, 16, 32, 64 *)
  c_ver : N;          (* fjm version 0..3 *)
  c_maxdepth : nat;   (* max_recursion_depth (default 900) *)
  c_exprlim : nat;    (* deepest expression tree the recursive Expr methods can walk *)
  c_replim : Z;       (* largest rep count that finishes *)
  c_padlim : Z;       (* largest pad count (in ops) that can be materialised *)
  c_bitlim : Z        (* largest number of bits of a shift / power result that can be allocated *)
}.

Definition N_to_string (n : N) : string := NilZero.string_of_uint (N.to_uint n).

(* ------------------------------------------------------------------------------------------------------------------ *)
(** * expr.py *)

Definition of_pyexn (x : Expr.pyexn) : rawexn :=
  match x with
  | Expr.ZeroDivisionError => ZeroDivisionError
  | Expr.ValueError => ValueError
  | Expr.TypeError => TypeError
  | Expr.KeyError => KeyError
  | Expr.IndexError => IndexError
  | Expr.NameError => NameError
  | Expr.FloatResult => TypeError
  end.

(* results that cannot be produced: `a << n` needs n bits at once (MemoryError / OverflowError), `a ** b` grinds forever *)
Definition op_resource (cfg : config) (o : opname) (vs : list Z) : option rawexn :=
  match o, vs with
  | OShl, [a; n] => if negb (a =? 0) && (c_bitlim cfg <? n) then Some MemoryError else None
  | OPow, [a; b] => if (1 <? Z.abs a) && (c_bitlim cfg <? b) then Some Hang else None
  | _, _ => None
  end.

(* op_string_to_function[op] applied to the values *)
Definition op_apply (cfg : config) (o : opname) (vs : list Z) : res Z :=
  match op_resource cfg o vs with
  | Some x => RawExn x
  | None =>
    match Expr.apply_op o vs with
    | Expr.Ok z => Ok z
    | Expr.LibError _ => LibError KNegPow          (* _pow raises FlipJumpExprException itself *)
    | Expr.RawExn x => RawExn (of_pyexn x)
    end
  end.

Definition is_int (e : expr) : bool := match e with EInt _ => true | _ => false end.
Fixpoint ints_of (l : list expr) : list Z :=
  match l with [] => [] | EInt z :: t => z :: ints_of t | _ :: t => ints_of t end.

Fixpoint expr_depth (e : expr) : nat :=
  match e with
  | EOp _ args => S ((fix mx (l : list expr) : nat := match l with [] => O | a :: t => Nat.max (expr_depth a) (mx t) end) args)
  | _ => O
  end.

(* str(int) refuses integers of more than 4300 decimal digits (sys.get_int_max_str_digits) with ValueError *)
Definition str_digits : Z := 10 ^ 4300.
Definition unprintable (z : Z) : bool := str_digits <=? Z.abs z.
Fixpoint has_unprintable (e : expr) : bool :=
  match e with
  | EInt z => unprintable z
  | ELbl _ => false
  | EOp _ args => (fix any (l : list expr) : bool := match l with [] => false | a :: t => has_unprintable a || any t end) args
  end.

(* get_minimized_expr(op, params): no try/except *)
Definition get_minimized_expr (cfg : config) (o : opname) (params : list expr) : res expr :=
  if forallb is_int params then do z <- op_apply cfg o (ints_of params); Ok (EInt z) else Ok (EOp o params).

(* what the grammar actions compute bottom-up while the LALR driver reduces (no Python recursion involved) *)
Fixpoint fold_expr (cfg : config) (e : expr) : res expr :=
  match e with
  | EOp o args =>
    do args' <- (fix go (l : list expr) : res (list expr) :=
                   match l with [] => Ok [] | a :: t => do a' <- fold_expr cfg a; do t' <- go t; Ok (a' :: t') end) args;
    get_minimized_expr cfg o args'
  | _ => Ok e
  end.

Definition dict (A : Type) := list (string * A).
Fixpoint dict_get {A} (d : dict A) (k : string) : option A :=
  match d with [] => None | (k', v) :: d' => if String.eqb k' k then Some v else dict_get d' k end.
Fixpoint dict_set {A} (d : dict A) (k : string) (v : A) : dict A :=
  match d with
  | [] => [(k, v)]
  | (k', v') :: d' => if String.eqb k' k then (k', v) :: d' else (k', v') :: dict_set d' k v
  end.
Definition dict_mem {A} (d : dict A) (k : string) : bool := match dict_get d k with Some _ => true | None => false end.

(* Expr.eval_new(params_dict), the recursion itself.  `except Exception` around the operator: every exception it raises
   (MemoryError included) becomes FlipJumpExprException("... bad math operation (op): {str(self)}.") - but str(self) raises
   ValueError when the expression holds an unprintable integer, and a computation that never returns stays that way. *)
Fixpoint eval_new_rec (cfg : config) (sg : dict expr) (e : expr) : res expr :=
  match e with
  | EInt _ => Ok e
  | ELbl s => Ok (match dict_get sg s with Some r => r | None => e end)
  | EOp o args =>
    do args' <- (fix go (l : list expr) : res (list expr) :=
                   match l with [] => Ok [] | a :: t => do a' <- eval_new_rec cfg sg a; do t' <- go t; Ok (a' :: t') end) args;
    if forallb is_int args' then
      match op_apply cfg o (ints_of args') with
      | Ok z => Ok (EInt z)
      | RawExn Hang => RawExn Hang
      | _ => if has_unprintable e then RawExn ValueError else LibError KBadMath
      end
    else Ok (EOp o args')
  end.

(* one Python frame per level: a tree deeper than the interpreter allows ends in RecursionError (outside any try) *)
Definition eval_new (cfg : config) (sg : dict expr) (e : expr) : res expr :=
  if (c_exprlim cfg <? expr_depth e)%nat then RawExn RecursionError else eval_new_rec cfg sg e.

Fixpoint eval_new_list (cfg : config) (sg : dict expr) (l : list expr) : res (list expr) :=
  match l with [] => Ok [] | a :: t => do a' <- eval_new cfg sg a; do t' <- eval_new_list cfg sg t; Ok (a' :: t') end.

(* Expr.exact_eval(labels) *)
Fixpoint exact_eval_rec (cfg : config) (lb : dict Z) (e : expr) : res Z :=
  match e with
  | EInt z => Ok z
  | ELbl s => match dict_get lb s with Some v => Ok v | None => LibError KCantEvalLabel end
  | EOp o args =>
    do vs <- (fix go (l : list expr) : res (list Z) :=
                match l with [] => Ok [] | a :: t => do v <- exact_eval_rec cfg lb a; do vs <- go t; Ok (v :: vs) end) args;
    match op_apply cfg o vs with
    | Ok z => Ok z
    | LibError k => LibError k
    | RawExn Hang => RawExn Hang
    | RawExn _ => if has_unprintable e then RawExn ValueError else LibError KBadMath
    end
  end.

Definition exact_eval (cfg : config) (lb : dict Z) (e : expr) : res Z :=
  if (c_exprlim cfg <? expr_depth e)%nat then RawExn RecursionError else exact_eval_rec cfg lb e.

(* ------------------------------------------------------------------------------------------------------------------ *)
(** * fj_parser.py: what happens to a tree while it is being parsed *)

Definition stmt_exprs (s : stmt) : list expr :=
  match s with
  | SFlipJump f j _ => [f; j]
  | SWordFlip a v r _ => [a; v; r]
  | SPad e _ | SSegment e _ | SReserve e _ => [e]
  | SLabel _ _ => []
  | SMacroCall _ args _ => args
  | SRepCall t _ _ args _ => t :: args
  end.

Fixpoint fold_list (cfg : config) (l : list expr) : res (list expr) :=
  match l with [] => Ok [] | a :: t => do a' <- fold_expr cfg a; do t' <- fold_list cfg t; Ok (a' :: t') end.

Definition fold_stmt (cfg : config) (s : stmt) : res stmt :=
  match s with
  | SFlipJump f j p => do f' <- fold_expr cfg f; do j' <- fold_expr cfg j; Ok (SFlipJump f' j' p)
  | SWordFlip a v r p => do a' <- fold_expr cfg a; do v' <- fold_expr cfg v; do r' <- fold_expr cfg r; Ok (SWordFlip a' v' r' p)
  | SPad e p => do e' <- fold_expr cfg e; Ok (SPad e' p)
  | SSegment e p => do e' <- fold_expr cfg e; Ok (SSegment e' p)
  | SReserve e p => do e' <- fold_expr cfg e; Ok (SReserve e' p)
  | SLabel n p => Ok (SLabel n p)
  | SMacroCall n args p => do args' <- fold_list cfg args; Ok (SMacroCall n args' p)
  | SRepCall t it n args p => do t' <- fold_expr cfg t; do args' <- fold_list cfg args; Ok (SRepCall t' it n args' p)
  end.

Fixpoint fold_stmts (cfg : config) (l : list stmt) : res (list stmt) :=
  match l with [] => Ok [] | s :: t => do s' <- fold_stmt cfg s; do t' <- fold_stmts cfg t; Ok (s' :: t') end.

(* validate_macro_declaration -> get_used_labels -> Expr.all_unknown_labels: a recursive walk over every expression of a
   macro body (not of the main macro) *)
Definition walkable (cfg : config) (ops : list stmt) : bool :=
  forallb (fun s => forallb (fun e => (expr_depth e <=? c_exprlim cfg)%nat) (stmt_exprs s)) ops.

Fixpoint parse_macros (cfg : config) (d : macro_dict) : res macro_dict :=
  match d with
  | [] => Ok []
  | (n, m) :: d' =>
    do ops <- fold_stmts cfg (m_ops m);
    if negb (macro_name_eqb n main_macro_name) && negb (walkable cfg ops) then RawExn RecursionError
    else do d'' <- parse_macros cfg d'; Ok ((n, mkmacro (m_params m) (m_locals m) ops (m_ns m) (m_pos m)) :: d'')
  end.

(* ------------------------------------------------------------------------------------------------------------------ *)
(** * preprocessor.py *)

Inductive lastop :=
  | LFlipJump (f j : expr)
  | LWordFlip (a v r : expr)
  | LPadding (n : Z)
  | LNewSeg (start wstart : Z)
  | LReserve (after : Z).

Record pstate := mkp {
  p_addr : Z;                 (* curr_address *)
  p_labels : dict Z;          (* labels *)
  p_pos : list string;        (* keys of labels_code_positions *)
  p_ops : list lastop;        (* result_ops, most recent first *)
  p_seg : N                   (* curr_segment_index *)
}.

Fixpoint patch_wflip (rops : list lastop) (v : Z) : list lastop :=
  match rops with
  | [] => []
  | LNewSeg s _ :: r => LNewSeg s v :: r
  | o :: r => o :: patch_wflip r v
  end.

Definition wflip_start_label (i : N) : string := "_.wflip_area_start_" ++ N_to_string i.

(* PreprocessorData.insert_label: `if label in self.labels: other_position = self.labels_code_positions[label]` -
   insert_segment puts its "_.wflip_area_start_<i>" labels into `labels` WITHOUT a code position: KeyError *)
Definition insert_label (st : pstate) (name : string) : res pstate :=
  if dict_mem (p_labels st) name then
    if existsb (String.eqb name) (p_pos st) then LibError KLabelTwice else RawExn KeyError
  else Ok (mkp (p_addr st) (dict_set (p_labels st) name (p_addr st)) (name :: p_pos st) (p_ops st) (p_seg st)).

Definition insert_segment (st : pstate) (start : Z) : pstate :=
  mkp start (dict_set (p_labels st) (wflip_start_label (p_seg st)) (p_addr st)) (p_pos st)
      (LNewSeg start (-1) :: patch_wflip (p_ops st) (p_addr st)) (p_seg st + 1)%N.

Definition insert_reserve (st : pstate) (size : Z) : pstate :=
  mkp (p_addr st + size) (p_labels st) (p_pos st) (LReserve (p_addr st + size) :: p_ops st) (p_seg st).

Definition align_current_address (cfg : config) (st : pstate) (n : Z) : res pstate :=
  let dw := 2 * c_w cfg in
  if negb (p_addr st mod dw =? 0) then (if unprintable (p_addr st) then RawExn ValueError else LibError KPadUnaligned)
  else let k := ((- p_addr st) / dw) mod n in
       Ok (mkp (p_addr st + k * dw) (p_labels st) (p_pos st) (LPadding k :: p_ops st) (p_seg st)).

Definition push_op (st : pstate) (a : Z) (o : lastop) : pstate :=
  mkp a (p_labels st) (p_pos st) (o :: p_ops st) (p_seg st).

(* the exception a `calculate_*` helper of ops.py lets through: FlipJumpExprException is re-labelled by the caller,
   anything else passes *)
Definition relabel {A} (r : res A) (k : libkind) : res A :=
  match r with Ok a => Ok a | LibError _ => LibError k | RawExn x => RawExn x end.

Definition macro_name_str (mn : macro_name) : string :=
  if (snd mn =? 0)%N then fst mn else fst mn ++ "(" ++ N_to_string (snd mn) ++ ")".

Definition path_head (prefix : string) : string := if String.eqb prefix "" then "" else prefix ++ "---".
Definition pos_short (p : code_pos) : string := cp_short p ++ ":l" ++ N_to_string (cp_line p).

(* get_params_dictionary *)
Definition params_dictionary (m : macro) (args : list expr) (prefix : string) : dict expr :=
  let d1 := fold_left (fun d kv => dict_set d (fst kv) (snd kv)) (combine (m_params m) args) [] in
  let d2 := fold_left (fun d l => dict_set d l (ELbl (prefix ++ "---" ++ l))) (m_locals m) d1 in
  if String.eqb (m_ns m) "" then d2
  else fold_left (fun d kv => dict_set d (m_ns m ++ "." ++ fst kv) (snd kv)) d2 d2.

Section Resolve.
Variable cfg : config.
Variable macros : macro_dict.

(* resolve_macro_aux; fuel = how many more macro calls may be nested (len(curr_tree) <= max_recursion_depth) *)
Fixpoint resolve_aux (fuel : nat) (st : pstate) (mn : macro_name) (args : list expr) (prefix : string) {struct fuel}
  : res pstate :=
  match find_macro macros mn with
  | None => RawExn KeyError                                   (* self.macros[macro_name] *)
  | Some m =>
    let sg := params_dictionary m args prefix in
    (fix loop (ops : list stmt) (st : pstate) {struct ops} : res pstate :=
       match ops with
       | [] => Ok st
       | op :: rest =>
         do st' <-
           match op with
           | SLabel name _ =>
             match dict_get sg name with                      (* Label.eval_name *)
             | None => insert_label st name
             | Some (ELbl s) => insert_label st s
             | Some v => if has_unprintable v then RawExn ValueError else LibError KBadLabelSwap
             end
           | SFlipJump f j _ =>
             let a := p_addr st + 2 * c_w cfg in
             let sg' := dict_set sg "$" (EInt a) in
             do f' <- eval_new cfg sg' f; do j' <- eval_new cfg sg' j;
             Ok (push_op st a (LFlipJump f' j'))
           | SWordFlip x v r _ =>
             let a := p_addr st + 2 * c_w cfg in
             let sg' := dict_set sg "$" (EInt a) in
             do x' <- eval_new cfg sg' x; do v' <- eval_new cfg sg' v; do r' <- eval_new cfg sg' r;
             Ok (push_op st a (LWordFlip x' v' r'))
           | SPad e _ =>
             do e' <- eval_new cfg sg e;
             (* "Can't evaluate how much to pad in 'pad {op.ops_alignment}'" prints the expression *)
             do n <- match exact_eval cfg (p_labels st) e' with
                     | LibError _ => if has_unprintable e' then RawExn ValueError else LibError KPadEval
                     | r => r
                     end;
             if n <=? 0 then (if unprintable n then RawExn ValueError else LibError KPadNonPositive)
             else align_current_address cfg st n
           | SSegment e _ =>
             do e' <- eval_new cfg sg e;
             do a <- relabel (exact_eval cfg (p_labels st) e') KSegmentEval;
             if negb (a mod c_w cfg =? 0) then LibError KSegmentUnaligned else Ok (insert_segment st a)
           | SReserve e _ =>
             do e' <- eval_new cfg sg e;
             do r <- relabel (exact_eval cfg (p_labels st) e') KReserveEval;
             if negb (r mod c_w cfg =? 0) then LibError KReserveUnaligned else Ok (insert_reserve st r)
           | SMacroCall name cargs pos =>
             do cargs' <- eval_new_list cfg sg cargs;
             let callee := call_name name cargs' in
             match find_macro macros callee with
             | None => LibError KMacroUndefined
             | Some _ =>
               match fuel with
               | O => LibError KMacroDepth
               | S fuel' => resolve_aux fuel' st callee cargs' (path_head prefix ++ pos_short pos ++ ":" ++ macro_name_str callee)
               end
             end
           | SRepCall times it name cargs pos =>
             let hyg := path_head prefix ++ pos_short pos ++ ":rep:" ++ it in
             do renamed <- eval_new_list cfg [(it, ELbl hyg)] cargs;            (* rename_iterator *)
             do times' <- eval_new cfg sg times;
             do cargs' <- eval_new_list cfg sg renamed;
             do n <- relabel (exact_eval cfg (p_labels st) times') KRepTimes;   (* get_rep_times *)
             if n =? 0 then Ok st
             else
               let callee := call_name name cargs' in
               match find_macro macros callee with
               | None => LibError KMacroUndefined
               | Some _ =>
                 match fuel with
                 | O => LibError KMacroDepth
                 | S fuel' =>
                   if c_replim cfg <? n then RawExn Hang
                   else
                     (fix reploop (k : nat) (i : Z) (st : pstate) {struct k} : res pstate :=
                        match k with
                        | O => Ok st
                        | S k' =>
                          do iargs <- relabel (eval_new_list cfg [(hyg, EInt i)] cargs') KRepArgs;   (* calculate_arguments *)
                          do st' <- resolve_aux fuel' st callee iargs
                                      (path_head prefix ++ pos_short pos ++ ":rep" ++ N_to_string (Z.to_N i) ++ ":" ++ macro_name_str callee);
                          reploop k' (i + 1) st'
                        end) (Z.to_nat n) 0 st
                 end
               end
           end;
         loop rest st'
       end) (m_ops m) st
  end.

Definition pre_init : pstate := mkp 0 [] [] [LNewSeg 0 (-1)] 0%N.

(* resolve_macros: the op queue (in order) and the label dictionary *)
Definition resolve_macros : res (list lastop * dict Z) :=
  do st <- resolve_aux (c_maxdepth cfg) pre_init main_macro_name [] "";
  Ok (rev (patch_wflip (p_ops st) (p_addr st)), p_labels st).

End Resolve.

(* ------------------------------------------------------------------------------------------------------------------ *)
(** * fjm_writer.py (Writer state) and assembler.py (BinaryData) *)

Record wstate := mkw {
  w_segs : list (Z * Z * Z * Z);   (* segments *)
  w_dlen : Z                        (* len(self.data) *)
}.

Definition is_collision (s1 e1 s2 e2 : Z) : bool :=
  ((s2 <=? s1) && (s1 <=? e2)) || ((s2 <=? e1) && (e1 <=? e2)) ||
  ((s1 <=? s2) && (s2 <=? e1)) || ((s1 <=? e2) && (e2 <=? e1)).

Definition relative_version (cfg : config) : bool := (2 <=? c_ver cfg)%N.

Inductive add_res := AddOk (w : wstate) | AddRefused | AddIndexError.

(* Writer.add_segment: every check; _update_to_relative_jumps indexes self.data[data_start + i] *)
Definition writer_add_segment (cfg : config) (wr : wstate) (start len dstart dlen : Z) : add_res :=
  if len <=? 0 then AddRefused
  else if len <? dlen then AddRefused
  else if (start mod 2 =? 1) || (len mod 2 =? 1) then AddRefused
  else if existsb (fun sg => match sg with (s, l, _, _) => is_collision s (s + l - 1) start (start + len - 1) end)
                  (w_segs wr) then AddRefused
  else if relative_version cfg && negb (dlen =? 0) &&
          existsb (fun sg => match sg with (_, _, ds, dl) =>
                     negb (dl =? 0) && is_collision ds (ds + dl - 1) dstart (dstart + dlen - 1) end) (w_segs wr)
       then AddRefused
  else if relative_version cfg && (w_dlen wr <? dstart + dlen) then AddIndexError
  else AddOk (mkw (w_segs wr ++ [(start, len, dstart, dlen)]) (w_dlen wr)).

Definition in_memory (cfg : config) (a : Z) : bool := (0 <=? a) && (a <? 2 ^ c_w cfg).

Definition validate_addresses (cfg : config) (first last : Z) : option libkind :=
  if negb (first mod c_w cfg =? 0) || negb (last mod c_w cfg =? 0) then Some KBoundsUnaligned
  else if negb (in_memory cfg first) then Some KNoSpace
  else if negb (in_memory cfg (last - 1)) then Some KNoSpace
  else None.

(* add_segment_to_fjm; n = len(fj_words + wflip_words) *)
Definition add_segment_to_fjm (cfg : config) (wr : wstate) (first last n : Z) : res (wstate * bool) :=
  match validate_addresses cfg first last with
  | Some k => LibError k
  | None =>
    if first =? last then Ok (wr, false)
    else
      let dstart := w_dlen wr in
      let wr1 := mkw (w_segs wr) (w_dlen wr + n) in
      match writer_add_segment cfg wr1 (first / c_w cfg) ((last - first) / c_w cfg) dstart n with
      | AddRefused => LibError KAddSegment
      | AddIndexError => RawExn IndexError
      | AddOk wr2 => Ok (wr2, true)
      end
  end.

Record bstate := mkb {
  b_first : Z;                        (* first_address *)
  b_nextw : Z;                        (* next_wflip_address *)
  b_nfj : Z;                          (* len(fj_words) *)
  b_nwf : Z;                          (* len(wflip_words) *)
  b_pads : list (Z * Z);              (* padding_ops_indices as runs (first index, how many), top of the stack first *)
  b_dict : list ((Z * list Z) * Z);   (* wflips_dict: (return_address, remaining flip addresses ascending) -> chain entry *)
  b_flips : list Z;                   (* every flip word stored so far *)
  b_jumps : list Z;                   (* every jump word stored so far *)
  b_wr : wstate
}.

Definition set_wr (st : bstate) (wr : wstate) (cleared : bool) : bstate :=
  mkb (b_first st) (b_nextw st) (if cleared then 0 else b_nfj st) (if cleared then 0 else b_nwf st) (b_pads st)
      (b_dict st) (b_flips st) (b_jumps st) wr.

Definition insert_fj_op (cfg : config) (st : bstate) (f j : Z) : bstate :=
  mkb (b_first st) (b_nextw st) (b_nfj st + 2) (b_nwf st) (b_pads st) (b_dict st) (f :: b_flips st) (j :: b_jumps st) (b_wr st).

(* get_wflip_spot: the address of the op that will hold the next chain element *)
Definition get_wflip_spot (cfg : config) (st : bstate) : bstate * Z :=
  match b_pads st with
  | (base, cnt) :: rest =>
    let idx := base + 2 * (cnt - 1) in
    (mkb (b_first st) (b_nextw st) (b_nfj st) (b_nwf st) (if 1 <? cnt then (base, cnt - 1) :: rest else rest)
         (b_dict st) (b_flips st) (b_jumps st) (b_wr st),
     b_first st + c_w cfg * idx)
  | [] =>
    (mkb (b_first st) (b_nextw st + 2 * c_w cfg) (b_nfj st) (b_nwf st + 2) [] (b_dict st) (b_flips st) (b_jumps st) (b_wr st),
     b_nextw st)
  end.

Fixpoint zlist_eqb (a b : list Z) : bool :=
  match a, b with
  | [], [] => true
  | x :: a', y :: b' => (x =? y) && zlist_eqb a' b'
  | _, _ => false
  end.

Fixpoint wdict_find (d : list ((Z * list Z) * Z)) (ret : Z) (key : list Z) : option Z :=
  match d with
  | [] => None
  | ((r, k), v) :: d' => if (r =? ret) && zlist_eqb k key then Some v else wdict_find d' ret key
  end.

Definition record_words (st : bstate) (f j : Z) : bstate :=
  mkb (b_first st) (b_nextw st) (b_nfj st) (b_nwf st) (b_pads st) (b_dict st) (f :: b_flips st) (j :: b_jumps st) (b_wr st).

Definition wdict_add (st : bstate) (ret : Z) (key : list Z) (v : Z) : bstate :=
  mkb (b_first st) (b_nextw st) (b_nfj st) (b_nwf st) (b_pads st) (((ret, key), v) :: b_dict st) (b_flips st) (b_jumps st) (b_wr st).

(* the `while flip_addresses:` loop of insert_wflip_ops.  `rest` = the flip addresses still to place (ascending; Python
   keeps them descending and pops from the end).  Each iteration fixes the jump word of the previous op: the address of an
   existing chain, or of a new op that flips the next address. *)
Fixpoint wflip_chain (cfg : config) (st : bstate) (rest : list Z) (ret : Z) : bstate :=
  match rest with
  | [] => record_words st 0 ret                                (* the last op returns; flip word already recorded: 0 here is a no-op entry *)
  | a :: rest' =>
    match wdict_find (b_dict st) ret rest with
    | Some chain => record_words st 0 chain
    | None =>
      let (st1, spot) := get_wflip_spot cfg st in
      let st2 := wdict_add (record_words st1 a spot) ret rest spot in
      wflip_chain cfg st2 rest' ret
    end
  end.

(* [word_address + i for i in range(w) if flip_value & (1 << i)], ascending *)
Definition flip_addresses (cfg : config) (addr v : Z) : list Z :=
  map (fun i => addr + Z.of_nat i) (filter (fun i => Z.testbit v (Z.of_nat i)) (seq 0 (Z.to_nat (c_w cfg)))).

Definition insert_wflip_ops (cfg : config) (st : bstate) (addr v ret : Z) : res bstate :=
  if v =? 0 then Ok (insert_fj_op cfg st 0 ret)
  else if negb (in_memory cfg v) then LibError KWflipValue
  else
    match flip_addresses cfg addr v with
    | [] => RawExn IndexError                                  (* flip_addresses.pop() of an empty list *)
    | a :: rest =>
      let st1 := mkb (b_first st) (b_nextw st) (b_nfj st + 2) (b_nwf st) (b_pads st) (b_dict st) (a :: b_flips st) (b_jumps st) (b_wr st) in
      Ok (wflip_chain cfg st1 rest ret)
    end.

(* insert_padding: `for i in range(...): self.fj_words += (0, 0)` materialises 2*count words *)
Definition insert_padding (cfg : config) (st : bstate) (count : Z) : res bstate :=
  if c_padlim cfg <? count then RawExn MemoryError
  else Ok (mkb (b_first st) (b_nextw st) (b_nfj st + 2 * count) (b_nwf st)
               (if 0 <? count then (b_nfj st, count) :: b_pads st else b_pads st)
               (b_dict st) (b_flips st) (b_jumps st) (b_wr st)).

Definition close_and_add_segment (cfg : config) (st : bstate) : res bstate :=
  if b_nextw st =? b_first st then Ok st
  else do r <- add_segment_to_fjm cfg (b_wr st) (b_first st) (b_nextw st) (b_nfj st + b_nwf st);
       Ok (set_wr st (fst r) (snd r)).

Definition insert_new_segment (cfg : config) (st : bstate) (first wfirst : Z) : res bstate :=
  do st1 <- close_and_add_segment cfg st;
  Ok (mkb first wfirst (b_nfj st1) (b_nwf st1) [] (b_dict st1) (b_flips st1) (b_jumps st1) (b_wr st1)).

(* insert_reserve_bits: add_segment_to_fjm(..., self.fj_words, []) clears fj_words only *)
Definition insert_reserve_bits (cfg : config) (st : bstate) (after : Z) : res bstate :=
  do r <- add_segment_to_fjm cfg (b_wr st) (b_first st) after (b_nfj st);
  Ok (mkb after (b_nextw st) (if snd r then 0 else b_nfj st) (b_nwf st) [] (b_dict st) (b_flips st) (b_jumps st) (fst r)).

(* f"{e} in op {op}": str(op) prints every expression of the op *)
Definition op_message (k : libkind) (es : list expr) : res bstate :=
  if existsb has_unprintable es then RawExn ValueError else LibError k.

Definition in_op {A} (r : res A) (es : list expr) (f : A -> res bstate) : res bstate :=
  match r with
  | Ok a => f a
  | LibError _ => op_message KOpEval es               (* except FlipJumpException as e: raise FlipJumpAssemblerException *)
  | RawExn x => RawExn x
  end.

Definition labels_step (cfg : config) (lb : dict Z) (st : bstate) (op : lastop) : res bstate :=
  match op with
  | LFlipJump f j =>
    in_op (exact_eval cfg lb f) [f; j] (fun fv =>
    in_op (exact_eval cfg lb j) [f; j] (fun jv => Ok (insert_fj_op cfg st fv jv)))
  | LWordFlip a v r =>
    in_op (exact_eval cfg lb a) [a; v; r] (fun av =>
    in_op (exact_eval cfg lb v) [a; v; r] (fun vv =>
    in_op (exact_eval cfg lb r) [a; v; r] (fun rv =>
    match insert_wflip_ops cfg st av vv rv with
    | LibError _ => op_message KWflipValue [a; v; r]
    | x => x
    end)))
  | LPadding n => insert_padding cfg st n
  | LNewSeg s ws => insert_new_segment cfg st s ws
  | LReserve after => insert_reserve_bits cfg st after
  end.

Fixpoint labels_loop (cfg : config) (lb : dict Z) (st : bstate) (ops : list lastop) : res bstate :=
  match ops with
  | [] => Ok st
  | op :: rest => do st' <- labels_step cfg lb st op; labels_loop cfg lb st' rest
  end.

Definition labels_resolve (cfg : config) (ops : list lastop) (lb : dict Z) : res bstate :=
  match ops with
  | LNewSeg s ws :: rest =>
    do st <- labels_loop cfg lb (mkb s ws 0 0 [] [] [] [] (mkw [] 0)) rest;
    close_and_add_segment cfg st
  | _ => RawExn IndexError      (* ops.popleft() of an empty deque / first op not a NewSegment: the preprocessor always emits one *)
  end.

Definition first_op_assembled (st : bstate) : bool :=
  existsb (fun sg => match sg with (s, l, _, _) => (s =? 0) && (2 <=? l) end) (w_segs (b_wr st)).

(* ------------------------------------------------------------------------------------------------------------------ *)
(** * write_to_file and the exception ladder of `assemble` *)

(* the output path: untouched; opened and holding the header and the segment table only; complete *)
Inductive fstate := NoFile | PartialFile | CompleteFile.

Definition word_ok (cfg : config) (x : Z) : bool := (0 <=? x) && (x <? 2 ^ c_w cfg).

(* struct.pack(f'<{n}{word_format}', *self.data): versions 2 and 3 have reduced every jump word modulo 2^w before *)
Definition packable (cfg : config) (st : bstate) : bool :=
  forallb (word_ok cfg) (b_flips st) && (relative_version cfg || forallb (word_ok cfg) (b_jumps st)).

Inductive verdict := VOk | VLib (k : libkind) | VCatchAll (x : rawexn) | VHang.
Record outcome := mkout { o_verdict : verdict; o_file : fstate }.

(* try: ... except FlipJumpException: raise / except Exception: raise FlipJumpAssemblerException("Unknown exception ...") *)
Definition ladder {A} (r : res A) (f : fstate) (k : A -> outcome) : outcome :=
  match r with
  | Ok a => k a
  | LibError e => mkout (VLib e) f
  | RawExn Hang => mkout VHang f
  | RawExn x => mkout (VCatchAll x) f
  end.

Definition layout (cfg : config) (t : macro_dict) : res bstate :=
  do t1 <- parse_macros cfg t;
  do r <- resolve_macros cfg t1;
  labels_resolve cfg (fst r) (snd r).

Definition assemble_model (cfg : config) (t : macro_dict) : outcome :=
  ladder (parse_macros cfg t) NoFile (fun t1 =>
  ladder (resolve_macros cfg t1) NoFile (fun r =>
  ladder (labels_resolve cfg (fst r) (snd r)) NoFile (fun st =>
  if negb (first_op_assembled st) then mkout (VLib KNoFirstOp) NoFile
  else (* with open(output_file, 'wb'): header, segments; then the data words are packed *)
    if packable cfg st then mkout VOk CompleteFile else mkout (VCatchAll StructError) PartialFile))).

(* ------------------------------------------------------------------------------------------------------------------ *)
(** * Guards: one per recorded finding *)

Definition is_arith (x : rawexn) : bool := match x with ZeroDivisionError | ValueError => true | _ => false end.

(* F7: no all-literal sub-expression divides by zero or shifts by a negative count (what the parser folds) *)
Definition no_parse_time_arith_error (cfg : config) (t : macro_dict) : bool :=
  match parse_macros cfg t with RawExn x => negb (is_arith x) | _ => true end.

(* F8: every word the program asks to store fits the word format of its version *)
Definition words_in_range (cfg : config) (t : macro_dict) : bool :=
  match layout cfg t with Ok st => packable cfg st | _ => true end.

(* F9 (and the never-returning variants): no count / magnitude beyond what can be materialised *)
Definition counts_materialisable (cfg : config) (t : macro_dict) : bool :=
  match o_verdict (assemble_model cfg t) with VCatchAll MemoryError | VHang => false | _ => true end.

(* F10: no expression tree deeper than the recursive traversals survive *)
Definition expr_depth_ok (cfg : config) (t : macro_dict) : bool :=
  match o_verdict (assemble_model cfg t) with VCatchAll RecursionError => false | _ => true end.

(* new finding: a source label spelled like the internal "_.wflip_area_start_<i>" labels (KeyError in insert_label) *)
Definition internal_labels_free (cfg : config) (t : macro_dict) : bool :=
  match parse_macros cfg t with
  | Ok t1 => match resolve_macros cfg t1 with RawExn KeyError => false | _ => true end
  | _ => true
  end.

(* new finding: a diagnostic that has to print an integer of more than 4300 digits (ValueError inside the handler) *)
Definition diagnostics_printable (cfg : config) (t : macro_dict) : bool :=
  match parse_macros cfg t with
  | Ok t1 =>
    match resolve_macros cfg t1 with
    | RawExn ValueError => false
    | Ok r => match labels_resolve cfg (fst r) (snd r) with RawExn ValueError => false | _ => true end
    | _ => true
    end
  | _ => true
  end.

(* domain of the trees the parser can produce: operator arities, and the main macro exists *)
Fixpoint expr_wf (e : expr) : bool :=
  match e with
  | EOp o args => (List.length args =? opname_arity o)%nat &&
                  (fix all (l : list expr) : bool := match l with [] => true | a :: t => expr_wf a && all t end) args
  | _ => true
  end.
Definition stmt_wf (s : stmt) : bool := forallb expr_wf (stmt_exprs s).
Definition tree_wf (t : macro_dict) : bool :=
  forallb (fun nm => forallb stmt_wf (m_ops (snd nm))) t &&
  match find_macro t main_macro_name with Some _ => true | None => false end.

(* the property on an outcome *)
Definition specific (o : outcome) : bool := match o_verdict o with VOk | VLib _ => true | _ => false end.
Definition no_file_on_failure (o : outcome) : bool :=
  match o_verdict o, o_file o with VOk, _ => true | _, NoFile => true | _, _ => false end.

(* ------------------------------------------------------------------------------------------------------------------ *)
(** * Coding of outcomes for the correspondence campaign (harness/fjverif/checks/c14.py) *)

Definition libkind_code (k : libkind) : N :=
  match k with
  | KNegPow => 1 | KBadMath => 2 | KBadLabelSwap => 3 | KRepArgs => 4 | KCantEvalLabel => 5
  | KMacroUndefined => 10 | KMacroDepth => 11 | KLabelTwice => 12 | KRepTimes => 13 | KPadEval => 14
  | KPadNonPositive => 15 | KPadUnaligned => 16 | KSegmentEval => 17 | KSegmentUnaligned => 18
  | KReserveEval => 19 | KReserveUnaligned => 20
  | KOpEval => 30 | KWflipValue => 31 | KBoundsUnaligned => 32 | KNoSpace => 33 | KAddSegment => 34 | KNoFirstOp => 35
  end%N.

Definition rawexn_code (x : rawexn) : N :=
  match x with
  | ZeroDivisionError => 1 | ValueError => 2 | TypeError => 3 | KeyError => 4 | IndexError => 5 | MemoryError => 6
  | RecursionError => 7 | StructError => 8 | NameError => 9 | Hang => 100
  end%N.

Definition verdict_code (v : verdict) : N :=
  match v with VOk => 0 | VLib k => 100 + libkind_code k | VCatchAll x => 200 + rawexn_code x | VHang => 300 end%N.
Definition fstate_code (f : fstate) : N := match f with NoFile => 0 | PartialFile => 1 | CompleteFile => 2 end%N.

Record mcase := mkcase { mc_cfg : config; mc_tree : macro_dict }.
Definition case_codes (c : mcase) : N * N :=
  let o := assemble_model (mc_cfg c) (mc_tree c) in (verdict_code (o_verdict o), fstate_code (o_file o)).
