From FJ Require Import Lib.Base.
(* C02 model: executable transcription of the assembler for MACRO-FREE programs, function by function:
     preprocessor.py  resolve_macro_aux restricted to Label / FlipJump / WordFlip / Pad / Segment / Reserve,
                      PreprocessorData.insert_label, insert_segment, insert_reserve, align_current_address, finish
     expr.py          Expr.eval_new (with the `$` substitution) and exact_eval
     assembler.py     validate_addresses, add_segment_to_fjm, BinaryData (get_wflip_spot, close_and_add_segment,
                      insert_fj_op, insert_wflip_ops, insert_padding, insert_new_segment, insert_reserve_bits),
                      labels_resolve, assert_first_op_assembled, and the tail of assemble()
     fjm_writer.py    Writer.add_data, add_segment (every check, _update_to_relative_jumps), the range check of
                      struct.pack in write_to_file
     fjm_reader.py    Reader._init_memory (what Reader(file).memory / .memory_segments return for that file)
   Error exits are constructors: LibError k = one of the library's assembly exceptions, RawExn = anything else
   (reaches the caller through the catch-all of assemble()).  Python ints are Z.  No proofs here.

   Representation choices (isomorphic to the Python data, stated so the tie can be audited):
   * a Python dict is an association list in insertion order (dict_set overwrites in place, appends new keys);
   * `flip_addresses` is kept in ASCENDING order: Python keeps it descending and pops from the end, so Python's
     list is the reverse of ours and the sharing-table keys `tuple(flip_addresses)` are compared reversed on both sides;
   * wflips_dict (return_address -> key -> address) is one flat association list keyed by (return_address, key);
   * padding_ops_indices is a list whose HEAD is the top of Python's stack (the last appended index);
   * result_ops is accumulated in reverse; `last_new_segment.wflip_start_address = x` is patch_wflip. *)
From FJ Require Import Spec.MachineSpec Model.Ast Spec.DenoteSpec Model.DenoteCheck.
From Coq Require Import DecimalString.
Local Open Scope Z_scope.

Inductive libkind :=
  (* FlipJumpPreprocessorException *)
  | KLabelTwice | KPadEval | KPadNonPositive | KPadUnaligned | KPadTooHigh
  | KSegmentEval | KSegmentUnaligned | KReserveEval | KReserveUnaligned
  | KReserveNegative          (* since commit 825c6f7 (fix of finding F18) *)
  (* FlipJumpExprException escaping from eval_new *)
  | KExprFold
  (* FlipJumpAssemblerException *)
  | KOpEval | KWflipValue | KBoundsUnaligned | KNoSpace | KAddSegment | KNoFirstOp | KFirstNotSegment
  (* FlipJumpWriteFjmException escaping from Writer.add_data (not wrapped by add_segment_to_fjm) *)
  | KWriterWordRange
  (* outside this model: macro call / rep in the program *)
  | KNotPrimitive.
Inductive rawkind := RStructError.

Inductive result (A : Type) := Ok (a : A) | LibError (k : libkind) | RawExn (r : rawkind).
Arguments Ok {A} a.
Arguments LibError {A} k.
Arguments RawExn {A} r.

Definition bind {A B} (r : result A) (f : A -> result B) : result B :=
  match r with Ok a => f a | LibError k => LibError k | RawExn e => RawExn e end.
Notation "'do' x <- r ; k" := (bind r (fun x => k)) (at level 200, x pattern, r at level 100, k at level 200).

Definition N_to_string (n : N) : string := NilZero.string_of_uint (N.to_uint n).

(* ---------- dict ---------- *)
Fixpoint dict_mem (l : labels) (k : string) : bool :=
  match l with [] => false | (k', _) :: l' => String.eqb k' k || dict_mem l' k end.
Fixpoint dict_set (l : labels) (k : string) (v : Z) : labels :=
  match l with
  | [] => [(k, v)]
  | (k', v') :: l' => if String.eqb k' k then (k', v) :: l' else (k', v') :: dict_set l' k v
  end.

(* ---------- expr.py ---------- *)
Fixpoint ints_of (l : list expr) : option (list Z) :=
  match l with
  | [] => Some []
  | EInt z :: l' => match ints_of l' with Some r => Some (z :: r) | None => None end
  | _ :: _ => None
  end.

(* Expr.eval_new(params_dict) with params_dict = {'$': Expr(d)} (d = Some _) or {} (d = None).
   None = FlipJumpExprException("... bad math operation ...") *)
Fixpoint eval_new (d : option Z) (e : expr) : option expr :=
  match e with
  | EInt _ => Some e
  | ELbl s => Some (match d with Some v => if String.eqb s "$" then EInt v else e | None => e end)
  | EOp o args =>
    match (fix go (l : list expr) : option (list expr) :=
             match l with
             | [] => Some []
             | x :: l' => match eval_new d x with
                          | None => None
                          | Some x' => match go l' with None => None | Some r => Some (x' :: r) end
                          end
             end) args with
    | None => None
    | Some args' =>
      match ints_of args' with
      | Some vs => match apply_op o vs with Some v => Some (EInt v) | None => None end
      | None => Some (EOp o args')
      end
    end
  end.

(* Expr.exact_eval(labels); None = FlipJumpExprException *)
Definition exact_eval (l : labels) (e : expr) : option Z := eval_expr (lookup l) e.

(* ---------- ops.py: the input of the last phase ---------- *)
Inductive lastop :=
  | LFlipJump (f j : expr)
  | LWordFlip (a v r : expr)
  | LPadding (n : Z)
  | LNewSeg (start wstart : Z)
  | LReserve (after : Z).

Section Model.
Variable ww : N.       (* log2 of the memory width *)
Variable ver : N.      (* fjm version 0..3 *)
Variable strict_range : bool.   (* true = the code as it is since the fix of finding F8 (commit b770ddf): insert_fj_op asserts
                                   flip and jump in [0, 2^w); insert_wflip_ops (non-zero value) asserts word_address,
                                   word_address + bit_length(value) - 1 and return_address; all raise the "Not enough space
                                   ... in op" FlipJumpAssemblerException (KWflipValue).  false = the code before the fix
                                   (kept to state what the fix changed: Properties/C02.v, C02_F8_regression_witness).
                                   Of the checks commit 3bd0fc0 added to the Writer, the word-range check of add_data IS
                                   reachable (KWriterWordRange in add_segment_to_fjm); the others (even data length, 64-bit
                                   fields, data range) cannot fire after validate_addresses.  `packable` is then always true. *)
Definition wd : Z := wz ww.
Definition dwd : Z := 2 * wd.

(* ================= preprocessor.py (primitive statements) ================= *)
Record pstate := mkp {
  p_addr : Z;              (* curr_address *)
  p_labels : labels;       (* labels *)
  p_used : list Z;         (* addresses_with_labels *)
  p_ops : list lastop;     (* result_ops, most recent first *)
  p_seg : N                (* curr_segment_index *)
}.

Fixpoint patch_wflip (rops : list lastop) (v : Z) : list lastop :=
  match rops with
  | [] => []
  | LNewSeg s _ :: r => LNewSeg s v :: r
  | o :: r => o :: patch_wflip r v
  end.

Definition WFLIP_NOT_INSERTED_YET : Z := -1.
Definition wflip_start_label (i : N) : string := "_.wflip_area_start_" ++ N_to_string i.
Definition wflip_label (i : N) : string := ":wflips:" ++ N_to_string i.
Definition main_start_label : string := "---:start:".

Definition insert_label (st : pstate) (name : string) (addr : Z) : result pstate :=
  if dict_mem (p_labels st) name then LibError KLabelTwice
  else Ok (mkp (p_addr st) (dict_set (p_labels st) name addr) (addr :: p_used st) (p_ops st) (p_seg st)).

(* since commit 07c8d15 (fix of finding F17): `if wflip_area_label in self.labels: macro_resolve_error('label declared
   twice ...')` before the assignment *)
Definition insert_segment (st : pstate) (start : Z) : result pstate :=
  if dict_mem (p_labels st) (wflip_start_label (p_seg st)) then LibError KLabelTwice
  else Ok (mkp start (dict_set (p_labels st) (wflip_start_label (p_seg st)) (p_addr st)) (p_used st)
               (LNewSeg start WFLIP_NOT_INSERTED_YET :: patch_wflip (p_ops st) (p_addr st)) (p_seg st + 1)%N).

Definition insert_reserve (st : pstate) (size : Z) : pstate :=
  mkp (p_addr st + size) (p_labels st) (p_used st) (LReserve (p_addr st + size) :: p_ops st) (p_seg st).

Definition align_current_address (st : pstate) (n : Z) : result pstate :=
  if negb (p_addr st mod dwd =? 0) then LibError KPadUnaligned
  else let k := ((- p_addr st) / dwd) mod n in
       if p_addr st + k * dwd >? 2 ^ wd then LibError KPadTooHigh      (* since commit 0ef0f9a *)
       else Ok (mkp (p_addr st + k * dwd) (p_labels st) (p_used st) (LPadding k :: p_ops st) (p_seg st)).

(* one iteration of the loop of resolve_macro_aux *)
Definition pre_step (st : pstate) (s : stmt) : result pstate :=
  match s with
  | SLabel name _ => insert_label st name (p_addr st)
  | SFlipJump f j _ =>
    let a' := p_addr st + dwd in
    match eval_new (Some a') f, eval_new (Some a') j with
    | Some f', Some j' => Ok (mkp a' (p_labels st) (p_used st) (LFlipJump f' j' :: p_ops st) (p_seg st))
    | _, _ => LibError KExprFold
    end
  | SWordFlip a v r _ =>
    let a' := p_addr st + dwd in
    match eval_new (Some a') a, eval_new (Some a') v, eval_new (Some a') r with
    | Some x, Some y, Some z => Ok (mkp a' (p_labels st) (p_used st) (LWordFlip x y z :: p_ops st) (p_seg st))
    | _, _, _ => LibError KExprFold
    end
  | SPad e _ =>
    match eval_new None e with
    | None => LibError KExprFold
    | Some e' =>
      match exact_eval (p_labels st) e' with
      | None => LibError KPadEval
      | Some n => if n <=? 0 then LibError KPadNonPositive else align_current_address st n
      end
    end
  | SSegment e _ =>
    match eval_new None e with
    | None => LibError KExprFold
    | Some e' =>
      match exact_eval (p_labels st) e' with
      | None => LibError KSegmentEval
      | Some a => if negb (a mod wd =? 0) then LibError KSegmentUnaligned else insert_segment st a
      end
    end
  | SReserve e _ =>
    match eval_new None e with
    | None => LibError KExprFold
    | Some e' =>
      match exact_eval (p_labels st) e' with
      | None => LibError KReserveEval
      | Some r => if r <? 0 then LibError KReserveNegative      (* checked before the alignment *)
                  else if negb (r mod wd =? 0) then LibError KReserveUnaligned else Ok (insert_reserve st r)
      end
    end
  | SMacroCall _ _ _ | SRepCall _ _ _ _ _ => LibError KNotPrimitive
  end.

Fixpoint pre_loop (st : pstate) (P : list stmt) : result pstate :=
  match P with
  | [] => Ok st
  | s :: P' => do st' <- pre_step st s; pre_loop st' P'
  end.

Definition pre_init : pstate := mkp 0 [] [] [LNewSeg 0 WFLIP_NOT_INSERTED_YET] 0%N.

(* PreprocessorData.finish: patch the last wflip start; the main macro's start label if address 0 has no label *)
Definition pre_finish (st : pstate) : result pstate :=
  let st1 := mkp (p_addr st) (p_labels st) (p_used st) (patch_wflip (p_ops st) (p_addr st)) (p_seg st) in
  if existsb (Z.eqb 0) (p_used st1) then Ok st1 else insert_label st1 main_start_label 0.

(* resolve_macros: the op queue (in order) and the label dictionary *)
Definition resolve_macros (P : list stmt) : result (list lastop * labels) :=
  do st <- pre_loop pre_init P;
  do st' <- pre_finish st;
  Ok (rev (p_ops st'), p_labels st').

(* ================= fjm_writer.py ================= *)
Record wstate := mkw { w_segs : list (Z * Z * Z * Z); w_data : list Z }.

Definition is_collision (s1 e1 s2 e2 : Z) : bool :=
  ((s2 <=? s1) && (s1 <=? e2)) || ((s2 <=? e1) && (e1 <=? e2)) ||
  ((s1 <=? s2) && (s2 <=? e1)) || ((s1 <=? e2) && (e2 <=? e1)).

Definition relative_versions : bool := (2 <=? ver)%N.

(* _update_to_relative_jumps on the whole data list; k = index of the head of l *)
Fixpoint relativize (l : list Z) (k dstart dlen start : Z) : list Z :=
  match l with
  | [] => []
  | x :: l' =>
    let i := k - dstart in
    (if (0 <=? i) && (i <? dlen) && Z.odd i then (x - (start + i) * wd) mod 2 ^ wd else x)
      :: relativize l' (k + 1) dstart dlen start
  end.

(* Writer.add_segment; None = FlipJumpWriteFjmException *)
Definition writer_add_segment (wr : wstate) (start len dstart dlen : Z) : option wstate :=
  if len <=? 0 then None
  else if len <? dlen then None
  else if (start mod 2 =? 1) || (len mod 2 =? 1) then None
  else if existsb (fun sg => match sg with (s, l, _, _) => is_collision s (s + l - 1) start (start + len - 1) end)
                  (w_segs wr) then None
  else if relative_versions && negb (dlen =? 0) &&
          existsb (fun sg => match sg with (_, _, ds, dl) =>
                     negb (dl =? 0) && is_collision ds (ds + dl - 1) dstart (dstart + dlen - 1) end) (w_segs wr)
       then None
  else Some (mkw (w_segs wr ++ [(start, len, dstart, dlen)])
                 (if relative_versions then relativize (w_data wr) 0 dstart dlen start else w_data wr)).

(* ================= assembler.py ================= *)
Definition in_memory (a : Z) : bool := (0 <=? a) && (a <? 2 ^ wd).

Definition validate_addresses (first last : Z) : option libkind :=
  if negb (first mod wd =? 0) || negb (last mod wd =? 0) then Some KBoundsUnaligned
  else if negb (in_memory first) then Some KNoSpace
  else if negb (in_memory (last - 1)) then Some KNoSpace
  else None.

(* add_segment_to_fjm; the boolean says whether fj_words / wflip_words were cleared *)
Definition add_segment_to_fjm (wr : wstate) (first last : Z) (fj wf : list Z) : result (wstate * bool) :=
  match validate_addresses first last with
  | Some k => LibError k
  | None =>
    if first =? last then Ok (wr, false)
    else
      let data := fj ++ wf in
      (* Writer.add_data (since 3bd0fc0): every word must fit [0, 2^w).  Reachable: a chain-link word holding a
         wflip-area address >= 2^w sits in fj_words and is emitted by a `reserve` before the segment end is validated *)
      if negb (forallb in_memory data) then LibError KWriterWordRange else
      let dstart := Z.of_nat (List.length (w_data wr)) in
      let wr1 := mkw (w_segs wr) (w_data wr ++ data) in
      match writer_add_segment wr1 (first / wd) ((last - first) / wd) dstart (Z.of_nat (List.length data)) with
      | None => LibError KAddSegment
      | Some wr2 => Ok (wr2, true)
      end
  end.

Inductive wlist := FJ | WF.

Record bstate := mkb {
  b_first : Z;                        (* first_address *)
  b_nextw : Z;                        (* next_wflip_address *)
  b_cur : Z;                          (* current_address *)
  b_fj : list Z;                      (* fj_words *)
  b_wf : list Z;                      (* wflip_words *)
  b_pads : list nat;                  (* padding_ops_indices, top of the stack first *)
  b_dict : list ((Z * list Z) * Z);   (* wflips_dict: (return_address, remaining flips ascending) -> chain entry *)
  b_labels : labels;
  b_wcount : N;                       (* wflips_so_far *)
  b_wr : wstate
}.

Fixpoint set_nth (l : list Z) (i : nat) (v : Z) : list Z :=
  match l, i with
  | [], _ => []
  | _ :: l', O => v :: l'
  | x :: l', S k => x :: set_nth l' k v
  end.

Definition set_ref (st : bstate) (r : wlist * nat) (v : Z) : bstate :=
  match fst r with
  | FJ => mkb (b_first st) (b_nextw st) (b_cur st) (set_nth (b_fj st) (snd r) v) (b_wf st) (b_pads st) (b_dict st)
              (b_labels st) (b_wcount st) (b_wr st)
  | WF => mkb (b_first st) (b_nextw st) (b_cur st) (b_fj st) (set_nth (b_wf st) (snd r) v) (b_pads st) (b_dict st)
              (b_labels st) (b_wcount st) (b_wr st)
  end.

Definition insert_fj_op (st : bstate) (f j : Z) : bstate :=
  mkb (b_first st) (b_nextw st) (b_cur st + dwd) (b_fj st ++ [f; j]) (b_wf st) (b_pads st) (b_dict st)
      (b_labels st) (b_wcount st) (b_wr st).

(* _covers_input_bit (since commit 435c753): an op at this address would hold the input bit 3w + #w *)
Definition covers_input_bit (a : Z) : bool :=
  let ia := 3 * wd + Z.of_N ww + 1 in (a <=? ia) && (ia <? a + dwd).

(* `while self.padding_ops_indices: index = pop(); if not covers: return spot`: the holes that hold the input bit are
   dropped (they stay zero ops and are not reused) *)
Fixpoint pop_hole (first : Z) (pads : list nat) : option (nat * Z) * list nat :=
  match pads with
  | [] => (None, [])
  | i :: rest =>
    let a := first + wd * Z.of_nat i in
    if covers_input_bit a then pop_hole first rest else (Some (i, a), rest)
  end.

(* `while self._covers_input_bit(self.next_wflip_address): wflip_words += (0, 0); next_wflip_address += 2w`.
   The loop body runs at most once (a <= ia < a + 2w fails for a + 2w); the fuel 2 is never exhausted. *)
Fixpoint skip_input_op (fuel : nat) (nextw : Z) (wf : list Z) : Z * list Z :=
  match fuel with
  | O => (nextw, wf)
  | S k => if covers_input_bit nextw then skip_input_op k (nextw + dwd) (wf ++ [0; 0]) else (nextw, wf)
  end.

(* get_wflip_spot: (list, index, address) *)
Definition get_wflip_spot (st : bstate) : bstate * (wlist * nat * Z) :=
  match pop_hole (b_first st) (b_pads st) with
  | (Some (i, a), rest) =>
    (mkb (b_first st) (b_nextw st) (b_cur st) (b_fj st) (b_wf st) rest (b_dict st) (b_labels st) (b_wcount st) (b_wr st),
     (FJ, i, a))
  | (None, _) =>
    let '(nw, wf) := skip_input_op 2 (b_nextw st) (b_wf st) in
    (mkb (b_first st) (nw + dwd) (b_cur st) (b_fj st) (wf ++ [0; 0]) [] (b_dict st) (b_labels st)
         (b_wcount st) (b_wr st),
     (WF, List.length wf, nw))
  end.

Definition insert_wflip_label (st : bstate) (addr : Z) : bstate :=
  mkb (b_first st) (b_nextw st) (b_cur st) (b_fj st) (b_wf st) (b_pads st) (b_dict st)
      (dict_set (b_labels st) (wflip_label (b_wcount st)) addr) (b_wcount st + 1)%N (b_wr st).

Fixpoint zlist_eqb (a b : list Z) : bool :=
  match a, b with
  | [], [] => true
  | x :: a', y :: b' => (x =? y) && zlist_eqb a' b'
  | _, _ => false
  end.

Fixpoint dict_find (d : list ((Z * list Z) * Z)) (ret : Z) (key : list Z) : option Z :=
  match d with
  | [] => None
  | ((r, k), v) :: d' => if (r =? ret) && zlist_eqb k key then Some v else dict_find d' ret key
  end.

Definition dict_add (st : bstate) (ret : Z) (key : list Z) (v : Z) : bstate :=
  mkb (b_first st) (b_nextw st) (b_cur st) (b_fj st) (b_wf st) (b_pads st) (b_dict st ++ [((ret, key), v)])
      (b_labels st) (b_wcount st) (b_wr st).

(* the `while flip_addresses:` loop; last = (list, index) of the jump word still to be connected *)
Fixpoint wflip_loop (st : bstate) (ret : Z) (rest : list Z) (last : wlist * nat) : bstate :=
  match rest with
  | [] => set_ref st last ret
  | x :: rest' =>
    match dict_find (b_dict st) ret rest with
    | Some entry => set_ref st last entry
    | None =>
      let '(st1, (wl, idx, addr)) := get_wflip_spot st in
      let st2 := insert_wflip_label st1 addr in
      let st3 := set_ref st2 last addr in
      let st4 := dict_add st3 ret rest addr in
      let st5 := set_ref st4 (wl, idx) x in
      wflip_loop st5 ret rest' (wl, S idx)
    end
  end.

Definition bit_list : list Z := map Z.of_nat (seq 0 (Z.to_nat wd)).

Definition insert_wflip_ops (st : bstate) (A V R : Z) : result bstate :=
  if V =? 0 then Ok (insert_fj_op st 0 R)
  else if negb (in_memory V) then LibError KWflipValue
  else
    match map (fun i => A + i) (filter (Z.testbit V) bit_list) with
    | [] => Ok st      (* unreachable: V <> 0 and V < 2^w *)
    | x :: rest =>
      let st1 := insert_fj_op st x 0 in
      Ok (wflip_loop st1 R rest (FJ, (List.length (b_fj st1) - 1)%nat))
    end.

Definition insert_padding (st : bstate) (n : Z) : bstate :=
  let k := Z.to_nat n in
  let base := List.length (b_fj st) in
  mkb (b_first st) (b_nextw st) (b_cur st + n * dwd) (b_fj st ++ repeat 0 (2 * k)%nat) (b_wf st)
      (rev (map (fun i => (base + 2 * i)%nat) (seq 0 k)) ++ b_pads st) (b_dict st) (b_labels st) (b_wcount st) (b_wr st).

Definition close_and_add_segment (st : bstate) : result bstate :=
  if b_nextw st =? b_first st then Ok st
  else
    do r <- add_segment_to_fjm (b_wr st) (b_first st) (b_nextw st) (b_fj st) (b_wf st);
    let '(wr, cleared) := r in
    Ok (mkb (b_first st) (b_nextw st) (b_cur st) (if cleared then [] else b_fj st) (if cleared then [] else b_wf st)
            (b_pads st) (b_dict st) (b_labels st) (b_wcount st) wr).

Definition insert_new_segment (st : bstate) (first wfirst : Z) : result bstate :=
  do st1 <- close_and_add_segment st;
  (* assert_address_in_memory(self.memory_width, first_address): since the fix c350a24 a segment placed outside the
     address space is "Not enough space", also when nothing is assembled into it *)
  if negb (in_memory first) then LibError KNoSpace else
  Ok (mkb first wfirst first (b_fj st1) (b_wf st1) [] (b_dict st1) (b_labels st1) (b_wcount st1) (b_wr st1)).

Definition insert_reserve_bits (st : bstate) (new_first : Z) : result bstate :=
  do r <- add_segment_to_fjm (b_wr st) (b_first st) new_first (b_fj st) [];
  let '(wr, cleared) := r in
  Ok (mkb new_first (b_nextw st) new_first (if cleared then [] else b_fj st) (b_wf st) [] (b_dict st) (b_labels st)
          (b_wcount st) wr).

(* one iteration of the loop of labels_resolve *)
Definition resolve_step (st : bstate) (op : lastop) : result bstate :=
  match op with
  | LFlipJump f j =>
    match exact_eval (b_labels st) f with
    | None => LibError KOpEval
    | Some vf => match exact_eval (b_labels st) j with
                 | None => LibError KOpEval
                 | Some vj => if strict_range && negb (in_memory vf && in_memory vj) then LibError KWflipValue
                              else Ok (insert_fj_op st vf vj)      (* the asserts of insert_fj_op *)
                 end
    end
  | LWordFlip a v r =>
    match exact_eval (b_labels st) a with
    | None => LibError KOpEval
    | Some A => match exact_eval (b_labels st) v with
                | None => LibError KOpEval
                | Some V => match exact_eval (b_labels st) r with
                            | None => LibError KOpEval
                            | Some R =>
                              (* the asserts of insert_wflip_ops: value 0 goes through insert_fj_op(0, R) only *)
                              if strict_range &&
                                 negb (if V =? 0 then in_memory R
                                       else negb (in_memory V) || (in_memory A && in_memory (A + Z.log2 V) && in_memory R))
                              then LibError KWflipValue
                              else insert_wflip_ops st A V R
                            end
                end
    end
  | LPadding n => Ok (insert_padding st n)
  | LNewSeg s wsa => insert_new_segment st s wsa
  | LReserve a => insert_reserve_bits st a
  end.

Fixpoint resolve_loop (st : bstate) (ops : list lastop) : result bstate :=
  match ops with
  | [] => Ok st
  | op :: ops' => do st' <- resolve_step st op; resolve_loop st' ops'
  end.

Definition labels_resolve (ops : list lastop) (lbls : labels) : result bstate :=
  match ops with
  | LNewSeg s wsa :: ops' =>
    do st <- resolve_loop (mkb s wsa s [] [] [] [] lbls 0%N (mkw [] [])) ops';
    close_and_add_segment st
  | _ => LibError KFirstNotSegment
  end.

Definition first_op_assembled (wr : wstate) : bool :=
  existsb (fun sg => match sg with (s, l, _, _) => (s =? 0) && (2 <=? l) end) (w_segs wr).

(* write_to_file: struct.pack of the data words needs 0 <= word < 2^w *)
Definition packable (wr : wstate) : bool := forallb in_memory (w_data wr).

(* ================= fjm_reader.py: Reader._init_memory on the written file ================= *)
Fixpoint seg_words (data : list Z) (start : Z) (i : Z) (n : nat) : list (N * N) :=
  match n with
  | O => []
  | S k =>
    match data with
    | [] => []
    | x :: data' =>
      let v := if relative_versions && Z.odd i then (x + (start + i) * wd) mod 2 ^ wd else x in
      (if v =? 0 then [] else [(Z.to_N (start + i), Z.to_N v)]) ++ seg_words data' start (i + 1) k
    end
  end.

(* the non-zero words of Reader.memory, segment by segment, ascending inside a segment *)
Definition read_words (wr : wstate) : list (N * N) :=
  flat_map (fun sg => match sg with (s, _, ds, dl) => seg_words (skipn (Z.to_nat ds) (w_data wr)) s 0 (Z.to_nat dl) end)
           (w_segs wr).
Definition read_segments (wr : wstate) : list (N * N) :=
  map (fun sg => match sg with (s, l, _, _) => (Z.to_N s, Z.to_N l) end) (w_segs wr).

(* ================= assemble() ================= *)
Definition assemble_model (P : list stmt) : result (list (N * N) * list (N * N) * labels) :=
  do r <- resolve_macros P;
  let '(ops, lbls) := r in
  do st <- labels_resolve ops lbls;
  if negb (first_op_assembled (b_wr st)) then LibError KNoFirstOp
  else if negb (packable (b_wr st)) then RawExn RStructError
  else Ok (read_segments (b_wr st), read_words (b_wr st), b_labels st).

End Model.

Definition image_of (segs words : list (N * N)) : image := mkimg segs (mem_of_list words).

(* ================= evaluation of one campaign case (harness/fjverif/checks/c02.py) ================= *)
Inductive observed :=
  | ObsOk (segs words : list (N * N)) (lbls : labels)   (* Reader.memory_segments, non-zero Reader.memory, label table *)
  | ObsLib (k : libkind)
  | ObsRaw (r : rawkind).
Record c02case := mkc02 { cc_ww : N; cc_ver : N; cc_strict : bool; cc_prog : list stmt; cc_obs : observed }.

Definition libkind_code (k : libkind) : N :=
  match k with
  | KLabelTwice => 1 | KPadEval => 2 | KPadNonPositive => 3 | KPadUnaligned => 4 | KSegmentEval => 5
  | KSegmentUnaligned => 6 | KReserveEval => 7 | KReserveUnaligned => 8 | KExprFold => 9 | KOpEval => 10
  | KWflipValue => 11 | KBoundsUnaligned => 12 | KNoSpace => 13 | KAddSegment => 14 | KNoFirstOp => 15
  | KFirstNotSegment => 16 | KNotPrimitive => 17 | KPadTooHigh => 18
  | KWriterWordRange => 19 | KReserveNegative => 20
  end%N.

Fixpoint npairs_eqb (a b : list (N * N)) : bool :=
  match a, b with
  | [], [] => true
  | x :: a', y :: b' => (fst x =? fst y)%N && (snd x =? snd y)%N && npairs_eqb a' b'
  | _, _ => false
  end.
Fixpoint labels_eqb (a b : labels) : bool :=
  match a, b with
  | [], [] => true
  | x :: a', y :: b' => String.eqb (fst x) (fst y) && (snd x =? snd y) && labels_eqb a' b'
  | _, _ => false
  end.

Definition model_of (c : c02case) := assemble_model (cc_ww c) (cc_ver c) (cc_strict c) (cc_prog c).

(* exact correspondence model / implementation *)
Definition model_agrees (c : c02case) : bool :=
  match model_of c, cc_obs c with
  | Ok (s, wds, l), ObsOk s' wds' l' => npairs_eqb s s' && npairs_eqb wds wds' && labels_eqb l l'
  | LibError k, ObsLib k' => (libkind_code k =? libkind_code k')%N
  | RawExn RStructError, ObsRaw RStructError => true
  | _, _ => false
  end.

(* the specification, decided by the certified checker on what the implementation produced *)
Definition spec_holds (c : c02case) : bool :=
  match cc_obs c with
  | ObsOk s wds l => check_denotes (cc_ww c) (image_of s wds) (cc_prog c) l
  | _ => true
  end.

Definition case_ok (c : c02case) : bool := model_agrees c && spec_holds c.

(* guards of the recorded defects (diagnostics): an auxiliary wflip op was placed on the op holding the input cell *)
Definition prefix_wflips (s : string) : bool := String.prefix ":wflips:" s.
Definition aux_on_io (ww : N) (l : labels) : bool :=
  existsb (fun kv => prefix_wflips (fst kv) && (0 <=? snd kv) && covers_input ww (Z.to_N (snd kv))) l.

(* every value an op or wflip has to store fits a word *)
Definition stmt_values_in_range (ww : N) (l : labels) (p : placed) : bool :=
  let env := env_at l (pl_next p) in
  let inr v := match v with Some x => (0 <=? x) && (x <? 2 ^ wz ww) | None => true end in
  match pl_stmt p with
  | SFlipJump f j _ => inr (eval_expr env f) && inr (eval_expr env j)
  | SWordFlip a v r _ =>
    inr (eval_expr env r) && inr (eval_expr env v) &&
    match eval_expr env a, eval_expr env v with
    | Some A, Some V => (0 <=? A) && (A + Z.log2 (Z.max V 1) <? 2 ^ wz ww)
    | _, _ => true
    end
  | _ => true
  end.
Definition values_in_range (ww : N) (P : list stmt) (l : labels) : bool :=
  match place ww (lookup l) P 0 with Some L => forallb (stmt_values_in_range ww l) L | None => true end.

(* no `reserve` of a negative size *)
Definition reserves_nonneg (ww : N) (P : list stmt) (l : labels) : bool :=
  match place ww (lookup l) P 0 with
  | Some L => forallb (fun p => match pl_stmt p with SReserve _ _ => pl_addr p <=? pl_next p | _ => true end) L
  | None => true
  end.

Record diag := mkdiag { d_agree : bool; d_spec : bool; d_aux_on_io : bool; d_in_range : bool; d_res_nonneg : bool;
                        d_model : N;       (* 0 = Ok, 100 + kind = LibError, 200 = RawExn *)
                        d_report : option report }.
Definition case_diag (c : c02case) : diag :=
  mkdiag (model_agrees c) (spec_holds c)
         (match cc_obs c with ObsOk _ _ l => aux_on_io (cc_ww c) l | _ => false end)
         (match cc_obs c with ObsOk _ _ l => values_in_range (cc_ww c) (cc_prog c) l | _ => true end)
         (match cc_obs c with ObsOk _ _ l => reserves_nonneg (cc_ww c) (cc_prog c) l | _ => true end)
         (match model_of c with Ok _ => 0 | LibError k => 100 + libkind_code k | RawExn _ => 200 end)%N
         (match cc_obs c with ObsOk s wds l => Some (check_report (cc_ww c) (image_of s wds) (cc_prog c) l) | _ => None end).
