(* Evaluation of one standard-library harness block WITH INPUT AND OUTPUT on the machine definition (C09).
   Extends Model.StlRun (check_block: empty input, output = exit marker) - everything here is generic; the image,
   the block descriptors, the operand domains and the alphabets are generated from the current source by
   harness/fjverif/stl_io.py.  No proofs in this file. *)
From FJ Require Import Lib.Base Spec.MachineSpec Spec.StlSpec Spec.StlIOSpec Model.StlRun.
Local Open Scope N_scope.

Fixpoint bools_eqb (a b : list bool) : bool :=
  match a, b with
  | [], [] => true
  | x :: a', y :: b' => Bool.eqb x y && bools_eqb a' b'
  | _, _ => false
  end.

Section W.
Variable ww : N.
Variable sg : list (N * N).

Definition word_ok_io (b : block) (clob : list nat) (mf me : mem) (a : N) : bool :=
  eq_mod (N.lor (scratch_mask b a) (clob_mask ww b clob a)) (mget0 mf a) (mget0 me a).

(* the frame equation with IO, decided on the written words and the declared variables only *)
Definition check_block_io (img : mem) (b : block) (S : iospec) (vs inb : list N) : bool :=
  match S vs inb with
  | None => true
  | Some (IoDone vs' x out used clob) =>
    match nth_error b.(b_exits) (N.to_nat x) with
    | None => false
    | Some (xa, marker) =>
      let m0 := start_mem ww img b vs in
      let me := start_mem ww img b vs' in
      let bits := bytes_bits inb in
      match run_pow ww sg b.(b_depth) (init m0 bits) [] with
      | Halt Looping s wl =>
          (s.(ip) =? xa) && out_is s.(outp) (out ++ marker) &&
          bools_eqb s.(inp) (skipn (N.to_nat used) bits) && vals_in_range b.(b_vars) vs' &&
          (* word 0 (target of every `;label` op's null flip) is on the log once per op: it is checked once, below *)
          forallb (fun a => match a with 0 => true | _ => word_ok_io b clob s.(m) me a end) wl &&
          forallb (word_ok_io b clob s.(m) me) (0 :: 1 :: vars_words b.(b_vars))
      | _ => false
      end
    end
  | Some (IoEof out) =>
    match run_pow ww sg b.(b_depth) (init (start_mem ww img b vs) (bytes_bits inb)) [] with
    | Halt EOFc s _ => out_is s.(outp) out
    | _ => false
    end
  end.

(* the enumerated form: operands = variable values ++ positions of the input symbols in the alphabet *)
Definition check_io_enc (img : mem) (b : block) (S : iospec) (nv : nat) (alpha : list N) (ops : list N) : bool :=
  check_block_io img b S (firstn nv ops) (decode alpha (skipn nv ops)).

(* diagnostics for the harness (not used by theorems):
   cause code, ops, final ip, output bytes, number of trailing output bits, input bits left, differing words *)
Definition observe_block_io (img : mem) (b : block) (vs inb vs' : list N) (clob : list nat) :=
  let m0 := start_mem ww img b vs in
  let me := start_mem ww img b vs' in
  match run_pow ww sg b.(b_depth) (init m0 (bytes_bits inb)) [] with
  | Halt c s wl =>
      (match c with Looping => 0 | EOFc => 1 | NullIP => 2 | MemErr _ => 5 | OutOfFuel => 6 end,
       s.(ops), s.(ip), fst (out_bytes s.(outp)), len (map N.b2n (snd (out_bytes s.(outp)))), len (map N.b2n s.(inp)),
       map (fun a => (a, mget0 s.(m) a, mget0 me a))
           (filter (fun a => negb (word_ok_io b clob s.(m) me a)) (nodup N.eq_dec (wl ++ 1 :: vars_words b.(b_vars)))))
  | Cont s wl => (6, s.(ops), s.(ip), [], 0, 0, [])
  end.

Definition block_ops_io (img : mem) (b : block) (vs inb : list N) : N :=
  match run_pow ww sg b.(b_depth) (init (start_mem ww img b vs) (bytes_bits inb)) [] with
  | Halt _ s _ => s.(ops) | Cont s _ => s.(ops) end.

End W.

(* mirror check: the Python copy of a spec (harness/fjverif/stl_io_specs.py) gives the same answer *)
Fixpoint natlist_eqb (a b : list nat) : bool :=
  match a, b with [], [] => true | x :: a', y :: b' => Nat.eqb x y && natlist_eqb a' b' | _, _ => false end.
Definition iores_eqb (a b : option iores) : bool :=
  match a, b with
  | None, None => true
  | Some (IoDone v x o u c), Some (IoDone v' x' o' u' c') =>
      nlist_eqb v v' && (x =? x') && nlist_eqb o o' && (u =? u') && natlist_eqb c c'
  | Some (IoEof o), Some (IoEof o') => nlist_eqb o o'
  | _, _ => false
  end.
