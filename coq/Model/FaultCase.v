(* Evaluation of one fault-injection case (C18 campaign) on Model/Faults.v. *)
From FJ Require Import Lib.Base Spec.MachineSpec Model.RunCase Model.Faults.
Local Open Scope N_scope.

Record fcase := mkfcase {
  f_base : rcase;          (* image, input, fuel; e_* fields = what was observed *)
  f_fail_at : N;           (* the device raises at this call index *)
  f_failed : bool;         (* observed: did the device get to raise? *)
  f_in_read : bool;        (* observed: the failing call was read_bit *)
  f_stats : bool           (* observed: statistics were returned (KeyboardInterrupt) -> ops / last ops are compared *)
}.

Definition frun_case (c : fcase) : fcause * st * N :=
  let b := c.(f_base) in
  frun b.(c_ww) b.(c_segs) (Some c.(f_fail_at)) (N.to_nat b.(c_fuel))
       (init (mem_of_list b.(c_words)) (bytes_bits b.(c_input))) 0.

Definition check_fault_case (c : fcase) : bool :=
  let b := c.(f_base) in
  let '(fc, s, _) := frun_case c in
  let '(ob, ot) := out_bytes s.(outp) in
  let out_ok := (N.of_nat (length s.(outp)) =? b.(e_outn)) && list_eqb ob b.(e_outb) && (bits_val ot =? b.(e_outv)) in
  let mem_ok := pairs_eqb (map (fun p => (fst p, mget0 s.(m) (fst p))) b.(e_mem)) b.(e_mem) in
  let last_ok := match b.(e_last) with
                 | Some (k, l) => list_eqb (rev (firstn (N.to_nat k) s.(hist))) l
                 | None => true end in
  match fc with
  | DevFail rd =>
      c.(f_failed) && Bool.eqb rd c.(f_in_read) && out_ok && mem_ok &&
      (negb c.(f_stats) || ((s.(ops) =? b.(e_ops)) && last_ok))
  | Halt cs =>
      negb c.(f_failed) &&
      (let '(cc, fa) := cause_code cs in
       (cc =? b.(e_cause)) && ((cc =? 6) || ((s.(ops) =? b.(e_ops)) && (fa =? b.(e_fault)) && out_ok && mem_ok && last_ok)))
  end.
