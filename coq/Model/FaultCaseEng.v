(* Evaluation of one fault-injection case (C18 campaign) on the ENGINE fault models: the model is selected by the
   case's engine (Model/EngPyFaults.v for the featured / fast loop over the Reader's representation,
   Model/EngNativeFaults.v for _fjcore.c loaded and driven as fjm_run._run_native does), and its stop state is
   compared with what the real engine left behind - the same comparison as Model/FaultCase.v makes for the
   machine-level model.  No proofs here. *)
From FJ Require Import Lib.Base Spec.MachineSpec Model.EngPy Model.RunCase Model.Faults Model.FaultCase
     Model.EngPyFaults Model.EngNative Model.NativeCase Model.EngNativeFaults.
Local Open Scope N_scope.

Record fcase_eng := mkfcase_eng {
  fe : fcase;              (* image, input, fuel, failing call, observed behaviour (Model/FaultCase.v) *)
  fe_no_flat : bool;       (* native: FLIPJUMP_NO_FLAT=1 *)
  fe_last_ops : N          (* native: last_ops_length passed to core.run (the deque's maxlen, 0 without one) *)
}.

(* FaultCase.check_fault_case's comparison, on the observables of an engine model:
   memv = the words e_mem asks for, read back; last k = the last-ops list for a deque of maxlen k *)
Definition fverdict (c : fcase) (fc : fcause) (ops_ : N) (out : list bool) (memv : list (N * N))
           (last : N -> list N) : bool :=
  let b := c.(f_base) in
  let '(ob, ot) := out_bytes out in
  let out_ok := (N.of_nat (length out) =? b.(e_outn)) && list_eqb ob b.(e_outb) && (bits_val ot =? b.(e_outv)) in
  let mem_ok := pairs_eqb memv b.(e_mem) in
  let last_ok := match b.(e_last) with Some (k, l) => list_eqb (last k) l | None => true end in
  match fc with
  | DevFail rd =>
      c.(f_failed) && Bool.eqb rd c.(f_in_read) && out_ok && mem_ok &&
      (negb c.(f_stats) || ((ops_ =? b.(e_ops)) && last_ok))
  | Halt cs =>
      negb c.(f_failed) &&
      (let '(cc, fa) := cause_code cs in
       (cc =? b.(e_cause)) && ((cc =? 6) || ((ops_ =? b.(e_ops)) && (fa =? b.(e_fault)) && out_ok && mem_ok && last_ok)))
  end.

(* the two Python loops *)
Definition frun_case_py (c : fcase) : fcause * pst * N :=
  let b := c.(f_base) in
  let '(zbs, ps) := py_init b in
  frun_py (if b.(c_eng) =? 0 then featured_fstep b.(c_ww) zbs (Some c.(f_fail_at))
           else fast_fstep b.(c_ww) zbs (Some c.(f_fail_at)))
          (N.to_nat b.(c_fuel)) ps 0.

Definition check_fault_case_py (c : fcase) : bool :=
  let '(fc, s, _) := frun_case_py c in
  fverdict c fc s.(p_ops) s.(p_out)
           (map (fun p => (fst p, mget0 s.(p_mem) (fst p))) c.(f_base).(e_mem))
           (fun k => rev (firstn (N.to_nat k) s.(p_hist))).

(* the native engine: load as fjm_run._run_native does, Memory.run with failing callbacks, read back through
   Memory.get_word (NativeDeviceMemory.read_word) *)
Definition ncase_of (ce : fcase_eng) : ncase :=
  mkncase ce.(fe).(f_base) 0 ce.(fe_no_flat) false ce.(fe_last_ops) 3.

Definition frun_case_native (ce : fcase_eng) : option frun_result :=
  let b := ce.(fe).(f_base) in
  match load_native (ncase_of ce) with
  | None => None
  | Some m => Some (Memory_frun (Some ce.(fe).(f_fail_at)) (knobs_of (ncase_of ce)) m (bytes_bits b.(c_input))
                                (N.to_nat b.(c_fuel)))
  end.

Definition check_fault_case_native (ce : fcase_eng) : bool :=
  let c := ce.(fe) in
  match frun_case_native ce with
  | Some (FRunDone _ (NC cs) s last) =>
      fverdict c (Halt cs) s.(s_ops) s.(s_out) (read_back s.(s_m) c.(f_base).(e_mem)) (fun _ => last)
  | Some (FRunRaised _ rd s kept) =>
      fverdict c (DevFail rd) s.(s_ops) s.(s_out) (read_back s.(s_m) c.(f_base).(e_mem)) (fun _ => kept)
  | _ => false
  end.

Definition check_fault_case_eng (ce : fcase_eng) : bool :=
  if ce.(fe).(f_base).(c_eng) <? 2 then check_fault_case_py ce.(fe) else check_fault_case_native ce.

(* diagnostics: (failure?, in_read, ops, output bits, last 5 ops oldest first) of the engine model *)
Definition fault_diag_eng (ce : fcase_eng) : option (bool * bool * N * N * list N) :=
  if ce.(fe).(f_base).(c_eng) <? 2 then
    let '(fc, s, _) := frun_case_py ce.(fe) in
    Some (match fc with DevFail _ => true | _ => false end, match fc with DevFail rd => rd | _ => false end,
          s.(p_ops), N.of_nat (length s.(p_out)), rev (firstn 5 s.(p_hist)))
  else
    match frun_case_native ce with
    | Some (FRunDone _ _ s last) => Some (false, false, s.(s_ops), N.of_nat (length s.(s_out)), last)
    | Some (FRunRaised _ rd s kept) => Some (true, rd, s.(s_ops), N.of_nat (length s.(s_out)), kept)
    | _ => None
    end.
