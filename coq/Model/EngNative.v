(* Transcription of flipjump/interpreter/_fjcore.c (the native engine): the MemoryObject, its access
   helpers, the storage decision, the loading API used by fjm_run._run_native, the three run loops
   (one loop iteration = one step function, cold blocks included), Memory_run's dispatch and
   build_run_result's ring read-out.  No proofs here.

   Conventions
   * every C `uint64_t` expression is written with an explicit `mod 2^64` (add64/sub64/mul64/shl64/not64);
     shifts right, `&`, `|`, `^` of values below 2^64 cannot leave the range and are written directly.
   * ABSTRACTIONS (each one named here, nothing else is abstracted):
     - the open-addressing slot table (`slots`, `slot_count`, `slots_used`, mem_grow_slots, the hash probe)
       is a finite map page_index -> page; iteration over the table (mem_decide_storage, add_segment)
       is iteration over that map (the per-page effects are order independent: distinct pages have
       disjoint address ranges);
     - a `Page*` / `page->words` pointer is the page's identity (= its page index: the table never moves
       or frees a page while the object lives); `page_cache_page[s]` and `page_cache_words[s]` are the
       single field cs_page, the COPIED fields valid_start/valid_end are cs_vs/cs_ve;
     - the flat array is a finite map of the words written since it was built over a base function
       `index -> u64` that is built by mem_decide_storage layer by layer (fill; one layer per memset;
       one layer per memcpy), so a window of 2^23 words is never materialised;
     - qsort is a stable insertion sort on `start` (C leaves the order of equal starts unspecified);
     - allocation failures, signals (PyErr_CheckSignals), exceptions raised by the IO callbacks, the
       pause timer, the speculation counters of run_measured_loop (spec_record) and
       FLIPJUMP_TEST_FLAT_ALLOC_FAIL are not modelled; IO is an input bit list / output bit list as in
       Spec/MachineSpec.v.  `NPythonError` is the CAUSE_PYTHON_ERROR exit (reached in the model only if a
       helper reports failure without mem_error), `NCrash` marks a NULL `flat` in a loop that needs it. *)
From FJ Require Import Lib.Base Spec.MachineSpec.
Local Open Scope N_scope.

(* ---- uint64_t arithmetic ----------------------------------------------------------------------- *)
Definition M64 : N := 18446744073709551616.                 (* 2^64 *)
Definition MASK64 : N := 18446744073709551615.              (* 2^64 - 1 *)
(* x mod 2^64, evaluated as a bit mask (N.land x (2^64-1) = x mod 2^64: lemma u64_mod in Proofs/NativeMemProps.v;
   the division algorithm of N.modulo is ~50 times slower under vm_compute) *)
Definition u64 (x : N) : N := N.land x MASK64.
Definition add64 (a b : N) : N := u64 (a + b).
Definition sub64 (a b : N) : N := u64 (a + M64 - b).          (* a, b < 2^64 *)
Definition mul64 (a b : N) : N := u64 (a * b).
Definition shl64 (a k : N) : N := u64 (N.shiftl a k).
Definition not64 (a : N) : N := N.lxor a (N.ones 64).         (* ~a, a < 2^64 *)

Definition PAGE_BITS : N := 14.
Definition PAGE_WORDS : N := 16384.
Definition PAGE_MASK : N := 16383.
Definition FLAT_MAX_WORDS_DEFAULT : N := 8388608.             (* 1 << 23 *)
Definition GARBAGE_SENTINEL : N := 9223372036854775808.       (* 1 << 63 *)
Definition FLAT_GARBAGE_MAGIC : N := 13503953896175478587.    (* 0xBB67AE8584CAA73B *)
Definition SIZE_MAX_DIV8 : N := 2305843009213693951.          (* SIZE_MAX / sizeof(uint64_t) *)

Inductive ncause := NC (c : cause) | NPythonError | NCrash.

(* ---- finite maps with N keys ------------------------------------------------------------------- *)
Definition pmget {A} (mp : PositiveMap.t A) (a : N) : option A := PositiveMap.find (key a) mp.
Definition pmset {A} (mp : PositiveMap.t A) (a : N) (v : A) : PositiveMap.t A := PositiveMap.add (key a) v mp.

(* ---- the MemoryObject -------------------------------------------------------------------------- *)
Record page := mkpage {
  pg_words : mem;        (* PAGE_WORDS calloc'd words: offset -> value, default 0 *)
  pg_vs : N;             (* valid_start *)
  pg_ve : N              (* valid_end *)
}.

Record cslot := mkcslot {
  cs_key : N;            (* page_cache_key_plus1[s] *)
  cs_page : N;           (* page_cache_page[s] / page_cache_words[s] : identity of the cached page *)
  cs_vs : N;             (* page_cache_valid_start[s]  (a copy) *)
  cs_ve : N              (* page_cache_valid_end[s]    (a copy) *)
}.

Record flatarr := mkflat {
  fa_map : mem;          (* words written after the array was built *)
  fa_base : N -> N       (* contents as built by mem_decide_storage *)
}.

Record nmem := mknmem {
  n_w : N; n_ww : N; n_mask : N;
  n_gstop : bool;                        (* garbage_stop *)
  n_pages : PositiveMap.t page;          (* the slot table, abstracted *)
  n_cache : PositiveMap.t cslot;         (* 16 direct-mapped entries, absent = zeroed *)
  n_segs : list (N * N);                 (* (start, end) *)
  n_sorted : bool;                       (* segments_sorted *)
  n_flat : option flatarr;               (* NULL = None *)
  n_flat_count : N;
  n_flat_max : N;                        (* flat_max_words (constructor), 0 = unset *)
  n_decided : bool;                      (* storage_decided *)
  n_covers : bool;                       (* flat_covers_all *)
  n_err : bool;                          (* mem_error *)
  n_erra : N                             (* error_bit_address *)
}.

Definition set_pages (m : nmem) (p : PositiveMap.t page) : nmem :=
  mknmem m.(n_w) m.(n_ww) m.(n_mask) m.(n_gstop) p m.(n_cache) m.(n_segs) m.(n_sorted) m.(n_flat)
         m.(n_flat_count) m.(n_flat_max) m.(n_decided) m.(n_covers) m.(n_err) m.(n_erra).
Definition set_cache (m : nmem) (c : PositiveMap.t cslot) : nmem :=
  mknmem m.(n_w) m.(n_ww) m.(n_mask) m.(n_gstop) m.(n_pages) c m.(n_segs) m.(n_sorted) m.(n_flat)
         m.(n_flat_count) m.(n_flat_max) m.(n_decided) m.(n_covers) m.(n_err) m.(n_erra).
Definition set_segs (m : nmem) (sg : list (N * N)) (sorted : bool) : nmem :=
  mknmem m.(n_w) m.(n_ww) m.(n_mask) m.(n_gstop) m.(n_pages) m.(n_cache) sg sorted m.(n_flat)
         m.(n_flat_count) m.(n_flat_max) m.(n_decided) m.(n_covers) m.(n_err) m.(n_erra).
Definition set_flat (m : nmem) (f : option flatarr) : nmem :=
  mknmem m.(n_w) m.(n_ww) m.(n_mask) m.(n_gstop) m.(n_pages) m.(n_cache) m.(n_segs) m.(n_sorted) f
         m.(n_flat_count) m.(n_flat_max) m.(n_decided) m.(n_covers) m.(n_err) m.(n_erra).
Definition set_flat_built (m : nmem) (f : flatarr) (count : N) (covers : bool) : nmem :=
  mknmem m.(n_w) m.(n_ww) m.(n_mask) m.(n_gstop) m.(n_pages) m.(n_cache) m.(n_segs) m.(n_sorted) (Some f)
         count m.(n_flat_max) m.(n_decided) covers m.(n_err) m.(n_erra).
Definition set_decided (m : nmem) (d : bool) : nmem :=
  mknmem m.(n_w) m.(n_ww) m.(n_mask) m.(n_gstop) m.(n_pages) m.(n_cache) m.(n_segs) m.(n_sorted) m.(n_flat)
         m.(n_flat_count) m.(n_flat_max) d m.(n_covers) m.(n_err) m.(n_erra).
(* m->mem_error = 1; m->error_bit_address = a *)
Definition set_error (m : nmem) (a : N) : nmem :=
  mknmem m.(n_w) m.(n_ww) m.(n_mask) m.(n_gstop) m.(n_pages) m.(n_cache) m.(n_segs) m.(n_sorted) m.(n_flat)
         m.(n_flat_count) m.(n_flat_max) m.(n_decided) m.(n_covers) true a.
(* m->mem_error = 0 *)
Definition clear_error (m : nmem) : nmem :=
  mknmem m.(n_w) m.(n_ww) m.(n_mask) m.(n_gstop) m.(n_pages) m.(n_cache) m.(n_segs) m.(n_sorted) m.(n_flat)
         m.(n_flat_count) m.(n_flat_max) m.(n_decided) m.(n_covers) false m.(n_erra).

(* raw array accesses *)
Definition cache_get (m : nmem) (slot : N) : cslot :=
  match pmget m.(n_cache) slot with Some c => c | None => mkcslot 0 0 0 0 end.

Definition pg_rd (m : nmem) (pid off : N) : N :=                  (* page->words[off] *)
  match pmget m.(n_pages) pid with Some p => mget0 p.(pg_words) off | None => 0 end.
Definition pg_wr (m : nmem) (pid off v : N) : nmem :=             (* page->words[off] = v *)
  match pmget m.(n_pages) pid with
  | Some p => set_pages m (pmset m.(n_pages) pid (mkpage (mset p.(pg_words) off v) p.(pg_vs) p.(pg_ve)))
  | None => m
  end.
Definition pg_vs_of (m : nmem) (pid : N) : N := match pmget m.(n_pages) pid with Some p => p.(pg_vs) | None => 0 end.
Definition pg_ve_of (m : nmem) (pid : N) : N := match pmget m.(n_pages) pid with Some p => p.(pg_ve) | None => 0 end.

Definition fa_get (fa : flatarr) (i : N) : N :=
  match mget fa.(fa_map) i with Some v => v | None => fa.(fa_base) i end.
Definition flat_rd (m : nmem) (i : N) : N :=                      (* m->flat[i] *)
  match m.(n_flat) with Some fa => fa_get fa i | None => 0 end.
Definition flat_wr (m : nmem) (i v : N) : nmem :=                 (* m->flat[i] = v *)
  match m.(n_flat) with
  | Some fa => set_flat m (Some (mkflat (mset fa.(fa_map) i v) fa.(fa_base)))
  | None => m
  end.
(* `m->flat && word_address < m->flat_count` *)
Definition in_flat (m : nmem) (wa : N) : bool :=
  match m.(n_flat) with Some _ => wa <? m.(n_flat_count) | None => false end.

(* ---- segments ---------------------------------------------------------------------------------- *)
Fixpoint seg_insert (s : N * N) (l : list (N * N)) : list (N * N) :=
  match l with
  | [] => [s]
  | t :: r => if fst t <=? fst s then t :: seg_insert s r else s :: l
  end.
Definition seg_sort (l : list (N * N)) : list (N * N) := fold_right seg_insert [] l.

Definition mem_ensure_segments_sorted (m : nmem) : nmem :=
  if m.(n_sorted) then m else set_segs m (seg_sort m.(n_segs)) true.

(* word_is_valid's binary search; lo/hi/mid are Py_ssize_t (lo + hi >= 0 whenever the division is taken) *)
Fixpoint bsearch (fuel : nat) (sg : list (N * N)) (lo hi : Z) (wa : N) : bool :=
  match fuel with
  | O => false
  | S k =>
    if (lo <=? hi)%Z then
      let mid := ((lo + hi) / 2)%Z in
      let sm := nth (Z.to_nat mid) sg (0, 0) in
      if wa <? fst sm then bsearch k sg lo (mid - 1)%Z wa
      else if snd sm <=? wa then bsearch k sg (mid + 1)%Z hi wa
      else true
    else false
  end.

Definition word_is_valid (m : nmem) (wa : N) : nmem * bool :=
  let m1 := mem_ensure_segments_sorted m in
  (m1, bsearch (S (length m1.(n_segs))) m1.(n_segs) 0%Z (Z.of_nat (length m1.(n_segs)) - 1)%Z wa).

(* page_compute_validity: the first segment intersecting the page, in array order *)
Fixpoint pcv_scan (sg : list (N * N)) (page_start page_end : N) : N * N :=
  match sg with
  | [] => (0, 0)
  | (s, e) :: r =>
    if (e <=? page_start) || (page_end <=? s) then pcv_scan r page_start page_end
    else (if page_start <? s then sub64 s page_start else 0,
          if e <? page_end then sub64 e page_start else PAGE_WORDS)
  end.

Definition page_compute_validity (m : nmem) (page_index : N) : nmem * (N * N) :=
  let page_start := shl64 page_index PAGE_BITS in
  let page_end := add64 page_start PAGE_WORDS in
  let m1 := mem_ensure_segments_sorted m in
  (m1, pcv_scan m1.(n_segs) page_start page_end).

Definition page_cache_fill (m : nmem) (cache_slot key pid : N) (p : page) : nmem :=
  set_cache m (pmset m.(n_cache) cache_slot (mkcslot key pid p.(pg_vs) p.(pg_ve))).

(* returns the Page* (as the page identity) *)
Definition mem_get_page (m : nmem) (page_index : N) : nmem * N :=
  let key := add64 page_index 1 in
  let cache_slot := N.land page_index 15 in
  if key =? (cache_get m cache_slot).(cs_key) then (m, (cache_get m cache_slot).(cs_page))
  else
    match pmget m.(n_pages) page_index with
    | Some p => (page_cache_fill m cache_slot key page_index p, page_index)
    | None =>                                                       (* allocate a new page *)
      let '(m1, (vs, ve)) := page_compute_validity m page_index in
      let p := mkpage (PositiveMap.empty N) vs ve in
      let m2 := set_pages m1 (pmset m1.(n_pages) page_index p) in
      (page_cache_fill m2 cache_slot key page_index p, page_index)
    end.

Definition access_check (m : nmem) (pid : N) (wa : N) : nmem * bool :=
  let off := N.land wa PAGE_MASK in
  if (pg_vs_of m pid <=? off) && (off <? pg_ve_of m pid) then (m, true)
  else
    let '(m1, v) := word_is_valid m wa in
    if v then (m1, true)
    else if negb m1.(n_gstop) then (m1, true)
    else (set_error m1 (shl64 wa m1.(n_ww)), false).

Definition flat_garbage (m : nmem) (wa : N) : nmem * bool :=
  if negb m.(n_gstop) then (m, true) else (set_error m (shl64 wa m.(n_ww)), false).

Definition flat_is_garbage (m : nmem) (value : N) : bool :=
  if m.(n_w) <=? 32 then negb (N.land value GARBAGE_SENTINEL =? 0) else value =? FLAT_GARBAGE_MAGIC.

Definition flat_seg_contains (m : nmem) (wa : N) : bool :=
  existsb (fun s => (fst s <=? wa) && (wa <? snd s)) m.(n_segs).

(* None = returns -1; Some v = returns 0 with *value = v *)
Definition flat_garbage_check (m : nmem) (wa : N) (value : N) : nmem * option N :=
  if (32 <? m.(n_w)) && flat_seg_contains m wa then (m, Some value)
  else
    let '(m1, ok) := flat_garbage m wa in
    if negb ok then (m1, None) else (m1, Some 0).

(* the three flat branches share `value = flat[wa]; if (flat_is_garbage(value) && check(&value) < 0) return -1` *)
Definition flat_fetch (m : nmem) (wa : N) : nmem * option N :=
  let value := flat_rd m wa in
  if flat_is_garbage m value then flat_garbage_check m wa value else (m, Some value).

Definition mem_read_word (m : nmem) (wa : N) : nmem * option N :=
  if in_flat m wa then flat_fetch m wa
  else
    let '(m1, pid) := mem_get_page m (N.shiftr wa PAGE_BITS) in
    let '(m2, ok) := access_check m1 pid wa in
    if ok then (m2, Some (pg_rd m2 pid (N.land wa PAGE_MASK))) else (m2, None).

(* true = returns 0, false = returns -1 *)
Definition mem_flip_bit (m : nmem) (ba : N) : nmem * bool :=
  let wa := N.shiftr ba m.(n_ww) in
  let bit := N.shiftl 1 (N.land ba (sub64 m.(n_w) 1)) in
  if in_flat m wa then
    match flat_fetch m wa with
    | (m1, None) => (m1, false)
    | (m1, Some value) => (flat_wr m1 wa (N.lxor value bit), true)
    end
  else
    let '(m1, pid) := mem_get_page m (N.shiftr wa PAGE_BITS) in
    let '(m2, ok) := access_check m1 pid wa in
    if ok then (pg_wr m2 pid (N.land wa PAGE_MASK) (N.lxor (pg_rd m2 pid (N.land wa PAGE_MASK)) bit), true)
    else (m2, false).

Definition mem_write_bit (m : nmem) (ba : N) (bit_value : bool) : nmem * bool :=
  let wa := N.shiftr ba m.(n_ww) in
  let bit := N.shiftl 1 (N.land ba (sub64 m.(n_w) 1)) in
  if in_flat m wa then
    match flat_fetch m wa with
    | (m1, None) => (m1, false)
    | (m1, Some value) =>
      (flat_wr m1 wa (if bit_value then N.lor value bit else N.land value (not64 bit)), true)
    end
  else
    let '(m1, pid) := mem_get_page m (N.shiftr wa PAGE_BITS) in
    let '(m2, ok) := access_check m1 pid wa in
    if ok then
      let old := pg_rd m2 pid (N.land wa PAGE_MASK) in
      (pg_wr m2 pid (N.land wa PAGE_MASK) (if bit_value then N.lor old bit else N.land old (not64 bit)), true)
    else (m2, false).

Definition mem_get_word_unaligned (m : nmem) (ba : N) : nmem * option N :=
  let wa := N.shiftr ba m.(n_ww) in
  let bit_offset := N.land ba (sub64 m.(n_w) 1) in
  if bit_offset =? 0 then mem_read_word m wa
  else if wa =? m.(n_mask) then (set_error m ba, None)
  else
    match mem_read_word m wa with
    | (m1, None) => (m1, None)
    | (m1, Some lsw) =>
      match mem_read_word m1 (add64 wa 1) with
      | (m2, None) => (m2, None)
      | (m2, Some msw) =>
        (m2, Some (N.land (N.lor (N.shiftr lsw bit_offset) (shl64 msw (m.(n_w) - bit_offset))) m.(n_mask)))
      end
    end.

(* env_limit: the parsed FLIPJUMP_FLAT_MAX_WORDS (0 = unset / empty / parses to 0) *)
Definition mem_flat_words_limit (m : nmem) (env_limit : N) : N :=
  if negb (m.(n_flat_max) =? 0) then m.(n_flat_max)
  else if negb (env_limit =? 0) then env_limit
  else FLAT_MAX_WORDS_DEFAULT.

(* ---- mem_decide_storage ------------------------------------------------------------------------ *)
Inductive ds_result := DS_ok (m : nmem) | DS_no_segments | DS_no_low_segment.   (* the two ValueErrors *)

Definition ds_scan (limit : N) (acc : N * N) (s : N * N) : N * N :=
  let '(max_end, low_max_end) := acc in
  let '(start, e) := s in
  (if max_end <? e then e else max_end,
   if start <? limit then
     let clamped_end := if e <? limit then e else limit in
     if low_max_end <? clamped_end then clamped_end else low_max_end
   else low_max_end).

(* memset(flat + start, 0, end_clamped - start) *)
Definition ds_memset (low_max_end : N) (base : N -> N) (s : N * N) : N -> N :=
  let '(start, e) := s in
  let end_clamped := if e <? low_max_end then e else low_max_end in
  if start <? end_clamped then (fun i => if (start <=? i) && (i <? end_clamped) then 0 else base i) else base.

(* memcpy(flat + lo, page->words + (lo - page_start), hi - lo) *)
Definition ds_memcpy (low_max_end page_start page_end : N) (words : mem) (base : N -> N) (s : N * N) : N -> N :=
  let '(start, e) := s in
  let lo := if page_start <? start then start else page_start in
  let hi0 := if e <? page_end then e else page_end in
  let hi := if low_max_end <? hi0 then low_max_end else hi0 in
  if lo <? hi then (fun i => if (lo <=? i) && (i <? hi) then mget0 words (sub64 i page_start) else base i) else base.

Definition ds_copy_page (low_max_end : N) (sg : list (N * N)) (base : N -> N) (kp : positive * page) : N -> N :=
  let page_start := shl64 (Pos.pred_N (fst kp)) PAGE_BITS in       (* (key_plus1 - 1) << PAGE_BITS *)
  let page_end := add64 page_start PAGE_WORDS in
  fold_left (ds_memcpy low_max_end page_start page_end (snd kp).(pg_words)) sg base.

Definition mem_decide_storage (m : nmem) (no_flat : bool) (env_limit : N) : ds_result :=
  if m.(n_decided) then DS_ok m else
  let m := set_decided m true in
  match m.(n_segs) with
  | [] => DS_no_segments
  | _ =>
    if negb m.(n_gstop) then DS_ok m
    else if no_flat then DS_ok m                                     (* FLIPJUMP_NO_FLAT=1 *)
    else
      let limit := mem_flat_words_limit m env_limit in
      let '(max_end, low_max_end) := fold_left (ds_scan limit) m.(n_segs) (0, 0) in
      if low_max_end =? 0 then DS_no_low_segment
      else if SIZE_MAX_DIV8 <? low_max_end then DS_ok m              (* paged fallback *)
      else
        let garbage_fill := if m.(n_w) <=? 32 then GARBAGE_SENTINEL else FLAT_GARBAGE_MAGIC in
        let base0 := fun _ : N => garbage_fill in
        let base1 := fold_left (ds_memset low_max_end) m.(n_segs) base0 in
        let base2 := fold_left (ds_copy_page low_max_end m.(n_segs)) (PositiveMap.elements m.(n_pages)) base1 in
        DS_ok (set_flat_built m (mkflat (PositiveMap.empty N) base2) low_max_end (max_end <=? low_max_end))
  end.

Definition storage_mode (m : nmem) : N :=          (* 0 'flat', 1 'hybrid', 2 'paged' *)
  match m.(n_flat) with Some _ => if m.(n_covers) then 0 else 1 | None => 2 end.

(* ---- the Memory type: __init__, add_segment, set_word, get_word, set_words ----------------------- *)
Definition Memory_init (w : N) (flat_max_words : N) : option nmem :=
  if (w =? 8) || (w =? 16) || (w =? 32) || (w =? 64) then
    Some (mknmem w (if w =? 8 then 3 else if w =? 16 then 4 else if w =? 32 then 5 else 6)
                 (if w =? 64 then M64 - 1 else sub64 (shl64 1 w) 1)
                 true (PositiveMap.empty page) (PositiveMap.empty cslot) [] true None 0 flat_max_words
                 false false false 0)
  else None.

Definition recompute_validities (m : nmem) : nmem :=
  fold_left (fun mm kp =>
               let idx := Pos.pred_N (fst kp) in
               let '(m1, (vs, ve)) := page_compute_validity mm idx in
               match pmget m1.(n_pages) idx with
               | Some p => set_pages m1 (pmset m1.(n_pages) idx (mkpage p.(pg_words) vs ve))
               | None => m1
               end)
            (PositiveMap.elements m.(n_pages)) m.

(* None = ValueError (range overflows) *)
Definition Memory_add_segment (m : nmem) (start_word length_words : N) : option nmem :=
  if add64 start_word length_words <? start_word then None
  else
    let m1 := set_segs m (m.(n_segs) ++ [(start_word, add64 start_word length_words)]) false in
    Some (recompute_validities m1).

Definition Memory_set_word (m : nmem) (wa value : N) : nmem :=
  if in_flat m wa && flat_seg_contains m wa then flat_wr m wa (N.land value m.(n_mask))
  else
    let '(m1, pid) := mem_get_page m (N.shiftr wa PAGE_BITS) in
    pg_wr m1 pid (N.land wa PAGE_MASK) (N.land value m.(n_mask)).

Definition Memory_get_word (m : nmem) (wa : N) : nmem * N :=
  if in_flat m wa && flat_seg_contains m wa then (m, flat_rd m wa)
  else
    let '(m1, pid) := mem_get_page m (N.shiftr wa PAGE_BITS) in
    (m1, pg_rd m1 pid (N.land wa PAGE_MASK)).

Fixpoint set_words_loop (m : nmem) (start_word i : N) (values : list N) : nmem :=
  match values with
  | [] => m
  | value :: r =>
    let a := add64 start_word i in
    let m' := match m.(n_flat) with
              | Some _ => flat_wr m a (N.land value m.(n_mask))
              | None => let '(m1, pid) := mem_get_page m (N.shiftr a PAGE_BITS) in
                        pg_wr m1 pid (N.land a PAGE_MASK) (N.land value m.(n_mask))
              end in
    set_words_loop m' start_word (i + 1) r
  end.

(* None = ValueError *)
Definition Memory_set_words (m : nmem) (start_word : N) (values : list N) : option nmem :=
  let count := N.of_nat (length values) in
  if add64 start_word count <? start_word then None
  else if (match m.(n_flat) with Some _ => true | None => false end) && (m.(n_flat_count) <? add64 start_word count) then None
  else Some (set_words_loop m start_word 0 values).

(* ---- run loops --------------------------------------------------------------------------------- *)
Record nst := mknst {
  s_ip : N;
  s_m : nmem;
  s_inp : list bool;
  s_out : list bool;       (* most recent first *)
  s_ops : N;
  s_ring : mem;            (* last_ops_ring: calloc'd, index -> ip *)
  s_rw : N                 (* ring_writes *)
}.

Definition c_dw (m : nmem) : N := mul64 2 m.(n_w).
Definition c_in_addr (m : nmem) : N := add64 (add64 (mul64 3 m.(n_w)) m.(n_ww)) 1.
Definition c_in_lo (m : nmem) : N := sub64 (c_in_addr m) (c_dw m).
Definition c_bit_mask (m : nmem) : N := sub64 m.(n_w) 1.

(* labels memory_error / memory_or_python_error followed by done *)
Definition memory_error_exit (s : nst) (m : nmem) (inp : list bool) (out : list bool) : nst + (ncause * nst) :=
  if m.(n_err) then inr (NC (MemErr m.(n_erra)), mknst s.(s_ip) (clear_error m) inp out s.(s_ops) s.(s_ring) s.(s_rw))
  else inr (NPythonError, mknst s.(s_ip) m inp out s.(s_ops) s.(s_ring) s.(s_rw)).

(* jump_word_ready ... JUMP (flat and paged loops: identical text).  On a halt the C local `ip` dies;
   the model stores j in s_ip (not observable). *)
Definition loop_tail (s : nst) (m : nmem) (inp : list bool) (out : list bool) (f j : N) : nst + (ncause * nst) :=
  let ip := s.(s_ip) in
  let s' := mknst j m inp out (add64 s.(s_ops) 1) s.(s_ring) s.(s_rw) in
  let not_looping := if j <? c_dw m then inr (NC NullIP, s') else inl s' in
  if j =? ip then                                                    (* cold_maybe_looping *)
    if (ip <=? f) && (sub64 f ip <? c_dw m) then not_looping else inr (NC Looping, s')
  else not_looping.

(* cold_output *)
Definition do_output (m : nmem) (out : list bool) (f : N) : list bool :=
  if sub64 f (c_dw m) <=? 1 then (f =? add64 (c_dw m) 1) :: out else out.

(* the input test of the flat / paged loops *)
Definition input_hit (m : nmem) (ip : N) : bool := sub64 (sub64 ip (c_in_lo m)) 1 <? c_dw m.

(* cold_input; k = the rest of the iteration (after_input) *)
Definition do_input (s : nst) (m : nmem) (out : list bool) (hit : bool)
           (k : nmem -> list bool -> nst + (ncause * nst)) : nst + (ncause * nst) :=
  if hit then
    match s.(s_inp) with
    | [] => inr (NC EOFc, mknst s.(s_ip) m [] out s.(s_ops) s.(s_ring) s.(s_rw))
    | b :: rest =>
      match mem_write_bit m (c_in_addr m) b with
      | (m1, false) => memory_error_exit s m1 rest out
      | (m1, true) => k m1 rest
      end
    end
  else k m s.(s_inp).

(* ---- run_flat_loop_impl: one iteration of the inner do-while ------------------------------------ *)
(* read flip word: returns (memory, None = goto memory_error | Some (f, word_address)) *)
Definition flat_read_flip (m : nmem) (ip : N) : nmem * option (N * N) :=
  if negb (N.land ip (c_bit_mask m) =? 0) then                       (* cold_unaligned_flip_word *)
    match mem_get_word_unaligned m ip with
    | (m1, None) => (m1, None)
    | (m1, Some v) => (m1, Some (v, M64 - 2))                        (* word_address = (uint64_t)-2 *)
    end
  else
    let wa := N.shiftr ip m.(n_ww) in
    if m.(n_flat_count) <=? add64 wa 1 then                          (* cold_flip_word_out_of_span *)
      match mem_read_word m wa with
      | (m1, None) => (m1, None)
      | (m1, Some v) => (m1, Some (v, wa))
      end
    else
      let f := flat_rd m wa in
      if flat_is_garbage m f then                                    (* cold_flip_word_garbage *)
        match flat_garbage_check m wa f with
        | (m1, None) => (m1, None)
        | (m1, Some f') => (m1, Some (f', wa))
        end
      else (m, Some (f, wa)).

(* FLIP: true = goto after_flip, false = goto memory_error *)
Definition flat_do_flip (m : nmem) (f : N) : nmem * bool :=
  let fwa := N.shiftr f m.(n_ww) in
  if m.(n_flat_count) <=? fwa then mem_flip_bit m f                  (* cold_flip_out_of_span *)
  else
    let flip_value := flat_rd m fwa in
    let bit := N.shiftl 1 (N.land f (c_bit_mask m)) in
    if flat_is_garbage m flip_value then                             (* cold_flip_garbage *)
      match flat_garbage_check m fwa flip_value with
      | (m1, None) => (m1, false)
      | (m1, Some v) => (flat_wr m1 fwa (N.lxor v bit), true)
      end
    else (flat_wr m fwa (N.lxor flip_value bit), true).

Definition flat_read_jump (m : nmem) (ip wa : N) : nmem * option N :=
  if m.(n_flat_count) <=? add64 wa 1 then mem_get_word_unaligned m (add64 ip m.(n_w))   (* cold_jump_word_slow *)
  else
    let j := flat_rd m (add64 wa 1) in
    if flat_is_garbage m j then flat_garbage_check m (add64 wa 1) j  (* cold_jump_word_garbage *)
    else (m, Some j).

Definition flat_step (s : nst) : nst + (ncause * nst) :=
  let m0 := s.(s_m) in
  let ip := s.(s_ip) in
  match m0.(n_flat) with
  | None => inr (NCrash, s)
  | Some _ =>
    match flat_read_flip m0 ip with
    | (m1, None) => memory_error_exit s m1 s.(s_inp) s.(s_out)
    | (m1, Some (f, wa)) =>
      let out1 := do_output m1 s.(s_out) f in
      do_input s m1 out1 (input_hit m1 ip) (fun m2 inp' =>
        match flat_do_flip m2 f with
        | (m3, false) => memory_error_exit s m3 inp' out1
        | (m3, true) =>
          match flat_read_jump m3 ip wa with
          | (m4, None) => memory_error_exit s m4 inp' out1
          | (m4, Some j) => loop_tail s m4 inp' out1 f j
          end
        end)
    end
  end.

(* ---- run_paged_loop_impl: one iteration ---------------------------------------------------------- *)
Record lane := mklane {
  l_f : N;
  l_words : option N;      (* op_words: the cached words pointer of the hot lane, NULL on the slow lanes *)
  l_off : N;               (* op_offset *)
  l_vend : N;              (* op_valid_end *)
  l_fj : option N          (* op_flat_jump - flat *)
}.

Definition slow_lane (f : N) : lane := mklane f None 0 0 None.

(* from `if (ip & bit_mask)` to flip_word_ready, paged storage *)
Definition paged_read_flip (m : nmem) (ip : N) : nmem * option lane :=
  if negb (N.land ip (c_bit_mask m) =? 0) then                       (* cold_unaligned_flip_word *)
    match mem_get_word_unaligned m ip with
    | (m1, None) => (m1, None)
    | (m1, Some v) => (m1, Some (slow_lane v))
    end
  else
    let wa := N.shiftr ip m.(n_ww) in
    let op_offset := N.land wa PAGE_MASK in
    if op_offset =? PAGE_MASK then                                   (* cold_straddling_op *)
      match mem_read_word m wa with
      | (m1, None) => (m1, None)
      | (m1, Some v) => (m1, Some (slow_lane v))
      end
    else
      let op_slot := N.land (N.shiftr wa PAGE_BITS) 15 in
      let m1 := if negb (add64 (N.shiftr wa PAGE_BITS) 1 =? (cache_get m op_slot).(cs_key))
                then fst (mem_get_page m (N.shiftr wa PAGE_BITS))    (* cold_op_page_miss *)
                else m in
      (* op_page_cached *)
      let c := cache_get m1 op_slot in
      if (op_offset <? c.(cs_vs)) || (c.(cs_ve) <=? op_offset) then  (* cold_op_slow *)
        match mem_read_word m1 wa with
        | (m2, None) => (m2, None)
        | (m2, Some v) => (m2, Some (slow_lane v))
        end
      else (m1, Some (mklane (pg_rd m1 c.(cs_page) op_offset) (Some c.(cs_page)) op_offset c.(cs_ve) None)).

(* flat_lane (with_ring && flat) *)
Definition ring_flat_read_flip (m : nmem) (ip : N) : nmem * option lane :=
  if negb (N.land ip (c_bit_mask m) =? 0) then                       (* cold_unaligned_flip_word *)
    match mem_get_word_unaligned m ip with
    | (m1, None) => (m1, None)
    | (m1, Some v) => (m1, Some (slow_lane v))
    end
  else
    let wa := N.shiftr ip m.(n_ww) in
    if m.(n_flat_count) <=? add64 wa 1 then
      match mem_read_word m wa with
      | (m1, None) => (m1, None)
      | (m1, Some v) => (m1, Some (slow_lane v))
      end
    else
      match flat_fetch m wa with
      | (m1, None) => (m1, None)
      | (m1, Some f) => (m1, Some (mklane f None 0 0 (Some (add64 wa 1))))
      end.

(* FLIP *)
Definition paged_do_flip (with_ring : bool) (m : nmem) (f : N) : nmem * bool :=
  if with_ring then mem_flip_bit m f                                  (* cold_flip_slow *)
  else
    let fwa := N.shiftr f m.(n_ww) in
    let flip_offset := N.land fwa PAGE_MASK in
    let flip_slot := N.land (N.shiftr fwa PAGE_BITS) 15 in
    let c := cache_get m flip_slot in
    if negb (add64 (N.shiftr fwa PAGE_BITS) 1 =? c.(cs_key)) then mem_flip_bit m f
    else if (flip_offset <? c.(cs_vs)) || (c.(cs_ve) <=? flip_offset) then mem_flip_bit m f
    else (pg_wr m c.(cs_page) flip_offset
                (N.lxor (pg_rd m c.(cs_page) flip_offset) (N.shiftl 1 (N.land f (c_bit_mask m)))), true).

(* read jump word *)
Definition paged_read_jump (with_ring : bool) (m : nmem) (ip : N) (l : lane) : nmem * option N :=
  match (if with_ring then l.(l_fj) else None) with
  | Some idx => flat_fetch m idx
  | None =>
    match l.(l_words) with
    | Some pid =>
      if l.(l_vend) <=? add64 l.(l_off) 1
      then mem_read_word m (add64 (N.shiftr ip m.(n_ww)) 1)          (* cold_jump_word_slow *)
      else (m, Some (pg_rd m pid (add64 l.(l_off) 1)))
    | None =>
      if negb (N.land ip (c_bit_mask m) =? 0) then mem_get_word_unaligned m (add64 ip m.(n_w))
      else mem_read_word m (add64 (N.shiftr ip m.(n_ww)) 1)
    end
  end.

Definition paged_step (with_ring : bool) (ring_len : N) (s0 : nst) : nst + (ncause * nst) :=
  let ip := s0.(s_ip) in
  let s := if with_ring
           then mknst ip s0.(s_m) s0.(s_inp) s0.(s_out) s0.(s_ops)
                      (mset s0.(s_ring) (s0.(s_rw) mod ring_len) ip) (add64 s0.(s_rw) 1)
           else s0 in
  let m0 := s.(s_m) in
  let rd := if with_ring && (match m0.(n_flat) with Some _ => true | None => false end)
            then ring_flat_read_flip m0 ip else paged_read_flip m0 ip in
  match rd with
  | (m1, None) => memory_error_exit s m1 s.(s_inp) s.(s_out)
  | (m1, Some l) =>
    let f := l.(l_f) in
    let out1 := do_output m1 s.(s_out) f in
    do_input s m1 out1 (input_hit m1 ip) (fun m2 inp' =>
      match paged_do_flip with_ring m2 f with
      | (m3, false) => memory_error_exit s m3 inp' out1
      | (m3, true) =>
        match paged_read_jump with_ring m3 ip l with
        | (m4, None) => memory_error_exit s m4 inp' out1
        | (m4, Some j) => loop_tail s m4 inp' out1 f j
        end
      end)
  end.

(* ---- run_measured_loop: one iteration (spec_record omitted) --------------------------------------- *)
Definition measured_step (s : nst) : nst + (ncause * nst) :=
  let m0 := s.(s_m) in
  let ip := s.(s_ip) in
  let dw := c_dw m0 in
  let out1c := add64 dw 1 in
  match mem_get_word_unaligned m0 ip with
  | (m1, None) => memory_error_exit s m1 s.(s_inp) s.(s_out)
  | (m1, Some f) =>
    let out1 := if (f <=? out1c) && (dw <=? f) then (f =? out1c) :: s.(s_out) else s.(s_out) in
    do_input s m1 out1 ((ip <=? c_in_addr m0) && (c_in_lo m0 <? ip)) (fun m2 inp' =>
      match mem_flip_bit m2 f with
      | (m3, false) => memory_error_exit s m3 inp' out1
      | (m3, true) =>
        match mem_get_word_unaligned m3 (add64 ip m0.(n_w)) with
        | (m4, None) => memory_error_exit s m4 inp' out1
        | (m4, Some j) =>
          let s' := mknst j m4 inp' out1 (add64 s.(s_ops) 1) s.(s_ring) s.(s_rw) in
          if (j =? ip) && negb ((ip <=? f) && (sub64 f ip <? dw)) then inr (NC Looping, s')
          else if j <? dw then inr (NC NullIP, s')
          else inl s'
        end
      end)
  end.

Fixpoint run_n (stepf : nst -> nst + (ncause * nst)) (fuel : nat) (s : nst) : ncause * nst :=
  match fuel with
  | O => (NC OutOfFuel, s)
  | S k => match stepf s with inl s' => run_n stepf k s' | inr r => r end
  end.

(* ---- Memory_run ---------------------------------------------------------------------------------- *)
Inductive loop_kind := LMeasured | LFlat | LPaged | LRing.

Record knobs := mkknobs {
  k_no_flat : bool;        (* FLIPJUMP_NO_FLAT=1 *)
  k_env_limit : N;         (* FLIPJUMP_FLAT_MAX_WORDS, 0 = unset *)
  k_measure : bool;        (* FLIPJUMP_MEASURE_SPECULATION=1 *)
  k_last_ops : N           (* last_ops_length *)
}.

(* which loop Memory_run enters, given the decided storage *)
Definition dispatch (k : knobs) (m : nmem) : loop_kind :=
  if k.(k_measure) && (k.(k_last_ops) =? 0) then LMeasured
  else if (match m.(n_flat) with Some _ => true | None => false end) && (k.(k_last_ops) =? 0) then LFlat
  else if 0 <? k.(k_last_ops) then LRing else LPaged.

Definition loop_step (k : knobs) (lk : loop_kind) : nst -> nst + (ncause * nst) :=
  match lk with
  | LMeasured => measured_step
  | LFlat => flat_step
  | LPaged => paged_step false 0
  | LRing => paged_step true k.(k_last_ops)
  end.

(* build_run_result: the ring in execution order, oldest first *)
Fixpoint ring_emit (ring : mem) (len start : N) (n : nat) (i : N) : list N :=
  match n with
  | O => []
  | S n' => mget0 ring (add64 start i mod len) :: ring_emit ring len start n' (i + 1)
  end.

Definition ring_readout (ring : mem) (last_ops_length ring_writes : N) : list N :=
  let total := if ring_writes <? last_ops_length then ring_writes else last_ops_length in
  let ring_pos := ring_writes mod last_ops_length in
  let start := sub64 (add64 ring_pos last_ops_length) total mod last_ops_length in
  ring_emit ring last_ops_length start (N.to_nat total) 0.

Inductive run_result :=
| RunValueError (e : ds_result)                      (* mem_decide_storage raised *)
| RunDone (lk : loop_kind) (c : ncause) (s : nst) (last_ops : list N).

Definition Memory_run (k : knobs) (m : nmem) (input : list bool) (fuel : nat) : run_result :=
  match mem_decide_storage m k.(k_no_flat) k.(k_env_limit) with
  | DS_ok m1 =>
    let lk := dispatch k m1 in
    (* every loop starts with self->mem_error = 0 *)
    let s0 := mknst 0 (clear_error m1) input [] 0 (PositiveMap.empty N) 0 in
    let '(c, s) := run_n (loop_step k lk) fuel s0 in
    RunDone lk c s (match lk with LRing => ring_readout s.(s_ring) k.(k_last_ops) s.(s_rw) | _ => [] end)
  | e => RunValueError e
  end.
