From FJ Require Import Lib.Base.
From Coq Require Import String.
(* C20 - option plumbing of the `fj` command (flipjump/flipjump_cli.py) and of the Python API
   (flipjump/flipjump_quickstart.py), as maps from what the user asks for to the argument records that reach
   Writer(...) + assembler.assemble(...) and flipjump_quickstart.debug(...) -> fjm_run.run(...).

   Transcribed: argparse defaults/choices (record `defs`, compared with the regenerated facts in Tie/C20_tie.v),
   get_fjm_file_path, get_debug_file_path, get_files_paths, get_version, utils.functions.get_file_tuples,
   flipjump_cli.assemble / run / execute_assemble_run, flipjump_quickstart.assemble / run / debug /
   assemble_and_run (through assemble_and_debug).  error_func exits are constructors of `cli_error`.
   Paths are strings; the file system (existence, suffix of a path, absolute()) is a Section variable.
   No proofs in this file. *)
Local Open Scope Z_scope.
Local Open Scope string_scope.

Definition path := string.

(* every default value that the three routes take from the source *)
Record defs := mkdefs {
  (* argparse (flipjump_cli.add_*_arguments) *)
  c_width : Z; c_width_choices : list Z; c_version : option Z; c_flags : Z;
  c_preset : Z; c_preset_choices : list Z; c_werror : bool; c_max_depth : Z; c_no_stl : bool; c_stats : bool;
  c_silent : bool; c_debug_ops : Z; c_trace : bool; c_profile : bool; c_flat_max_words : option Z; c_io : string;
  (* get_version without -v *)
  v_with_outfile : Z; v_without_outfile : Z; v_supported : list Z;
  (* flipjump_quickstart.assemble *)
  q_width : Z; q_use_stl : bool; q_version : Z; q_werror : bool; q_stats : bool; q_print_time : bool; q_max_depth : Z;
  (* flipjump_quickstart.run / debug *)
  q_trace : bool; q_run_print_time : bool; q_print_termination : bool; q_last_ops : option Z; q_profile : bool;
  q_flat_max_words : option Z;
  (* Writer.__init__ *)
  w_flags : Z; w_preset : Z
}.

(* the values the documentation and the source state (README: "WIDTH is 64 by default"; flipjump/README.md: "version 3
   if the --outfile is specified, and version 1 if it isn't") *)
Definition model_defs : defs :=
  mkdefs 64 [8; 16; 32; 64] None 0  6 [0; 1; 2; 3; 4; 5; 6; 7; 8; 9] false 900 false false
         false 10 false false None "standard"
         3 1 [0; 1; 2; 3]
         64 true 3 true false true 900
         false true true (Some 10) false None
         0 6.

(* what the user asks for.  An option left out is None / false / []. *)
Record uopts := mkuo {
  uo_files : list path;                 (* the .fj files *)
  uo_width : option Z;                  (* -w *)
  uo_version : option Z;                (* -v *)
  uo_flags : option Z;                  (* -f *)
  uo_no_stl : bool;                     (* --no_stl *)
  uo_outfile : option path;             (* -o *)
  uo_debug : option (option path);      (* -d [PATH]:  Some None = "-d" without a path *)
  uo_werror : bool;                     (* --werror *)
  uo_preset : option Z;                 (* --lzma_preset *)
  uo_silent : bool;                     (* -s *)
  uo_max_depth : option Z;              (* --max_recursion_depth *)
  uo_stats : bool;                      (* --stats *)
  uo_trace : bool;                      (* -t *)
  uo_profile : bool;                    (* --profile *)
  uo_debug_ops : option Z;              (* --debug-ops-list *)
  uo_flat_max_words : option Z;         (* --flat-max-words *)
  uo_io : option string;                (* --io *)
  uo_breakpoints : list string;         (* -b *)
  uo_breakpoints_contains : list string (* -B *)
}.

(* argparse.Namespace *)
Record cli_args := mkargs {
  a_files : list path; a_asm : bool; a_run : bool; a_silent : bool; a_debug : option string; a_outfile : option path;
  a_width : Z; a_version : option Z; a_flags : Z; a_preset : Z; a_werror : bool; a_max_depth : Z; a_no_stl : bool;
  a_stats : bool; a_debug_ops : Z; a_trace : bool; a_profile : bool; a_flat_max_words : option Z; a_io : string;
  a_breakpoint : list string; a_breakpoint_contains : list string
}.

Inductive cli_error :=
| Err_bad_choice (option_name : string)        (* argparse: invalid choice *)
| Err_asm_without_outfile
| Err_outfile_not_fjm
| Err_breakpoints_without_debug                (* --werror and breakpoints without -d *)
| Err_asm_debug_without_path
| Err_run_debug_without_path
| Err_invalid_version
| Err_file_missing (p : path)
| Err_not_fj (p : path)
| Err_not_fjm (p : path)
| Err_bad_io.

(* the arguments of Writer(...) and assembler.assemble(...) *)
Record asm_call := mkasm {
  ac_files : list (string * path);    (* input_files: (short name, path) *)
  ac_out : path; ac_width : Z; ac_version : Z; ac_flags : Z; ac_preset : Z;
  ac_werror : bool; ac_debug : option path; ac_stats : bool; ac_print_time : bool; ac_max_depth : Z
}.
(* the arguments of flipjump_quickstart.debug(...) = those of fjm_run.run(...) plus the termination print *)
Record run_call := mkrun {
  rc_fjm : path; rc_debug : option path;
  rc_bp_addresses : list Z; rc_bp : list string; rc_bp_contains : list string;   (* None and the empty set are the same (truthiness) *)
  rc_io : string;                     (* 'standard' = StandardIO(True), which is also what io_device=None becomes *)
  rc_trace : bool; rc_print_time : bool; rc_print_termination : bool; rc_last_ops : option Z; rc_profile : bool;
  rc_flat_max_words : option Z
}.

Inductive mode := OneStep | AsmOnly | RunOnly.

Definition dflt {A} (o : option A) (d : A) : A := match o with Some x => x | None => d end.
Definition zmem (x : Z) (l : list Z) : bool := existsb (Z.eqb x) l.

Fixpoint ends_with_aux (suffix s : string) (n : nat) : bool :=
  (* does s end with suffix; n = length s *)
  if String.eqb s suffix then true
  else match n, s with
       | S n', String _ r => ends_with_aux suffix r n'
       | _, _ => false
       end.
Definition ends_with (suffix s : string) : bool := ends_with_aux suffix s (String.length s).

Section Plumbing.
  Variable d : defs.
  Variable stl_paths : list path.                 (* utils.functions.get_stl_paths() *)
  Variable is_file : path -> bool.                (* Path.is_file *)
  Variable suffix_of : path -> string.            (* Path.suffix *)
  Variable absolute : path -> path.               (* str(Path.absolute()) *)
  Variable io_modes : list string.                (* IO_MODES, first whitespace-separated word of --io *)

  (* ---- argparse: parse_args (defaults, choices) ---- *)
  Definition parse_args (m : mode) (files : list path) (u : uopts) : cli_args + cli_error :=
    let width := dflt (uo_width u) (c_width d) in
    let preset := dflt (uo_preset u) (c_preset d) in
    if negb (zmem width (c_width_choices d)) then inr (Err_bad_choice "width")
    else if negb (zmem preset (c_preset_choices d)) then inr (Err_bad_choice "lzma_preset")
    else if negb (existsb (String.eqb (dflt (uo_io u) (c_io d))) io_modes) then inr (Err_bad_choice "io")
    else inl (mkargs files
                     (match m with AsmOnly => true | _ => false end)
                     (match m with RunOnly => true | _ => false end)
                     (uo_silent u || c_silent d)
                     (match uo_debug u with None => None | Some None => Some "" | Some (Some p) => Some p end)
                     (uo_outfile u)
                     width (match uo_version u with Some v => Some v | None => c_version d end)
                     (dflt (uo_flags u) (c_flags d)) preset (uo_werror u || c_werror d)
                     (dflt (uo_max_depth u) (c_max_depth d)) (uo_no_stl u || c_no_stl d) (uo_stats u || c_stats d)
                     (dflt (uo_debug_ops u) (c_debug_ops d)) (uo_trace u || c_trace d) (uo_profile u || c_profile d)
                     (match uo_flat_max_words u with Some x => Some x | None => c_flat_max_words d end)
                     (dflt (uo_io u) (c_io d)) (uo_breakpoints u) (uo_breakpoints_contains u)).

  Definition join (dir name : string) : path := dir ++ "/" ++ name.

  (* ---- get_fjm_file_path ---- *)
  Definition get_fjm_file_path (a : cli_args) (tmp : path) : path + cli_error :=
    match a_outfile a with
    | None => if a_asm a then inr Err_asm_without_outfile else inl (join tmp "out.fjm")
    | Some o => if negb (a_run a) && negb (ends_with ".fjm" o) then inr Err_outfile_not_fjm else inl o
    end.

  (* ---- get_debug_file_path ---- *)
  Definition get_debug_file_path (a : cli_args) (tmp : path) : option path + cli_error :=
    let needed := negb (a_asm a) &&
                  (match a_breakpoint a with [] => false | _ => true end
                   || match a_breakpoint_contains a with [] => false | _ => true end) in
    let dbg1 : option string + cli_error :=
      match a_debug a with
      | None => if needed then
                  if negb (a_silent a) && a_werror a then inr Err_breakpoints_without_debug else inl (Some "")
                else inl None
      | Some s => inl (Some s)
      end in
    match dbg1 with
    | inr e => inr e
    | inl None => inl None
    | inl (Some s) =>
      if String.eqb s "" then
        if a_asm a then inr Err_asm_debug_without_path
        else if a_run a then inr Err_run_debug_without_path
        else inl (Some (join tmp "debug.fjd"))
      else inl (Some s)
    end.

  (* ---- get_files_paths: (debug_path, in_fjm_path, out_fjm_path) ---- *)
  Definition get_files_paths (a : cli_args) (tmp : path) : (option path * path * path) + cli_error :=
    match get_fjm_file_path a tmp with
    | inr e => inr e
    | inl out =>
      match get_debug_file_path a tmp with
      | inr e => inr e
      | inl dbg => inl (dbg, (if a_run a then hd "" (a_files a) else out), out)
      end
    end.

  (* ---- get_version ---- *)
  Definition get_version (version : option Z) (outfile_specified : bool) : Z + cli_error :=
    match version with
    | Some v => if zmem v (v_supported d) then inl v else inr Err_invalid_version
    | None => inl (if outfile_specified then v_with_outfile d else v_without_outfile d)
    end.

  (* ---- utils.functions.get_file_tuples ---- *)
  Fixpoint number_from {A} (prefix : string) (render : nat -> string) (i : nat) (l : list A) : list (string * A) :=
    match l with
    | [] => []
    | x :: r => (prefix ++ render i, x) :: number_from prefix render (S i) r
    end.
  Variable render_nat : nat -> string.            (* str(i) *)
  Definition get_file_tuples (files : list path) (no_stl : bool) : list (string * path) :=
    (if no_stl then [] else number_from "s" render_nat 1 stl_paths) ++ number_from "f" render_nat 1 files.

  (* ---- verify_fj_files ---- *)
  Fixpoint verify_fj_files (ts : list (string * path)) : option cli_error :=
    match ts with
    | [] => None
    | (_, p) :: r => if negb (is_file p) then Some (Err_file_missing p)
                     else if negb (String.eqb (suffix_of p) ".fj") then Some (Err_not_fj p)
                     else verify_fj_files r
    end.

  (* ---- flipjump_cli.assemble ---- *)
  Definition cli_assemble (out : path) (dbg : option path) (a : cli_args) : asm_call + cli_error :=
    let ts := get_file_tuples (a_files a) (a_no_stl a) in
    match verify_fj_files ts with
    | Some e => inr e
    | None =>
      match get_version (a_version a) (match a_outfile a with Some _ => true | None => false end) with
      | inr e => inr e
      | inl v => inl (mkasm ts out (a_width a) v (a_flags a) (a_preset a) (a_werror a) dbg (a_stats a)
                            (negb (a_silent a)) (a_max_depth a))
      end
    end.

  (* ---- flipjump_cli.run ---- *)
  Definition cli_run (fjm : path) (dbg : option path) (a : cli_args) : run_call + cli_error :=
    if negb (is_file fjm) then inr (Err_file_missing fjm)
    else if negb (String.eqb (suffix_of fjm) ".fjm") then inr (Err_not_fjm fjm)
    else match dbg with
         | Some p => if negb (is_file p) then inr (Err_file_missing p) else
                       inl (mkrun fjm dbg [] (a_breakpoint a) (a_breakpoint_contains a) (a_io a) (a_trace a)
                                  (negb (a_silent a)) (negb (a_silent a)) (Some (a_debug_ops a)) (a_profile a)
                                  (a_flat_max_words a))
         | None => inl (mkrun fjm dbg [] (a_breakpoint a) (a_breakpoint_contains a) (a_io a) (a_trace a)
                              (negb (a_silent a)) (negb (a_silent a)) (Some (a_debug_ops a)) (a_profile a)
                              (a_flat_max_words a))
         end.

  (* ---- the assemble half and the run half of execute_assemble_run ---- *)
  Definition cli_asm_part (a : cli_args) (tmp : path) : option asm_call + cli_error :=
    match get_files_paths a tmp with
    | inr e => inr e
    | inl (dbg, _, out) =>
      if a_run a then inl None
      else match cli_assemble out dbg a with inr e => inr e | inl c => inl (Some c) end
    end.
  (* the run half is evaluated after the assemble half has written its files: is_file then holds for them *)
  Definition cli_run_part (a : cli_args) (tmp : path) : option run_call + cli_error :=
    match get_files_paths a tmp with
    | inr e => inr e
    | inl (dbg, infjm, _) =>
      if a_asm a then inl None
      else match cli_run infjm dbg a with inr e => inr e | inl c => inl (Some c) end
    end.

  (* ================= the three routes, from the same user options ================= *)

  (* 1. one step:  fj [options] files *)
  Definition onestep_asm (u : uopts) (tmp : path) : option asm_call + cli_error :=
    match parse_args OneStep (uo_files u) u with inr e => inr e | inl a => cli_asm_part a tmp end.
  Definition onestep_run (u : uopts) (tmp : path) : option run_call + cli_error :=
    match parse_args OneStep (uo_files u) u with inr e => inr e | inl a => cli_run_part a tmp end.

  (* 2. two steps:  fj --asm [options] -o OUT files   then   fj --run OUT [options] *)
  Definition twostep_asm (u : uopts) (tmp : path) : option asm_call + cli_error :=
    match parse_args AsmOnly (uo_files u) u with inr e => inr e | inl a => cli_asm_part a tmp end.
  Definition twostep_run (u : uopts) (tmp : path) : option run_call + cli_error :=
    match uo_outfile u with
    | None => inr Err_asm_without_outfile
    | Some o => match parse_args RunOnly [o] u with inr e => inr e | inl a => cli_run_part a tmp end
    end.

  (* 3. the Python API: every option the user gives is passed as the corresponding keyword, the others are left to
        the defaults of the function *)
  Definition api_assemble (u : uopts) (out : path) : asm_call :=
    mkasm (get_file_tuples (map absolute (uo_files u)) (negb (negb (uo_no_stl u) && q_use_stl d)))
          out (dflt (uo_width u) (q_width d)) (dflt (uo_version u) (q_version d)) (w_flags d) (w_preset d)
          (uo_werror u)                                  (* warning_as_errors=<the user's choice> *)
          (match uo_debug u with Some (Some p) => Some p | _ => None end)
          (uo_stats u || q_stats d) (negb (uo_silent u) && q_print_time d) (dflt (uo_max_depth u) (q_max_depth d)).
  Definition api_run (u : uopts) (fjm : path) : run_call :=
    mkrun fjm (match uo_debug u with Some (Some p) => Some p | _ => None end) [] [] []
          (dflt (uo_io u) "standard") (uo_trace u || q_trace d) (negb (uo_silent u) && q_run_print_time d)
          (negb (uo_silent u) && q_print_termination d)
          (match uo_debug_ops u with Some n => Some n | None => q_last_ops d end) (uo_profile u || q_profile d)
          (match uo_flat_max_words u with Some x => Some x | None => q_flat_max_words d end).
  (* assemble_and_run -> assemble_and_debug: always a temporary out.fjm AND a temporary debug.fjd *)
  Definition api_assemble_and_run (u : uopts) (tmp : path) : asm_call * run_call :=
    let fjm := join tmp "out.fjm" in
    let dbg := join tmp "debug.fjd" in
    (mkasm (get_file_tuples (map absolute (uo_files u)) (negb (negb (uo_no_stl u) && q_use_stl d)))
           fjm (dflt (uo_width u) (q_width d)) (dflt (uo_version u) (q_version d)) (w_flags d) (w_preset d)
           (uo_werror u) (Some dbg) (uo_stats u || q_stats d) (negb (uo_silent u) && q_print_time d)
           (dflt (uo_max_depth u) (q_max_depth d)),
     mkrun fjm (Some dbg) [] [] [] (dflt (uo_io u) "standard") (uo_trace u || q_trace d)
           (negb (uo_silent u) && q_print_time d) (negb (uo_silent u) && q_print_termination d)
           (match uo_debug_ops u with Some n => Some n | None => q_last_ops d end) false None).

  (* paths are compared up to absolute(): the CLI passes the strings it was given, the API passes str(p.absolute()) *)
  Definition norm_asm (c : asm_call) : asm_call :=
    mkasm (map (fun t => (fst t, absolute (snd t))) (ac_files c)) (ac_out c) (ac_width c) (ac_version c) (ac_flags c)
          (ac_preset c) (ac_werror c) (ac_debug c) (ac_stats c) (ac_print_time c) (ac_max_depth c).

  (* options that only the command line can express *)
  Definition api_expressible (u : uopts) : bool :=
    match uo_flags u with None => true | Some f => Z.eqb f (w_flags d) end
    && match uo_preset u with None => true | Some p => Z.eqb p (w_preset d) end
    && match uo_breakpoints u with [] => true | _ => false end
    && match uo_breakpoints_contains u with [] => true | _ => false end
    && match uo_debug u with Some None => false | Some (Some p) => negb (String.eqb p "") | None => true end.
End Plumbing.

(* ------------------------------------------------------------------------------------------------
   Evaluation instance used by the correspondence campaign (checks/c20.py): the recorded argument records of the
   real routes are compared with what the model computes from the same user options. *)
Module CliRun.
  From Coq Require Import Ascii.
  Local Open Scope string_scope.

  Definition opt_eqb {A} (e : A -> A -> bool) (a b : option A) : bool :=
    match a, b with Some x, Some y => e x y | None, None => true | _, _ => false end.
  Fixpoint leqb {A} (e : A -> A -> bool) (l1 l2 : list A) : bool :=
    match l1, l2 with [] , [] => true | a :: r1, b :: r2 => e a b && leqb e r1 r2 | _, _ => false end.
  Definition tuple_eqb (a b : string * path) : bool := String.eqb (fst a) (fst b) && String.eqb (snd a) (snd b).

  Definition asm_call_eqb (a b : asm_call) : bool :=
    leqb tuple_eqb (ac_files a) (ac_files b) && String.eqb (ac_out a) (ac_out b) && Z.eqb (ac_width a) (ac_width b)
    && Z.eqb (ac_version a) (ac_version b) && Z.eqb (ac_flags a) (ac_flags b) && Z.eqb (ac_preset a) (ac_preset b)
    && Bool.eqb (ac_werror a) (ac_werror b) && opt_eqb String.eqb (ac_debug a) (ac_debug b)
    && Bool.eqb (ac_stats a) (ac_stats b) && Bool.eqb (ac_print_time a) (ac_print_time b)
    && Z.eqb (ac_max_depth a) (ac_max_depth b).
  Definition run_call_eqb (a b : run_call) : bool :=
    String.eqb (rc_fjm a) (rc_fjm b) && opt_eqb String.eqb (rc_debug a) (rc_debug b)
    && leqb Z.eqb (rc_bp_addresses a) (rc_bp_addresses b) && leqb String.eqb (rc_bp a) (rc_bp b)
    && leqb String.eqb (rc_bp_contains a) (rc_bp_contains b) && String.eqb (rc_io a) (rc_io b)
    && Bool.eqb (rc_trace a) (rc_trace b) && Bool.eqb (rc_print_time a) (rc_print_time b)
    && Bool.eqb (rc_print_termination a) (rc_print_termination b) && opt_eqb Z.eqb (rc_last_ops a) (rc_last_ops b)
    && Bool.eqb (rc_profile a) (rc_profile b) && opt_eqb Z.eqb (rc_flat_max_words a) (rc_flat_max_words b).

  (* str(i) *)
  Definition digit_char (n : nat) : string := String (ascii_of_nat (48 + n)) EmptyString.
  Fixpoint render_fuel (fuel n : nat) : string :=
    match fuel with
    | O => ""
    | S f => if Nat.ltb n 10 then digit_char n else render_fuel f (Nat.div n 10) ++ digit_char (Nat.modulo n 10)
    end.
  Definition render_nat (n : nat) : string := render_fuel 10 n.

  (* Path.suffix of the last component: from its last dot, when that dot is not the first character *)
  Fixpoint last_component (s acc : string) : string :=
    match s with
    | EmptyString => acc
    | String c r => if Ascii.eqb c "/" then last_component r "" else last_component r (acc ++ String c EmptyString)
    end.
  Fixpoint suffix_scan (s : string) (first : bool) (cur : option string) : string :=
    match s with
    | EmptyString => match cur with Some x => x | None => "" end
    | String c r =>
      if Ascii.eqb c "." then (if first then suffix_scan r false cur else suffix_scan r false (Some "."))
      else suffix_scan r false (match cur with Some x => Some (x ++ String c EmptyString) | None => None end)
    end.
  Definition suffix_of (p : path) : string := suffix_scan (last_component p "") true None.

  Definition absolute (cwd : path) (p : path) : path :=
    match p with String "/" _ => p | _ => cwd ++ "/" ++ p end.

  Definition error_code (e : cli_error) : Z :=
    match e with
    | Err_bad_choice _ => 1 | Err_asm_without_outfile => 2 | Err_outfile_not_fjm => 3
    | Err_breakpoints_without_debug => 4 | Err_asm_debug_without_path => 5 | Err_run_debug_without_path => 6
    | Err_invalid_version => 7 | Err_file_missing _ => 8 | Err_not_fj _ => 9 | Err_not_fjm _ => 10 | Err_bad_io => 11
    end.

  (* what was recorded of one invocation: the assemble call (if one was made), the run call (if one was made), or the
     error_func exit *)
  Inductive recorded := Rec (a : option asm_call) (r : option run_call) | RecError (code : Z).

  Definition match_asm (m : option asm_call + cli_error) (o : recorded) : bool :=
    match m, o with
    | inr e, RecError c => Z.eqb (error_code e) c
    | inl ma, Rec oa _ => opt_eqb asm_call_eqb ma oa
    | _, _ => false
    end.
  Definition match_run (m : option run_call + cli_error) (o : recorded) : bool :=
    match m, o with
    | inr e, RecError c => Z.eqb (error_code e) c
    | inl mr, Rec _ orr => opt_eqb run_call_eqb mr orr
    | _, _ => false
    end.

  Record case := mkcase {
    k_u : uopts; k_stl : list path; k_existing_before : list path; k_existing_after : list path; k_cwd : path;
    k_io_modes : list string;
    k_tmp_onestep : path; k_tmp_asm : path; k_tmp_run : path;
    k_onestep : option recorded;                 (* fj [options] files *)
    k_twostep_asm : option recorded;             (* fj --asm [options] files *)
    k_twostep_run : option recorded;             (* fj --run OUT [options] *)
    k_api_out : path;
    k_api_asm : option recorded;                 (* flipjump_quickstart.assemble *)
    k_api_run : option recorded;                 (* flipjump_quickstart.run *)
    k_combined : option (path * recorded)        (* flipjump_quickstart.assemble_and_run: its temp dir, what it did *)
  }.

  Definition isf (l : list path) (p : path) : bool := existsb (String.eqb p) l.

  Definition on {A} (o : option A) (f : A -> bool) : bool := match o with Some x => f x | None => true end.

  (* the one-step flow makes its assemble call with the files that exist before, its run call after the assembly *)
  Definition check_case (k : case) : bool :=
    let d := model_defs in
    let u := k_u k in
    on (k_onestep k) (fun o =>
      match onestep_asm d (k_stl k) (isf (k_existing_before k)) suffix_of (k_io_modes k) render_nat u (k_tmp_onestep k) with
      | inr e => match_asm (inr e) o
      | inl ma => match_asm (inl ma) o &&
                  match o with
                  | Rec _ None => true      (* the assembly failed afterwards: no run call to compare *)
                  | _ => match_run (onestep_run d (isf (k_existing_after k)) suffix_of (k_io_modes k) u (k_tmp_onestep k)) o
                  end
      end)
    && on (k_twostep_asm k) (fun o =>
         match_asm (twostep_asm d (k_stl k) (isf (k_existing_before k)) suffix_of (k_io_modes k) render_nat u (k_tmp_asm k)) o)
    && on (k_twostep_run k) (fun o =>
         match_run (twostep_run d (isf (k_existing_after k)) suffix_of (k_io_modes k) u (k_tmp_run k)) o)
    && on (k_api_asm k) (fun o =>
         match_asm (inl (Some (api_assemble d (k_stl k) (absolute (k_cwd k)) render_nat
                                            (mkuo (uo_files u) (uo_width u) (uo_version u) (uo_flags u) (uo_no_stl u)
                                                  (Some (k_api_out k)) (uo_debug u) (uo_werror u) (uo_preset u)
                                                  (uo_silent u) (uo_max_depth u) (uo_stats u) (uo_trace u) (uo_profile u)
                                                  (uo_debug_ops u) (uo_flat_max_words u) (uo_io u) (uo_breakpoints u)
                                                  (uo_breakpoints_contains u)) (k_api_out k)))) o)
    && on (k_api_run k) (fun o => match_run (inl (Some (api_run d u (k_api_out k)))) o)
    && on (k_combined k) (fun to =>
         let '(tmp, o) := to in
         let '(a, r) := api_assemble_and_run d (k_stl k) (absolute (k_cwd k)) render_nat u tmp in
         match o with
         | Rec oa orr => opt_eqb asm_call_eqb (Some a) oa && on orr (fun r' => run_call_eqb r r')
         | RecError _ => false
         end).

  (* ---- the spec evaluated on the recorded calls themselves (used to triage a model/implementation disagreement) ---- *)
  Definition rec_asm (o : option recorded) : option asm_call := match o with Some (Rec a _) => a | _ => None end.
  Definition rec_run (o : option recorded) : option run_call := match o with Some (Rec _ r) => r | _ => None end.
  Definition norm (cwd : path) (a : asm_call) : asm_call := norm_asm (absolute cwd) a.
  (* the routes that were run made the same calls (all routes of a case are given the same -o / -d paths) *)
  Definition same_calls (k : case) : bool :=
    match rec_asm (k_onestep k), rec_asm (k_twostep_asm k) with
    | Some a, Some b => asm_call_eqb a b
    | _, _ => true
    end
    && match rec_run (k_onestep k), rec_run (k_twostep_run k) with
       | Some a, Some b => run_call_eqb a b
       | _, _ => true
       end
    && (if api_expressible model_defs (k_u k) then
          match rec_asm (k_onestep k), rec_asm (k_api_asm k) with
          | Some a, Some b => asm_call_eqb (norm (k_cwd k) a) (norm (k_cwd k) b)
          | _, _ => true
          end
          && match rec_run (k_onestep k), rec_run (k_api_run k) with
             | Some a, Some b => run_call_eqb a b
             | _, _ => true
             end
        else true).
  (* the documented defaults, read off the calls that were made *)
  Definition has_stl (a : asm_call) : bool :=
    match ac_files a with (s, _) :: _ => String.eqb s "s1" | [] => false end.
  Definition defaults_of (u : uopts) (expected_version : Z) (a : asm_call) : bool :=
    match uo_width u with None => Z.eqb (ac_width a) 64 | Some _ => true end
    && match uo_version u with None => Z.eqb (ac_version a) expected_version | Some _ => true end
    && Bool.eqb (has_stl a) (negb (uo_no_stl u)).
  Definition spec_defaults (k : case) : bool :=
    let u := k_u k in
    on (rec_asm (k_onestep k)) (defaults_of u (match uo_outfile u with Some _ => 3 | None => 1 end))
    && on (rec_asm (k_twostep_asm k)) (defaults_of u 3)
    && on (rec_asm (k_api_asm k)) (defaults_of u 3)
    && on (k_combined k) (fun to => match snd to with Rec (Some a) _ => defaults_of u 3 a | _ => true end).
  (* every option the user gives reaches the callee (flipjump_quickstart cannot be given -f / --lzma_preset) *)
  Definition honoured (cli : bool) (u : uopts) (a : asm_call) : bool :=
    on (uo_width u) (Z.eqb (ac_width a)) && on (uo_version u) (Z.eqb (ac_version a))
    && (if cli then on (uo_flags u) (Z.eqb (ac_flags a)) && on (uo_preset u) (Z.eqb (ac_preset a)) else true)
    && Bool.eqb (ac_werror a) (uo_werror u) && on (uo_max_depth u) (Z.eqb (ac_max_depth a))
    && Bool.eqb (ac_print_time a) (negb (uo_silent u)).
  Definition spec_honoured (k : case) : bool :=
    let u := k_u k in
    on (rec_asm (k_onestep k)) (honoured true u) && on (rec_asm (k_twostep_asm k)) (honoured true u)
    && on (rec_asm (k_api_asm k)) (honoured false u)
    && on (k_combined k) (fun to => match snd to with
                                    | Rec (Some a) _ => honoured false (mkuo (uo_files u) (uo_width u) (Some (ac_version a))
                                                          (uo_flags u) (uo_no_stl u) (uo_outfile u) (uo_debug u) (uo_werror u)
                                                          (uo_preset u) (uo_silent u) (uo_max_depth u) (uo_stats u) (uo_trace u)
                                                          (uo_profile u) (uo_debug_ops u) (uo_flat_max_words u) (uo_io u)
                                                          (uo_breakpoints u) (uo_breakpoints_contains u)) a
                                    | _ => true
                                    end).
  Definition spec_on_recorded (k : case) : bool := same_calls k && spec_defaults k && spec_honoured k.
End CliRun.
