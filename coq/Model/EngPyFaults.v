(* The two pure-Python run loops of flipjump/interpreter/fjm_run.py (Model/EngPy.v) with an IO device that raises
   at its k-th call (read_bit and write_bit calls counted together from 0), and what fjm_run.run makes of it.

   Where a device exception leaves the loops (fjm_run.py):
   * _run_featured:  `statistics.register_op_address(ip)` has run (the op's address is in the last-ops deque),
       `mem.get_word(ip)` has run (it may have materialised zero words of the Reader's dict);
       - `_handle_output(flip_address, io_device, w)` is OUTSIDE every try: whatever `io_device.write_bit` raises
         (IOReadOnEOF included) leaves the loop; the bit was not delivered;
       - `_handle_input` is inside `try: ... except IOReadOnEOF: return EOF statistics`: `io_device.read_bit()` raises
         inside `with statistics.pause_timer:` (whose __exit__ returns None: the exception propagates); IOReadOnEOF is
         the EOF termination (the `[]` case below), every other exception leaves the loop; `mem.write_bit(in_addr, ..)`
         was not reached;
       - `statistics.register_op(..)` (op_counter += 1) was not reached: op_counter counts the completed ops.
   * _run_fast: `append_last_op(ip)` has run at the top of the iteration; the same two call sites
       (`io_write_bit(out1 == flip_address)`, `with pause_timer: input_bit = io_read_bit()` under
       `except IOReadOnEOF`); the `finally:` stores `statistics.op_counter = ops` (the local counter of completed ops).
   The device's exception kind does not influence the loops (only IOReadOnEOF out of read_bit does, and that is
   the EOF termination, not a failure); it selects the clause of fjm_run.run's except ladder (Faults.run_ladder).
   No proofs here. *)
From FJ Require Import Lib.Base Spec.MachineSpec Model.EngPy Model.Faults.
Local Open Scope N_scope.

(* one loop iteration: continue (state, device calls made) | leave the loop (why, state, device calls made) *)
Definition pfres := ((pst * N) + (fcause * pst * N))%type.

Section W.
Variable ww : N.
Variable zb : list (N * N).     (* Reader.zeros_boundaries *)
Variable fail_at : option N.    (* None: the device never fails *)

Local Notation w := (MachineSpec.w ww).
Local Notation dw := (MachineSpec.dw ww).
Local Notation in_addr := (MachineSpec.in_addr ww).
Local Notation fails := (Faults.fails fail_at).

(* ---- _run_featured (no breakpoint handler, no trace) : one loop iteration --------------------------------- *)
Definition featured_fstep (s : pst) (calls : N) : pfres :=
  let h := s.(p_ip) :: s.(p_hist) in                                  (* statistics.register_op_address(ip) *)
  match py_get_word ww zb s.(p_mem) s.(p_ip) with                     (* flip_address = mem.get_word(ip) *)
  | (pm1, inl a) => inr (Halt (MemErr a), mkpst s.(p_ip) pm1 s.(p_inp) s.(p_out) s.(p_ops) h, calls)
  | (pm1, inr f) =>
    (* the rest of the iteration after _handle_output *)
    let after_output (out1 : list bool) (calls1 : N) : pfres :=
      (* the rest of the iteration after _handle_input *)
      let after_input (pm2 : mem) (inp' : list bool) (calls2 : N) : pfres :=
        (* mem.write_bit(flip_address, not mem.read_bit(flip_address)) *)
        match py_read_bit ww zb pm2 f with
        | (pm3, inl a) => inr (Halt (MemErr a), mkpst s.(p_ip) pm3 inp' out1 s.(p_ops) h, calls2)
        | (pm3, inr bit) =>
          match py_write_bit ww zb pm3 f (negb bit) with
          | (pm4, inl a) => inr (Halt (MemErr a), mkpst s.(p_ip) pm4 inp' out1 s.(p_ops) h, calls2)
          | (pm4, inr _) =>
            match py_get_word ww zb pm4 (s.(p_ip) + w) with           (* jump_address *)
            | (pm5, inl a) => inr (Halt (MemErr a), mkpst s.(p_ip) pm5 inp' out1 s.(p_ops) h, calls2)
            | (pm5, inr j) =>
              let s' := mkpst j pm5 inp' out1 (s.(p_ops) + 1) h in    (* register_op *)
              if (j =? s.(p_ip)) && negb ((s.(p_ip) <=? f) && (f <? s.(p_ip) + 2 * w)) then inr (Halt Looping, s', calls2)
              else if j <? 2 * w then inr (Halt NullIP, s', calls2)
              else inl (s', calls2)
            end
          end
        end in
      (* _handle_input *)
      if (s.(p_ip) <=? in_addr) && (in_addr <? s.(p_ip) + 2 * w) then
        if fails calls1                                               (* io_device.read_bit() raises *)
        then inr (DevFail true, mkpst s.(p_ip) pm1 s.(p_inp) out1 s.(p_ops) h, calls1)
        else
        match s.(p_inp) with
        | [] => inr (Halt EOFc, mkpst s.(p_ip) pm1 [] out1 s.(p_ops) h, calls1 + 1)     (* except IOReadOnEOF *)
        | b :: rest =>
          match py_write_bit ww zb pm1 in_addr b with
          | (pm2, inl a) => inr (Halt (MemErr a), mkpst s.(p_ip) pm2 rest out1 s.(p_ops) h, calls1 + 1)
          | (pm2, inr _) => after_input pm2 rest (calls1 + 1)
          end
        end
      else after_input pm1 s.(p_inp) calls1 in
    (* _handle_output *)
    if (dw <=? f) && (f <=? dw + 1) then
      if fails calls                                                  (* io_device.write_bit(..) raises *)
      then inr (DevFail false, mkpst s.(p_ip) pm1 s.(p_inp) s.(p_out) s.(p_ops) h, calls)
      else after_output ((dw + 1 =? f) :: s.(p_out)) (calls + 1)
    else after_output s.(p_out) calls
  end.

(* ---- _run_fast : one loop iteration ------------------------------------------------------------------------ *)
Definition fast_fstep (s : pst) (calls : N) : pfres :=
  let bit_mask := w - 1 in
  let in_lo := in_addr - dw in
  let out1c := dw + 1 in
  let ip := s.(p_ip) in
  let h := ip :: s.(p_hist) in                                        (* append_last_op(ip) *)
  let bit_offset := N.land ip bit_mask in
  let rd1 := if negb (bit_offset =? 0) then py_get_word ww zb s.(p_mem) ip
             else fast_lookup ww zb s.(p_mem) (N.shiftr ip ww) in
  match rd1 with
  | (pm1, inl a) => inr (Halt (MemErr a), mkpst ip pm1 s.(p_inp) s.(p_out) s.(p_ops) h, calls)
  | (pm1, inr f) =>
    let after_output (out1 : list bool) (calls1 : N) : pfres :=
      let after_input (pm2 : mem) (inp' : list bool) (calls2 : N) : pfres :=
        let fwa := N.shiftr f ww in
        match fast_lookup ww zb pm2 fwa with
        | (pm3, inl a) => inr (Halt (MemErr a), mkpst ip pm3 inp' out1 s.(p_ops) h, calls2)
        | (pm3, inr v) =>
          let pm4 := mset pm3 fwa (N.lxor v (N.shiftl 1 (N.land f bit_mask))) in
          let rd2 := if negb (bit_offset =? 0) then py_get_word ww zb pm4 (ip + w)
                     else fast_lookup ww zb pm4 (N.shiftr ip ww + 1) in
          match rd2 with
          | (pm5, inl a) => inr (Halt (MemErr a), mkpst ip pm5 inp' out1 s.(p_ops) h, calls2)
          | (pm5, inr j) =>
            let s' := mkpst j pm5 inp' out1 (s.(p_ops) + 1) h in      (* ops += 1 *)
            if (j =? ip) && negb ((ip <=? f) && (f <? ip + dw)) then inr (Halt Looping, s', calls2)
            else if j <? dw then inr (Halt NullIP, s', calls2)
            else inl (s', calls2)
          end
        end in
      if (ip <=? in_addr) && (in_lo <? ip) then
        if fails calls1                                               (* io_read_bit() raises; finally: op_counter = ops *)
        then inr (DevFail true, mkpst ip pm1 s.(p_inp) out1 s.(p_ops) h, calls1)
        else
        match s.(p_inp) with
        | [] => inr (Halt EOFc, mkpst ip pm1 [] out1 s.(p_ops) h, calls1 + 1)           (* except IOReadOnEOF *)
        | b :: rest =>
          match py_write_bit ww zb pm1 in_addr b with
          | (pm2, inl a) => inr (Halt (MemErr a), mkpst ip pm2 rest out1 s.(p_ops) h, calls1 + 1)
          | (pm2, inr _) => after_input pm2 rest (calls1 + 1)
          end
        end
      else after_input pm1 s.(p_inp) calls1 in
    if f <=? out1c then
      if dw <=? f then
        if fails calls                                                (* io_write_bit(..) raises; finally: op_counter = ops *)
        then inr (DevFail false, mkpst ip pm1 s.(p_inp) s.(p_out) s.(p_ops) h, calls)
        else after_output ((out1c =? f) :: s.(p_out)) (calls + 1)
      else after_output s.(p_out) calls
    else after_output s.(p_out) calls
  end.

Fixpoint frun_py (stepf : pst -> N -> pfres) (fuel : nat) (s : pst) (calls : N) : fcause * pst * N :=
  match fuel with
  | O => (Halt OutOfFuel, s, calls)
  | S k => match stepf s calls with inl (s', c') => frun_py stepf k s' c' | inr r => r end
  end.

End W.

(* ---- fjm_run.run around a loop -------------------------------------------------------------------------------
   `statistics` is the RunStatistics object created by run(); what it holds when the loop is left is read off the
   loop state: op_counter = p_ops (featured: register_op increments; fast: every exit stores the local `ops`,
   the exception exits through `finally`), last_ops_addresses = deque(maxlen = K) of the appended addresses. *)
Definition stats_ops (s : pst) : N := s.(p_ops).
Definition stats_last_ops (last_ops_length : option N) (s : pst) : option (list N) :=
  match last_ops_length with Some k => Some (rev (firstn (N.to_nat k) s.(p_hist))) | None => None end.

Inductive py_outcome :=
| PStats (c : cause) (s : pst)   (* TerminationStatistics from the loop, or from `except FlipJumpRuntimeMemoryException` *)
| PKbdStats (s : pst)            (* `except KeyboardInterrupt: return TerminationStatistics(statistics, KeyboardInterrupt)` *)
| PReraised (s : pst)            (* `except FlipJumpException as e: raise e` - the device's exception object *)
| PWrapped (s : pst).            (* `except Exception as e: raise FlipJumpRuntimeException(..) from e` *)

(* featured = (profile or show_trace or breakpoint_handler is not None); x = what the device raises at call fail_at *)
Definition py_run (ww : N) (zb : list (N * N)) (featured : bool) (fail_at : option N) (x : dev_exc)
           (fuel : nat) (s : pst) : py_outcome :=
  match frun_py (if featured then featured_fstep ww zb fail_at else fast_fstep ww zb fail_at) fuel s 0 with
  | (Halt c, s', _) => PStats c s'
  | (DevFail _, s', _) =>
    match run_ladder x with
    | Reraised => PReraised s'
    | KbdStatistics => PKbdStats s'
    | WrappedRuntimeError => PWrapped s'
    end
  end.
