From FJ Require Import Lib.Base.
(* C02: an executable checker for Spec/DenoteSpec.v.  `check_denotes ww img P lbls = true` implies
   `Denotes ww img P lbls` (Proofs/DenoteProps.v: check_denotes_sound).  It walks every statement of the program on
   the image and RUNS the machine of Spec/MachineSpec.v on every wflip chain.  The harness evaluates it inside Coq
   on the image, segments and label table produced by the REAL assembler.  No proofs here. *)
From FJ Require Import Spec.MachineSpec Model.Ast Spec.DenoteSpec.
Local Open Scope Z_scope.

Section Check.
Variable ww : N.
Variable img : image.

Definition word_isb (wa v : Z) : bool :=
  (0 <=? wa) && valid (i_segs img) (Z.to_N wa) && (0 <=? v) && (v <? 2 ^ wz ww)
  && (mget0 (i_mem img) (Z.to_N wa) =? Z.to_N v)%N.

Fixpoint nodupb (l : list N) : bool :=
  match l with [] => true | x :: l' => negb (existsb (N.eqb x) l') && nodupb l' end.

(* fl is a permutation of bits (bits need not be duplicate free for the check to be sound) *)
Definition perm_check (fl bits : list N) : bool :=
  (List.length bits <=? List.length fl)%nat && nodupb fl && forallb (fun f => existsb (N.eqb f) bits) fl.

Definition wflip_okb (L : list placed) (a A V R : N) : bool :=
  if wflip_side_ok ww img a A V then
    match chain_exec ww img (List.length (flip_bits ww A V)) (mkst a (i_mem img) [] [] 0 []) with
    | Some (s', fl) =>
      match rev s'.(hist) with
      | a0 :: aux =>
        (a0 =? a)%N && forallb (aux_ok ww img L) aux && perm_check fl (flip_bits ww A V) && (s'.(ip) =? R)%N
      | [] => false
      end
    | None => false
    end
  else true.

(* every stored word with lo <= word address < hi is 0 *)
Definition zeros_in (lo hi : Z) : bool :=
  forallb (fun kv => let wa := Z.of_N (Pos.pred_N (fst kv)) in
                     negb ((lo <=? wa) && (wa <? hi)) || (snd kv =? 0)%N)
          (PositiveMap.elements (i_mem img)).

Definition stmt_okb (L : list placed) (lbls : labels) (p : placed) : bool :=
  let a := pl_addr p in
  let a' := pl_next p in
  let w := wz ww in
  match pl_stmt p with
  | SLabel name _ => match lookup lbls name with Some v => v =? a | None => false end
  | SFlipJump f j _ =>
    match eval_expr (env_at lbls a') f, eval_expr (env_at lbls a') j with
    | Some vf, Some vj => (0 <=? a) && (a mod w =? 0) && word_isb (a / w) vf && word_isb (a / w + 1) vj
    | _, _ => false
    end
  | SWordFlip ea ev er _ =>
    match eval_expr (env_at lbls a') ea, eval_expr (env_at lbls a') ev, eval_expr (env_at lbls a') er with
    | Some A, Some V, Some R =>
      (0 <=? a) && (a mod w =? 0) && ((V =? 0) || (0 <=? A)) && (0 <=? V) && (V <? 2 ^ w) && (0 <=? R)
      && wflip_okb L (Z.to_N a) (Z.to_N A) (Z.to_N V) (Z.to_N R)
    | _, _, _ => false
    end
  | SPad _ _ => true
  | SSegment _ _ => a' mod w =? 0
  | SReserve _ _ =>
    (0 <=? a) && (a <=? a') && (a mod w =? 0) && (a' mod w =? 0)
    && ((a' <=? a) || existsb (fun s => (Z.of_N (fst s) <=? a / w) && (a' / w <=? Z.of_N (fst s + snd s))) (i_segs img))
    && zeros_in (a / w) (a' / w)
  | SMacroCall _ _ _ | SRepCall _ _ _ _ _ => false
  end.

Definition check_denotes (P : list stmt) (lbls : labels) : bool :=
  match place ww (lookup lbls) P 0 with
  | Some L => loadable_segs ww (i_segs img) && forallb (stmt_okb L lbls) L
  | None => false
  end.

(* diagnostics for the harness (not used by the theorem): indices of the statements whose clause fails;
   [0] alone with `placed = false` means that the addresses themselves could not be computed *)
Fixpoint failing (L : list placed) (lbls : labels) (l : list placed) (i : N) : list N :=
  match l with
  | [] => []
  | p :: l' => if stmt_okb L lbls p then failing L lbls l' (i + 1)%N else i :: failing L lbls l' (i + 1)%N
  end.

Record report := mkreport { r_placed : bool; r_loadable : bool; r_failing : list N }.
Definition check_report (P : list stmt) (lbls : labels) : report :=
  match place ww (lookup lbls) P 0 with
  | Some L => mkreport true (loadable_segs ww (i_segs img)) (failing L lbls L 0%N)
  | None => mkreport false (loadable_segs ww (i_segs img)) []
  end.

End Check.
