(* The machine with a failing IO device: the device raises at its k-th call (counting read_bit and write_bit
   calls from 0).  Transcribes where the three run loops can be left by a device exception
   (fjm_run._run_featured/_run_fast: the exception propagates out of _handle_output/_handle_input;
   _fjcore.c: `goto done` in cold_output/cold_input) and the except ladder of fjm_run.run.  No proofs here. *)
From FJ Require Import Lib.Base Spec.MachineSpec.
Local Open Scope N_scope.

Inductive fcause :=
| Halt (c : cause)            (* the run ended by itself *)
| DevFail (in_read : bool).   (* the device raised at its k-th call: in write_bit (false) or read_bit (true) *)

Section W.
Variable ww : N.
Variable sg : list (N * N).
Variable fail_at : option N.   (* None: the device never fails *)

Local Notation w := (MachineSpec.w ww).
Local Notation dw := (MachineSpec.dw ww).
Local Notation in_addr := (MachineSpec.in_addr ww).

Definition fails (calls : N) : bool := match fail_at with Some k => calls =? k | None => false end.

(* one op; the second component counts the device calls made so far *)
Definition fstep (s : st) (calls : N) : (st * N) + (fcause * st * N) :=
  let h := s.(ip) :: s.(hist) in
  match get_word ww sg s.(m) s.(ip) with
  | inl a => inr (Halt (MemErr a), mkst s.(ip) s.(m) s.(inp) s.(outp) s.(ops) h, calls)
  | inr f =>
    if is_output ww f && fails calls
    then inr (DevFail false, mkst s.(ip) s.(m) s.(inp) s.(outp) s.(ops) h, calls)
    else
    let out1 := if is_output ww f then (f =? dw + 1) :: s.(outp) else s.(outp) in
    let calls1 := if is_output ww f then calls + 1 else calls in
    let do_flip (mm : mem) (inp' : list bool) (calls2 : N) : (st * N) + (fcause * st * N) :=
      let fw := N.shiftr f ww in
      match rdw sg mm fw with
      | None => inr (Halt (MemErr (N.shiftl fw ww)), mkst s.(ip) mm inp' out1 s.(ops) h, calls2)
      | Some v =>
        let mm' := mset mm fw (flip_bit ww v f) in
        match get_word ww sg mm' (s.(ip) + w) with
        | inl a => inr (Halt (MemErr a), mkst s.(ip) mm' inp' out1 s.(ops) h, calls2)
        | inr j =>
          let s' := mkst j mm' inp' out1 (s.(ops) + 1) h in
          if (j =? s.(ip)) && negb ((s.(ip) <=? f) && (f <? s.(ip) + dw)) then inr (Halt Looping, s', calls2)
          else if j <? dw then inr (Halt NullIP, s', calls2)
          else inl (s', calls2)
        end
      end in
    if covers_input ww s.(ip) then
      if fails calls1
      then inr (DevFail true, mkst s.(ip) s.(m) s.(inp) out1 s.(ops) h, calls1)
      else
      match s.(inp) with
      | [] => inr (Halt EOFc, mkst s.(ip) s.(m) [] out1 s.(ops) h, calls1 + 1)
      | b :: rest =>
        let iw := N.shiftr in_addr ww in
        match rdw sg s.(m) iw with
        | None => inr (Halt (MemErr (N.shiftl iw ww)), mkst s.(ip) s.(m) rest out1 s.(ops) h, calls1 + 1)
        | Some v => do_flip (mset s.(m) iw (set_bit ww v (N.land in_addr (w - 1)) b)) rest (calls1 + 1)
        end
      end
    else do_flip s.(m) s.(inp) calls1
  end.

Fixpoint frun (fuel : nat) (s : st) (calls : N) : fcause * st * N :=
  match fuel with
  | O => (Halt OutOfFuel, s, calls)
  | S k => match fstep s calls with inl (s', c') => frun k s' c' | inr r => r end
  end.

(* n successful steps of the machine definition *)
Fixpoint steps (n : nat) (s : st) : option st :=
  match n with
  | O => Some s
  | S k => match step ww sg s with inl s' => steps k s' | inr _ => None end
  end.

End W.

(* what the device raises, and what fjm_run.run turns it into (its except ladder, in order:
   FlipJumpRuntimeMemoryException -> statistics; FlipJumpException -> re-raised unchanged;
   KeyboardInterrupt -> statistics with cause KeyboardInterrupt; Exception -> wrapped FlipJumpRuntimeException) *)
Inductive dev_exc := XLibIO | XEofOnWrite | XForeign | XKbdInt.
Inductive outcome := Reraised | KbdStatistics | WrappedRuntimeError.
Definition run_ladder (x : dev_exc) : outcome :=
  match x with
  | XLibIO | XEofOnWrite => Reraised
  | XKbdInt => KbdStatistics
  | XForeign => WrappedRuntimeError
  end.
