(* PyIR - the Python subset used by fjm_reader.Reader's memory methods and by the two pure-Python run loops
   of fjm_run.py, as a deep embedding with an executable big-step interpreter.  No proofs here.

   THIS FILE IS PART OF THE TRUSTED BASE: it is "the meaning of the Python subset".
   harness/fjverif/gen_facts_engpy.py translates the CURRENT source into terms of [stmt] (coq/Gen/Facts_EngPy.v),
   coq/Tie/EngPy_tie.v proves that [exec] on those terms computes exactly the hand model Model/EngPy.v.
   It is meant to be audited in minutes; read it top to bottom:
     1. values / expressions / statements      (what can be written)
     2. outcomes                                (value, library exception, Unsupported)
     3. operators, eval / exec                  (one clause per construct, evaluation order as in CPython)
     4. prim / call_at                          (primitives of the IO device / RunStatistics, translated functions)

   Deliberate restrictions (every one of them is fail-closed: the interpreter answers [Unsupported], which is
   never equal to an outcome of the hand model, so a theorem of EngPy_tie.v cannot hold by accident):
     * Python ints are unbounded: VInt n (not negative) or VNeg p (the negative number -p).  Operations on two
       non-negative ints are computed in N; as soon as a negative int is involved they are computed in Z (Z.land, Z.modulo ..
       are Python's &, % .. on negative numbers); Proofs/PyIRProps.v proves that the two computations agree.
       A shift by a negative count (ValueError) and an index that is negative (counting from the end) are Unsupported.
     * bool and int are kept apart: arithmetic on a bool, comparison of non-ints, truth value of a
       tuple/string are Unsupported.
     * reading an unbound variable is Unsupported (CPython: UnboundLocalError).
     * only GarbageHandling.Stop has a meaning: print(...) and sleep(...) are [EUnsupported].
     * a bool used in arithmetic is 0/1 (as in Python), but `bool op bool` is Unsupported (Python answers a bool there).
     * bytes are lists of numbers; strings that are data (stdin / stdout text) are lists of code points, and
       encode/decode are raw_unicode_escape on code points < 256.
     * lists and tuples are values (VList; pairs also VPair): the translator only lets a list be changed through the
       attribute that owns it (self.<f>.append(..)), so that copying instead of sharing cannot be observed.
     * `%` by zero (ZeroDivisionError), range() with a step that is not positive, sorting anything else than pairs of
       ints are Unsupported.
     * an object of the class Expr (C12) is VObj of its only attribute `value`; it has no identity: `a is b` on such objects is
       the call P_is, and the operator table `op_string_to_function[op]( *args)` is P_op_lookup / P_op_call.  These three
       have NO meaning here ([call_at] answers Unsupported): Tie/Expr_steps.v closes the interpreter with its own [call], in
       which `is` answers from an arbitrary stream (never "same" for objects that differ) and the table is the denotation
       Model/Expr.py_call of the table regenerated into Gen/Facts_C12.v. *)
From FJ Require Import Lib.Base Lib.Bytes.
Local Open Scope N_scope.

(* ---- 1. syntax -------------------------------------------------------------------------------- *)
Definition ident := positive.          (* local variable; the translator prints the name table *)

Inductive value :=
| VInt (n : N)
| VNeg (p : positive)                  (* the int -p *)
| VBool (b : bool)
| VNone
| VPair (a b : value)                  (* the only tuples used: `return x, y` / `x, y = f(..)` *)
| VStr                                 (* a message string; its text is never observed *)
| VTerm (cause : N)                    (* TerminationStatistics(statistics, TerminationCause(cause)) *)
| VBytes (l : list N)                  (* a bytes object *)
| VText (l : list N)                   (* a str that is data: its code points *)
| VList (l : list value)               (* a list, or a tuple that is not a pair; also a set given in its iteration order *)
| VDict (l : list (value * value))     (* a dict: its items in insertion order (keys: ints or data strings) *)
| VObj (v : value).                    (* an object of the class Expr (expr.py): its attribute `value` *)

Inductive attr := A_memory_width | A_garbage_handling.     (* Reader.memory_width, Reader.garbage_handling *)

Inductive pytype := TInt | TStr.                           (* the classes isinstance(.., int) / isinstance(.., str) can name *)
Inductive binop := Add | Sub | Mul | BAnd | BOr | BXor | Shl | Shr | Mod.
Inductive cmpop := Eq | NotEq | Lt | LtE | Gt | GtE.

(* functions that can be called.  F_* are translated from the source (their bodies come from the generated
   program table); P_* are methods of objects outside the translated subset and have a fixed meaning below. *)
Inductive fname :=
| F_get_memory_word | F_set_memory_word | F_bit_address_decompose | F_read_bit | F_write_bit | F_get_word
| F_new_garbage_val | F_handle_input | F_handle_output | F_trace_flip | F_trace_jump
| P_io_read_bit | P_io_write_bit            (* io_device.read_bit() / io_device.write_bit(b) *)
| P_register_op_address | P_register_op     (* RunStatistics.register_op_address(ip) / register_op(ip, f, j) *)
(* the IO devices (C17): methods of FixedIO and StandardIO; sys.stdin / sys.stdout *)
| F_fixed_init | F_fixed_read_bit | F_fixed_write_bit | F_fixed_get_output
| F_std_init | F_std_read_bit | F_std_write_bit | F_std_get_output
| P_stdin_read | P_stdout_write | P_stdout_flush      (* stdin.read(n) / stdout.write(s) / stdout.flush() *)
(* the loader (C06/C10): Reader._init_memory and Reader._validate_segments *)
| F_init_memory | F_validate_segments
(* the writer (C06): methods of fjm_writer.Writer *)
| F_w_add_data | F_w_add_segment | F_w_add_simple_segment_with_data | F_w_is_collision
| F_w_validate_segment_addresses_not_overlapping | F_w_validate_segment_data_not_overlapping
| F_w_validate_segment_not_overlapping | F_w_update_to_relative_jumps | F_w_get_segment_addresses_repr
| F_w_write_to_file
| P_file_open | P_file_write                (* `with open(path, 'wb') as f` / f.write(b): the output stream is the file *)
| P_compress_data                           (* Writer._compress_data(b): lzma as an oracle, LZMAError -> the library error *)
(* breakpoint resolution (C16): the three update_breakpoints_* functions of debugging/breakpoints.py; print *)
| F_bp_from_addresses | F_bp_from_contains | F_bp_from_labels
| P_print
(* expression evaluation (C12): Expr.eval_new / Expr.exact_eval of assembler/inner_classes/expr.py.  P_op_lookup is
   `op_string_to_function[op]` (the function is represented by its key; KeyError), P_op_call `f( *args)`, P_is `a is b` on
   objects: not primitives of [prim] - their meaning is given by the [call] of Tie/Expr_steps.v *)
| F_expr_eval_new | F_expr_exact_eval
| P_op_lookup | P_op_call | P_is.

(* the target of a `for` / comprehension: a name or a tuple of targets *)
Inductive pattern := PVar (x : ident) | PTuple (l : list pattern).

Inductive expr :=
| EInt (n : N) | EBool (b : bool) | ENone
| EStr (reads : list ident)            (* string literal / f-string; `reads` = the variables it formats *)
| EVar (x : ident)
| EAttr (a : attr)
| EBin (o : binop) (a b : expr)
| ECmp (o : cmpop) (a b : expr)                            (* a o b *)
| ECmp3 (a : expr) (o1 : cmpop) (b : expr) (o2 : cmpop) (c : expr)   (* a o1 b o2 c : b evaluated once *)
| ENot (a : expr) | EAnd (a b : expr) | EOr (a b : expr)
| EBitLength (a : expr)                (* a.bit_length() *)
| EPair (a b : expr)
| EMemHas (k : expr)                   (* k in self.memory *)
| EMemGet (k : expr)                   (* self.memory[k]  - KeyError when absent *)
| ECall0 (f : fname) | ECall1 (f : fname) (a : expr) | ECall2 (f : fname) (a b : expr)
| ECall3 (f : fname) (a b c : expr)
| ECall4 (f : fname) (a b c d : expr)
| ETerm (cause : N)                    (* TerminationStatistics(statistics, TerminationCause.<cause>) *)
| EUnsupported                         (* print(..), sleep(..), breakpoint machinery *)
| EField (f : ident)                   (* self.<f> of a device object *)
| EBytes (l : list N)                  (* a bytes literal *)
| EIndex (a i : expr)                  (* a[i]    on bytes *)
| ESliceFrom (a i : expr)              (* a[i:]   on bytes *)
| ELen (a : expr)                      (* len(a)  on bytes *)
| EToBytes1 (a : expr)                 (* a.to_bytes(1, 'little') - OverflowError when a >= 256 *)
| EEncode (a : expr) | EDecode (a : expr)      (* a.encode / a.decode (encoding='raw_unicode_escape') *)
| ENil                                 (* [] *)
| ERange (lo hi step : expr)           (* range(lo, hi, step) as the list of its elements *)
| EListComp (elt : expr) (p : pattern) (it : expr)     (* [elt for p in it] / the generator (elt for p in it) consumed at once *)
| ESorted (a : expr)                   (* sorted(a) on pairs of ints (lexicographic) *)
| EZip (a b : expr)                    (* zip(a, b) consumed at once *)
| ECons (a r : expr)                   (* a display (a, b, c, ..) / [a, b, ..] is ECons a (ECons b (.. ENil)) *)
| EEnumerate (a : expr)                (* enumerate(a) consumed at once: the pairs (index, element) *)
| EAny (a : expr)                      (* any(a) on a list of bools computed at once (the elements are call-free) *)
| EFormat (a : expr)                   (* an f-string: its formatted expressions (a display) are evaluated; the text is not modelled *)
| EHex (a : expr)                      (* hex(a) of an int *)
| EDictGet (l : list (N * N)) (k : expr) (* {k1: v1, ..}[k] on a display with int constants; KeyError when k is missing *)
| EPack (sizes : list nat) (args : expr)       (* struct.pack('<..', *args): one unsigned little-endian field per size *)
| EPackN (count size args : expr)      (* struct.pack(f'<{count}{code of size}', *args) *)
| EIn (a b : expr)                     (* a in b : key of a dict / substring of a data string *)
| ETupleOf (a : expr)                  (* tuple(a) / list(a): the keys of a dict in insertion order, the elements of a list *)
| EReverse (a : expr)                  (* a[::-1] on a list *)
| ETextLit (l : list N)                (* a string literal that is data: its code points *)
| EJoinText (a : expr)                 (* an f-string whose text matters: a display of data strings, concatenated *)
| EIsInst (t : pytype) (a : expr)      (* isinstance(a, int) / isinstance(a, str) *)
| EIsNone (a : expr)                   (* a is None *)
| EValueOf (a : expr)                  (* a.value  on an object of the class Expr *)
| EMkObj (a : expr)                    (* Expr(a) *)
| EGetOpt (d k : expr).                (* d.get(k) on a dict: the value, or None when the key is missing *)

Inductive exn :=
| XKeyError                            (* KeyError of a dict read *)
| XMemory (addr : N)                   (* FlipJumpRuntimeMemoryException(message, addr) *)
| XEOF                                 (* IOReadOnEOF *)
| XIncomplete                          (* IncompleteOutput *)
| XOverflow                            (* OverflowError of int.to_bytes *)
| XIndex                               (* IndexError of x[k] *)
| XStruct                              (* struct.error *)
| XLib (tag : N)                       (* a library exception with a message; tag = which message (translator table) *)
| XZeroDiv | XValue | XType.           (* ZeroDivisionError / ValueError / TypeError raised by an operator function (P_op_call) *)
(* what the `except` clauses of a try can name.  KException: `except Exception`.  KNotLib: the handler of
   `except <library exception>: raise` followed by `except Exception [as e]: handler` - the first clause re-raises the
   library exception untouched, so the handler runs for every other exception *)
Inductive exn_class := KKeyError | KEOF | KException | KNotLib.

Inductive stmt :=
| SPass
| SSeq (a b : stmt)
| SAssign (x : ident) (e : expr)                   (* x = e *)
| SAssign2 (x y : ident) (e : expr)                (* x, y = e *)
| SAug (x : ident) (o : binop) (e : expr)          (* x o= e *)
| SExpr (e : expr)
| SIf (c : expr) (a b : stmt)
| SReturn (e : expr)
| SRaiseMem (msg addr : expr)                      (* raise FlipJumpRuntimeMemoryException(msg, addr) *)
| SMemSet (k v : expr)                             (* self.memory[k] = v *)
| SSetOpCounter (e : expr)                         (* statistics.op_counter = e *)
| STry (body : stmt) (k : exn_class) (handler : stmt)      (* try: body  except k: handler *)
| SForZB (x y : ident) (body : stmt)               (* for x, y in self.zeros_boundaries: body *)
| SFieldSet (f : ident) (e : expr)                 (* self.<f> = e *)
| SFieldAug (f : ident) (o : binop) (e : expr)     (* self.<f> o= e *)
| SRaiseExn (x : exn) (msg : expr)                 (* raise IOReadOnEOF(msg) / IncompleteOutput(msg) / library error *)
| SMemClear                                        (* self.memory = {} *)
| SFieldAppend (f : ident) (e : expr)              (* self.<f>.append(e) *)
| SFor (p : pattern) (it : expr) (body : stmt)     (* for p in it: body   (no break / else) *)
| SContinue                                        (* continue *)
| SFieldItemSet (f : ident) (k v : expr)           (* self.<f>[k] = v    on a list owned by the attribute *)
| SVarItemSet (x : ident) (k v : expr)             (* x[k] = v   on a dict held by the variable x (a parameter that is never
                                                      rebound: the caller's dict is the final value of x) *)
| SVarAppend (x : ident) (e : expr).               (* x.append(e) on a list that only the local variable x holds (x = [] once,
                                                      otherwise only appended to, iterated or copied by tuple(x)) *)

(* ---- 2. state and outcomes -------------------------------------------------------------------- *)
(* local variables (and the attributes of a device object): an association list, most recent binding first *)
Definition env := list (ident * value).
Fixpoint lookup (en : env) (x : ident) : option value :=
  match en with [] => None | (y, v) :: r => if Pos.eqb x y then Some v else lookup r x end.
Definition bind (en : env) (x : ident) (v : value) : env := (x, v) :: en.

(* the IO-device side (C17): the attributes of `self`, and sys.stdin / sys.stdout as character lists *)
Record dev := mkdev {
  d_self : env;            (* attributes of the device object; the translator prints the name table *)
  d_stdin : list N;        (* characters stdin will still deliver *)
  d_stdout : list N        (* the output stream, oldest first: the characters written to sys.stdout (devices) / the bytes
                              written to the file opened with `with open(.., 'wb')` (writer) *)
}.
Definition no_dev : dev := mkdev [] [] [].

(* everything outside the local variables that the subset can read or change *)
Record world := mkworld {
  w_mem : mem;             (* Reader.memory : dict word address -> word *)
  w_inp : list bool;       (* bits the IO device will still deliver *)
  w_out : list bool;       (* bits written to the IO device, most recent first *)
  w_hist : list N;         (* addresses given to register_op_address, most recent first *)
  w_opc : N;               (* statistics.op_counter *)
  w_dev : dev
}.
Definition with_mem (w : world) (pm : mem) : world := mkworld pm w.(w_inp) w.(w_out) w.(w_hist) w.(w_opc) w.(w_dev).
Definition with_dev (w : world) (d : dev) : world := mkworld w.(w_mem) w.(w_inp) w.(w_out) w.(w_hist) w.(w_opc) d.
Definition with_self (w : world) (o : env) : world := with_dev w (mkdev o w.(w_dev).(d_stdin) w.(w_dev).(d_stdout)).

(* the Reader's immutable fields *)
Record config := mkconfig {
  c_width : N;                     (* self.memory_width *)
  c_garbage : N;                   (* self.garbage_handling as an int (GarbageHandling.Stop = 0) *)
  c_zeros : list (N * N);          (* self.zeros_boundaries *)
  c_compress : list N -> option (list N)       (* what lzma.compress answers (None: LZMAError); only the writer uses it *)
}.

Inductive eres :=                       (* outcome of an expression *)
| EOk (v : value) (w : world)
| EExn (x : exn) (w : world)
| EUnsup.
Inductive ctl := CNormal | CReturn (v : value) | CRaise (x : exn) | CContinue.
Inductive sres :=                       (* outcome of a statement *)
| SOk (c : ctl) (en : env) (w : world)
| SUnsup.

(* evaluate r, then continue with its value *)
Definition andthen (r : eres) (k : value -> world -> eres) : eres :=
  match r with EOk v w => k v w | EExn x w => EExn x w | EUnsup => EUnsup end.

(* ---- 3. operators ------------------------------------------------------------------------------ *)
(* an int as a Z and back *)
Definition of_Z (z : Z) : value := match z with Zneg p => VNeg p | _ => VInt (Z.to_N z) end.
Definition int_Z (v : value) : option Z :=
  match v with VInt n => Some (Z.of_N n) | VNeg p => Some (Zneg p) | _ => None end.
Definition num_Z (v : value) : option Z :=                  (* in arithmetic a bool is 0 / 1 *)
  match v with VBool b => Some (Z.b2z b) | _ => int_Z v end.

(* arithmetic in Z: used when an operand is negative *)
Definition z_bin (o : binop) (x y : Z) : option value :=
  match o with
  | Add => Some (of_Z (x + y)%Z)
  | Sub => Some (of_Z (x - y)%Z)
  | Mul => Some (of_Z (x * y)%Z)
  | BAnd => Some (of_Z (Z.land x y))
  | BOr => Some (of_Z (Z.lor x y))
  | BXor => Some (of_Z (Z.lxor x y))
  | Shl => if (y <? 0)%Z then None else Some (of_Z (Z.shiftl x y))
  | Shr => if (y <? 0)%Z then None else Some (of_Z (Z.shiftr x y))
  | Mod => if (y =? 0)%Z then None else Some (of_Z (x mod y)%Z)     (* the sign of the divisor, as in Python *)
  end.
Definition z_cmp (o : cmpop) (x y : Z) : bool :=
  match o with
  | Eq => (x =? y)%Z | NotEq => negb (x =? y)%Z
  | Lt => (x <? y)%Z | LtE => (x <=? y)%Z | Gt => (y <? x)%Z | GtE => (y <=? x)%Z
  end.

(* the same on two ints that are not negative (PyIRProps.int_bin_is_z_bin: it is z_bin) *)
Definition int_bin (o : binop) (x y : N) : option value :=
  match o with
  | Add => Some (VInt (x + y))
  | Sub => if y <=? x then Some (VInt (x - y)) else Some (of_Z (Z.of_N x - Z.of_N y))
  | Mul => Some (VInt (x * y))
  | BAnd => Some (VInt (N.land x y))
  | BOr => Some (VInt (N.lor x y))
  | BXor => Some (VInt (N.lxor x y))
  | Shl => Some (VInt (N.shiftl x y))
  | Shr => Some (VInt (N.shiftr x y))
  | Mod => if y =? 0 then None else Some (VInt (x mod y))
  end.
Definition bin (o : binop) (a b : value) : option value :=
  match a, b with
  | VInt x, VInt y => int_bin o x y
  | VBool p, VInt y => int_bin o (N.b2n p) y                  (* a bool in arithmetic is 0 / 1 *)
  | VInt x, VBool q => int_bin o x (N.b2n q)
  | VBytes x, VBytes y => match o with Add => Some (VBytes (x ++ y)) | _ => None end
  | VList x, VList y => match o with Add => Some (VList (x ++ y)) | _ => None end
  | VBool _, VBool _ => None
  | _, _ => match num_Z a, num_Z b with Some x, Some y => z_bin o x y | _, _ => None end     (* a negative int is involved *)
  end.

Definition cmp (o : cmpop) (a b : value) : option bool :=
  match a, b with
  | VInt x, VInt y =>
    Some match o with
         | Eq => x =? y | NotEq => negb (x =? y)
         | Lt => x <? y | LtE => x <=? y | Gt => y <? x | GtE => y <=? x
         end
  | _, _ => match int_Z a, int_Z b with Some x, Some y => Some (z_cmp o x y) | _, _ => None end
  end.

(* bool(v) *)
Definition truth (v : value) : option bool :=
  match v with
  | VInt n => Some (negb (n =? 0))
  | VNeg _ => Some true
  | VBool b => Some b
  | VNone => Some false
  | VBytes l => Some (match l with [] => false | _ :: _ => true end)
  | VList l => Some (match l with [] => false | _ :: _ => true end)
  | VDict l => Some (match l with [] => false | _ :: _ => true end)
  | VText l => Some (match l with [] => false | _ :: _ => true end)
  | _ => None
  end.

(* what a `for` / comprehension iterates over *)
Definition as_list (v : value) : option (list value) :=
  match v with VList l => Some l | VPair a b => Some [a; b] | _ => None end.
Fixpoint enumerate_from (k : N) (l : list value) : list value :=
  match l with [] => [] | x :: r => VPair (VInt k) x :: enumerate_from (k + 1) r end.
Fixpoint truths (l : list value) : option (list bool) :=
  match l with
  | [] => Some []
  | x :: r => match truth x, truths r with Some b, Some bs => Some (b :: bs) | _, _ => None end
  end.
(* l[k] = v *)
Fixpoint set_item (l : list value) (k : nat) (v : value) : option (list value) :=
  match l, k with
  | [], _ => None                                            (* IndexError *)
  | _ :: r, O => Some (v :: r)
  | x :: r, S k' => option_map (cons x) (set_item r k' v)
  end.

(* dicts: keys are ints or data strings *)
Fixpoint text_eqb (a b : list N) : bool :=
  match a, b with [], [] => true | x :: a', y :: b' => (x =? y) && text_eqb a' b' | _, _ => false end.
Definition key_eqb (a b : value) : option bool :=
  match a, b with
  | VText x, VText y => Some (text_eqb x y)
  | VText _, (VInt _ | VNeg _) | (VInt _ | VNeg _), VText _ => Some false
  | _, _ => match int_Z a, int_Z b with Some x, Some y => Some (x =? y)%Z | _, _ => None end
  end.
Fixpoint dict_get (d : list (value * value)) (k : value) : option (option value) :=   (* None: Unsupported key; Some None: KeyError *)
  match d with
  | [] => match k with VText _ | VInt _ | VNeg _ => Some None | _ => None end
  | (k', v) :: r => match key_eqb k' k with Some true => Some (Some v) | Some false => dict_get r k | None => None end
  end.
(* d[k] = v keeps the position of an existing key and appends a new one *)
Fixpoint dict_set (d : list (value * value)) (k v : value) : option (list (value * value)) :=
  match d with
  | [] => match k with VText _ | VInt _ | VNeg _ => Some [(k, v)] | _ => None end
  | (k', x) :: r =>
    match key_eqb k' k with
    | Some true => Some ((k', v) :: r)
    | Some false => option_map (cons (k', x)) (dict_set r k v)
    | None => None
    end
  end.
(* s in l on data strings *)
Fixpoint text_prefix (s l : list N) : bool :=
  match s, l with [], _ => true | x :: s', y :: l' => (x =? y) && text_prefix s' l' | _ :: _, [] => false end.
Fixpoint text_in (s l : list N) : bool :=
  text_prefix s l || match l with [] => false | _ :: l' => text_in s l' end.
Fixpoint join_texts (l : list value) : option (list N) :=
  match l with
  | [] => Some []
  | VText x :: r => option_map (app x) (join_texts r)
  | _ => None
  end.

(* x[k]: IndexError outside the sequence *)
Definition index (v : value) (k : N) : option (option value) :=      (* None: not a sequence; Some None: IndexError *)
  match v with
  | VBytes l => Some (option_map VInt (nth_error l (N.to_nat k)))
  | VList l => Some (nth_error l (N.to_nat k))
  | _ => None
  end.

(* range(lo, hi, step), step > 0 *)
Fixpoint range_from (n : nat) (lo step : N) : list value :=
  match n with O => [] | S k => VInt lo :: range_from k (lo + step) step end.
Definition range_list (lo hi step : N) : option (list value) :=
  if step =? 0 then None
  else Some (range_from (N.to_nat ((hi - lo + (step - 1)) / step)) lo step).

(* bind the targets of a for / comprehension to one element *)
Fixpoint bind_pat (p : pattern) (v : value) (en : env) {struct p} : option env :=
  match p with
  | PVar x => Some (bind en x v)
  | PTuple ps =>
    let fix go (ps : list pattern) (vs : list value) (en : env) : option env :=
      match ps, vs with
      | [], [] => Some en
      | q :: ps', u :: vs' => match bind_pat q u en with Some en1 => go ps' vs' en1 | None => None end
      | _, _ => None                                       (* ValueError: wrong number of values to unpack *)
      end in
    match v with
    | VList vs => go ps vs en
    | VPair a b => go ps [a; b] en
    | _ => None
    end
  end.

(* sorted() on pairs of ints: insertion sort by (first, second); any sort of such pairs gives this list *)
Definition pair_leb (a b : N * N) : bool := (fst a <? fst b) || ((fst a =? fst b) && (snd a <=? snd b)).
Fixpoint insert_pair (x : N * N) (l : list (N * N)) : list (N * N) :=
  match l with [] => [x] | y :: r => if pair_leb x y then x :: l else y :: insert_pair x r end.
Definition sort_pairs (l : list (N * N)) : list (N * N) := fold_right insert_pair [] l.
Fixpoint int_pairs (l : list value) : option (list (N * N)) :=
  match l with
  | [] => Some []
  | VPair (VInt a) (VInt b) :: r => option_map (cons (a, b)) (int_pairs r)
  | _ => None
  end.
Fixpoint zip_values (a b : list value) : list value :=
  match a, b with x :: a', y :: b' => VPair x y :: zip_values a' b' | _, _ => [] end.

(* struct.pack of one unsigned little-endian field of n bytes; None = struct.error (not an int / out of range) *)
Definition pack_field (n : nat) (v : value) : option (list N) :=
  match int_Z v with
  | Some z => if ((0 <=? z) && (z <? 256 ^ Z.of_nat n))%Z then Some (le_enc n (Z.to_N z)) else None
  | None => None
  end.
(* one field per size; the number of arguments must be the number of fields *)
Fixpoint pack_fields (sizes : list nat) (args : list value) : option (list N) :=
  match sizes, args with
  | [], [] => Some []
  | n :: sizes', v :: args' =>
    match pack_field n v, pack_fields sizes' args' with Some b, Some r => Some (b ++ r) | _, _ => None end
  | _, _ => None
  end.
Fixpoint pack_same (n : nat) (args : list value) : option (list N) :=
  match args with
  | [] => Some []
  | v :: r => match pack_field n v, pack_same n r with Some b, Some rest => Some (b ++ rest) | _, _ => None end
  end.
Fixpoint table_get (l : list (N * N)) (k : N) : option N :=
  match l with [] => None | (a, v) :: r => if a =? k then Some v else table_get r k end.

(* one byte <-> one character, the part of raw_unicode_escape that is the identity *)
Definition all_below_256 (l : list N) : bool := forallb (fun c => c <? 256) l.

(* isinstance(v, int) / isinstance(v, str): bool is a subclass of int; every other value is of neither class *)
Definition is_inst (t : pytype) (v : value) : bool :=
  match t, v with
  | TInt, (VInt _ | VNeg _ | VBool _) => true
  | TStr, (VText _ | VStr) => true
  | _, _ => false
  end.

Definition lift (o : option value) (w : world) : eres :=
  match o with Some v => EOk v w | None => EUnsup end.
Definition lift_bool (o : option bool) (w : world) : eres :=
  match o with Some b => EOk (VBool b) w | None => EUnsup end.
Definition all_bound (en : env) (xs : list ident) : bool :=
  forallb (fun x => match lookup en x with Some _ => true | None => false end) xs.

(* ---- 4. eval / exec ---------------------------------------------------------------------------- *)
(* `for p in l: step`, where a return / raise inside `step` leaves the loop *)
Fixpoint for_pairs (step : N * N -> env -> world -> sres) (l : list (N * N)) (en : env) (w : world) : sres :=
  match l with
  | [] => SOk CNormal en w
  | p :: r => match step p en w with
              | SOk CNormal en1 w1 | SOk CContinue en1 w1 => for_pairs step r en1 w1
              | other => other
              end
  end.

(* `for v in l: step`, where a return / raise inside `step` leaves the loop *)
Fixpoint for_each (step : value -> env -> world -> sres) (l : list value) (en : env) (w : world) : sres :=
  match l with
  | [] => SOk CNormal en w
  | v :: r => match step v en w with
              | SOk CNormal en1 w1 | SOk CContinue en1 w1 => for_each step r en1 w1      (* `continue` ends this round only *)
              | other => other
              end
  end.
(* [f v for v in l]: the elements are computed in order; an exception stops the comprehension *)
Fixpoint comp_loop (f : value -> world -> eres) (l : list value) (w : world) : eres :=
  match l with
  | [] => EOk (VList []) w
  | v :: r =>
    andthen (f v w) (fun x w1 => andthen (comp_loop f r w1) (fun rest w2 =>
      match rest with VList xs => EOk (VList (x :: xs)) w2 | _ => EUnsup end))
  end.

Section Interp.
Variable cfg : config.
Variable call : fname -> list value -> world -> eres.     (* how a call is performed; closed by [call_at] below *)

(* sub-expressions are evaluated left to right; the world threads through because calls can change it *)
Fixpoint eval (en : env) (e : expr) (w : world) : eres :=
  match e with
  | EInt n => EOk (VInt n) w
  | EBool b => EOk (VBool b) w
  | ENone => EOk VNone w
  | EStr reads => if all_bound en reads then EOk VStr w else EUnsup
  | EVar x => lift (lookup en x) w
  | EAttr A_memory_width => EOk (VInt cfg.(c_width)) w
  | EAttr A_garbage_handling => EOk (VInt cfg.(c_garbage)) w
  | EBin o a b => andthen (eval en a w) (fun va w1 => andthen (eval en b w1) (fun vb w2 => lift (bin o va vb) w2))
  | ECmp o a b => andthen (eval en a w) (fun va w1 => andthen (eval en b w1) (fun vb w2 => lift_bool (cmp o va vb) w2))
  | ECmp3 a o1 b o2 c =>
      andthen (eval en a w) (fun va w1 => andthen (eval en b w1) (fun vb w2 =>
        match cmp o1 va vb with
        | None => EUnsup
        | Some false => EOk (VBool false) w2                     (* c is not evaluated *)
        | Some true => andthen (eval en c w2) (fun vc w3 => lift_bool (cmp o2 vb vc) w3)
        end))
  | ENot a => andthen (eval en a w) (fun va w1 => lift_bool (option_map negb (truth va)) w1)
  | EAnd a b => andthen (eval en a w) (fun va w1 =>             (* `a and b` is a when a is false, else b *)
        match truth va with None => EUnsup | Some false => EOk va w1 | Some true => eval en b w1 end)
  | EOr a b => andthen (eval en a w) (fun va w1 =>
        match truth va with None => EUnsup | Some true => EOk va w1 | Some false => eval en b w1 end)
  | EBitLength a => andthen (eval en a w) (fun va w1 =>
        match va with VInt n => EOk (VInt (N.size n)) w1 | _ => EUnsup end)
  | EPair a b => andthen (eval en a w) (fun va w1 => andthen (eval en b w1) (fun vb w2 => EOk (VPair va vb) w2))
  | EMemHas k => andthen (eval en k w) (fun vk w1 =>
        match vk with
        | VInt a => EOk (VBool (match mget w1.(w_mem) a with Some _ => true | None => false end)) w1
        | _ => EUnsup
        end)
  | EMemGet k => andthen (eval en k w) (fun vk w1 =>
        match vk with
        | VInt a => match mget w1.(w_mem) a with Some v => EOk (VInt v) w1 | None => EExn XKeyError w1 end
        | _ => EUnsup
        end)
  | ECall0 f => call f [] w
  | ECall1 f a => andthen (eval en a w) (fun va w1 => call f [va] w1)
  | ECall2 f a b => andthen (eval en a w) (fun va w1 => andthen (eval en b w1) (fun vb w2 => call f [va; vb] w2))
  | ECall3 f a b c => andthen (eval en a w) (fun va w1 => andthen (eval en b w1) (fun vb w2 =>
        andthen (eval en c w2) (fun vc w3 => call f [va; vb; vc] w3)))
  | ECall4 f a b c d => andthen (eval en a w) (fun va w1 => andthen (eval en b w1) (fun vb w2 =>
        andthen (eval en c w2) (fun vc w3 => andthen (eval en d w3) (fun vd w4 => call f [va; vb; vc; vd] w4))))
  | ETerm c => EOk (VTerm c) w
  | EUnsupported => EUnsup
  | EField f => lift (lookup w.(w_dev).(d_self) f) w            (* an unset attribute (AttributeError) is Unsupported *)
  | EBytes l => EOk (VBytes l) w
  | EIndex a i => andthen (eval en a w) (fun va w1 => andthen (eval en i w1) (fun vi w2 =>
        match va, vi with
        | VDict d, _ => match dict_get d vi with
                        | Some (Some x) => EOk x w2
                        | Some None => EExn XKeyError w2
                        | None => EUnsup
                        end
        | _, VInt k => match index va k with
                       | Some (Some x) => EOk x w2
                       | Some None => EExn XIndex w2
                       | None => EUnsup
                       end
        | _, _ => EUnsup
        end))
  | ESliceFrom a i => andthen (eval en a w) (fun va w1 => andthen (eval en i w1) (fun vi w2 =>
        match va, vi with
        | VBytes l, VInt k => EOk (VBytes (skipn (N.to_nat k) l)) w2
        | VList l, VInt k => EOk (VList (skipn (N.to_nat k) l)) w2
        | _, _ => EUnsup
        end))
  | ELen a => andthen (eval en a w) (fun va w1 =>
        match va with
        | VBytes l => EOk (VInt (N.of_nat (length l))) w1
        | VList l => EOk (VInt (N.of_nat (length l))) w1
        | _ => EUnsup
        end)
  | EToBytes1 a => andthen (eval en a w) (fun va w1 =>
        match va with
        | VInt n => if n <? 256 then EOk (VBytes [n]) w1 else EExn XOverflow w1
        | _ => EUnsup
        end)
  | EEncode a => andthen (eval en a w) (fun va w1 =>
        match va with VText l => if all_below_256 l then EOk (VBytes l) w1 else EUnsup | _ => EUnsup end)
  | EDecode a => andthen (eval en a w) (fun va w1 =>
        match va with VBytes l => if all_below_256 l then EOk (VText l) w1 else EUnsup | _ => EUnsup end)
  | ENil => EOk (VList []) w
  | ERange lo hi step => andthen (eval en lo w) (fun vl w1 => andthen (eval en hi w1) (fun vh w2 =>
        andthen (eval en step w2) (fun vs w3 =>
          match vl, vh, vs with
          | VInt a, VInt b, VInt s => lift (option_map VList (range_list a b s)) w3
          | VInt _, VNeg _, VInt s => if s =? 0 then EUnsup else EOk (VList []) w3      (* the stop is below the start *)
          | _, _, _ => EUnsup
          end)))
  | EListComp elt p it => andthen (eval en it w) (fun vi w1 =>     (* the targets are local to the comprehension *)
        match as_list vi with
        | Some l => comp_loop (fun v w' => match bind_pat p v en with Some en' => eval en' elt w' | None => EUnsup end) l w1
        | None => EUnsup
        end)
  | ESorted a => andthen (eval en a w) (fun va w1 =>
        match va with
        | VList l => match int_pairs l with
                     | Some ps => EOk (VList (map (fun q => VPair (VInt (fst q)) (VInt (snd q))) (sort_pairs ps))) w1
                     | None => EUnsup
                     end
        | _ => EUnsup
        end)
  | EZip a b => andthen (eval en a w) (fun va w1 => andthen (eval en b w1) (fun vb w2 =>
        match va, vb with VList x, VList y => EOk (VList (zip_values x y)) w2 | _, _ => EUnsup end))
  | ECons a r => andthen (eval en a w) (fun va w1 => andthen (eval en r w1) (fun vr w2 =>
        match vr with VList xs => EOk (VList (va :: xs)) w2 | _ => EUnsup end))
  | EEnumerate a => andthen (eval en a w) (fun va w1 =>
        match as_list va with Some l => EOk (VList (enumerate_from 0 l)) w1 | None => EUnsup end)
  | EAny a => andthen (eval en a w) (fun va w1 =>
        match va with
        | VList l => lift_bool (option_map (existsb (fun b => b)) (truths l)) w1
        | _ => EUnsup
        end)
  | EFormat a => andthen (eval en a w) (fun _ w1 => EOk VStr w1)
  | EHex a => andthen (eval en a w) (fun va w1 => match int_Z va with Some _ => EOk VStr w1 | None => EUnsup end)
  | EDictGet l k => andthen (eval en k w) (fun vk w1 =>
        match vk with
        | VInt a => match table_get l a with Some v => EOk (VInt v) w1 | None => EExn XKeyError w1 end
        | VNeg _ => EExn XKeyError w1
        | _ => EUnsup
        end)
  | EPack sizes args => andthen (eval en args w) (fun va w1 =>
        match va with
        | VList l => match pack_fields sizes l with Some b => EOk (VBytes b) w1 | None => EExn XStruct w1 end
        | _ => EUnsup
        end)
  | EPackN count size args => andthen (eval en count w) (fun vc w1 => andthen (eval en size w1) (fun vs w2 =>
        andthen (eval en args w2) (fun va w3 =>
          match vc, vs, va with
          | VInt n, VInt s, VList l =>
            if n =? N.of_nat (length l)
            then match pack_same (N.to_nat s) l with Some b => EOk (VBytes b) w3 | None => EExn XStruct w3 end
            else EExn XStruct w3                         (* pack expected n items for packing *)
          | _, _, _ => EUnsup
          end)))
  | EIn a b => andthen (eval en a w) (fun va w1 => andthen (eval en b w1) (fun vb w2 =>
        match vb, va with
        | VDict d, _ => match dict_get d va with Some r => EOk (VBool (match r with Some _ => true | None => false end)) w2
                                               | None => EUnsup end
        | VText l, VText s => EOk (VBool (text_in s l)) w2
        | _, _ => EUnsup
        end))
  | ETupleOf a => andthen (eval en a w) (fun va w1 =>
        match va with
        | VDict d => EOk (VList (map fst d)) w1
        | VList l => EOk (VList l) w1
        | _ => EUnsup
        end)
  | EReverse a => andthen (eval en a w) (fun va w1 => match va with VList l => EOk (VList (rev l)) w1 | _ => EUnsup end)
  | ETextLit l => EOk (VText l) w
  | EJoinText a => andthen (eval en a w) (fun va w1 =>
        match va with VList l => lift (option_map VText (join_texts l)) w1 | _ => EUnsup end)
  | EIsInst t a => andthen (eval en a w) (fun va w1 => EOk (VBool (is_inst t va)) w1)
  | EIsNone a => andthen (eval en a w) (fun va w1 => EOk (VBool (match va with VNone => true | _ => false end)) w1)
  | EValueOf a => andthen (eval en a w) (fun va w1 => match va with VObj v => EOk v w1 | _ => EUnsup end)
  | EMkObj a => andthen (eval en a w) (fun va w1 => EOk (VObj va) w1)
  | EGetOpt d k => andthen (eval en d w) (fun vd w1 => andthen (eval en k w1) (fun vk w2 =>
        match vd with
        | VDict items => match dict_get items vk with
                         | Some (Some x) => EOk x w2
                         | Some None => EOk VNone w2
                         | None => EUnsup
                         end
        | _ => EUnsup
        end))
  end.

(* run an expression inside a statement: a value continues, an exception becomes the statement's outcome *)
Definition on_value (en : env) (r : eres) (k : value -> world -> sres) : sres :=
  match r with EOk v w => k v w | EExn x w => SOk (CRaise x) en w | EUnsup => SUnsup end.

Definition catches (k : exn_class) (x : exn) : bool :=
  match k, x with
  | KKeyError, XKeyError => true
  | KEOF, XEOF => true
  | KException, _ => true
  | KNotLib, XLib _ => false
  | KNotLib, _ => true
  | _, _ => false
  end.

Fixpoint exec (s : stmt) (en : env) (w : world) : sres :=
  match s with
  | SPass => SOk CNormal en w
  | SSeq a b => match exec a en w with SOk CNormal en1 w1 => exec b en1 w1 | other => other end
  | SAssign x e => on_value en (eval en e w) (fun v w1 => SOk CNormal (bind en x v) w1)
  | SAssign2 x y e => on_value en (eval en e w) (fun v w1 =>
        match v with VPair a b => SOk CNormal (bind (bind en x a) y b) w1 | _ => SUnsup end)
  | SAug x o e =>                                  (* ints are immutable: x o= e  is  x = x o e, x read first *)
        match lookup en x with
        | None => SUnsup
        | Some vx => on_value en (eval en e w) (fun v w1 =>
            match bin o vx v with Some r => SOk CNormal (bind en x r) w1 | None => SUnsup end)
        end
  | SExpr e => on_value en (eval en e w) (fun _ w1 => SOk CNormal en w1)
  | SIf c a b => on_value en (eval en c w) (fun v w1 =>
        match truth v with None => SUnsup | Some true => exec a en w1 | Some false => exec b en w1 end)
  | SReturn e => on_value en (eval en e w) (fun v w1 => SOk (CReturn v) en w1)
  | SRaiseMem msg addr => on_value en (eval en msg w) (fun _ w1 => on_value en (eval en addr w1) (fun v w2 =>
        match v with VInt a => SOk (CRaise (XMemory a)) en w2 | _ => SUnsup end))
  | SMemSet k v =>                                 (* CPython evaluates the right-hand side first *)
        on_value en (eval en v w) (fun vv w1 => on_value en (eval en k w1) (fun vk w2 =>
          match vk, vv with
          | VInt a, VInt x => SOk CNormal en (with_mem w2 (mset w2.(w_mem) a x))
          | _, _ => SUnsup
          end))
  | SSetOpCounter e => on_value en (eval en e w) (fun v w1 =>
        match v with
        | VInt n => SOk CNormal en (mkworld w1.(w_mem) w1.(w_inp) w1.(w_out) w1.(w_hist) n w1.(w_dev))
        | _ => SUnsup
        end)
  | STry body k handler =>
        match exec body en w with
        | SOk (CRaise x) en1 w1 => if catches k x then exec handler en1 w1 else SOk (CRaise x) en1 w1
        | other => other
        end
  | SForZB x y body =>
        for_pairs (fun p en w => exec body (bind (bind en x (VInt (fst p))) y (VInt (snd p))) w) cfg.(c_zeros) en w
  | SFieldSet f e => on_value en (eval en e w) (fun v w1 =>
        SOk CNormal en (with_self w1 (bind w1.(w_dev).(d_self) f v)))
  | SFieldAug f o e =>                             (* the attribute is read first, as for SAug *)
        match lookup w.(w_dev).(d_self) f with
        | None => SUnsup
        | Some vf => on_value en (eval en e w) (fun v w1 =>
            match bin o vf v with
            | Some r => SOk CNormal en (with_self w1 (bind w1.(w_dev).(d_self) f r))
            | None => SUnsup
            end)
        end
  | SRaiseExn x msg => on_value en (eval en msg w) (fun _ w1 => SOk (CRaise x) en w1)
  | SMemClear => SOk CNormal en (with_mem w (PositiveMap.empty N))
  | SFieldAppend f e =>                            (* the attribute (its bound method) is looked up first *)
        match lookup w.(w_dev).(d_self) f with
        | Some (VList l) => on_value en (eval en e w) (fun v w1 =>
            SOk CNormal en (with_self w1 (bind w1.(w_dev).(d_self) f (VList (l ++ [v])))))
        | _ => SUnsup
        end
  | SFor p it body => on_value en (eval en it w) (fun vi w1 =>
        match as_list vi with
        | Some l => for_each (fun v en1 w2 => match bind_pat p v en1 with Some en2 => exec body en2 w2 | None => SUnsup end)
                             l en w1
        | None => SUnsup
        end)
  | SVarItemSet x k v =>
        on_value en (eval en v w) (fun vv w1 => on_value en (eval en k w1) (fun vk w2 =>
          match lookup en x with
          | Some (VDict d) => match dict_set d vk vv with Some d' => SOk CNormal (bind en x (VDict d')) w2 | None => SUnsup end
          | _ => SUnsup
          end))
  | SContinue => SOk CContinue en w
  | SFieldItemSet f k v =>                         (* right-hand side first, then the subscript, as for SMemSet *)
        on_value en (eval en v w) (fun vv w1 => on_value en (eval en k w1) (fun vk w2 =>
          match lookup w2.(w_dev).(d_self) f, vk with
          | Some (VList l), VInt i =>
            match set_item l (N.to_nat i) vv with
            | Some l' => SOk CNormal en (with_self w2 (bind w2.(w_dev).(d_self) f (VList l')))
            | None => SOk (CRaise XIndex) en w2
            end
          | _, _ => SUnsup
          end))
  | SVarAppend x e =>                              (* the list (its bound method) is looked up first *)
        match lookup en x with
        | Some (VList l) => on_value en (eval en e w) (fun v w1 => SOk CNormal (bind en x (VList (l ++ [v]))) w1)
        | _ => SUnsup
        end
  end.
End Interp.

(* ---- 5. calls ---------------------------------------------------------------------------------- *)
(* methods of the IO device and of RunStatistics, by their documented meaning *)
Definition prim (cfg : config) (f : fname) (args : list value) (w : world) : option eres :=
  match f, args with
  | P_io_read_bit, [] =>                                        (* next input bit, IOReadOnEOF when exhausted *)
      Some match w.(w_inp) with
           | [] => EExn XEOF w
           | b :: r => EOk (VBool b) (mkworld w.(w_mem) r w.(w_out) w.(w_hist) w.(w_opc) w.(w_dev))
           end
  | P_io_write_bit, [VBool b] =>
      Some (EOk VNone (mkworld w.(w_mem) w.(w_inp) (b :: w.(w_out)) w.(w_hist) w.(w_opc) w.(w_dev)))
  | P_register_op_address, [VInt a] =>                          (* the last-ops ring: its content is the newest k *)
      Some (EOk VNone (mkworld w.(w_mem) w.(w_inp) w.(w_out) (a :: w.(w_hist)) w.(w_opc) w.(w_dev)))
  | P_register_op, [VInt _; VInt _; VInt _] =>                  (* op_counter += 1 (flip/jump counters not modelled) *)
      Some (EOk VNone (mkworld w.(w_mem) w.(w_inp) w.(w_out) w.(w_hist) (w.(w_opc) + 1) w.(w_dev)))
  | P_stdin_read, [VInt 1] =>                                   (* stdin.read(1): one character, '' at end of input *)
      Some match w.(w_dev).(d_stdin) with
           | [] => EOk (VText []) w
           | c :: r => EOk (VText [c]) (with_dev w (mkdev w.(w_dev).(d_self) r w.(w_dev).(d_stdout)))
           end
  | P_stdout_write, [VText l] =>
      Some (EOk (VInt (N.of_nat (length l)))                     (* the number of characters written *)
                (with_dev w (mkdev w.(w_dev).(d_self) w.(w_dev).(d_stdin) (w.(w_dev).(d_stdout) ++ l))))
  | P_stdout_flush, [] => Some (EOk VNone w)
  | P_file_open, [] =>                                          (* the file is created / truncated *)
      Some (EOk VNone (with_dev w (mkdev w.(w_dev).(d_self) w.(w_dev).(d_stdin) [])))
  | P_file_write, [VBytes b] =>
      Some (EOk (VInt (N.of_nat (length b)))
                (with_dev w (mkdev w.(w_dev).(d_self) w.(w_dev).(d_stdin) (w.(w_dev).(d_stdout) ++ b))))
  | P_print, [VText l] =>                                       (* print(s): the text and a newline on the output stream *)
      Some (EOk VNone (with_dev w (mkdev w.(w_dev).(d_self) w.(w_dev).(d_stdin) (w.(w_dev).(d_stdout) ++ l ++ [10]))))
  | P_compress_data, [VBytes b] =>
      Some match cfg.(c_compress) b with Some z => EOk (VBytes z) w | None => EExn (XLib 0) w end
  | (P_io_read_bit | P_io_write_bit | P_register_op_address | P_register_op
     | P_stdin_read | P_stdout_write | P_stdout_flush | P_file_open | P_file_write | P_compress_data | P_print), _ => Some EUnsup
  | _, _ => None
  end.

Definition fundef := (list ident * stmt)%type.                  (* parameters, body *)
Definition program := fname -> option fundef.

Fixpoint bind_params (ps : list ident) (args : list value) (en : env) : option env :=
  match ps, args with
  | [], [] => Some en
  | p :: ps', a :: args' => bind_params ps' args' (bind en p a)
  | _, _ => None
  end.

(* a call of a translated function runs its body in a fresh environment; falling off the end returns None.
   [depth] bounds the nesting of calls (the subset has no recursion; running out is Unsupported). *)
Fixpoint call_at (cfg : config) (prog : program) (depth : nat) (f : fname) (args : list value) (w : world) : eres :=
  match prim cfg f args w with
  | Some r => r
  | None =>
    match depth with
    | O => EUnsup
    | S d =>
      match prog f with
      | None => EUnsup
      | Some (params, body) =>
        match bind_params params args [] with
        | None => EUnsup
        | Some en =>
          match exec cfg (call_at cfg prog d) body en w with
          | SOk CNormal _ w1 => EOk VNone w1
          | SOk (CReturn v) _ w1 => EOk v w1
          | SOk (CRaise x) _ w1 => EExn x w1
          | SOk CContinue _ _ => EUnsup                  (* `continue` outside a loop does not compile *)
          | SUnsup => EUnsup
          end
        end
      end
    end
  end.
