(* PyIR - the Python subset used by fjm_reader.Reader's memory methods and by the two pure-Python run loops
   of fjm_run.py, as a deep embedding with an executable big-step interpreter.  No proofs here.

   THIS FILE IS PART OF THE TRUSTED BASE: it is "the meaning of the Python subset".
   harness/fjverif/gen_facts_engpy.py translates the CURRENT source into terms of [stmt] (coq/Gen/Facts_EngPy.v),
   coq/Tie/EngPy_tie.v proves that [exec] on those terms computes exactly the hand model Model/EngPy.v.
   It is meant to be audited in minutes; read it top to bottom:
     1. values / expressions / statements      (what can be written)
     2. outcomes                                (value, library exception, Unsupported)
     3. operators, eval / exec                  (one clause per construct, evaluation order as in CPython)
     4. prim / call_at                          (primitives of the IO device / RunStatistics, translated functions)

   Deliberate restrictions (every one of them is fail-closed: the interpreter answers [Unsupported], which is
   never equal to an outcome of the hand model, so a theorem of EngPy_tie.v cannot hold by accident):
     * Python ints are naturals (N, unbounded).  A subtraction whose result would be negative is Unsupported.
     * bool and int are kept apart: arithmetic on a bool, comparison of non-ints, truth value of a
       tuple/string are Unsupported.
     * reading an unbound variable is Unsupported (CPython: UnboundLocalError).
     * only GarbageHandling.Stop has a meaning: print(...) and sleep(...) are [EUnsupported]. *)
From FJ Require Import Lib.Base.
Local Open Scope N_scope.

(* ---- 1. syntax -------------------------------------------------------------------------------- *)
Definition ident := positive.          (* local variable; the translator prints the name table *)

Inductive value :=
| VInt (n : N)
| VBool (b : bool)
| VNone
| VPair (a b : value)                  (* the only tuples used: `return x, y` / `x, y = f(..)` *)
| VStr                                 (* a message string; its text is never observed *)
| VTerm (cause : N).                   (* TerminationStatistics(statistics, TerminationCause(cause)) *)

Inductive attr := A_memory_width | A_garbage_handling.     (* Reader.memory_width, Reader.garbage_handling *)

Inductive binop := Add | Sub | Mul | BAnd | BOr | BXor | Shl | Shr.
Inductive cmpop := Eq | NotEq | Lt | LtE | Gt | GtE.

(* functions that can be called.  F_* are translated from the source (their bodies come from the generated
   program table); P_* are methods of objects outside the translated subset and have a fixed meaning below. *)
Inductive fname :=
| F_get_memory_word | F_set_memory_word | F_bit_address_decompose | F_read_bit | F_write_bit | F_get_word
| F_new_garbage_val | F_handle_input | F_handle_output | F_trace_flip | F_trace_jump
| P_io_read_bit | P_io_write_bit            (* io_device.read_bit() / io_device.write_bit(b) *)
| P_register_op_address | P_register_op.    (* RunStatistics.register_op_address(ip) / register_op(ip, f, j) *)

Inductive expr :=
| EInt (n : N) | EBool (b : bool) | ENone
| EStr (reads : list ident)            (* string literal / f-string; `reads` = the variables it formats *)
| EVar (x : ident)
| EAttr (a : attr)
| EBin (o : binop) (a b : expr)
| ECmp (o : cmpop) (a b : expr)                            (* a o b *)
| ECmp3 (a : expr) (o1 : cmpop) (b : expr) (o2 : cmpop) (c : expr)   (* a o1 b o2 c : b evaluated once *)
| ENot (a : expr) | EAnd (a b : expr) | EOr (a b : expr)
| EBitLength (a : expr)                (* a.bit_length() *)
| EPair (a b : expr)
| EMemHas (k : expr)                   (* k in self.memory *)
| EMemGet (k : expr)                   (* self.memory[k]  - KeyError when absent *)
| ECall0 (f : fname) | ECall1 (f : fname) (a : expr) | ECall2 (f : fname) (a b : expr)
| ECall3 (f : fname) (a b c : expr)
| ETerm (cause : N)                    (* TerminationStatistics(statistics, TerminationCause.<cause>) *)
| EUnsupported.                        (* print(..), sleep(..), breakpoint machinery *)

Inductive exn :=
| XKeyError                            (* KeyError of a dict read *)
| XMemory (addr : N)                   (* FlipJumpRuntimeMemoryException(message, addr) *)
| XEOF.                                (* IOReadOnEOF *)
Inductive exn_class := KKeyError | KEOF.       (* what an `except` clause of the subset can name *)

Inductive stmt :=
| SPass
| SSeq (a b : stmt)
| SAssign (x : ident) (e : expr)                   (* x = e *)
| SAssign2 (x y : ident) (e : expr)                (* x, y = e *)
| SAug (x : ident) (o : binop) (e : expr)          (* x o= e *)
| SExpr (e : expr)
| SIf (c : expr) (a b : stmt)
| SReturn (e : expr)
| SRaiseMem (msg addr : expr)                      (* raise FlipJumpRuntimeMemoryException(msg, addr) *)
| SMemSet (k v : expr)                             (* self.memory[k] = v *)
| SSetOpCounter (e : expr)                         (* statistics.op_counter = e *)
| STry (body : stmt) (k : exn_class) (handler : stmt)      (* try: body  except k: handler *)
| SForZB (x y : ident) (body : stmt).              (* for x, y in self.zeros_boundaries: body *)

(* ---- 2. state and outcomes -------------------------------------------------------------------- *)
(* everything outside the local variables that the subset can read or change *)
Record world := mkworld {
  w_mem : mem;             (* Reader.memory : dict word address -> word *)
  w_inp : list bool;       (* bits the IO device will still deliver *)
  w_out : list bool;       (* bits written to the IO device, most recent first *)
  w_hist : list N;         (* addresses given to register_op_address, most recent first *)
  w_opc : N                (* statistics.op_counter *)
}.
Definition with_mem (w : world) (pm : mem) : world := mkworld pm w.(w_inp) w.(w_out) w.(w_hist) w.(w_opc).

(* the Reader's immutable fields *)
Record config := mkconfig {
  c_width : N;                     (* self.memory_width *)
  c_garbage : N;                   (* self.garbage_handling as an int (GarbageHandling.Stop = 0) *)
  c_zeros : list (N * N)           (* self.zeros_boundaries *)
}.

(* local variables: an association list, most recent binding first *)
Definition env := list (ident * value).
Fixpoint lookup (en : env) (x : ident) : option value :=
  match en with [] => None | (y, v) :: r => if Pos.eqb x y then Some v else lookup r x end.
Definition bind (en : env) (x : ident) (v : value) : env := (x, v) :: en.

Inductive eres :=                       (* outcome of an expression *)
| EOk (v : value) (w : world)
| EExn (x : exn) (w : world)
| EUnsup.
Inductive ctl := CNormal | CReturn (v : value) | CRaise (x : exn).
Inductive sres :=                       (* outcome of a statement *)
| SOk (c : ctl) (en : env) (w : world)
| SUnsup.

(* evaluate r, then continue with its value *)
Definition andthen (r : eres) (k : value -> world -> eres) : eres :=
  match r with EOk v w => k v w | EExn x w => EExn x w | EUnsup => EUnsup end.

(* ---- 3. operators ------------------------------------------------------------------------------ *)
Definition bin (o : binop) (a b : value) : option value :=
  match a, b with
  | VInt x, VInt y =>
    match o with
    | Add => Some (VInt (x + y))
    | Sub => if y <=? x then Some (VInt (x - y)) else None      (* negative results are not modelled *)
    | Mul => Some (VInt (x * y))
    | BAnd => Some (VInt (N.land x y))
    | BOr => Some (VInt (N.lor x y))
    | BXor => Some (VInt (N.lxor x y))
    | Shl => Some (VInt (N.shiftl x y))
    | Shr => Some (VInt (N.shiftr x y))
    end
  | _, _ => None
  end.

Definition cmp (o : cmpop) (a b : value) : option bool :=
  match a, b with
  | VInt x, VInt y =>
    Some match o with
         | Eq => x =? y | NotEq => negb (x =? y)
         | Lt => x <? y | LtE => x <=? y | Gt => y <? x | GtE => y <=? x
         end
  | _, _ => None
  end.

(* bool(v) *)
Definition truth (v : value) : option bool :=
  match v with
  | VInt n => Some (negb (n =? 0))
  | VBool b => Some b
  | VNone => Some false
  | _ => None
  end.

Definition lift (o : option value) (w : world) : eres :=
  match o with Some v => EOk v w | None => EUnsup end.
Definition lift_bool (o : option bool) (w : world) : eres :=
  match o with Some b => EOk (VBool b) w | None => EUnsup end.
Definition all_bound (en : env) (xs : list ident) : bool :=
  forallb (fun x => match lookup en x with Some _ => true | None => false end) xs.

(* ---- 4. eval / exec ---------------------------------------------------------------------------- *)
(* `for p in l: step`, where a return / raise inside `step` leaves the loop *)
Fixpoint for_pairs (step : N * N -> env -> world -> sres) (l : list (N * N)) (en : env) (w : world) : sres :=
  match l with
  | [] => SOk CNormal en w
  | p :: r => match step p en w with SOk CNormal en1 w1 => for_pairs step r en1 w1 | other => other end
  end.

Section Interp.
Variable cfg : config.
Variable call : fname -> list value -> world -> eres.     (* how a call is performed; closed by [call_at] below *)

(* sub-expressions are evaluated left to right; the world threads through because calls can change it *)
Fixpoint eval (en : env) (e : expr) (w : world) : eres :=
  match e with
  | EInt n => EOk (VInt n) w
  | EBool b => EOk (VBool b) w
  | ENone => EOk VNone w
  | EStr reads => if all_bound en reads then EOk VStr w else EUnsup
  | EVar x => lift (lookup en x) w
  | EAttr A_memory_width => EOk (VInt cfg.(c_width)) w
  | EAttr A_garbage_handling => EOk (VInt cfg.(c_garbage)) w
  | EBin o a b => andthen (eval en a w) (fun va w1 => andthen (eval en b w1) (fun vb w2 => lift (bin o va vb) w2))
  | ECmp o a b => andthen (eval en a w) (fun va w1 => andthen (eval en b w1) (fun vb w2 => lift_bool (cmp o va vb) w2))
  | ECmp3 a o1 b o2 c =>
      andthen (eval en a w) (fun va w1 => andthen (eval en b w1) (fun vb w2 =>
        match cmp o1 va vb with
        | None => EUnsup
        | Some false => EOk (VBool false) w2                     (* c is not evaluated *)
        | Some true => andthen (eval en c w2) (fun vc w3 => lift_bool (cmp o2 vb vc) w3)
        end))
  | ENot a => andthen (eval en a w) (fun va w1 => lift_bool (option_map negb (truth va)) w1)
  | EAnd a b => andthen (eval en a w) (fun va w1 =>             (* `a and b` is a when a is false, else b *)
        match truth va with None => EUnsup | Some false => EOk va w1 | Some true => eval en b w1 end)
  | EOr a b => andthen (eval en a w) (fun va w1 =>
        match truth va with None => EUnsup | Some true => EOk va w1 | Some false => eval en b w1 end)
  | EBitLength a => andthen (eval en a w) (fun va w1 =>
        match va with VInt n => EOk (VInt (N.size n)) w1 | _ => EUnsup end)
  | EPair a b => andthen (eval en a w) (fun va w1 => andthen (eval en b w1) (fun vb w2 => EOk (VPair va vb) w2))
  | EMemHas k => andthen (eval en k w) (fun vk w1 =>
        match vk with
        | VInt a => EOk (VBool (match mget w1.(w_mem) a with Some _ => true | None => false end)) w1
        | _ => EUnsup
        end)
  | EMemGet k => andthen (eval en k w) (fun vk w1 =>
        match vk with
        | VInt a => match mget w1.(w_mem) a with Some v => EOk (VInt v) w1 | None => EExn XKeyError w1 end
        | _ => EUnsup
        end)
  | ECall0 f => call f [] w
  | ECall1 f a => andthen (eval en a w) (fun va w1 => call f [va] w1)
  | ECall2 f a b => andthen (eval en a w) (fun va w1 => andthen (eval en b w1) (fun vb w2 => call f [va; vb] w2))
  | ECall3 f a b c => andthen (eval en a w) (fun va w1 => andthen (eval en b w1) (fun vb w2 =>
        andthen (eval en c w2) (fun vc w3 => call f [va; vb; vc] w3)))
  | ETerm c => EOk (VTerm c) w
  | EUnsupported => EUnsup
  end.

(* run an expression inside a statement: a value continues, an exception becomes the statement's outcome *)
Definition on_value (en : env) (r : eres) (k : value -> world -> sres) : sres :=
  match r with EOk v w => k v w | EExn x w => SOk (CRaise x) en w | EUnsup => SUnsup end.

Definition catches (k : exn_class) (x : exn) : bool :=
  match k, x with KKeyError, XKeyError => true | KEOF, XEOF => true | _, _ => false end.

Fixpoint exec (s : stmt) (en : env) (w : world) : sres :=
  match s with
  | SPass => SOk CNormal en w
  | SSeq a b => match exec a en w with SOk CNormal en1 w1 => exec b en1 w1 | other => other end
  | SAssign x e => on_value en (eval en e w) (fun v w1 => SOk CNormal (bind en x v) w1)
  | SAssign2 x y e => on_value en (eval en e w) (fun v w1 =>
        match v with VPair a b => SOk CNormal (bind (bind en x a) y b) w1 | _ => SUnsup end)
  | SAug x o e =>                                  (* ints are immutable: x o= e  is  x = x o e, x read first *)
        match lookup en x with
        | None => SUnsup
        | Some vx => on_value en (eval en e w) (fun v w1 =>
            match bin o vx v with Some r => SOk CNormal (bind en x r) w1 | None => SUnsup end)
        end
  | SExpr e => on_value en (eval en e w) (fun _ w1 => SOk CNormal en w1)
  | SIf c a b => on_value en (eval en c w) (fun v w1 =>
        match truth v with None => SUnsup | Some true => exec a en w1 | Some false => exec b en w1 end)
  | SReturn e => on_value en (eval en e w) (fun v w1 => SOk (CReturn v) en w1)
  | SRaiseMem msg addr => on_value en (eval en msg w) (fun _ w1 => on_value en (eval en addr w1) (fun v w2 =>
        match v with VInt a => SOk (CRaise (XMemory a)) en w2 | _ => SUnsup end))
  | SMemSet k v =>                                 (* CPython evaluates the right-hand side first *)
        on_value en (eval en v w) (fun vv w1 => on_value en (eval en k w1) (fun vk w2 =>
          match vk, vv with
          | VInt a, VInt x => SOk CNormal en (with_mem w2 (mset w2.(w_mem) a x))
          | _, _ => SUnsup
          end))
  | SSetOpCounter e => on_value en (eval en e w) (fun v w1 =>
        match v with
        | VInt n => SOk CNormal en (mkworld w1.(w_mem) w1.(w_inp) w1.(w_out) w1.(w_hist) n)
        | _ => SUnsup
        end)
  | STry body k handler =>
        match exec body en w with
        | SOk (CRaise x) en1 w1 => if catches k x then exec handler en1 w1 else SOk (CRaise x) en1 w1
        | other => other
        end
  | SForZB x y body =>
        for_pairs (fun p en w => exec body (bind (bind en x (VInt (fst p))) y (VInt (snd p))) w) cfg.(c_zeros) en w
  end.
End Interp.

(* ---- 5. calls ---------------------------------------------------------------------------------- *)
(* methods of the IO device and of RunStatistics, by their documented meaning *)
Definition prim (f : fname) (args : list value) (w : world) : option eres :=
  match f, args with
  | P_io_read_bit, [] =>                                        (* next input bit, IOReadOnEOF when exhausted *)
      Some match w.(w_inp) with
           | [] => EExn XEOF w
           | b :: r => EOk (VBool b) (mkworld w.(w_mem) r w.(w_out) w.(w_hist) w.(w_opc))
           end
  | P_io_write_bit, [VBool b] =>
      Some (EOk VNone (mkworld w.(w_mem) w.(w_inp) (b :: w.(w_out)) w.(w_hist) w.(w_opc)))
  | P_register_op_address, [VInt a] =>                          (* the last-ops ring: its content is the newest k *)
      Some (EOk VNone (mkworld w.(w_mem) w.(w_inp) w.(w_out) (a :: w.(w_hist)) w.(w_opc)))
  | P_register_op, [VInt _; VInt _; VInt _] =>                  (* op_counter += 1 (flip/jump counters not modelled) *)
      Some (EOk VNone (mkworld w.(w_mem) w.(w_inp) w.(w_out) w.(w_hist) (w.(w_opc) + 1)))
  | (P_io_read_bit | P_io_write_bit | P_register_op_address | P_register_op), _ => Some EUnsup
  | _, _ => None
  end.

Definition fundef := (list ident * stmt)%type.                  (* parameters, body *)
Definition program := fname -> option fundef.

Fixpoint bind_params (ps : list ident) (args : list value) (en : env) : option env :=
  match ps, args with
  | [], [] => Some en
  | p :: ps', a :: args' => bind_params ps' args' (bind en p a)
  | _, _ => None
  end.

(* a call of a translated function runs its body in a fresh environment; falling off the end returns None.
   [depth] bounds the nesting of calls (the subset has no recursion; running out is Unsupported). *)
Fixpoint call_at (cfg : config) (prog : program) (depth : nat) (f : fname) (args : list value) (w : world) : eres :=
  match prim f args w with
  | Some r => r
  | None =>
    match depth with
    | O => EUnsup
    | S d =>
      match prog f with
      | None => EUnsup
      | Some (params, body) =>
        match bind_params params args [] with
        | None => EUnsup
        | Some en =>
          match exec cfg (call_at cfg prog d) body en w with
          | SOk CNormal _ w1 => EOk VNone w1
          | SOk (CReturn v) _ w1 => EOk v w1
          | SOk (CRaise x) _ w1 => EExn x w1
          | SUnsup => EUnsup
          end
        end
      end
    end
  end.
