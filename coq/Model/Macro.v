From FJ Require Import Lib.Base.
(* C03 - executable transcription of flipjump/assembler/preprocessor.py (resolve_macros, resolve_macro_aux,
   get_params_dictionary, PreprocessorData) and of the methods of inner_classes/ops.py it calls
   (eval_new of every op, RepCall.rename_iterator / calculate_times / calculate_arguments, Label.eval_name),
   over the tree types of Model/Ast.v and the expression functions of Model/Expr.v (eval_new, exact_eval).

   Every exit by exception is a constructor of [merr].  Names are built as the SAME strings as the code builds
   (labels_prefix paths "f1:l7:m(2)---f1:l3:rep0:k---loc", hygienic iterators "…:rep:i", start labels "…---:start:").
   No proofs in this file (Proofs/MacroProps.v).

   Not modelled: the statistics (macro_code_size, show_statistics), label code positions (only used in messages),
   sys.setrecursionlimit (C13), CPython's own RecursionError / MemoryError.
   Assumed about the `file_short_name`s chosen by the caller: they contain no "{" / "}" (the code applies
   str.format to the whole rep path). *)
From FJ Require Import Model.Ast Model.Expr.
From Coq Require Import DecimalString.
Local Open Scope string_scope.
Local Open Scope Z_scope.

(* ------------------------------------------------------------------------------------------ *)
(** * Exits *)

Inductive merr :=
  (* FlipJumpPreprocessorException (macro_resolve_error) *)
  | PreUnknownMacro (n : macro_name)   (* "macro … is used but isn't defined" *)
  | PreDepth                           (* "The maximal macro-expansion recursive depth was reached" *)
  | PreDupLabel (s : string)           (* "label declared twice" *)
  | PreRepTimes                        (* "Can't evaluate how many times to repeat" *)
  | PrePadEval                         (* "Can't evaluate how much to pad" *)
  | PrePadNonPositive                  (* "'pad' must get a positive ops-alignment" *)
  | PrePadUnaligned                    (* "'pad' requires the current address to be op-aligned" *)
  | PrePadTooFar                       (* "'pad n' at address a needs k padding ops, which exceeds the w-bits memory-width" *)
  | PreSegmentEval                     (* "segment failed" *)
  | PreSegmentUnaligned                (* "segment ops must have a w-aligned address" *)
  | PreReserveEval                     (* "reserve failed" *)
  | PreReserveUnaligned                (* "reserve ops must have a w-aligned value" *)
  | PreReserveNegative                 (* "reserve must get a non-negative size" *)
  (* FlipJumpExprException that escapes resolve_macros as it is *)
  | ExprBadLabelSwap                   (* Label.eval_name: the label's name is bound to a non-name *)
  | ExprEvalNew (k : liberr)           (* Expr.eval_new inside some op.eval_new(params_dict) / rename_iterator *)
  | ExprRepArgs (k : liberr)           (* RepCall.calculate_arguments: "Can't calculate rep arguments" *)
  (* anything else *)
  | RawPy (x : pyexn)
  | KeyErrorMacro.                     (* macros[macro_name] of a missing macro (unreachable: prepare_macro_call) *)

Inductive res (A : Type) :=
  | ROk (a : A)
  | RErr (e : merr).
Arguments ROk {A} a.
Arguments RErr {A} e.

Definition rbind {A B} (r : res A) (f : A -> res B) : res B :=
  match r with ROk a => f a | RErr e => RErr e end.

(* op.eval_new(params_dict): Expr.eval_new raising FlipJumpExprException *)
Definition of_eval_new {A} (r : outcome A) : res A :=
  match r with Ok a => ROk a | LibError k => RErr (ExprEvalNew k) | RawExn x => RErr (RawPy x) end.

(* ------------------------------------------------------------------------------------------ *)
(** * Python dictionaries keyed by strings (insertion ordered; assignment to an existing key keeps its place) *)

Fixpoint dict_get {A} (d : list (string * A)) (s : string) : option A :=
  match d with
  | [] => None
  | (k, v) :: d' => if String.eqb k s then Some v else dict_get d' s
  end.

Definition dict_mem {A} (d : list (string * A)) (s : string) : bool :=
  match dict_get d s with Some _ => true | None => false end.

Fixpoint dict_set {A} (d : list (string * A)) (k : string) (v : A) : list (string * A) :=
  match d with
  | [] => [(k, v)]
  | (k', v') :: d' => if String.eqb k' k then (k, v) :: d' else (k', v') :: dict_set d' k v
  end.

(* ------------------------------------------------------------------------------------------ *)
(** * Names *)

Definition dec (n : N) : string := NilEmpty.string_of_uint (N.to_uint n).
Definition decZ (z : Z) : string := match z with Zneg p => "-" ++ dec (Npos p) | _ => dec (Z.to_N z) end.

Definition MACRO_SEPARATOR_STRING := "---".
Definition STARTING_LABEL_IN_MACROS_STRING := ":start:".
Definition wflip_start_label := "_.wflip_area_start_".

(* CodePosition.short_str *)
Definition short_str (p : code_pos) : string := cp_short p ++ ":l" ++ dec (cp_line p).

(* MacroName.__str__ *)
Definition macro_name_str (n : macro_name) : string :=
  if (snd n =? 0)%N then fst n else fst n ++ "(" ++ dec (snd n) ++ ")".

(* (f"{labels_prefix}{MACRO_SEPARATOR_STRING}" if labels_prefix else "") + s *)
Definition with_prefix (prefix s : string) : string :=
  if String.eqb prefix "" then s else prefix ++ MACRO_SEPARATOR_STRING ++ s.

Definition call_path (prefix : string) (pos : code_pos) (mn : macro_name) : string :=
  with_prefix prefix (short_str pos ++ ":" ++ macro_name_str mn).

Definition hygienic_iterator (prefix : string) (pos : code_pos) (iter : string) : string :=
  with_prefix prefix (short_str pos ++ ":rep:" ++ iter).

(* next_macro_path.format(i) *)
Definition rep_path (prefix : string) (pos : code_pos) (mn : macro_name) (i : Z) : string :=
  with_prefix prefix (short_str pos ++ ":rep" ++ decZ i ++ ":" ++ macro_name_str mn).

(* f'{labels_prefix}{MACRO_SEPARATOR_STRING}{local_param}'  (no test for an empty prefix here) *)
Definition local_label (prefix l : string) : string := prefix ++ MACRO_SEPARATOR_STRING ++ l.
Definition start_label (prefix : string) : string := local_label prefix STARTING_LABEL_IN_MACROS_STRING.

(* ------------------------------------------------------------------------------------------ *)
(** * get_params_dictionary *)

Definition pdict := list (string * expr).

Definition get_params_dictionary (m : macro) (args : list expr) (prefix : string) : pdict :=
  let d0 := fold_left (fun d kv => dict_set d (fst kv) (snd kv)) (combine (m_params m) args) [] in   (* dict(zip(params, args)) *)
  let d1 := fold_left (fun d l => dict_set d l (ELbl (local_label prefix l))) (m_locals m) d0 in
  if String.eqb (m_ns m) "" then d1
  else fold_left (fun d kv => dict_set d (m_ns m ++ "." ++ fst kv) (snd kv)) d1 d1.   (* over tuple(params_dict.items()) *)

(* ------------------------------------------------------------------------------------------ *)
(** * PreprocessorData *)

(* LastPhaseOp.  Code positions of the ops are kept by the code but never looked at again. *)
Inductive lop :=
  | LFlipJump (flip jump : expr)
  | LWordFlip (addr value ret : expr)
  | LPadding (ops_count : Z)
  | LNewSegment (start wflip_start : Z)
  | LReserveBits (first_after : Z).

Definition WFLIP_NOT_INSERTED_YET := -1.

(* everything but the list of pending macro-start labels *)
Record core := mkcore {
  c_addr : Z;                        (* curr_address *)
  c_rops : list lop;                 (* result_ops, newest first *)
  c_labels : list (string * Z);      (* labels *)
  c_lbladdrs : list Z;               (* addresses_with_labels *)
  c_segidx : N                       (* curr_segment_index *)
}.

Record pstate := mkps {
  ps_core : core;
  ps_starts : list (Z * string)      (* macro_start_labels, newest first *)
}.

Definition set_addr (c : core) (a : Z) : core := mkcore a (c_rops c) (c_labels c) (c_lbladdrs c) (c_segidx c).
Definition push_op (c : core) (o : lop) : core := mkcore (c_addr c) (o :: c_rops c) (c_labels c) (c_lbladdrs c) (c_segidx c).

(* self.last_new_segment.wflip_start_address = a : the newest NewSegment of the list *)
Fixpoint patch_last_wflip (rops : list lop) (a : Z) : list lop :=
  match rops with
  | [] => []
  | LNewSegment s _ :: r => LNewSegment s a :: r
  | o :: r => o :: patch_last_wflip r a
  end.

(* insert_label(label, code_position, address=…) *)
Definition insert_label (c : core) (name : string) (address : Z) : res core :=
  if dict_mem (c_labels c) name then RErr (PreDupLabel name)
  else ROk (mkcore (c_addr c) (c_rops c) (dict_set (c_labels c) name address) (address :: c_lbladdrs c) (c_segidx c)).

(* insert_segment: a source label spelled like the assembler-internal label is a 'declared twice' error *)
Definition insert_segment (c : core) (start : Z) : res core :=
  let wl := wflip_start_label ++ dec (c_segidx c) in
  if dict_mem (c_labels c) wl then RErr (PreDupLabel wl)
  else ROk (mkcore start
                   (LNewSegment start WFLIP_NOT_INSERTED_YET :: patch_last_wflip (c_rops c) (c_addr c))
                   (dict_set (c_labels c) wl (c_addr c))
                   (c_lbladdrs c)
                   (c_segidx c + 1)%N).

Definition labels_env (c : core) : string -> option Z := dict_get (c_labels c).

(* op.calculate_…(labels): exact_eval wrapped; every failure is a FlipJumpExprException *)
Definition calc (c : core) (e : expr) (err : merr) : res Z :=
  match exact_eval (labels_env c) e with Ok z => ROk z | _ => RErr err end.

(* ------------------------------------------------------------------------------------------ *)
(** * resolve_macro_aux *)

Section Body.
Variable w : Z.                                             (* memory_width *)
Variable D : macro_dict.
(* the recursive call resolve_macro_aux(preprocessor_data, name, args, path); None when one more level would exceed
   max_recursion_depth *)
Variable rec : option (macro_name -> list expr -> string -> pstate -> res pstate).

(* _PrepareMacroCall.__enter__ *)
Definition prepare (mn : macro_name) : res unit :=
  match find_macro D mn with
  | None => RErr (PreUnknownMacro mn)
  | Some _ => match rec with None => RErr PreDepth | Some _ => ROk tt end
  end.

Definition call (mn : macro_name) (args : list expr) (path : string) (st : pstate) : res pstate :=
  match rec with None => RErr PreDepth | Some f => f mn args path st end.

Definition subst_of (pd : pdict) : msubst := dict_get pd.
(* params_dict['$'] = Expr(curr_address) *)
Definition subst_dollar (pd : pdict) (a : Z) : msubst :=
  fun s => if String.eqb s "$" then Some (EInt a) else dict_get pd s.
Definition subst_one (k : string) (v : expr) : msubst := fun s => if String.eqb s k then Some v else None.

Fixpoint eval_list (sg : msubst) (l : list expr) : outcome (list expr) :=
  match l with
  | [] => Ok []
  | a :: t => bind (eval_new sg a) (fun a' => bind (eval_list sg t) (fun t' => Ok (a' :: t')))
  end.

(* Label.eval_name *)
Definition eval_name (pd : pdict) (name : string) : res string :=
  match dict_get pd name with
  | Some (ELbl s) => ROk s
  | Some _ => RErr ExprBadLabelSwap
  | None => ROk name
  end.

Definition on_core (st : pstate) (r : res core) : res pstate :=
  rbind r (fun c => ROk (mkps c (ps_starts st))).

(* the body of `for i in range(rep_times)` *)
Fixpoint rep_loop (mn : macro_name) (hyg : string) (args : list expr) (prefix : string) (pos : code_pos)
         (n : nat) (i : Z) (st : pstate) : res pstate :=
  match n with
  | O => ROk st
  | S n' =>
      match eval_list (subst_one hyg (EInt i)) args with          (* op.calculate_arguments(i) *)
      | Ok args_i => rbind (call mn args_i (rep_path prefix pos mn i) st)
                           (rep_loop mn hyg args prefix pos n' (i + 1))
      | LibError k => RErr (ExprRepArgs k)
      | RawExn x => RErr (RawPy x)
      end
  end.

(* one iteration of `for op in current_macro.ops`, for the statements that only touch curr_address / result_ops /
   labels (everything but the calls) *)
Definition step_core (pd : pdict) (op : stmt) (c : core) : res core :=
  match op with
  | SLabel name _ =>
      rbind (eval_name pd name) (fun n => insert_label c n (c_addr c))
  | SFlipJump f j _ =>
      let a := c_addr c + 2 * w in
      let sg := subst_dollar pd a in
      rbind (of_eval_new (eval_new sg f)) (fun f' =>
      rbind (of_eval_new (eval_new sg j)) (fun j' =>
      ROk (push_op (set_addr c a) (LFlipJump f' j'))))
  | SWordFlip x v r _ =>
      let a := c_addr c + 2 * w in
      let sg := subst_dollar pd a in
      rbind (of_eval_new (eval_new sg x)) (fun x' =>
      rbind (of_eval_new (eval_new sg v)) (fun v' =>
      rbind (of_eval_new (eval_new sg r)) (fun r' =>
      ROk (push_op (set_addr c a) (LWordFlip x' v' r')))))
  | SPad e _ =>
      rbind (of_eval_new (eval_new (subst_of pd) e)) (fun e' =>
      rbind (calc c e' PrePadEval) (fun n =>
      if n <=? 0 then RErr PrePadNonPositive
      else let op_size := 2 * w in
           if negb (c_addr c mod op_size =? 0) then RErr PrePadUnaligned
           else let ops_to_pad := ((- c_addr c) / op_size) mod n in
                if c_addr c + ops_to_pad * op_size >? 2 ^ w then RErr PrePadTooFar
                else ROk (push_op (set_addr c (c_addr c + ops_to_pad * op_size)) (LPadding ops_to_pad))))
  | SSegment e _ =>
      rbind (of_eval_new (eval_new (subst_of pd) e)) (fun e' =>
      rbind (calc c e' PreSegmentEval) (fun a =>
      if negb (a mod w =? 0) then RErr PreSegmentUnaligned else insert_segment c a))
  | SReserve e _ =>
      rbind (of_eval_new (eval_new (subst_of pd) e)) (fun e' =>
      rbind (calc c e' PreReserveEval) (fun r =>
      if r <? 0 then RErr PreReserveNegative
      else if negb (r mod w =? 0) then RErr PreReserveUnaligned
      else let a := c_addr c + r in ROk (push_op (set_addr c a) (LReserveBits a))))
  | SMacroCall _ _ _ | SRepCall _ _ _ _ _ => ROk c
  end.

(* one iteration of `for op in current_macro.ops` *)
Definition step_op (pd : pdict) (prefix : string) (op : stmt) (st : pstate) : res pstate :=
  match op with
  | SMacroCall name args pos =>
      let mn := call_name name args in
      rbind (of_eval_new (eval_list (subst_of pd) args)) (fun args' =>
      rbind (prepare mn) (fun _ => call mn args' (call_path prefix pos mn) st))
  | SRepCall times iter name args pos =>
      let mn := call_name name args in
      let hyg := hygienic_iterator prefix pos iter in
      rbind (of_eval_new (eval_list (subst_one iter (ELbl hyg)) args)) (fun args1 =>      (* rename_iterator *)
      rbind (of_eval_new (eval_new (subst_of pd) times)) (fun times' =>                  (* op.eval_new(params_dict) *)
      rbind (of_eval_new (eval_list (subst_of pd) args1)) (fun args2 =>
      rbind (calc (ps_core st) times' PreRepTimes) (fun n =>                             (* get_rep_times *)
      if n =? 0 then ROk st
      else rbind (prepare mn) (fun _ => rep_loop mn hyg args2 prefix pos (Z.to_nat n) 0 st)))))
  | _ => on_core st (step_core pd op (ps_core st))
  end.

Fixpoint run_ops (pd : pdict) (prefix : string) (ops : list stmt) (st : pstate) : res pstate :=
  match ops with
  | [] => ROk st
  | op :: rest => rbind (step_op pd prefix op st) (run_ops pd prefix rest)
  end.

(* resolve_macro_aux, given the macro record *)
Definition macro_body (m : macro) (args : list expr) (prefix : string) (st : pstate) : res pstate :=
  let pd := get_params_dictionary m args prefix in
  let st1 := mkps (ps_core st) ((c_addr (ps_core st), start_label prefix) :: ps_starts st) in   (* insert_macro_start_label *)
  run_ops pd prefix (m_ops m) st1.

End Body.

(* fuel = max_recursion_depth - len(curr_tree) *)
Fixpoint resolve_macro_aux (w : Z) (D : macro_dict) (fuel : nat)
         (mn : macro_name) (args : list expr) (prefix : string) (st : pstate) {struct fuel} : res pstate :=
  match find_macro D mn with
  | None => RErr KeyErrorMacro
  | Some m =>
      macro_body w D (match fuel with O => None | S f => Some (resolve_macro_aux w D f) end) m args prefix st
  end.

(* ------------------------------------------------------------------------------------------ *)
(** * resolve_macros *)

Definition init_core : core := mkcore 0 [LNewSegment 0 WFLIP_NOT_INSERTED_YET] [] [] 0%N.
Definition init_state : pstate := mkps init_core [].

(* insert_macro_start_labels_if_their_address_not_used: macro_start_labels[::-1] *)
Fixpoint insert_start_labels (starts : list (Z * string)) (c : core) : res core :=
  match starts with
  | [] => ROk c
  | (a, l) :: rest =>
      if existsb (Z.eqb a) (c_lbladdrs c) then insert_start_labels rest c
      else rbind (insert_label c l a) (insert_start_labels rest)
  end.

(* the state when resolve_macro_aux(INITIAL_MACRO_NAME, …) returns *)
Definition resolve_main (w : Z) (D : macro_dict) (depth : N) : res pstate :=
  resolve_macro_aux w D (N.to_nat depth) main_macro_name [] "" init_state.

(* PreprocessorData.finish *)
Definition finish (st : pstate) : res core :=
  let c := ps_core st in
  let c1 := mkcore (c_addr c) (patch_last_wflip (c_rops c) (c_addr c)) (c_labels c) (c_lbladdrs c) (c_segidx c) in
  insert_start_labels (ps_starts st) c1.

(* resolve_macros(memory_width, macros, max_recursion_depth=depth): (ops, labels) *)
Definition resolve_macros (w : Z) (D : macro_dict) (depth : N) : res (list lop * list (string * Z)) :=
  rbind (resolve_main w D depth) (fun st =>
  rbind (finish st) (fun c => ROk (rev (c_rops c), c_labels c))).

(* ------------------------------------------------------------------------------------------ *)
(** * fj_parser.py: namespace name resolution *)

(* curr_namespace is a list of identifiers, outermost first *)
Definition ns_join (l : list string) : string := String.concat "." l.

(* FJParser.ns_full_name *)
Definition ns_full_name (curr : list string) (base : string) : string := ns_join (curr ++ [base]).

Fixpoint lstrip_dots (s : string) : nat * string :=
  match s with
  | String "." r => let (k, t) := lstrip_dots r in (S k, t)
  | _ => (O, s)
  end.

Inductive ns_res := NsName (s : string) | NsTooManyDots (s : string).

(* FJParser.base_name_to_ns_full_name: k leading dots strip k-1 levels (a syntax error is recorded, and the slice
   with a negative bound computed, when k-1 exceeds the depth) *)
Definition base_name_to_ns_full_name (curr : list string) (base : string) : ns_res :=
  let (k, without) := lstrip_dots base in
  match k with
  | O => NsName base
  | S k1 =>
      let depth := List.length curr in
      (* curr_namespace[: len - (k-1)] : Python slice semantics for a negative stop *)
      let stop := Z.of_nat depth - Z.of_nat k1 in
      let stop' := if stop <? 0 then Z.max 0 (Z.of_nat depth + stop) else stop in
      let r := ns_join (firstn (Z.to_nat stop') curr ++ [without]) in
      if (depth <? k1)%nat then NsTooManyDots r else NsName r
  end.

(* ------------------------------------------------------------------------------------------ *)
(** * The naming scheme of the code as a naming function of Spec/InlineSpec.v *)
From FJ Require Import Spec.InlineSpec.

(* the labels_prefix of the expansion reached by one more call *)
Definition step_path (prefix : string) (s : step) : string :=
  match sp_call s, sp_rep s with
  | SMacroCall name args pos, _ => call_path prefix pos (call_name name args)
  | SRepCall _ _ name args pos, Some i => rep_path prefix pos (call_name name args) i
  | SRepCall _ _ name args pos, None => call_path prefix pos (call_name name args)
  | _, _ => prefix
  end.

Definition render_path (pi : path) : string := fold_left step_path pi "".
Definition impl_fresh (pi : path) (l : string) : string := local_label (render_path pi) l.

(* a second naming function, used to compare the Python mirror of the inliner (harness/fjverif/inliner.py) *)
Definition step_canon (s : step) : string :=
  dec (N.of_nat (sp_index s)) ++ match sp_rep s with Some j => "r" ++ decZ j | None => "" end.
Definition fresh_canon (pi : path) (l : string) : string :=
  "@" ++ String.concat "/" (map step_canon pi) ++ "@" ++ l.

(* ------------------------------------------------------------------------------------------ *)
(** * What the parser guarantees about a tree (checked on every dumped tree by the campaign) *)

Definition dotted_ident (s : string) : bool := string_forall (fun c => ident_char c || Ascii.eqb c ".") s.

Fixpoint expr_labels (e : expr) : list string :=
  match e with
  | EInt _ => []
  | ELbl s => [s]
  | EOp _ args => flat_map expr_labels args
  end.

Definition names_ok (e : expr) : bool := forallb user_name (expr_labels e).          (* identifiers, dots, or $ *)
Definition arg_ok (e : expr) : bool := forallb dotted_ident (expr_labels e).          (* no $ in a call argument *)
Definition pos_ok (p : code_pos) : bool := is_ident (cp_short p).

Definition wf_stmt (s : stmt) : bool :=
  match s with
  | SFlipJump f j _ => names_ok f && names_ok j
  | SWordFlip a v r _ => names_ok a && names_ok v && names_ok r
  | SPad e _ | SSegment e _ | SReserve e _ => names_ok e
  | SLabel n _ => dotted_ident n
  | SMacroCall name args pos => dotted_ident name && forallb arg_ok args && pos_ok pos
  | SRepCall times iter name args pos =>
      names_ok times && is_ident iter && dotted_ident name && forallb arg_ok args && pos_ok pos
  end.

Fixpoint nodupb (l : list string) : bool :=
  match l with [] => true | x :: r => negb (existsb (String.eqb x) r) && nodupb r end.

(* the code positions of the calls of one body are pairwise different (one statement per line, one short name per file) *)
Definition call_site (s : stmt) : list string :=
  match s with
  | SMacroCall _ _ p | SRepCall _ _ _ _ p => [short_str p]
  | _ => []
  end.

Definition wf_macro (m : macro) : bool :=
  forallb is_ident (m_params m ++ m_locals m)%list && nodupb (m_params m ++ m_locals m)%list &&
  dotted_ident (m_ns m) && forallb wf_stmt (m_ops m) && nodupb (flat_map call_site (m_ops m)).

Definition wf_entry (nm : macro_name * macro) : bool :=
  dotted_ident (fst (fst nm)) && (N.of_nat (List.length (m_params (snd nm))) =? snd (fst nm))%N && wf_macro (snd nm) &&
  (if macro_name_eqb (fst nm) main_macro_name then match m_locals (snd nm) with [] => true | _ => false end else true).

Definition wf_tree (D : macro_dict) : bool := forallb wf_entry D.

(* ------------------------------------------------------------------------------------------ *)
(** * Case evaluation (used by harness/fjverif/checks/c03.py; no proofs) *)

Fixpoint expr_eqb (a b : expr) : bool :=
  match a, b with
  | EInt x, EInt y => Z.eqb x y
  | ELbl s, ELbl t => String.eqb s t
  | EOp o xs, EOp p ys =>
      opname_eqb o p &&
      (fix go (l1 l2 : list expr) : bool :=
         match l1, l2 with
         | [], [] => true
         | x :: r1, y :: r2 => expr_eqb x y && go r1 r2
         | _, _ => false
         end) xs ys
  | _, _ => false
  end.

Fixpoint list_eqb {A} (f : A -> A -> bool) (l1 l2 : list A) : bool :=
  match l1, l2 with
  | [], [] => true
  | x :: r1, y :: r2 => f x y && list_eqb f r1 r2
  | _, _ => false
  end.

Definition lop_eqb (a b : lop) : bool :=
  match a, b with
  | LFlipJump f j, LFlipJump f' j' => expr_eqb f f' && expr_eqb j j'
  | LWordFlip x v r, LWordFlip x' v' r' => expr_eqb x x' && expr_eqb v v' && expr_eqb r r'
  | LPadding n, LPadding n' => Z.eqb n n'
  | LNewSegment s k, LNewSegment s' k' => Z.eqb s s' && Z.eqb k k'
  | LReserveBits x, LReserveBits x' => Z.eqb x x'
  | _, _ => false
  end.

Definition label_eqb (a b : string * Z) : bool := String.eqb (fst a) (fst b) && Z.eqb (snd a) (snd b).

(* statements compared without their code positions *)
Definition stmt_eqb (a b : stmt) : bool :=
  match a, b with
  | SFlipJump f j _, SFlipJump f' j' _ => expr_eqb f f' && expr_eqb j j'
  | SWordFlip x v r _, SWordFlip x' v' r' _ => expr_eqb x x' && expr_eqb v v' && expr_eqb r r'
  | SPad e _, SPad e' _ | SSegment e _, SSegment e' _ | SReserve e _, SReserve e' _ => expr_eqb e e'
  | SLabel n _, SLabel n' _ => String.eqb n n'
  | _, _ => false
  end.

Definition err_tag (e : merr) : N :=
  match e with
  | PreUnknownMacro _ => 1 | PreDepth => 2 | PreDupLabel _ => 3 | PreRepTimes => 4 | PrePadEval => 5
  | PrePadNonPositive => 6 | PrePadUnaligned => 7 | PreSegmentEval => 8 | PreSegmentUnaligned => 9
  | PreReserveEval => 10 | PreReserveUnaligned => 11 | ExprBadLabelSwap => 12 | ExprRepArgs _ => 13
  | ExprEvalNew _ => 14 | RawPy _ => 15 | KeyErrorMacro => 16 | PrePadTooFar => 17 | PreReserveNegative => 18
  end%N.

Inductive expected :=
  | ExpOk (ops : list lop) (labels : list (string * Z))
  | ExpErr (tag : N).

Record mcase := mkmcase {
  mc_w : Z;
  mc_depth : N;
  mc_tree : macro_dict;
  mc_expected : expected;               (* what the real resolve_macros returned / raised *)
  mc_mirror : option (option (list stmt))   (* what harness/fjverif/inliner.py produced (None: not compared) *)
}.

Fixpoint ends_with (suf s : string) : bool :=
  String.eqb s suf || match s with EmptyString => false | String _ r => ends_with suf r end.
Definition is_start_label (s : string) : bool := ends_with STARTING_LABEL_IN_MACROS_STRING s.

Definition user_labels (l : list (string * Z)) : list (string * Z) :=
  filter (fun kv => negb (is_start_label (fst kv))) l.

(* bit 0: the model reproduces the observed result of resolve_macros
   bit 1: the tree is well formed
   bit 2: the specification's inliner is defined on the tree (code naming, fuel = depth)
   bit 3: the conclusion of C03_inline, evaluated: the model expands the inlined program to the same op list, and the
          two label tables agree on every name that is not a macro-start label (vacuously set when bit 2 is not, or
          when the expansion fails)
   bit 4: the Python mirror of the inliner agrees with the specification's inliner (canonical naming)               *)
Definition check_mcase (c : mcase) : N :=
  let r := resolve_macros (mc_w c) (mc_tree c) (mc_depth c) in
  let b0 := match r, mc_expected c with
            | ROk (ops, lbls), ExpOk ops' lbls' => list_eqb lop_eqb ops ops' && list_eqb label_eqb lbls lbls'
            | RErr e, ExpErr t => (err_tag e =? t)%N
            | _, _ => false
            end in
  let b1 := wf_tree (mc_tree c) in
  let fuel := N.to_nat (mc_depth c) in
  let inl := inline impl_fresh (mc_tree c) fuel in
  let b2 := match inl with Some _ => true | None => false end in
  let b3 := match r, inl with
            | ROk (ops, lbls), Some P =>
                match resolve_macros (mc_w c) (prim_tree P) (mc_depth c) with
                | ROk (ops', lbls') =>
                    list_eqb lop_eqb ops ops' &&
                    forallb (fun kv => match dict_get lbls' (fst kv) with Some a => Z.eqb a (snd kv) | None => false end)
                            (user_labels lbls) &&
                    forallb (fun kv => match dict_get lbls (fst kv) with Some a => Z.eqb a (snd kv) | None => false end)
                            (user_labels lbls')
                | RErr _ => false
                end
            | _, _ => true
            end in
  let b4 := match mc_mirror c with
            | None => true
            | Some m =>
                match m, inline fresh_canon (mc_tree c) fuel with
                | Some P, Some P' => list_eqb stmt_eqb P P'
                | None, None => true
                | _, _ => false
                end
            end in
  ((if b0 then 1 else 0) + (if b1 then 2 else 0) + (if b2 then 4 else 0) + (if b3 then 8 else 0) + (if b4 then 16 else 0))%N.

(* namespace resolution cases: (current namespace, name as spelled, what the real parser made of it / None = syntax error) *)
Definition check_ns (c : list string * string * option string) : bool :=
  match base_name_to_ns_full_name (fst (fst c)) (snd (fst c)), snd c with
  | NsName s, Some t => String.eqb s t
  | NsTooManyDots _, None => true
  | _, _ => false
  end.
