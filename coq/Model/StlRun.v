(* Evaluation of one standard-library harness block on the machine definition (C04, C05, C08, C09).
   The image, the block descriptors and the operand domains are generated from the current source by
   harness/fjverif/stl.py; everything here is generic.  No proofs in this file. *)
From FJ Require Import Lib.Base Spec.MachineSpec Spec.StlSpec.
Local Open Scope N_scope.

(* the image of one segment: consecutive words from a start address *)
Fixpoint mem_of_words_from (mm : mem) (a : N) (l : list N) : mem :=
  match l with [] => mm | v :: r => mem_of_words_from (if v =? 0 then mm else mset mm a v) (a + 1) r end.
Definition mem_of_segs (l : list (N * list N)) : mem :=
  fold_left (fun mm p => mem_of_words_from mm (fst p) (snd p)) l (PositiveMap.empty N).

Fixpoint nlist_eqb (a b : list N) : bool :=
  match a, b with [], [] => true | x :: a', y :: b' => (x =? y) && nlist_eqb a' b' | _, _ => false end.

(* result of an instrumented run: the state and the word addresses written so far (most recent first) *)
Inductive fpres := Cont (s : st) (wl : list N) | Halt (c : cause) (s : st) (wl : list N).

Section W.
Variable ww : N.
Variable sg : list (N * N).

(* the words one op may write: the input cell (only when the op covers it) and the word of the flipped bit *)
Definition step_writes (s : st) : list N :=
  match get_word ww sg s.(m) s.(ip) with
  | inl _ => []
  | inr f => N.shiftr f ww :: (if covers_input ww s.(ip) then [N.shiftr (in_addr ww) ww] else [])
  end.

(* 2^d steps of MachineSpec.step, logging the written words *)
Fixpoint run_pow (d : nat) (s : st) (wl : list N) : fpres :=
  match d with
  | O => match step ww sg s with
         | inl s' => Cont s' (step_writes s ++ wl)
         | inr (c, s') => Halt c s' (step_writes s ++ wl)
         end
  | S d' => match run_pow d' s wl with
            | Cont s' wl' => run_pow d' s' wl'
            | h => h
            end
  end.

Definition out_is (o : list bool) (bytes : list N) : bool :=
  let '(bs, t) := out_bytes o in nlist_eqb bs bytes && match t with [] => true | _ => false end.

Definition vals_in_range (xs : list var) (vs : list N) : bool :=
  (length xs =? length vs)%nat &&
  forallb (fun p => snd p <? N.shiftl 1 (v_bits (fst p) * v_n (fst p))) (combine xs vs).

Definition word_ok (b : block) (mf me : mem) (a : N) : bool :=
  eq_mod (scratch_mask b a) (mget0 mf a) (mget0 me a).

(* the frame equation, decided on the written words and the declared variables only *)
Definition check_block (img : mem) (b : block) (S : bspec) (vs : list N) : bool :=
  match S vs with
  | None => true
  | Some (vs', x) =>
    match nth_error b.(b_exits) (N.to_nat x) with
    | None => false
    | Some (xa, marker) =>
      let m0 := start_mem ww img b vs in
      let me := start_mem ww img b vs' in
      match run_pow b.(b_depth) (init m0 []) [] with
      | Halt Looping s wl =>
          (s.(ip) =? xa) && out_is s.(outp) marker && vals_in_range b.(b_vars) vs' &&
          (* word 0 (target of every `;label` op's null flip) is on the log once per op: it is checked once, below *)
          forallb (fun a => match a with 0 => true | _ => word_ok b s.(m) me a end) wl &&
          forallb (word_ok b s.(m) me) (0 :: 1 :: vars_words b.(b_vars))
      | _ => false
      end
    end
  end.

(* diagnostics for the harness (not used by theorems): cause code, ops, output, final ip, differing words *)
Definition observe_block (img : mem) (b : block) (vs vs' : list N) :=
  let m0 := start_mem ww img b vs in
  let me := start_mem ww img b vs' in
  match run_pow b.(b_depth) (init m0 []) [] with
  | Halt c s wl =>
      (match c with Looping => 0 | EOFc => 1 | NullIP => 2 | MemErr _ => 5 | OutOfFuel => 6 end,
       s.(ops), s.(ip), fst (out_bytes s.(outp)),
       map (fun a => (a, mget0 s.(m) a, mget0 me a))
           (filter (fun a => negb (word_ok b s.(m) me a)) (wl ++ 1 :: vars_words b.(b_vars))))
  | Cont s wl => (6, s.(ops), s.(ip), [], [])
  end.

Definition block_ops (img : mem) (b : block) (vs : list N) : N :=
  match run_pow b.(b_depth) (init (start_mem ww img b vs) []) [] with
  | Halt _ s _ => s.(ops) | Cont s _ => s.(ops) end.

End W.

(* the first k elements on which f is false (search for failing operands; stops early) *)
Fixpoint first_fails {A} (k : nat) (f : A -> bool) (l : list A) : list A :=
  match k, l with
  | O, _ => []
  | _, [] => []
  | S k', x :: r => if f x then first_fails k f r else x :: first_fails k' f r
  end.

(* mirror check: the Python copy of a spec (harness/fjverif/stl_specs.py) gives the same answer *)
Definition res_eqb (a b : option (list N * N)) : bool :=
  match a, b with
  | None, None => true
  | Some (x, i), Some (y, j) => nlist_eqb x y && (i =? j)
  | _, _ => false
  end.

(* finite operand domains: one half-open range per operand *)
Definition range (lo hi : N) : list N := map (fun i => lo + N.of_nat i) (seq 0 (N.to_nat (hi - lo))).
Fixpoint enum_dom (rs : list (N * N)) : list (list N) :=
  match rs with
  | [] => [[]]
  | r :: rs' => let tl := enum_dom rs' in flat_map (fun v => map (cons v) tl) (range (fst r) (snd r))
  end.
