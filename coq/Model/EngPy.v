(* Transcription of the two pure-Python run loops of flipjump/interpreter/fjm_run.py
   (_run_featured without debugger/trace, _run_fast) over the Reader's memory representation
   (fjm_reader.Reader: a dict of words + zeros_boundaries).  No proofs here. *)
From FJ Require Import Lib.Base Spec.MachineSpec.
Local Open Scope N_scope.

Record pst := mkpst {
  p_ip : N;
  p_mem : mem;            (* Reader.memory : dict word_address -> word *)
  p_inp : list bool;
  p_out : list bool;      (* most recent first *)
  p_ops : N;
  p_hist : list N
}.

Section W.
Variable ww : N.
Variable zb : list (N * N).     (* Reader.zeros_boundaries : (start, end) *)

Local Notation w := (MachineSpec.w ww).
Local Notation dw := (MachineSpec.dw ww).
Local Notation in_addr := (MachineSpec.in_addr ww).   (* 3 * w + w.bit_length() *)
Local Notation mask := (MachineSpec.wmask ww).        (* (1 << w) - 1 *)

Definition in_zb (a : N) : bool := existsb (fun b => (fst b <=? a) && (a <? snd b)) zb.

(* Reader._get_memory_word under GarbageHandling.Stop: (memory', inl fault | inr value) *)
Definition py_get_memory_word (pm : mem) (a0 : N) : mem * (N + N) :=
  let a := N.land a0 mask in
  match mget pm a with
  | Some v => (pm, inr v)
  | None => if in_zb a then (mset pm a 0, inr 0) else (pm, inl (N.shiftl a ww))
  end.

(* Reader._set_memory_word *)
Definition py_set_memory_word (pm : mem) (a v : N) : mem := mset pm (N.land a mask) (N.land v mask).

(* Reader._bit_address_decompose *)
Definition py_decompose (ba : N) : N * N := (N.land (N.shiftr ba ww) mask, N.land ba (w - 1)).

(* Reader.get_word *)
Definition py_get_word (pm : mem) (ba : N) : mem * (N + N) :=
  let '(wa, off) := py_decompose ba in
  if off =? 0 then py_get_memory_word pm wa
  else if wa =? mask then (pm, inl ba)
  else
    match py_get_memory_word pm wa with
    | (pm1, inl a) => (pm1, inl a)
    | (pm1, inr lsw) =>
      match py_get_memory_word pm1 (wa + 1) with
      | (pm2, inl a) => (pm2, inl a)
      | (pm2, inr msw) => (pm2, inr (N.land (N.lor (N.shiftr lsw off) (N.shiftl msw (w - off))) mask))
      end
    end.

(* Reader.read_bit *)
Definition py_read_bit (pm : mem) (ba : N) : mem * (N + bool) :=
  let '(wa, off) := py_decompose ba in
  match py_get_memory_word pm wa with
  | (pm1, inl a) => (pm1, inl a)
  | (pm1, inr v) => (pm1, inr (N.land (N.shiftr v off) 1 =? 1))
  end.

(* Reader.write_bit *)
Definition py_write_bit (pm : mem) (ba : N) (b : bool) : mem * (N + unit) :=
  let '(wa, off) := py_decompose ba in
  match py_get_memory_word pm wa with
  | (pm1, inl a) => (pm1, inl a)
  | (pm1, inr v) =>
    let v' := if b then N.lor v (N.shiftl 1 off) else N.land v (mask - N.shiftl 1 off) in
    (py_set_memory_word pm1 wa v', inr tt)
  end.

(* ---- _run_featured (no breakpoint handler, no trace) : one loop iteration ------------------- *)
Definition featured_step (s : pst) : pst + (cause * pst) :=
  let h := s.(p_ip) :: s.(p_hist) in                                  (* register_op_address *)
  match py_get_word s.(p_mem) s.(p_ip) with                           (* flip_address = mem.get_word(ip) *)
  | (pm1, inl a) => inr (MemErr a, mkpst s.(p_ip) pm1 s.(p_inp) s.(p_out) s.(p_ops) h)
  | (pm1, inr f) =>
    (* _handle_output *)
    let out1 := if (dw <=? f) && (f <=? dw + 1) then (dw + 1 =? f) :: s.(p_out) else s.(p_out) in
    (* _handle_input *)
    let after_input : (mem * list bool) + (cause * pst) :=
      if (s.(p_ip) <=? in_addr) && (in_addr <? s.(p_ip) + 2 * w) then
        match s.(p_inp) with
        | [] => inr (EOFc, mkpst s.(p_ip) pm1 [] out1 s.(p_ops) h)
        | b :: rest =>
          match py_write_bit pm1 in_addr b with
          | (pm2, inl a) => inr (MemErr a, mkpst s.(p_ip) pm2 rest out1 s.(p_ops) h)
          | (pm2, inr _) => inl (pm2, rest)
          end
        end
      else inl (pm1, s.(p_inp)) in
    match after_input with
    | inr r => inr r
    | inl (pm2, inp') =>
      (* mem.write_bit(flip_address, not mem.read_bit(flip_address)) *)
      match py_read_bit pm2 f with
      | (pm3, inl a) => inr (MemErr a, mkpst s.(p_ip) pm3 inp' out1 s.(p_ops) h)
      | (pm3, inr bit) =>
        match py_write_bit pm3 f (negb bit) with
        | (pm4, inl a) => inr (MemErr a, mkpst s.(p_ip) pm4 inp' out1 s.(p_ops) h)
        | (pm4, inr _) =>
          match py_get_word pm4 (s.(p_ip) + w) with                   (* jump_address *)
          | (pm5, inl a) => inr (MemErr a, mkpst s.(p_ip) pm5 inp' out1 s.(p_ops) h)
          | (pm5, inr j) =>
            let s' := mkpst j pm5 inp' out1 (s.(p_ops) + 1) h in      (* register_op *)
            if (j =? s.(p_ip)) && negb ((s.(p_ip) <=? f) && (f <? s.(p_ip) + 2 * w)) then inr (Looping, s')
            else if j <? 2 * w then inr (NullIP, s')
            else inl s'
          end
        end
      end
    end
  end.

(* ---- _run_fast : one loop iteration ------------------------------------------------------------- *)
(* `memory[a]` with the KeyError fallback to read_missing_word = mem._get_memory_word *)
Definition fast_lookup (pm : mem) (a : N) : mem * (N + N) :=
  match mget pm a with
  | Some v => (pm, inr v)
  | None => py_get_memory_word pm a
  end.

Definition fast_step (s : pst) : pst + (cause * pst) :=
  let bit_mask := w - 1 in
  let in_lo := in_addr - dw in
  let out1c := dw + 1 in
  let ip := s.(p_ip) in
  let h := ip :: s.(p_hist) in                                        (* append_last_op(ip) *)
  let bit_offset := N.land ip bit_mask in
  let rd1 := if negb (bit_offset =? 0) then py_get_word s.(p_mem) ip
             else fast_lookup s.(p_mem) (N.shiftr ip ww) in
  match rd1 with
  | (pm1, inl a) => inr (MemErr a, mkpst ip pm1 s.(p_inp) s.(p_out) s.(p_ops) h)
  | (pm1, inr f) =>
    let out1 := if f <=? out1c then (if dw <=? f then (out1c =? f) :: s.(p_out) else s.(p_out)) else s.(p_out) in
    let after_input : (mem * list bool) + (cause * pst) :=
      if (ip <=? in_addr) && (in_lo <? ip) then
        match s.(p_inp) with
        | [] => inr (EOFc, mkpst ip pm1 [] out1 s.(p_ops) h)
        | b :: rest =>
          match py_write_bit pm1 in_addr b with
          | (pm2, inl a) => inr (MemErr a, mkpst ip pm2 rest out1 s.(p_ops) h)
          | (pm2, inr _) => inl (pm2, rest)
          end
        end
      else inl (pm1, s.(p_inp)) in
    match after_input with
    | inr r => inr r
    | inl (pm2, inp') =>
      let fwa := N.shiftr f ww in
      match fast_lookup pm2 fwa with
      | (pm3, inl a) => inr (MemErr a, mkpst ip pm3 inp' out1 s.(p_ops) h)
      | (pm3, inr v) =>
        let pm4 := mset pm3 fwa (N.lxor v (N.shiftl 1 (N.land f bit_mask))) in
        let rd2 := if negb (bit_offset =? 0) then py_get_word pm4 (ip + w)
                   else fast_lookup pm4 (N.shiftr ip ww + 1) in
        match rd2 with
        | (pm5, inl a) => inr (MemErr a, mkpst ip pm5 inp' out1 s.(p_ops) h)
        | (pm5, inr j) =>
          let s' := mkpst j pm5 inp' out1 (s.(p_ops) + 1) h in
          if (j =? ip) && negb ((ip <=? f) && (f <? ip + dw)) then inr (Looping, s')
          else if j <? dw then inr (NullIP, s')
          else inl s'
        end
      end
    end
  end.

Fixpoint run_py (stepf : pst -> pst + (cause * pst)) (fuel : nat) (s : pst) : cause * pst :=
  match fuel with
  | O => (OutOfFuel, s)
  | S k => match stepf s with inl s' => run_py stepf k s' | inr r => r end
  end.

End W.
