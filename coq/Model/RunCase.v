(* Evaluation of one correspondence case on the machine definition (used by C01/C07/C18/C19 campaigns). *)
From FJ Require Import Lib.Base Spec.MachineSpec Model.EngPy.
Local Open Scope N_scope.

(* codes of flipjump.utils.classes.TerminationCause; 6 = watchdog / out of fuel *)
Definition cause_code (c : cause) : N * N :=
  match c with Looping => (0, 0) | EOFc => (1, 0) | NullIP => (2, 0) | MemErr a => (5, a) | OutOfFuel => (6, 0) end.

Record rcase := mkcase {
  c_eng : N;                         (* 0 featured, 1 fast, 2 native *)
  c_ww : N; c_segs : list (N * N); c_dlen : list N;   (* data length of each segment, as in the file *)
  c_words : list (N * N); c_input : list N; c_fuel : N;
  e_cause : N; e_ops : N; e_fault : N; e_outn : N; e_outb : list N; e_outv : N;  (* bit count, full bytes, value of the trailing bits *)
  e_last : option (N * list N);      (* ring length k, expected last-ops list (oldest first) *)
  e_mem : list (N * N)               (* expected final words *)
}.

Record robs := mkobs { o_cause : N; o_ops : N; o_fault : N; o_outn : N; o_outb : list N; o_outv : N; o_last : list N; o_mem : list (N * N) }.

Definition run_case (c : rcase) : cause * st :=
  run c.(c_ww) c.(c_segs) (N.to_nat c.(c_fuel)) (init (mem_of_list c.(c_words)) (bytes_bits c.(c_input))).

Definition observe (c : rcase) : robs :=
  let '(cs, s) := run_case c in
  let '(cc, fa) := cause_code cs in
  let '(ob, ot) := out_bytes s.(outp) in
  mkobs cc s.(ops) fa (N.of_nat (length s.(outp))) ob (bits_val ot)
        (match c.(e_last) with Some (k, _) => rev (firstn (N.to_nat k) s.(hist)) | None => [] end)
        (map (fun p => (fst p, mget0 s.(m) (fst p))) c.(e_mem)).

(* the Reader's representation of the loaded image (fjm_reader.Reader._init_memory):
   data words and zero tails shorter than 1000 words are dict entries, longer tails are zeros_boundaries *)
Fixpoint zero_range (pm : mem) (a : N) (n : nat) : mem :=
  match n with O => pm | S k => zero_range (mset pm a 0) (a + 1) k end.
Fixpoint py_image (segs : list (N * N)) (dl : list N) (pm : mem) (zbs : list (N * N)) : mem * list (N * N) :=
  match segs, dl with
  | (s, l) :: segs', d :: dl' =>
    let pm1 := zero_range pm s (N.to_nat d) in
    if l - d <? 1000 then py_image segs' dl' (zero_range pm1 (s + d) (N.to_nat (l - d))) zbs
    else py_image segs' dl' pm1 (zbs ++ [(s + d, s + l)])
  | _, _ => (pm, zbs)
  end.
Definition py_init (c : rcase) : list (N * N) * pst :=
  let '(pm0, zbs) := py_image c.(c_segs) c.(c_dlen) (PositiveMap.empty N) [] in
  let pm := fold_left (fun mm p => mset mm (fst p) (snd p)) c.(c_words) pm0 in
  (zbs, mkpst 0 pm (bytes_bits c.(c_input)) [] 0 []).
Definition run_case_py (c : rcase) : cause * pst :=
  let '(zbs, ps) := py_init c in
  run_py (if c.(c_eng) =? 0 then featured_step c.(c_ww) zbs else fast_step c.(c_ww) zbs) (N.to_nat c.(c_fuel)) ps.
Definition observe_py (c : rcase) : robs :=
  let '(cs, s) := run_case_py c in
  let '(cc, fa) := cause_code cs in
  let '(ob, ot) := out_bytes s.(p_out) in
  mkobs cc s.(p_ops) fa (N.of_nat (length s.(p_out))) ob (bits_val ot)
        (match c.(e_last) with Some (k, _) => rev (firstn (N.to_nat k) s.(p_hist)) | None => [] end)
        (map (fun p => (fst p, mget0 s.(p_mem) (fst p))) c.(e_mem)).

Fixpoint list_eqb (a b : list N) : bool :=
  match a, b with [] , [] => true | x :: a', y :: b' => (x =? y) && list_eqb a' b' | _, _ => false end.
Fixpoint pairs_eqb (a b : list (N * N)) : bool :=
  match a, b with [] , [] => true
  | x :: a', y :: b' => (fst x =? fst y) && (snd x =? snd y) && pairs_eqb a' b' | _, _ => false end.

Definition obs_matches (c : rcase) (o : robs) : bool :=
  (o.(o_cause) =? c.(e_cause)) &&
   ((o.(o_ops) =? c.(e_ops)) && (o.(o_fault) =? c.(e_fault)) &&
    (o.(o_outn) =? c.(e_outn)) && list_eqb o.(o_outb) c.(e_outb) && (o.(o_outv) =? c.(e_outv)) &&
    (match c.(e_last) with Some (_, l) => list_eqb o.(o_last) l | None => true end) &&
    pairs_eqb o.(o_mem) c.(e_mem)).

(* the machine definition against the observed behaviour; for the two Python engines also their
   transcription (Model/EngPy.v), which Proofs/EngPyProps.v proves equal to the definition *)
Definition check_case (c : rcase) : bool :=
  if c.(e_cause) =? 6 then    (* watchdog expiry: only "does not halt within the fuel" is compared *)
    match fst (run_case c) with OutOfFuel => true | _ => false end
  else
    obs_matches c (observe c) && ((2 <=? c.(c_eng)) || obs_matches c (observe_py c)).
