(* Evaluation of one correspondence case on the machine definition (used by C01/C07/C18/C19 campaigns). *)
From FJ Require Import Lib.Base Spec.MachineSpec.
Local Open Scope N_scope.

(* codes of flipjump.utils.classes.TerminationCause; 6 = watchdog / out of fuel *)
Definition cause_code (c : cause) : N * N :=
  match c with Looping => (0, 0) | EOFc => (1, 0) | NullIP => (2, 0) | MemErr a => (5, a) | OutOfFuel => (6, 0) end.

Record rcase := mkcase {
  c_ww : N; c_segs : list (N * N); c_words : list (N * N); c_input : list N; c_fuel : N;
  e_cause : N; e_ops : N; e_fault : N; e_outn : N; e_outb : list N; e_outv : N;  (* bit count, full bytes, value of the trailing bits *)
  e_last : option (N * list N);      (* ring length k, expected last-ops list (oldest first) *)
  e_mem : list (N * N)               (* expected final words *)
}.

Record robs := mkobs { o_cause : N; o_ops : N; o_fault : N; o_outn : N; o_outb : list N; o_outv : N; o_last : list N; o_mem : list (N * N) }.

Definition run_case (c : rcase) : cause * st :=
  run c.(c_ww) c.(c_segs) (N.to_nat c.(c_fuel)) (init (mem_of_list c.(c_words)) (bytes_bits c.(c_input))).

Definition observe (c : rcase) : robs :=
  let '(cs, s) := run_case c in
  let '(cc, fa) := cause_code cs in
  let '(ob, ot) := out_bytes s.(outp) in
  mkobs cc s.(ops) fa (N.of_nat (length s.(outp))) ob (bits_val ot)
        (match c.(e_last) with Some (k, _) => rev (firstn (N.to_nat k) s.(hist)) | None => [] end)
        (map (fun p => (fst p, mget0 s.(m) (fst p))) c.(e_mem)).

Fixpoint list_eqb (a b : list N) : bool :=
  match a, b with [] , [] => true | x :: a', y :: b' => (x =? y) && list_eqb a' b' | _, _ => false end.
Fixpoint pairs_eqb (a b : list (N * N)) : bool :=
  match a, b with [] , [] => true
  | x :: a', y :: b' => (fst x =? fst y) && (snd x =? snd y) && pairs_eqb a' b' | _, _ => false end.

Definition check_case (c : rcase) : bool :=
  if c.(e_cause) =? 6 then    (* watchdog expiry: only "does not halt within the fuel" is compared *)
    match fst (run_case c) with OutOfFuel => true | _ => false end
  else
  let o := observe c in
  (o.(o_cause) =? c.(e_cause)) &&
   ((o.(o_ops) =? c.(e_ops)) && (o.(o_fault) =? c.(e_fault)) &&
    (o.(o_outn) =? c.(e_outn)) && list_eqb o.(o_outb) c.(e_outb) && (o.(o_outv) =? c.(e_outv)) &&
    (match c.(e_last) with Some (_, l) => list_eqb o.(o_last) l | None => true end) &&
    pairs_eqb o.(o_mem) c.(e_mem)).
