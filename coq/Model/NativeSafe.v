From FJ Require Import Lib.Base.
(* C11 - index/size model of flipjump/interpreter/_fjcore.c.

   Every C array is a length-carrying object [arr]; every access goes through a checked accessor that
   returns [OOB site] on a bad index (or on a NULL base pointer).  Loops whose termination is not
   syntactically evident (open-addressing probes, the binary search) run on explicit fuel and return
   [NoFuel] when it runs out.  The theorems of Proofs/NativeSafe*.v show that neither constructor is
   reachable.  u64 arithmetic is explicit ([mod U64]); three kinds of arithmetic sites are distinguished:

   * sites whose wrap-around would be dangerous (a size or an index would become small): they are written
     with [nowrap], which returns [OOB W_...] when the mathematical result does not fit - proven unreachable;
   * the two overflow *tests* ([start + length < start]) are written with the exact [mod U64];
   * sites that really can wrap at run time (ip + width, word << ww, key * golden, the op/ring counters):
     the wrapped value is taken from an arbitrary oracle [ov] - safety is proven for EVERY oracle, i.e. the
     value such a computation wraps to never reaches an index without a bounds test on that very value.
     The C semantics is the instance [ov_c].

   Stored words are kept concretely (the model is executable and is compared with the sanitizer build by
   checks/c11.py), but the well-formedness invariant constrains no stored word: flip/jump words are
   arbitrary 64-bit values in every theorem.  Values that never influence an index or a size (op statistics,
   paused seconds, speculation counters) are left out.  CPython object creation is not modelled.
   No proofs in this file. *)
Local Open Scope N_scope.

Notation U64 := 18446744073709551616%N.
Notation SIZE_MAX := 18446744073709551615%N.
Notation PTRDIFF_MAX := 9223372036854775807%N.      (* no allocator returns an object larger than this *)
Notation SSIZE_LIM := 9223372036854775808%N.
Notation PAGE_BITS := 14%N.
Notation PAGE_WORDS := 16384%N.
Notation PAGE_MASK := 16383%N.
Notation GOLD := 11400714819323198485%N.            (* 0x9E3779B97F4A7C15 *)
Notation GARBAGE_SENTINEL := 9223372036854775808%N. (* 1 << 63 *)
Notation FLAT_GARBAGE_MAGIC := 13503953896175478587%N.
Notation FLAT_MAX_WORDS_DEFAULT := 8388608%N.       (* 1 << 23 *)
Notation SIGNAL_CHECK_PERIOD := 262144%N.           (* SIGNAL_CHECK_MASK + 1 *)

(* ---------------------------------------------------------------- results *)

Inductive site :=
| S_segments | S_qsort | S_qsort_null | S_slots | S_new_slots | S_page_deref | S_page_words
| S_cache | S_null_words | S_flat | S_flat_null | S_ring | S_fill | S_memset | S_memcpy_dst | S_memcpy_src
| W_seg_cap | W_seg_bytes | W_seg_count | W_mid | W_slot_count | W_used2 | W_used | W_flat_bytes | W_word_plus1
| W_shift_ub | W_div0 | W_null_page.

Inductive res (A : Type) := Ok (a : A) | OOB (x : site) | NoFuel.
Arguments Ok {A} a. Arguments OOB {A} x. Arguments NoFuel {A}.

Definition rbind {A B} (r : res A) (k : A -> res B) : res B :=
  match r with Ok a => k a | OOB x => OOB x | NoFuel => NoFuel end.
Notation "x <-- c ;; k" := (rbind c (fun x => k)) (at level 61, c at next level, right associativity).

Inductive exc := ValueError | MemoryError | OverflowError | TypeError | CallbackError.
Inductive out (A : Type) := Val (a : A) | Raise (e : exc).
Arguments Val {A} a. Arguments Raise {A} e.

(* ---------------------------------------------------------------- u64 arithmetic *)

Definition uadd (a b : N) := (a + b) mod U64.
Definition usub (a b : N) := (a + U64 - b mod U64) mod U64.
Definition ushl (a k : N) := (N.shiftl a k) mod U64.
Definition unot_and (v bit : N) := N.ldiff v bit.        (* v & ~bit *)

Definition nowrap (x : site) (v : N) : res N := if v <? U64 then Ok v else OOB x.
Definition nowrap_ss (x : site) (v : N) : res N := if v <? SSIZE_LIM then Ok v else OOB x.   (* Py_ssize_t *)
Definition shl1 (n : N) : res N := if n <? 64 then Ok (2 ^ n) else OOB W_shift_ub.          (* 1ull << n *)
Definition umod (a b : N) : res N := if b =? 0 then OOB W_div0 else Ok (a mod b).

Inductive wsite := V_ip_width | V_err_shift | V_hash | V_ring_writes | V_ops | V_ip_plus1.
Definition wov := wsite -> N -> N.
Definition wrapv (ov : wov) (x : wsite) (v : N) : N := if v <? U64 then v else (ov x v) mod U64.
Definition ov_c : wov := fun _ v => v.                    (* the C semantics: reduce modulo 2^64 *)

(* ---------------------------------------------------------------- arrays *)

Record arr (A : Type) := mkArr { alen : N; adat : N -> A }.
Arguments mkArr {A}. Arguments alen {A}. Arguments adat {A}.

Definition anew {A} (n : N) (d : A) : arr A := mkArr n (fun _ => d).
Definition aget {A} (x : site) (a : arr A) (i : N) : res A := if i <? alen a then Ok (adat a i) else OOB x.
Definition aupd {A} (a : arr A) (i : N) (v : A) : arr A := mkArr (alen a) (fun j => if j =? i then v else adat a j).
Definition aset {A} (x : site) (a : arr A) (i : N) (v : A) : res (arr A) :=
  if i <? alen a then Ok (aupd a i v) else OOB x.
Definition agetz {A} (x : site) (a : arr A) (i : Z) : res A := if (i <? 0)%Z then OOB x else aget x a (Z.to_N i).
(* memset-like: n elements from lo *)
Definition afill {A} (x : site) (a : arr A) (lo n : N) (v : A) : res (arr A) :=
  if lo + n <=? alen a then Ok (mkArr (alen a) (fun j => if (lo <=? j) && (j <? lo + n) then v else adat a j)) else OOB x.
(* memcpy(dst + doff, src + soff, n) *)
Definition acopy {A} (dst : arr A) (doff : N) (src : arr A) (soff n : N) : res (arr A) :=
  if doff + n <=? alen dst then
    if soff + n <=? alen src then
      Ok (mkArr (alen dst) (fun j => if (doff <=? j) && (j <? doff + n) then adat src (j - doff + soff) else adat dst j))
    else OOB S_memcpy_src
  else OOB S_memcpy_dst.
(* realloc to n >= alen elements: the old contents are kept *)
Definition aresize {A} (a : arr A) (n : N) (d : A) : arr A := mkArr n (fun j => if j <? alen a then adat a j else d).
(* a NULL base pointer indexes like an empty array *)
Definition oarr {A} (d : A) (o : option (arr A)) : arr A := match o with Some a => a | None => anew 0 d end.

(* ---------------------------------------------------------------- the open-addressing tables
   (MemoryObject.slots with payload Page*, SpecShadow.slots with payload jump_word) *)

Section Table.
  Context {V : Type} (dflt : V).

  Record tbl := mkTbl { t_slots : option (arr (N * V)); t_count : N; t_used : N }.

  Definition hash (ov : wov) (key cnt : N) : N := N.land (wrapv ov V_hash (key * GOLD)) (usub cnt 1).
  Definition next_slot (h cnt : N) : N := N.land (uadd h 1) (usub cnt 1).

  (* while (new_slots[h].key_plus1) h = (h + 1) & (new_count - 1); *)
  Fixpoint probe_empty (fuel : nat) (x : site) (a : arr (N * V)) (cnt h : N) : res N :=
    match fuel with
    | O => NoFuel
    | S f => s <-- aget x a h;; if fst s =? 0 then Ok h else probe_empty f x a cnt (next_slot h cnt)
    end.

  Inductive found := Found (h : N) (v : V) | Empty (h : N).

  (* while (slots[h].key_plus1) { if (slots[h].key_plus1 == key) return ...; h = (h + 1) & (count - 1); } *)
  Fixpoint probe_find (fuel : nat) (a : arr (N * V)) (cnt key h : N) : res found :=
    match fuel with
    | O => NoFuel
    | S f => s <-- aget S_slots a h;;
             if fst s =? 0 then Ok (Empty h)
             else if fst s =? key then Ok (Found h (snd s))
             else probe_find f a cnt key (next_slot h cnt)
    end.

  Definition tbl_probe (ov : wov) (t : tbl) (key : N) : res found :=
    probe_find (N.to_nat (t_count t)) (oarr (0, dflt) (t_slots t)) (t_count t) key (hash ov key (t_count t)).

  Definition tbl_new_count (init : N) (t : tbl) : res N :=
    if t_count t =? 0 then Ok init else nowrap W_slot_count (t_count t * 2).

  Fixpoint rehash_loop (k : nat) (i : N) (ov : wov) (old new : arr (N * V)) (nc : N) : res (arr (N * V)) :=
    match k with
    | O => Ok new
    | S k' => s <-- aget S_slots old i;;
              new' <-- (if fst s =? 0 then Ok new
                        else h <-- probe_empty (N.to_nat nc) S_new_slots new nc (hash ov (fst s) nc);;
                             aset S_new_slots new h s);;
              rehash_loop k' (i + 1) ov old new' nc
    end.

  (* the body of mem_grow_slots / spec_grow after a successful calloc(nc, sizeof slot) *)
  Definition tbl_rehash (ov : wov) (t : tbl) (nc : N) : res tbl :=
    new <-- rehash_loop (N.to_nat (t_count t)) 0 ov (oarr (0, dflt) (t_slots t)) (anew nc (0, dflt)) nc;;
    Ok (mkTbl (Some new) nc (t_used t)).

  Definition tbl_needs_grow (t : tbl) : res bool := u2 <-- nowrap W_used2 (t_used t * 2);; Ok (t_count t <=? u2).

  Definition tbl_insert (t : tbl) (h key : N) (v : V) : res tbl :=
    a <-- aset S_slots (oarr (0, dflt) (t_slots t)) h (key, v);;
    u <-- nowrap W_used (t_used t + 1);;
    Ok (mkTbl (Some a) (t_count t) u).

  Definition tbl_set_val (t : tbl) (h key : N) (v : V) : res tbl :=
    a <-- aset S_slots (oarr (0, dflt) (t_slots t)) h (key, v);;
    Ok (mkTbl (Some a) (t_count t) (t_used t)).
End Table.
Arguments tbl V : clear implicits.
Arguments found V : clear implicits.

(* ---------------------------------------------------------------- the Memory object *)

Definition seg := (N * N)%type.                          (* SegmentRange: start, end (exclusive) *)
Record page := mkPage { p_words : arr N; p_vs : N; p_ve : N }.
Definition ptr := option N.                              (* Page* / uint64_t* words: index into the page heap *)

Record cache := mkCache { c_key : arr N; c_page : arr ptr; c_words : arr ptr; c_vs : arr N; c_ve : arr N }.
Record segt := mkSegt { sg_arr : option (arr seg); sg_count : N; sg_cap : N; sg_sorted : bool }.
Record flt := mkFlt { f_arr : option (arr N); f_count : N; f_covers : bool }.
Record cfg := mkCfg { c_w : N; c_ww : N; c_mask : N; c_gstop : bool; c_fmax : N }.

Record st := mkSt {
  m_cfg : cfg;
  m_tbl : tbl ptr;          (* slots, slot_count, slots_used *)
  m_cache : cache;          (* the five parallel 16-entry arrays *)
  m_sg : segt;              (* segments, segment_count, segment_capacity, segments_sorted *)
  m_fl : flt;               (* flat, flat_count, flat_covers_all *)
  m_decided : bool;
  m_err : bool; m_err_addr : N;
  m_pages : arr page;       (* the C heap of Page objects (never freed before __init__/dealloc) *)
  m_nalloc : N;             (* allocation attempts so far: the index into the allocator oracle *)
  m_kept : option (list N)  (* last_run_last_ops: the list kept when a run is stopped by a Python exception, else NULL *)
}.

Definition set_cfg v s := mkSt v (m_tbl s) (m_cache s) (m_sg s) (m_fl s) (m_decided s) (m_err s) (m_err_addr s) (m_pages s) (m_nalloc s) (m_kept s).
Definition set_tbl v s := mkSt (m_cfg s) v (m_cache s) (m_sg s) (m_fl s) (m_decided s) (m_err s) (m_err_addr s) (m_pages s) (m_nalloc s) (m_kept s).
Definition set_cache v s := mkSt (m_cfg s) (m_tbl s) v (m_sg s) (m_fl s) (m_decided s) (m_err s) (m_err_addr s) (m_pages s) (m_nalloc s) (m_kept s).
Definition set_sg v s := mkSt (m_cfg s) (m_tbl s) (m_cache s) v (m_fl s) (m_decided s) (m_err s) (m_err_addr s) (m_pages s) (m_nalloc s) (m_kept s).
Definition set_fl v s := mkSt (m_cfg s) (m_tbl s) (m_cache s) (m_sg s) v (m_decided s) (m_err s) (m_err_addr s) (m_pages s) (m_nalloc s) (m_kept s).
Definition set_decided v s := mkSt (m_cfg s) (m_tbl s) (m_cache s) (m_sg s) (m_fl s) v (m_err s) (m_err_addr s) (m_pages s) (m_nalloc s) (m_kept s).
Definition set_err v a s := mkSt (m_cfg s) (m_tbl s) (m_cache s) (m_sg s) (m_fl s) (m_decided s) v a (m_pages s) (m_nalloc s) (m_kept s).
Definition set_pages v s := mkSt (m_cfg s) (m_tbl s) (m_cache s) (m_sg s) (m_fl s) (m_decided s) (m_err s) (m_err_addr s) v (m_nalloc s) (m_kept s).
Definition set_nalloc v s := mkSt (m_cfg s) (m_tbl s) (m_cache s) (m_sg s) (m_fl s) (m_decided s) (m_err s) (m_err_addr s) (m_pages s) v (m_kept s).
Definition set_kept v s := mkSt (m_cfg s) (m_tbl s) (m_cache s) (m_sg s) (m_fl s) (m_decided s) (m_err s) (m_err_addr s) (m_pages s) (m_nalloc s) v.

(* ---------------------------------------------------------------- the state/exception monad *)

Definition M (A : Type) := st -> res (out A * st).
Definition ret {A} (a : A) : M A := fun s => Ok (Val a, s).
Definition raise {A} (e : exc) : M A := fun s => Ok (Raise e, s).
Definition bind {A B} (c : M A) (k : A -> M B) : M B :=
  fun s => match c s with
           | Ok (Val a, s') => k a s'
           | Ok (Raise e, s') => Ok (Raise e, s')
           | OOB x => OOB x
           | NoFuel => NoFuel
           end.
Definition lift {A} (r : res A) : M A := fun s => match r with Ok a => Ok (Val a, s) | OOB x => OOB x | NoFuel => NoFuel end.
Definition gets {A} (f : st -> A) : M A := fun s => Ok (Val (f s), s).
Definition modify (f : st -> st) : M unit := fun s => Ok (Val tt, f s).
(* run c; a Python exception becomes a value (used for device callbacks that catch) *)
Definition catch {A} (c : M A) : M (A + exc) :=
  fun s => match c s with
           | Ok (Val a, s') => Ok (Val (inl a), s')
           | Ok (Raise e, s') => Ok (Val (inr e), s')
           | OOB x => OOB x
           | NoFuel => NoFuel
           end.
Notation "x <- c ;; k" := (bind c (fun x => k)) (at level 61, c at next level, right associativity).
Notation "c ;;; k" := (bind c (fun _ => k)) (at level 61, right associativity).

(* for (i = i0; i < i0 + k; i++) body - with early exit (inr) *)
Fixpoint for_ {X R} (k : nat) (i : N) (body : N -> X -> M (X + R)) (x : X) : M (X + R) :=
  match k with
  | O => ret (inl x)
  | S k' => r <- body i x;; match r with inl x' => for_ k' (i + 1) body x' | inr v => ret (inr v) end
  end.

(* the allocator: an arbitrary oracle (attempt index, byte size) -> success; no object exceeds PTRDIFF_MAX *)
Definition alloc := N -> N -> bool.
Definition try_alloc (al : alloc) (bytes : N) : M bool :=
  fun s => Ok (Val ((bytes <=? PTRDIFF_MAX) && al (m_nalloc s) bytes), set_nalloc (m_nalloc s + 1) s).

(* ---------------------------------------------------------------- pages *)

Definition dseg : seg := (0, 0).
Definition dslot : N * ptr := (0, None).
Definition dpage : page := mkPage (anew 0 0) 0 0.

Definition deref_page (p : N) : M page := pgs <- gets m_pages;; lift (aget S_page_deref pgs p).
Definition heap_alloc (pg : page) : M N :=
  pgs <- gets m_pages;;
  modify (set_pages (mkArr (alen pgs + 1) (fun j => if j =? alen pgs then pg else adat pgs j)));;;
  ret (alen pgs).
Definition store_page (p : N) (pg : page) : M unit :=
  pgs <- gets m_pages;; pgs' <- lift (aset S_page_deref pgs p pg);; modify (set_pages pgs').
(* words[off] through a words pointer *)
(* a uint64_t array yields uint64_t values *)
Definition page_read (p : N) (off : N) : M N := pg <- deref_page p;; v <- lift (aget S_page_words (p_words pg) off);; ret (v mod U64).
Definition page_write (p : N) (off v : N) : M unit :=
  pg <- deref_page p;; w <- lift (aset S_page_words (p_words pg) off v);; store_page p (mkPage w (p_vs pg) (p_ve pg)).

(* qsort(base, n, ...): touches exactly base[0 .. n); stable insertion sort by start *)
Fixpoint insert_seg (s : seg) (l : list seg) : list seg :=
  match l with [] => [s] | t :: r => if fst s <? fst t then s :: l else t :: insert_seg s r end.
Definition sort_segs (l : list seg) : list seg := fold_left (fun acc s => insert_seg s acc) l [].
Fixpoint nseq (k : nat) (i : N) : list N := match k with O => [] | S k' => i :: nseq k' (i + 1) end.
Definition qsort_checked (o : option (arr seg)) (n : N) : res (option (arr seg)) :=
  match o with
  | None => OOB S_qsort_null
  | Some a => if n <=? alen a then
                let l := sort_segs (map (adat a) (nseq (N.to_nat n) 0)) in
                Ok (Some (mkArr (alen a) (fun i => if i <? n then nth (N.to_nat i) l dseg else adat a i)))
              else OOB S_qsort
  end.

Definition mem_ensure_segments_sorted : M unit :=
  sg <- gets m_sg;;
  if sg_sorted sg then ret tt
  else a' <- lift (qsort_checked (sg_arr sg) (sg_count sg));;
       modify (set_sg (mkSegt a' (sg_count sg) (sg_cap sg) true)).

Fixpoint bsearch (fuel : nat) (a : arr seg) (wa : N) (lo hi : Z) : res bool :=
  match fuel with
  | O => NoFuel
  | S f => if (lo <=? hi)%Z then
             sum <-- (if (lo + hi <? 9223372036854775808)%Z then Ok (lo + hi)%Z else OOB W_mid);;
             let mid := Z.quot sum 2 in
             s <-- agetz S_segments a mid;;
             if wa <? fst s then bsearch f a wa lo (mid - 1)
             else if snd s <=? wa then bsearch f a wa (mid + 1) hi
             else Ok true
           else Ok false
  end.

Definition word_is_valid (wa : N) : M bool :=
  sg0 <- gets m_sg;;
  let hi := (Z.of_N (sg_count sg0) - 1)%Z in
  mem_ensure_segments_sorted;;;
  sg <- gets m_sg;;
  lift (bsearch (S (N.to_nat (sg_count sg))) (oarr dseg (sg_arr sg)) wa 0 hi).

Definition page_compute_validity (page_index : N) : M (N * N) :=
  let page_start := ushl page_index PAGE_BITS in
  let page_end := uadd page_start PAGE_WORDS in
  mem_ensure_segments_sorted;;;
  sg <- gets m_sg;;
  r <- for_ (N.to_nat (sg_count sg)) 0
         (fun i (_ : unit) =>
            se <- lift (aget S_segments (oarr dseg (sg_arr sg)) i);;
            let s := fst se in let e := snd se in
            if (e <=? page_start) || (page_end <=? s) then ret (inl tt)
            else ret (inr ((if page_start <? s then s - page_start else 0),
                           (if e <? page_end then e - page_start else PAGE_WORDS)))) tt;;
  ret (match r with inl _ => (0, 0) | inr v => v end).

Definition cache_set (cslot key : N) (pp : ptr) (pw : ptr) (vs ve : N) : M unit :=
  c <- gets m_cache;;
  k' <- lift (aset S_cache (c_key c) cslot key);;
  p' <- lift (aset S_cache (c_page c) cslot pp);;
  w' <- lift (aset S_cache (c_words c) cslot pw);;
  s' <- lift (aset S_cache (c_vs c) cslot vs);;
  e' <- lift (aset S_cache (c_ve c) cslot ve);;
  modify (set_cache (mkCache k' p' w' s' e')).

Definition page_cache_fill (cslot key : N) (p : N) : M unit :=
  pg <- deref_page p;;
  cache_set cslot key (Some p) (Some p) (p_vs pg) (p_ve pg).      (* page->words is the page's own buffer *)

Definition mem_grow_slots (al : alloc) (ov : wov) : M unit :=
  t <- gets m_tbl;;
  nc <- lift (tbl_new_count 64 t);;
  ok <- try_alloc al (nc * 16);;                                  (* calloc checks the product itself *)
  if ok then t' <- lift (tbl_rehash None ov t nc);; modify (set_tbl t') else raise MemoryError.

(* mem_get_page(m, word_address >> PAGE_BITS): every caller passes a shifted word address *)
Definition mem_get_page (al : alloc) (ov : wov) (wa : N) : M N :=
  let page_index := N.shiftr wa PAGE_BITS in
  let key := uadd page_index 1 in
  let cslot := N.land page_index 15 in
  c <- gets m_cache;;
  ck <- lift (aget S_cache (c_key c) cslot);;
  if key =? ck then
    pp <- lift (aget S_cache (c_page c) cslot);;
    match pp with Some p => ret p | None => lift (OOB W_null_page) end
  else
    t0 <- gets m_tbl;;
    g <- lift (tbl_needs_grow t0);;
    (if g then mem_grow_slots al ov else ret tt);;;
    t <- gets m_tbl;;
    f <- lift (tbl_probe None ov t key);;
    match f with
    | Found h pp =>
        match pp with
        | Some p => page_cache_fill cslot key p;;; ret p
        | None => lift (OOB W_null_page)
        end
    | Empty h =>
        ok1 <- try_alloc al 24;;                                   (* malloc(sizeof(Page)) *)
        if negb ok1 then raise MemoryError else
        ok2 <- try_alloc al (PAGE_WORDS * 8);;                     (* calloc(PAGE_WORDS, 8) *)
        if negb ok2 then raise MemoryError else
        v <- page_compute_validity page_index;;
        p <- heap_alloc (mkPage (anew PAGE_WORDS 0) (fst v) (snd v));;
        t1 <- gets m_tbl;;
        t' <- lift (tbl_insert None t1 h key (Some p));;
        modify (set_tbl t');;;
        page_cache_fill cslot key p;;;
        ret p
    end.

Definition set_error (addr : N) : M unit := modify (set_err true addr).

Definition access_check (ov : wov) (p : N) (wa : N) : M bool :=
  let off := N.land wa PAGE_MASK in
  pg <- deref_page p;;
  if (p_vs pg <=? off) && (off <? p_ve pg) then ret true else
  v <- word_is_valid wa;;
  if v then ret true else
  c <- gets m_cfg;;
  if negb (c_gstop c) then ret true else
  set_error (wrapv ov V_err_shift (N.shiftl wa (c_ww c)));;; ret false.

Definition flat_garbage (ov : wov) (wa : N) : M bool :=
  c <- gets m_cfg;;
  if negb (c_gstop c) then ret true else
  set_error (wrapv ov V_err_shift (N.shiftl wa (c_ww c)));;; ret false.

Definition flat_is_garbage (c : cfg) (v : N) : bool :=
  if c_w c <=? 32 then negb (N.land v GARBAGE_SENTINEL =? 0) else v =? FLAT_GARBAGE_MAGIC.

Definition flat_seg_contains (wa : N) : M bool :=
  sg <- gets m_sg;;
  r <- for_ (N.to_nat (sg_count sg)) 0
         (fun i (_ : unit) =>
            se <- lift (aget S_segments (oarr dseg (sg_arr sg)) i);;
            if (fst se <=? wa) && (wa <? snd se) then ret (inr tt) else ret (inl tt)) tt;;
  ret (match r with inl _ => false | inr _ => true end).

(* None: -1 (mem_error set); Some v: 0 with *value = v *)
Definition flat_garbage_check (ov : wov) (wa v : N) : M (option N) :=
  c <- gets m_cfg;;
  inseg <- (if 32 <? c_w c then flat_seg_contains wa else ret false);;
  if inseg then ret (Some v) else
  g <- flat_garbage ov wa;;
  if g then ret (Some 0) else ret None.

Definition flat_read (wa : N) : M N :=
  fl <- gets m_fl;; a <- lift (match f_arr fl with Some a => Ok a | None => OOB S_flat_null end);; v <- lift (aget S_flat a wa);; ret (v mod U64).
Definition flat_write (wa v : N) : M unit :=
  fl <- gets m_fl;; a <- lift (match f_arr fl with Some a => Ok a | None => OOB S_flat_null end);;
  a' <- lift (aset S_flat a wa v);; modify (set_fl (mkFlt (Some a') (f_count fl) (f_covers fl))).
Definition flat_has (wa : N) : M bool :=
  fl <- gets m_fl;; ret (match f_arr fl with Some _ => wa <? f_count fl | None => false end).

Definition flat_value (ov : wov) (wa : N) : M (option N) :=
  c <- gets m_cfg;;
  v <- flat_read wa;;
  if flat_is_garbage c v then flat_garbage_check ov wa v else ret (Some v).

Definition paged_access (al : alloc) (ov : wov) (wa : N) : M (option N) :=   (* Some p: page ok to touch *)
  p <- mem_get_page al ov wa;;
  okc <- access_check ov p wa;;
  if okc then ret (Some p) else ret None.

Definition mem_read_word (al : alloc) (ov : wov) (wa : N) : M (option N) :=
  h <- flat_has wa;;
  if h then flat_value ov wa else
  a <- paged_access al ov wa;;
  match a with Some p => v <- page_read p (N.land wa PAGE_MASK);; ret (Some v) | None => ret None end.

Definition mem_flip_bit (al : alloc) (ov : wov) (ba : N) : M bool :=
  c <- gets m_cfg;;
  let wa := N.shiftr ba (c_ww c) in
  bit <- lift (shl1 (N.land ba (usub (c_w c) 1)));;
  h <- flat_has wa;;
  if h then
    v <- flat_value ov wa;;
    match v with Some v => flat_write wa (N.lxor v bit);;; ret true | None => ret false end
  else
    a <- paged_access al ov wa;;
    match a with
    | Some p => v <- page_read p (N.land wa PAGE_MASK);; page_write p (N.land wa PAGE_MASK) (N.lxor v bit);;; ret true
    | None => ret false
    end.

Definition mem_write_bit (al : alloc) (ov : wov) (ba : N) (b : bool) : M bool :=
  c <- gets m_cfg;;
  let wa := N.shiftr ba (c_ww c) in
  bit <- lift (shl1 (N.land ba (usub (c_w c) 1)));;
  h <- flat_has wa;;
  if h then
    v <- flat_value ov wa;;
    match v with Some v => flat_write wa (if b then N.lor v bit else unot_and v bit);;; ret true | None => ret false end
  else
    a <- paged_access al ov wa;;
    match a with
    | Some p => v <- page_read p (N.land wa PAGE_MASK);;
                page_write p (N.land wa PAGE_MASK) (if b then N.lor v bit else unot_and v bit);;; ret true
    | None => ret false
    end.

Definition mem_get_word_unaligned (al : alloc) (ov : wov) (ba : N) : M (option N) :=
  c <- gets m_cfg;;
  let wa := N.shiftr ba (c_ww c) in
  let bo := N.land ba (usub (c_w c) 1) in
  if bo =? 0 then mem_read_word al ov wa else
  if wa =? c_mask c then set_error ba;;; ret None else
  l <- mem_read_word al ov wa;;
  match l with None => ret None | Some lsw =>
    wa1 <- lift (nowrap W_word_plus1 (wa + 1));;
    h <- mem_read_word al ov wa1;;
    match h with None => ret None | Some msw =>
      ret (Some (N.land (N.lor (N.shiftr lsw bo) (ushl msw (c_w c - bo))) (c_mask c)))
    end
  end.

(* ---------------------------------------------------------------- mem_decide_storage *)

Record envv := mkEnv { e_no_flat : bool; e_flat_max : N; e_alloc_fail : bool; e_measure : bool }.

Definition mem_flat_words_limit (ev : envv) (c : cfg) : N :=
  if negb (c_fmax c =? 0) then c_fmax c
  else if negb (e_flat_max ev mod U64 =? 0) then e_flat_max ev mod U64
  else FLAT_MAX_WORDS_DEFAULT.

Definition mem_decide_storage (ev : envv) (al : alloc) : M unit :=
  d <- gets m_decided;;
  if d then ret tt else
  modify (set_decided true);;;
  sg <- gets m_sg;; c <- gets m_cfg;;
  if sg_count sg =? 0 then raise ValueError else
  if negb (c_gstop c) then ret tt else
  if e_no_flat ev then ret tt else
  let limit := mem_flat_words_limit ev c in
  let segs := oarr dseg (sg_arr sg) in
  r <- for_ (N.to_nat (sg_count sg)) 0
         (fun i (acc : N * N) =>
            se <- lift (aget S_segments segs i);;
            let max_end := if fst acc <? snd se then snd se else fst acc in
            let low := if fst se <? limit then
                         let ce := if snd se <? limit then snd se else limit in
                         if snd acc <? ce then ce else snd acc
                       else snd acc in
            ret (inl (max_end, low) : (N * N) + unit)) (0, 0);;
  let max_end := match r with inl a => fst a | inr _ => 0 end in
  let low_max_end := match r with inl a => snd a | inr _ => 0 end in
  if low_max_end =? 0 then raise ValueError else
  if SIZE_MAX / 8 <? low_max_end then ret tt else
  if e_alloc_fail ev then ret tt else
  bytes <- lift (nowrap W_flat_bytes (low_max_end * 8));;
  ok <- try_alloc al bytes;;
  if negb ok then ret tt else
  let fillv := if c_w c <=? 32 then GARBAGE_SENTINEL else FLAT_GARBAGE_MAGIC in
  f0 <- lift (afill S_fill (anew low_max_end 0) 0 low_max_end fillv);;        (* for (i = 0; i < low_max_end; i++) *)
  r1 <- for_ (N.to_nat (sg_count sg)) 0
          (fun i (fa : arr N) =>
             se <- lift (aget S_segments segs i);;
             let ec := if snd se <? low_max_end then snd se else low_max_end in
             if fst se <? ec then fa' <- lift (afill S_memset fa (fst se) (ec - fst se) 0);; ret (inl fa' : arr N + unit)
             else ret (inl fa)) f0;;
  let f1 := match r1 with inl a => a | inr _ => f0 end in
  t <- gets m_tbl;;
  r2 <- (match t_slots t with
         | None => ret (inl f1 : arr N + unit)
         | Some sl =>
             for_ (N.to_nat (t_count t)) 0
               (fun i (fa : arr N) =>
                  s <- lift (aget S_slots sl i);;
                  if fst s =? 0 then ret (inl fa : arr N + unit) else
                  let page_start := ushl (usub (fst s) 1) PAGE_BITS in
                  let page_end := uadd page_start PAGE_WORDS in
                  p <- lift (match snd s with Some p => Ok p | None => OOB W_null_page end);;
                  for_ (N.to_nat (sg_count sg)) 0
                    (fun k (fb : arr N) =>
                       se <- lift (aget S_segments segs k);;
                       let lo := if page_start <? fst se then fst se else page_start in
                       let hi0 := if snd se <? page_end then snd se else page_end in
                       let hi := if low_max_end <? hi0 then low_max_end else hi0 in
                       if lo <? hi then
                         pg <- deref_page p;;
                         fb' <- lift (acopy fb lo (p_words pg) (lo - page_start) (hi - lo));;
                         ret (inl fb' : arr N + unit)
                       else ret (inl fb)) fa) f1
         end);;
  let f2 := match r2 with inl a => a | inr _ => f1 end in
  modify (set_fl (mkFlt (Some f2) low_max_end (max_end <=? low_max_end))).

(* ---------------------------------------------------------------- the API methods *)

Definition fresh_cache : cache := mkCache (anew 16 0) (anew 16 None) (anew 16 None) (anew 16 0) (anew 16 0).
Definition fresh (w : N) (gstop : bool) (fmax : N) (nalloc : N) : st :=
  mkSt (mkCfg w (N.log2 w) (if w =? 64 then SIZE_MAX else 2 ^ w - 1) gstop (fmax mod U64))
       (mkTbl None 0 0) fresh_cache (mkSegt None 0 0 true) (mkFlt None 0 false) false false 0 (anew 0 dpage) nalloc None.
(* the object as PyType_GenericNew leaves it (all zero) and after a first successful __init__ *)
Definition zeroed : st := fresh 0 false 0 0.

(* Memory.__init__(w, garbage_stop, flat_max_words): also on a live object (frees everything first) *)
Definition api_init (w : N) (gstop : bool) (fmax : N) : M unit :=
  if (w =? 8) || (w =? 16) || (w =? 32) || (w =? 64) then
    n <- gets m_nalloc;; modify (fun _ => fresh w gstop fmax n)
  else raise ValueError.

Definition api_add_segment (al : alloc) (start0 len0 : N) : M unit :=
  let start := start0 mod U64 in let len := len0 mod U64 in          (* "K": masked, no overflow check *)
  if uadd start len <? start then raise ValueError else
  sg <- gets m_sg;;
  (if sg_count sg =? sg_cap sg then
     ncap <- lift (nowrap_ss W_seg_cap (if sg_cap sg =? 0 then 8 else sg_cap sg * 2));;
     bytes <- lift (nowrap W_seg_bytes (ncap * 16));;
     ok <- try_alloc al bytes;;
     if ok then modify (set_sg (mkSegt (Some (aresize (oarr dseg (sg_arr sg)) ncap dseg)) (sg_count sg) ncap (sg_sorted sg)))
     else raise MemoryError
   else ret tt);;;
  sg1 <- gets m_sg;;
  a' <- lift (aset S_segments (oarr dseg (sg_arr sg1)) (sg_count sg1) (start, uadd start len));;
  cnt' <- lift (nowrap_ss W_seg_count (sg_count sg1 + 1));;
  modify (set_sg (mkSegt (Some a') cnt' (sg_cap sg1) false));;;
  t <- gets m_tbl;;
  match t_slots t with
  | None => ret tt
  | Some _ =>
      r <- for_ (N.to_nat (t_count t)) 0
             (fun i (_ : unit) =>
                t1 <- gets m_tbl;;
                s <- lift (aget S_slots (oarr dslot (t_slots t1)) i);;
                if fst s =? 0 then ret (inl tt : unit + unit) else
                p <- lift (match snd s with Some p => Ok p | None => OOB W_null_page end);;
                v <- page_compute_validity (usub (fst s) 1);;
                pg <- deref_page p;;
                store_page p (mkPage (p_words pg) (fst v) (snd v));;;
                ret (inl tt)) tt;;
      ret tt
  end.

Definition api_set_word (al : alloc) (ov : wov) (wa0 v0 : N) : M unit :=
  let wa := wa0 mod U64 in let v := v0 mod U64 in
  c <- gets m_cfg;;
  h <- flat_has wa;;
  inseg <- (if h then flat_seg_contains wa else ret false);;
  if inseg then flat_write wa (N.land v (c_mask c)) else
  p <- mem_get_page al ov wa;;
  page_write p (N.land wa PAGE_MASK) (N.land v (c_mask c)).

Definition api_get_word (al : alloc) (ov : wov) (wa0 : N) : M N :=
  let wa := wa0 mod U64 in
  h <- flat_has wa;;
  inseg <- (if h then flat_seg_contains wa else ret false);;
  if inseg then flat_read wa else
  p <- mem_get_page al ov wa;;
  page_read p (N.land wa PAGE_MASK).

(* an element of the values sequence as PyLong_AsUnsignedLongLong sees it *)
Inductive item := ItInt (v : N) | ItOverflow | ItNotInt.

Definition api_set_words (al : alloc) (ov : wov) (start0 : N) (values : list item) : M unit :=
  let start := start0 mod U64 in
  let count := N.of_nat (length values) in
  if SSIZE_LIM <=? count then raise OverflowError else
  if uadd start count <? start then raise ValueError else
  fl <- gets m_fl;;
  if (match f_arr fl with Some _ => f_count fl <? uadd start count | None => false end) then raise ValueError else
  c <- gets m_cfg;;
  r <- for_ (length values) 0
         (fun i (_ : unit) =>
            match nth (N.to_nat i) values ItNotInt with
            | ItOverflow => raise OverflowError
            | ItNotInt => raise TypeError
            | ItInt v0 =>
                let v := v0 mod U64 in
                fl1 <- gets m_fl;;
                match f_arr fl1 with
                | Some _ => flat_write (uadd start i) (N.land v (c_mask c));;; ret (inl tt : unit + unit)
                | None => p <- mem_get_page al ov (uadd start i);;
                          page_write p (N.land (uadd start i) PAGE_MASK) (N.land v (c_mask c));;; ret (inl tt)
                end
            end) tt;;
  ret tt.

Definition allocated_bytes (s : st) : N :=
  (f_count (m_fl s) * 8 + t_used (m_tbl s) * PAGE_WORDS * 8 + t_count (m_tbl s) * 16) mod U64.
(* 0: None (undecided), 1: paged, 2: hybrid, 3: flat *)
(* the last_run_last_ops getter: the kept list, or a fresh empty one *)
Definition last_run_last_ops (s : st) : list N := match m_kept s with Some l => l | None => [] end.
Definition storage_mode (s : st) : N :=
  if negb (m_decided s) then 0 else
  match f_arr (m_fl s) with None => 1 | Some _ => if f_covers (m_fl s) then 3 else 2 end.

(* ---------------------------------------------------------------- callbacks *)

(* what a device does inside read_bit / write_bit: word reads and writes through NativeDeviceMemory
   (get_word / set_word with any Python int as address), then it returns or raises *)
Inductive devop := DevGet (a : N) | DevSet (a v : N).
Inductive cbres := CbBool (b : bool) | CbEOF | CbRaise | CbBadTruth.
Record cb := mkCb { cb_ops : list devop; cb_catch : bool; cb_res : cbres }.

Fixpoint dev_ops (al : alloc) (ov : wov) (catches : bool) (l : list devop) : M bool :=   (* false: an exception escaped *)
  match l with
  | [] => ret true
  | o :: r =>
      x <- catch (match o with DevGet a => api_get_word al ov a;;; ret tt | DevSet a v => api_set_word al ov a v end);;
      match x with inl _ => dev_ops al ov catches r | inr _ => if catches then dev_ops al ov catches r else ret false end
  end.

Definition do_callback (al : alloc) (ov : wov) (c : cb) : M cbres :=
  okd <- dev_ops al ov (cb_catch c) (cb_ops c);;
  ret (if okd then cb_res c else CbRaise).

(* the k-th write_bit call, the k-th read_bit call, the signal check at op count n *)
Record world := mkWorld { w_out : N -> cb; w_in : N -> cb; w_sig : N -> bool }.

Inductive stepres (L : Type) := Cont (l : L) | Term (cause : N) (l : L) | PyError (e : exc) (l : L).   (* PyError: CAUSE_PYTHON_ERROR *)
Arguments Cont {L} l. Arguments Term {L} cause l. Arguments PyError {L} e l.
Notation TERM_LOOPING := 0%N. Notation TERM_EOF := 1%N. Notation TERM_NULL_IP := 2%N. Notation TERM_MEMORY_ERROR := 3%N.

Record locals := mkLoc { l_ip : N; l_ops : N; l_nout : N; l_nin : N; l_inner : N; l_ring : option (arr N); l_rlen : N; l_rw : N;
                         l_shadow : tbl N }.
Definition set_ip ip l := mkLoc ip (l_ops l) (l_nout l) (l_nin l) (l_inner l) (l_ring l) (l_rlen l) (l_rw l) (l_shadow l).
Definition next_op (ov : wov) ip l := mkLoc ip (wrapv ov V_ops (l_ops l + 1)) (l_nout l) (l_nin l) (l_inner l) (l_ring l) (l_rlen l) (l_rw l) (l_shadow l).
Definition bump_out l := mkLoc (l_ip l) (l_ops l) (l_nout l + 1) (l_nin l) (l_inner l) (l_ring l) (l_rlen l) (l_rw l) (l_shadow l).
Definition bump_in l := mkLoc (l_ip l) (l_ops l) (l_nout l) (l_nin l + 1) (l_inner l) (l_ring l) (l_rlen l) (l_rw l) (l_shadow l).
Definition set_inner n l := mkLoc (l_ip l) (l_ops l) (l_nout l) (l_nin l) n (l_ring l) (l_rlen l) (l_rw l) (l_shadow l).
Definition set_ring r rw l := mkLoc (l_ip l) (l_ops l) (l_nout l) (l_nin l) (l_inner l) r (l_rlen l) rw (l_shadow l).
Definition set_shadow t l := mkLoc (l_ip l) (l_ops l) (l_nout l) (l_nin l) (l_inner l) (l_ring l) (l_rlen l) (l_rw l) t.

(* the memory_error: label - a -1 from a helper with mem_error set *)
Definition memory_error_exit (l : locals) : M (stepres locals) :=
  modify (fun s => set_err false (m_err_addr s) s);;; ret (Term TERM_MEMORY_ERROR l).

(* output: result object or NULL *)
Definition io_output (al : alloc) (ov : wov) (wd : world) (l : locals) : M (bool * locals) :=
  r <- do_callback al ov (w_out wd (l_nout l));;
  ret (match r with CbBool _ | CbBadTruth => true | _ => false end, bump_out l).

Inductive inres := InBit (b : bool) | InEOF | InErr.
Definition io_input (al : alloc) (ov : wov) (wd : world) (l : locals) : M (inres * locals) :=
  r <- do_callback al ov (w_in wd (l_nin l));;
  ret (match r with CbBool b => InBit b | CbEOF => InEOF | _ => InErr end, bump_in l).

Definition io_consts (c : cfg) := let w := c_w c in let dw := 2 * w in let in_addr := 3 * w + c_ww c + 1 in (dw, in_addr, in_addr - dw).

(* the part of one op between flip_word_ready and the flip, common to the three loops:
   inl l': go on to the flip; inr r: leave the loop *)
Definition io_phase (al : alloc) (ov : wov) (wd : world) (l : locals) (f : N) : M (locals + stepres locals) :=
  c <- gets m_cfg;;
  let '(dw, in_addr, in_lo) := io_consts c in
  o <- (if usub f dw <=? 1 then io_output al ov wd l else ret (true, l));;
  if negb (fst o) then ret (inr (PyError CallbackError (snd o))) else
  let l1 := snd o in
  if usub (usub (l_ip l1) in_lo) 1 <? dw then
    i <- io_input al ov wd l1;;
    match fst i with
    | InEOF => ret (inr (Term TERM_EOF (snd i)))
    | InErr => ret (inr (PyError CallbackError (snd i)))
    | InBit b => okw <- mem_write_bit al ov in_addr b;;
                 if okw then ret (inl (snd i)) else r <- memory_error_exit (snd i);; ret (inr r)
    end
  else ret (inl l1).

Definition finish_op (ov : wov) (c : cfg) (l : locals) (f j : N) : stepres locals :=
  let dw := 2 * c_w c in
  let ip := l_ip l in
  let l' := next_op ov ip l in
  if (j =? ip) && negb ((ip <=? f) && (usub f ip <? dw)) then Term TERM_LOOPING l'
  else if j <? dw then Term TERM_NULL_IP l'
  else Cont (next_op ov j l).

(* PyErr_CheckSignals at the head of the outer loop, then inner_left = SIGNAL_CHECK_MASK + 1 *)
Definition signal_check (wd : world) (l : locals) : locals + stepres locals :=
  if l_inner l =? 0 then (if w_sig wd (l_ops l) then inr (PyError CallbackError l) else inl (set_inner (SIGNAL_CHECK_PERIOD - 1) l))
  else inl (set_inner (l_inner l - 1) l).

(* ---------------------------------------------------------------- run_flat_loop_impl: one op *)

Definition flat_op (al : alloc) (ov : wov) (wd : world) (fc : N) (l0 : locals) : M (stepres locals) :=
  match signal_check wd l0 with inr r => ret r | inl l =>
  c <- gets m_cfg;;
  let ip := l_ip l in
  let bit_mask := usub (c_w c) 1 in
  (* read flip word *)
  fw <- (if negb (N.land ip bit_mask =? 0) then
           r <- mem_get_word_unaligned al ov ip;; ret (r, SIZE_MAX - 1)                (* (uint64_t)-2 *)
         else
           let wa := N.shiftr ip (c_ww c) in
           wa1 <- lift (nowrap W_word_plus1 (wa + 1));;
           if fc <=? wa1 then r <- mem_read_word al ov wa;; ret (r, wa)
           else r <- flat_value ov wa;; ret (r, wa));;
  match fst fw with None => memory_error_exit l | Some f =>
  let wa := snd fw in
  ph <- io_phase al ov wd l f;;
  match ph with inr r => ret r | inl l1 =>
  (* FLIP *)
  let fwa := N.shiftr f (c_ww c) in
  okf <- (if fc <=? fwa then mem_flip_bit al ov f
          else v <- flat_value ov fwa;;
               match v with None => ret false
               | Some fv => bit <- lift (shl1 (N.land f bit_mask));; flat_write fwa (N.lxor fv bit);;; ret true end);;
  if negb okf then memory_error_exit l1 else
  (* read jump word *)
  wa1 <- lift (nowrap W_word_plus1 (wa + 1));;
  jr <- (if fc <=? wa1 then mem_get_word_unaligned al ov (wrapv ov V_ip_width (ip + c_w c))
         else flat_value ov wa1);;
  match jr with None => memory_error_exit l1 | Some j => ret (finish_op ov c l1 f j) end
  end end end.

(* ---------------------------------------------------------------- run_paged_loop_impl: one op
   (with_ring = the ring is non-NULL; the flat lane exists only with a ring) *)

Inductive oplane := HotLane (p : N) (off ve : N)      (* op_words, op_offset, op_valid_end *)
                  | FlatLane (jaddr : N)              (* op_flat_jump - flat *)
                  | SlowLane.

(* the op after the ring write (l already holds the written ring) *)
Definition paged_op_body (al : alloc) (ov : wov) (wd : world) (fc : N) (l : locals) : M (stepres locals) :=
  c <- gets m_cfg;;
  let ip := l_ip l in
  let bit_mask := usub (c_w c) 1 in
  let with_ring := match l_ring l with Some _ => true | None => false end in
  fl <- gets m_fl;;
  let use_flat := with_ring && match f_arr fl with Some _ => true | None => false end in
  fw <- (if negb (N.land ip bit_mask =? 0) then
           r <- mem_get_word_unaligned al ov ip;; ret (r, SlowLane)
         else
           let wa := N.shiftr ip (c_ww c) in
           if use_flat then
             wa1 <- lift (nowrap W_word_plus1 (wa + 1));;
             if fc <=? wa1 then r <- mem_read_word al ov wa;; ret (r, SlowLane)
             else r <- flat_value ov wa;; ret (r, FlatLane wa1)
           else
             let off := N.land wa PAGE_MASK in
             if off =? PAGE_MASK then r <- mem_read_word al ov wa;; ret (r, SlowLane) else
             let slot := N.land (N.shiftr wa PAGE_BITS) 15 in
             ca0 <- gets m_cache;;
             k0 <- lift (aget S_cache (c_key ca0) slot);;
             (if uadd (N.shiftr wa PAGE_BITS) 1 =? k0 then ret tt else mem_get_page al ov wa;;; ret tt);;;
             ca <- gets m_cache;;
             vs <- lift (aget S_cache (c_vs ca) slot);;
             ve <- lift (aget S_cache (c_ve ca) slot);;
             if (off <? vs) || (ve <=? off) then r <- mem_read_word al ov wa;; ret (r, SlowLane) else
             pw <- lift (aget S_cache (c_words ca) slot);;
             p <- lift (match pw with Some p => Ok p | None => OOB S_null_words end);;
             f <- page_read p off;;
             ret (Some f, HotLane p off ve));;
  match fst fw with None => memory_error_exit l | Some f =>
  let lane := snd fw in
  ph <- io_phase al ov wd l f;;
  match ph with inr r => ret r | inl l1 =>
  (* FLIP *)
  okf <- (if with_ring then mem_flip_bit al ov f else
          let fwa := N.shiftr f (c_ww c) in
          let foff := N.land fwa PAGE_MASK in
          let fslot := N.land (N.shiftr fwa PAGE_BITS) 15 in
          ca <- gets m_cache;;
          k <- lift (aget S_cache (c_key ca) fslot);;
          if negb (uadd (N.shiftr fwa PAGE_BITS) 1 =? k) then mem_flip_bit al ov f else
          vs <- lift (aget S_cache (c_vs ca) fslot);;
          ve <- lift (aget S_cache (c_ve ca) fslot);;
          if (foff <? vs) || (ve <=? foff) then mem_flip_bit al ov f else
          pw <- lift (aget S_cache (c_words ca) fslot);;
          p <- lift (match pw with Some p => Ok p | None => OOB S_null_words end);;
          bit <- lift (shl1 (N.land f bit_mask));;
          v <- page_read p foff;;
          page_write p foff (N.lxor v bit);;; ret true);;
  if negb okf then memory_error_exit l1 else
  (* read jump word *)
  jr <- (match lane with
         | FlatLane ja => flat_value ov ja
         | HotLane p off ve =>
             if ve <=? off + 1 then
               wa1 <- lift (nowrap W_word_plus1 (N.shiftr ip (c_ww c) + 1));; mem_read_word al ov wa1
             else v <- page_read p (off + 1);; ret (Some v)
         | SlowLane =>
             if negb (N.land ip bit_mask =? 0) then mem_get_word_unaligned al ov (wrapv ov V_ip_width (ip + c_w c))
             else wa1 <- lift (nowrap W_word_plus1 (N.shiftr ip (c_ww c) + 1));; mem_read_word al ov wa1
         end);;
  match jr with None => memory_error_exit l1 | Some j => ret (finish_op ov c l1 f j) end
  end end.

(* a Python error raised inside a helper (an allocation failure in mem_get_page) leaves the loop through
   memory_or_python_error with the locals - ring, ring_writes - as they are: CAUSE_PYTHON_ERROR *)
Definition paged_op (al : alloc) (ov : wov) (wd : world) (fc : N) (l0 : locals) : M (stepres locals) :=
  match signal_check wd l0 with inr r => ret r | inl l1 =>
  let ip := l_ip l1 in
  (* last_ops_ring[ring_writes % last_ops_length] = ip *)
  lr <- (match l_ring l1 with
         | None => ret l1
         | Some ring => idx <- lift (umod (l_rw l1) (l_rlen l1));;
                        ring' <- lift (aset S_ring ring idx ip);;
                        ret (set_ring (Some ring') (wrapv ov V_ring_writes (l_rw l1 + 1)) l1)
         end);;
  x <- catch (paged_op_body al ov wd fc lr);;
  match x with inl r => ret r | inr e => ret (PyError e lr) end
  end.

(* ---------------------------------------------------------------- run_measured_loop: one op *)

Definition spec_record (al : alloc) (ov : wov) (l : locals) (ip j : N) : M locals :=
  let t0 := l_shadow l in
  g <- lift (tbl_needs_grow t0);;
  t <- (if g then
          nc <- lift (tbl_new_count 65536 t0);;
          ok <- try_alloc al (nc * 16);;
          if ok then lift (tbl_rehash 0 ov t0 nc) else raise MemoryError
        else ret t0);;
  let key := wrapv ov V_ip_plus1 (ip + 1) in
  f <- lift (tbl_probe 0 ov t key);;
  match f with
  | Found h jw => t' <- lift (if jw =? j then Ok t else tbl_set_val 0 t h key j);; ret (set_shadow t' l)
  | Empty h => t' <- lift (tbl_insert 0 t h key j);; ret (set_shadow t' l)
  end.

Definition measured_op (al : alloc) (ov : wov) (wd : world) (l0 : locals) : M (stepres locals) :=
  (* if ((ops & MASK) == MASK) PyErr_CheckSignals *)
  if (N.land (l_ops l0) (SIGNAL_CHECK_PERIOD - 1) =? SIGNAL_CHECK_PERIOD - 1) && w_sig wd (l_ops l0) then ret (PyError CallbackError l0) else
  let l := l0 in
  c <- gets m_cfg;;
  let ip := l_ip l in
  fr <- mem_get_word_unaligned al ov ip;;
  match fr with None => memory_error_exit l | Some f =>
  ph <- io_phase al ov wd l f;;
  match ph with inr r => ret r | inl l1 =>
  okf <- mem_flip_bit al ov f;;
  if negb okf then memory_error_exit l1 else
  jr <- mem_get_word_unaligned al ov (wrapv ov V_ip_width (ip + c_w c));;
  match jr with None => memory_error_exit l1 | Some j =>
    l2 <- spec_record al ov l1 ip j;;
    ret (finish_op ov c l2 f j)
  end end end.

(* ---------------------------------------------------------------- Memory.run *)

Inductive loopkind := LFlat | LPaged | LMeasured.
Definition loop_op (k : loopkind) (al : alloc) (ov : wov) (wd : world) (fc : N) (l : locals) : M (stepres locals) :=
  match k with LFlat => flat_op al ov wd fc l | LPaged => paged_op al ov wd fc l | LMeasured => measured_op al ov wd l end.

Inductive runres := Finished (cause : N) (l : locals) | Failed (e : exc) (l : locals) | Running (l : locals).
Fixpoint loop_n (n : nat) (k : loopkind) (al : alloc) (ov : wov) (wd : world) (fc : N) (l : locals) : M runres :=
  match n with
  | O => ret (Running l)
  | S n' => r <- loop_op k al ov wd fc l;;
            match r with Cont l' => loop_n n' k al ov wd fc l' | Term cz l' => ret (Finished cz l') | PyError e l' => ret (Failed e l') end
  end.

(* build_run_result: the indexes read from the ring, oldest first *)
Fixpoint ring_go (k : nat) (i : N) (ring : arr N) (start len : N) : res (list N) :=
  match k with
  | O => Ok []
  | S k' => idx <-- umod (uadd start i) len;; v <-- aget S_ring ring idx;; r <-- ring_go k' (i + 1) ring start len;; Ok (v :: r)
  end.
Definition ring_readout (l : locals) : res (list N) :=
  match l_ring l with
  | None => Ok []
  | Some ring =>
      let len := l_rlen l in
      let total := if l_rw l <? len then l_rw l else len in
      pos <-- umod (l_rw l) len;;
      start <-- umod (usub (uadd pos len) total) len;;               (* ring_pos + len - total *)
      ring_go (N.to_nat total) 0 ring start len
  end.

Record run_out := mkRunOut { ro_state : runres; ro_last_ops : list N; ro_err : option N }.

Definition init_locals (start_ip : N) (ring : option (arr N)) (rlen : N) : locals :=
  mkLoc start_ip 0 0 0 0 ring rlen 0 (mkTbl None 0 0).

(* run(read_bit, write_bit, eof_exception_type, last_ops_length, start_ip), executed for at most n ops *)
Definition api_run (ev : envv) (al : alloc) (ov : wov) (wd : world) (lol : Z) (start_ip0 : N) (n : nat) : M run_out :=
  if ((lol <? -9223372036854775808) || (9223372036854775807 <? lol))%Z then raise OverflowError else
  let len := if (lol <? 0)%Z then 0 else Z.to_N lol in
  let start_ip := start_ip0 mod U64 in
  mem_decide_storage ev al;;;
  modify (set_kept None);;;                                          (* Py_CLEAR(self->last_run_last_ops) *)
  fl <- gets m_fl;;
  let has_flat := match f_arr fl with Some _ => true | None => false end in
  let generic := negb (e_measure ev && (len =? 0)) && negb (has_flat && (len =? 0)) in
  modify (fun s => set_err false (m_err_addr s) s);;;
  rr <- (if e_measure ev && (len =? 0) then
           r <- loop_n n LMeasured al ov wd (f_count fl) (init_locals start_ip None 0);; ret r
         else if has_flat && (len =? 0) then
           loop_n n LFlat al ov wd (f_count fl) (init_locals start_ip None 0)
         else
           (* calloc(last_ops_length, 8): the product is formed and checked by calloc itself - here it is the unbounded
              len * 8, and try_alloc refuses everything above PTRDIFF_MAX (so every length >= 2^60 is a MemoryError) *)
           ring <- (if 0 <? len then ok <- try_alloc al (len * 8);; if ok then ret (Some (anew len 0)) else raise MemoryError
                    else ret None);;
           loop_n n LPaged al ov wd (f_count fl) (init_locals start_ip ring len));;
  match rr with
  | Finished cz l => lo <- lift (ring_readout l);; ea <- gets m_err_addr;;
                     ret (mkRunOut rr lo (if cz =? TERM_MEMORY_ERROR then Some ea else None))
  | Failed e l =>                                                    (* CAUSE_PYTHON_ERROR *)
      (if generic then lo <- lift (ring_readout l);; modify (set_kept (Some lo))   (* kept = ring_to_list(...) *)
       else ret tt);;;
      raise e
  | Running _ => ret (mkRunOut rr [] None)
  end.

(* ---------------------------------------------------------------- call sequences on one object *)

Inductive call :=
| CInit (w : N) (gstop : bool) (fmax : N)
| CAddSegment (start len : N)
| CSetWord (wa v : N)
| CGetWord (wa : N)
| CSetWords (start : N) (values : list item)
| CRun (ev : envv) (wd : world) (lol : Z) (start_ip : N) (n : nat).

Definition do_call (al : alloc) (ov : wov) (c : call) : M unit :=
  match c with
  | CInit w g f => api_init w g f
  | CAddSegment a b => api_add_segment al a b
  | CSetWord a v => api_set_word al ov a v
  | CGetWord a => api_get_word al ov a;;; ret tt
  | CSetWords a vs => api_set_words al ov a vs
  | CRun ev wd lol ip n => api_run ev al ov wd lol ip n;;; ret tt
  end.

(* run the calls one after the other; a Python exception does not stop the caller *)
Fixpoint do_calls (al : alloc) (ov : wov) (cs : list call) (s : st) : res (list (option exc) * st) :=
  match cs with
  | [] => Ok ([], s)
  | c :: r => match do_call al ov c s with
              | Ok (o, s') => match do_calls al ov r s' with
                              | Ok (os, s'') => Ok ((match o with Val _ => None | Raise e => Some e end) :: os, s'')
                              | OOB x => OOB x | NoFuel => NoFuel end
              | OOB x => OOB x
              | NoFuel => NoFuel
              end
  end.
