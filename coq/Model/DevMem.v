(* The device<->memory hook (flipjump/interpreter/io_devices/device_memory.py, _fjcore.c Memory_get_word /
   Memory_set_word, fjm_run.attach_memory): the machine of Spec/MachineSpec.v extended with a scripted device
   that performs memory accesses at its IO calls.  No proofs here.

   Two adapters exist in the code:
   * ReaderDeviceMemory (featured and fast Python loops): read_word = reader.memory.get(addr & (2^w-1), 0);
     write_word stores unconditionally into reader.memory[addr & (2^w-1)].  The Reader treats every key of that
     dict as readable memory (fjm_reader.Reader._get_memory_word), so a write to an address outside every
     segment makes that word valid for the program from then on: modelled by adding the one-word segment
     (addr, 1) to the validity list.
   * NativeDeviceMemory (_fjcore.Memory.get_word / set_word, argument format "K": reduced mod 2^64): an
     in-segment address below flat_count goes to the flat array, everything else to the page table.  The run
     loops use the same location for every in-segment word (flat below the window, pages above), and
     out-of-segment words live in pages that the program can never touch (garbage-stop).  Abstractly this is
     one map from word address to word whose validity list never changes. *)
From FJ Require Import Lib.Base Spec.MachineSpec.
Local Open Scope N_scope.

Inductive adapter := AdReader | AdNative.

Inductive action :=
| ARead (a : N)                 (* DeviceMemory.read_word(a) *)
| AWrite (a v : N)              (* DeviceMemory.write_word(a, v) *)
| AReadByte (op : N)            (* DeviceMemory.read_data_byte(op_bit_address) *)
| AWriteByte (op v : N).        (* DeviceMemory.write_data_byte(op_bit_address, v) *)

(* what the device records: a value read, or the ValueError of _require_byte_capable_width (w < 16) *)
Inductive logent := LVal (v : N) | LValueError.

(* the memory as the device (and the program) sees it: words + which word addresses are readable *)
Record dview := mkdv { v_m : mem; v_sg : list (N * N) }.

Section W.
Variable ww : N.
Variable ad : adapter.

Local Notation w := (MachineSpec.w ww).
Local Notation dw := (MachineSpec.dw ww).
Local Notation in_addr := (MachineSpec.in_addr ww).
Local Notation wmask := (MachineSpec.wmask ww).

(* the address actually accessed *)
Definition norm (a : N) : N :=
  match ad with AdReader => N.land a wmask | AdNative => N.land a (N.ones 64) end.

Definition read_word (d : dview) (a : N) : N := mget0 d.(v_m) (norm a).

Definition write_word (d : dview) (a v : N) : dview :=
  let a' := norm a in
  mkdv (mset d.(v_m) a' (N.land v wmask))
       (match ad with
        | AdReader => if valid d.(v_sg) a' then d.(v_sg) else (a', 1) :: d.(v_sg)
        | AdNative => d.(v_sg)
        end).

(* DeviceMemory._data_bit_offset = memory_width.bit_length() = #w ; _jump_word_address *)
Definition dbit : N := ww + 1.
Definition jump_word_address (op : N) : N := N.shiftr op ww + 1.
Definition byte_capable : bool := 16 <=? w.

Definition read_data_byte (d : dview) (op : N) : N :=
  N.land (N.shiftr (read_word d (jump_word_address op)) dbit) 255.

Definition write_data_byte (d : dview) (op v : N) : dview :=
  let a := jump_word_address op in
  let jw := read_word d a in
  let byte_mask := N.shiftl 255 dbit in
  write_word d a (N.lor (N.ldiff jw byte_mask) (N.shiftl (N.land v 255) dbit)).

Definition do_action (dl : dview * list logent) (act : action) : dview * list logent :=
  let '(d, lg) := dl in
  match act with
  | ARead a => (d, LVal (read_word d a) :: lg)
  | AWrite a v => (write_word d a v, lg)
  | AReadByte op => if byte_capable then (d, LVal (read_data_byte d op) :: lg) else (d, LValueError :: lg)
  | AWriteByte op v => if byte_capable then (write_data_byte d op v, lg) else (d, LValueError :: lg)
  end.

Definition do_actions (acts : list action) (dl : dview * list logent) : dview * list logent :=
  fold_left do_action acts dl.

(* the device part of the run state: validity list, the script still to be played (one action list per IO
   call, read_bit and write_bit calls counted together), the log (most recent first) *)
Record dx := mkdx { x_sg : list (N * N); x_script : list (list action); x_log : list logent }.

(* one IO call (write_bit or read_bit): the device plays the next entry of its script *)
Definition io_call (mm : mem) (x : dx) : mem * dx :=
  match x.(x_script) with
  | [] => (mm, x)
  | acts :: rest =>
    let '(d, lg) := do_actions acts (mkdv mm x.(x_sg), x.(x_log)) in
    (d.(v_m), mkdx d.(v_sg) rest lg)
  end.

(* one op: MachineSpec.step with the device calls where the run loops make them
   (_run_featured: get_word(ip); _handle_output -> write_bit; _handle_input -> read_bit then write_bit(in_addr);
   the flip; get_word(ip + w).  _run_fast and the native loops keep this order.) *)
Definition dstep (s : st) (x : dx) : (st * dx) + (cause * st * dx) :=
  let h := s.(ip) :: s.(hist) in
  match get_word ww x.(x_sg) s.(m) s.(ip) with
  | inl a => inr (MemErr a, mkst s.(ip) s.(m) s.(inp) s.(outp) s.(ops) h, x)
  | inr f =>
    let out1 := if is_output ww f then (f =? dw + 1) :: s.(outp) else s.(outp) in
    let '(m1, x1) := if is_output ww f then io_call s.(m) x else (s.(m), x) in
    let do_flip (mm : mem) (xx : dx) (inp' : list bool) : (st * dx) + (cause * st * dx) :=
      let fw := N.shiftr f ww in
      match rdw xx.(x_sg) mm fw with
      | None => inr (MemErr (N.shiftl fw ww), mkst s.(ip) mm inp' out1 s.(ops) h, xx)
      | Some v =>
        let mm' := mset mm fw (flip_bit ww v f) in
        match get_word ww xx.(x_sg) mm' (s.(ip) + w) with
        | inl a => inr (MemErr a, mkst s.(ip) mm' inp' out1 s.(ops) h, xx)
        | inr j =>
          let s' := mkst j mm' inp' out1 (s.(ops) + 1) h in
          if (j =? s.(ip)) && negb ((s.(ip) <=? f) && (f <? s.(ip) + dw)) then inr (Looping, s', xx)
          else if j <? dw then inr (NullIP, s', xx)
          else inl (s', xx)
        end
      end in
    if covers_input ww s.(ip) then
      let '(m2, x2) := io_call m1 x1 in           (* the device's read_bit runs its script, then answers *)
      match s.(inp) with
      | [] => inr (EOFc, mkst s.(ip) m2 [] out1 s.(ops) h, x2)
      | b :: rest =>
        let iw := N.shiftr in_addr ww in
        match rdw x2.(x_sg) m2 iw with
        | None => inr (MemErr (N.shiftl iw ww), mkst s.(ip) m2 rest out1 s.(ops) h, x2)
        | Some v => do_flip (mset m2 iw (set_bit ww v (N.land in_addr (w - 1)) b)) x2 rest
        end
      end
    else do_flip m1 x1 s.(inp)
  end.

Fixpoint drun (fuel : nat) (s : st) (x : dx) : cause * st * dx :=
  match fuel with
  | O => (OutOfFuel, s, x)
  | S k => match dstep s x with inl (s', x') => drun k s' x' | inr r => r end
  end.

(* an access that stays inside the declared segments *)
Definition action_address (act : action) : N :=
  match act with
  | ARead a | AWrite a _ => a
  | AReadByte op | AWriteByte op _ => jump_word_address op
  end.
Definition action_inseg (sg : list (N * N)) (act : action) : bool := valid sg (action_address act).
Definition script_inseg (sg : list (N * N)) (script : list (list action)) : bool :=
  forallb (forallb (action_inseg sg)) script.

End W.

(* every segment lies below 2^w and below 2^64 word addresses (what the loader accepts: MachineSpec.seg_ok
   gives start + length <= 2^(w - ww), and w <= 64) *)
Definition segs_bounded (ww : N) (sg : list (N * N)) : bool :=
  forallb (fun s => (fst s + snd s <=? 2 ^ (MachineSpec.w ww)) && (fst s + snd s <=? 2 ^ 64)) sg.

(* ---- one correspondence case ----------------------------------------------------------------------------- *)

Record dcase := mkdcase {
  k_ad : N;                                (* 0: ReaderDeviceMemory (featured / fast), 1: NativeDeviceMemory *)
  k_ww : N; k_segs : list (N * N); k_words : list (N * N); k_input : list N; k_fuel : N;
  k_attach : list action;                  (* accesses made inside attach_memory, before the first op *)
  k_script : list (list action);           (* accesses made at the IO calls *)
  y_cause : N; y_ops : N; y_fault : N; y_outn : N; y_outb : list N; y_outv : N;
  y_log : list (option N);                 (* what the device recorded, oldest first; None = ValueError *)
  y_mem : list (N * N)                     (* words read back through the adapter after the run *)
}.

Record dobs := mkdobs {
  b_cause : N; b_ops : N; b_fault : N; b_outn : N; b_outb : list N; b_outv : N;
  b_log : list (option N); b_mem : list (N * N) }.

Definition case_adapter (c : dcase) : adapter := if c.(k_ad) =? 0 then AdReader else AdNative.

Definition drun_case (c : dcase) : cause * st * dx :=
  let ad := case_adapter c in
  let '(d0, lg0) := do_actions c.(k_ww) ad c.(k_attach) (mkdv (mem_of_list c.(k_words)) c.(k_segs), []) in
  drun c.(k_ww) ad (N.to_nat c.(k_fuel)) (init d0.(v_m) (bytes_bits c.(k_input))) (mkdx d0.(v_sg) c.(k_script) lg0).

Definition cause_code (c : cause) : N * N :=
  match c with Looping => (0, 0) | EOFc => (1, 0) | NullIP => (2, 0) | MemErr a => (5, a) | OutOfFuel => (6, 0) end.

Definition log_code (e : logent) : option N := match e with LVal v => Some v | LValueError => None end.

Definition dobserve (c : dcase) : dobs :=
  let '(cs, s, x) := drun_case c in
  let '(cc, fa) := cause_code cs in
  let '(ob, ot) := out_bytes s.(outp) in
  mkdobs cc s.(ops) fa (N.of_nat (length s.(outp))) ob (bits_val ot)
         (rev (map log_code x.(x_log)))
         (map (fun p => (fst p, read_word c.(k_ww) (case_adapter c) (mkdv s.(m) x.(x_sg)) (fst p))) c.(y_mem)).

Fixpoint nlist_eqb (a b : list N) : bool :=
  match a, b with [], [] => true | x :: a', y :: b' => (x =? y) && nlist_eqb a' b' | _, _ => false end.
Fixpoint npairs_eqb (a b : list (N * N)) : bool :=
  match a, b with [], [] => true
  | x :: a', y :: b' => (fst x =? fst y) && (snd x =? snd y) && npairs_eqb a' b' | _, _ => false end.
Fixpoint olist_eqb (a b : list (option N)) : bool :=
  match a, b with
  | [], [] => true
  | Some x :: a', Some y :: b' => (x =? y) && olist_eqb a' b'
  | None :: a', None :: b' => olist_eqb a' b'
  | _, _ => false
  end.

Definition check_dcase (c : dcase) : bool :=
  if c.(y_cause) =? 6 then     (* watchdog expiry: only "does not halt within the fuel" is compared *)
    match drun_case c with (OutOfFuel, _, _) => true | _ => false end
  else
    let o := dobserve c in
    (o.(b_cause) =? c.(y_cause)) && (o.(b_ops) =? c.(y_ops)) && (o.(b_fault) =? c.(y_fault)) &&
    (o.(b_outn) =? c.(y_outn)) && nlist_eqb o.(b_outb) c.(y_outb) && (o.(b_outv) =? c.(y_outv)) &&
    olist_eqb o.(b_log) c.(y_log) && npairs_eqb o.(b_mem) c.(y_mem).
