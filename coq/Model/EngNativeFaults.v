(* The run loops of flipjump/interpreter/_fjcore.c (Model/EngNative.v) with IO callbacks that fail at the device's
   k-th call (read_bit and write_bit calls counted together from 0), Memory_run's exception path and what
   fjm_run._run_native / fjm_run.run make of it.

   _fjcore.c, identically in run_flat_loop_impl, run_paged_loop_impl (both clones) and run_measured_loop:
     cold_output:  result = PyObject_CallFunctionObjArgs(write_bit, ..);  if (!result) goto done;
     cold_input:   result = PyObject_CallNoArgs(read_bit);
                   if (!result) { if (PyErr_ExceptionMatches(eof_exception_type)) { PyErr_Clear(); cause = TERM_EOF; goto done; }
                                  goto done; }
     done / loop_done:  self->last_run_op_count = ops;  ops_out[0] = ops;  (paged loop: ring_writes_out[0] = ring_writes;)
                        return cause;
   with cause still CAUSE_PYTHON_ERROR: the labels memory_error / memory_or_python_error are skipped, so
   mem_error is not touched; nothing of the op after the failing call has run (no input write, no flip, no
   `ops++`); in the ring clone `last_ops_ring[ring_writes % len] = ip; ring_writes++` ran at the top of the
   iteration.  Memory_run: CAUSE_PYTHON_ERROR -> return NULL; the generic loop additionally stashes
   ring_to_list(ring, len, ring_writes) into self->last_run_last_ops (since /repo commit 6495823); after the
   flat / measured loops last_run_last_ops stays cleared and the getter returns [].
   fjm_run._run_native: `except BaseException: last_ops.extend(core.last_run_last_ops); raise` and
   `finally: statistics.op_counter = core.last_run_op_count`; then fjm_run.run's except ladder.

   NOT modelled (as in Model/EngNative.v): PyErr_CheckSignals, allocation failures, the pause timer,
   `PyObject_IsTrue(result) < 0` (a read_bit result whose truth test raises).  A device that raises
   IOReadOnEOF out of read_bit is the EOF termination (the `[]` case), not a failure.  No proofs here. *)
From FJ Require Import Lib.Base Spec.MachineSpec Model.Faults Model.EngNative.
Local Open Scope N_scope.

Inductive nfcause :=
| NHalt (c : ncause)             (* the loop returned a termination cause *)
| NDevFail (in_read : bool).     (* CAUSE_PYTHON_ERROR with the callback's exception set: write_bit (false) / read_bit (true) *)

(* one loop iteration: continue (state, device calls made) | leave the loop (why, state, device calls made) *)
Definition nfres := ((nst * N) + (nfcause * nst * N))%type.

(* an exit that does not depend on the device *)
Definition lift_n (r : nst + (ncause * nst)) (calls : N) : nfres :=
  match r with inl s' => inl (s', calls) | inr (c, s') => inr (NHalt c, s', calls) end.

Section F.
Variable fail_at : option N.    (* None: the callbacks never fail *)
Local Notation fails := (Faults.fails fail_at).

(* cold_output; hit = the loop's output test, bit = the value passed to write_bit; k = after_output *)
Definition fdo_output (s : nst) (m : nmem) (hit bit : bool) (calls : N) (k : list bool -> N -> nfres) : nfres :=
  if hit then
    if fails calls                                                   (* if (!result) goto done; *)
    then inr (NDevFail false, mknst s.(s_ip) m s.(s_inp) s.(s_out) s.(s_ops) s.(s_ring) s.(s_rw), calls)
    else k (bit :: s.(s_out)) (calls + 1)
  else k s.(s_out) calls.

(* cold_input; k = after_input *)
Definition fdo_input (s : nst) (m : nmem) (out : list bool) (hit : bool) (calls : N)
           (k : nmem -> list bool -> N -> nfres) : nfres :=
  if hit then
    if fails calls                                                   (* !result, not the EOF type: goto done; *)
    then inr (NDevFail true, mknst s.(s_ip) m s.(s_inp) out s.(s_ops) s.(s_ring) s.(s_rw), calls)
    else
    match s.(s_inp) with
    | [] => inr (NHalt (NC EOFc), mknst s.(s_ip) m [] out s.(s_ops) s.(s_ring) s.(s_rw), calls + 1)
    | b :: rest =>
      match mem_write_bit m (c_in_addr m) b with
      | (m1, false) => lift_n (memory_error_exit s m1 rest out) (calls + 1)
      | (m1, true) => k m1 rest (calls + 1)
      end
    end
  else k m s.(s_inp) calls.

(* ---- run_flat_loop_impl: one iteration ---------------------------------------------------------------------- *)
Definition flat_fstep (s : nst) (calls : N) : nfres :=
  let m0 := s.(s_m) in
  let ip := s.(s_ip) in
  match m0.(n_flat) with
  | None => inr (NHalt NCrash, s, calls)
  | Some _ =>
    match flat_read_flip m0 ip with
    | (m1, None) => lift_n (memory_error_exit s m1 s.(s_inp) s.(s_out)) calls
    | (m1, Some (f, wa)) =>
      fdo_output s m1 (sub64 f (c_dw m1) <=? 1) (f =? add64 (c_dw m1) 1) calls (fun out1 calls1 =>
      fdo_input s m1 out1 (input_hit m1 ip) calls1 (fun m2 inp' calls2 =>
        lift_n (match flat_do_flip m2 f with
                | (m3, false) => memory_error_exit s m3 inp' out1
                | (m3, true) =>
                  match flat_read_jump m3 ip wa with
                  | (m4, None) => memory_error_exit s m4 inp' out1
                  | (m4, Some j) => loop_tail s m4 inp' out1 f j
                  end
                end) calls2))
    end
  end.

(* ---- run_paged_loop_impl: one iteration ---------------------------------------------------------------------- *)
Definition paged_fstep (with_ring : bool) (ring_len : N) (s0 : nst) (calls : N) : nfres :=
  let ip := s0.(s_ip) in
  let s := if with_ring
           then mknst ip s0.(s_m) s0.(s_inp) s0.(s_out) s0.(s_ops)
                      (mset s0.(s_ring) (s0.(s_rw) mod ring_len) ip) (add64 s0.(s_rw) 1)
           else s0 in
  let m0 := s.(s_m) in
  let rd := if with_ring && (match m0.(n_flat) with Some _ => true | None => false end)
            then ring_flat_read_flip m0 ip else paged_read_flip m0 ip in
  match rd with
  | (m1, None) => lift_n (memory_error_exit s m1 s.(s_inp) s.(s_out)) calls
  | (m1, Some l) =>
    let f := l.(l_f) in
    fdo_output s m1 (sub64 f (c_dw m1) <=? 1) (f =? add64 (c_dw m1) 1) calls (fun out1 calls1 =>
    fdo_input s m1 out1 (input_hit m1 ip) calls1 (fun m2 inp' calls2 =>
      lift_n (match paged_do_flip with_ring m2 f with
              | (m3, false) => memory_error_exit s m3 inp' out1
              | (m3, true) =>
                match paged_read_jump with_ring m3 ip l with
                | (m4, None) => memory_error_exit s m4 inp' out1
                | (m4, Some j) => loop_tail s m4 inp' out1 f j
                end
              end) calls2))
  end.

(* ---- run_measured_loop: one iteration (spec_record omitted) --------------------------------------------------- *)
Definition measured_fstep (s : nst) (calls : N) : nfres :=
  let m0 := s.(s_m) in
  let ip := s.(s_ip) in
  let dw := c_dw m0 in
  let out1c := add64 dw 1 in
  match mem_get_word_unaligned m0 ip with
  | (m1, None) => lift_n (memory_error_exit s m1 s.(s_inp) s.(s_out)) calls
  | (m1, Some f) =>
    fdo_output s m1 ((f <=? out1c) && (dw <=? f)) (f =? out1c) calls (fun out1 calls1 =>
    fdo_input s m1 out1 ((ip <=? c_in_addr m0) && (c_in_lo m0 <? ip)) calls1 (fun m2 inp' calls2 =>
      lift_n (match mem_flip_bit m2 f with
              | (m3, false) => memory_error_exit s m3 inp' out1
              | (m3, true) =>
                match mem_get_word_unaligned m3 (add64 ip m0.(n_w)) with
                | (m4, None) => memory_error_exit s m4 inp' out1
                | (m4, Some j) =>
                  let s' := mknst j m4 inp' out1 (add64 s.(s_ops) 1) s.(s_ring) s.(s_rw) in
                  if (j =? ip) && negb ((ip <=? f) && (sub64 f ip <? dw)) then inr (NC Looping, s')
                  else if j <? dw then inr (NC NullIP, s')
                  else inl s'
                end
              end) calls2))
  end.

Fixpoint frun_n (stepf : nst -> N -> nfres) (fuel : nat) (s : nst) (calls : N) : nfcause * nst * N :=
  match fuel with
  | O => (NHalt (NC OutOfFuel), s, calls)
  | S k => match stepf s calls with inl (s', c') => frun_n stepf k s' c' | inr r => r end
  end.

Definition loop_fstep (k : knobs) (lk : loop_kind) : nst -> N -> nfres :=
  match lk with
  | LMeasured => measured_fstep
  | LFlat => flat_fstep
  | LPaged => paged_fstep false 0
  | LRing => paged_fstep true k.(k_last_ops)
  end.

(* ---- Memory_run ------------------------------------------------------------------------------------------------ *)
Inductive frun_result :=
| FRunValueError (e : ds_result)                                 (* mem_decide_storage raised *)
| FRunDone (lk : loop_kind) (c : ncause) (s : nst) (last_ops : list N)   (* the result tuple *)
| FRunRaised (lk : loop_kind) (in_read : bool) (s : nst) (kept : list N).
    (* NULL with the callback's exception; last_run_op_count = s_ops s; the last_run_last_ops getter gives `kept` *)

Definition Memory_frun (k : knobs) (m : nmem) (input : list bool) (fuel : nat) : frun_result :=
  match mem_decide_storage m k.(k_no_flat) k.(k_env_limit) with
  | DS_ok m1 =>
    let lk := dispatch k m1 in
    let s0 := mknst 0 (clear_error m1) input [] 0 (PositiveMap.empty N) 0 in
    let last (s : nst) := match lk with LRing => ring_readout s.(s_ring) k.(k_last_ops) s.(s_rw) | _ => [] end in
    match frun_n (loop_fstep k lk) fuel s0 0 with
    | (NHalt c, s, _) => FRunDone lk c s (last s)                (* build_run_result *)
    | (NDevFail rd, s, _) => FRunRaised lk rd s (last s)
        (* generic loop: kept = ring_to_list(ring, len, ring_writes) ([] without a ring);
           flat / measured loop: last_run_last_ops stays NULL, the getter returns [] *)
    end
  | e => FRunValueError e
  end.

End F.

(* ---- fjm_run._run_native + fjm_run.run ---------------------------------------------------------------------------
   statistics.op_counter = op_count / core.last_run_op_count (= s_ops); statistics.last_ops_addresses (a deque of
   maxlen K, None when no length was asked for) was extended with the returned / kept list. *)
Inductive native_outcome :=
| NStats (c : ncause) (s : nst) (last : list N)   (* TerminationStatistics built from the result tuple *)
| NKbdStats (s : nst) (last : list N)             (* `except KeyboardInterrupt` of fjm_run.run *)
| NReraised (s : nst) (last : list N)             (* `except FlipJumpException as e: raise e` *)
| NWrapped (s : nst) (last : list N)              (* `except Exception as e: raise FlipJumpRuntimeException(..) from e` *)
| NValueError (e : ds_result).

Definition native_run (k : knobs) (fail_at : option N) (x : dev_exc) (m : nmem) (input : list bool) (fuel : nat)
  : native_outcome :=
  match Memory_frun fail_at k m input fuel with
  | FRunValueError e => NValueError e
  | FRunDone _ c s last => NStats c s last
  | FRunRaised _ _ s kept =>
    match run_ladder x with
    | Reraised => NReraised s kept
    | KbdStatistics => NKbdStats s kept
    | WrappedRuntimeError => NWrapped s kept
    end
  end.
