(* Evaluation of one correspondence case on the model of the native engine (Model/EngNative.v):
   the image is loaded exactly like fjm_run._run_native does (Memory(w, flat_max_words=..), add_segment per
   segment in file order, set_words per contiguous run of the Reader's sorted dict), run by Memory_run with
   the case's knobs, and the observables (cause, ops, fault address, output, last-ops list, final words read
   back through Memory.get_word, storage mode) are compared with what the real engine produced. *)
From FJ Require Import Lib.Base Spec.MachineSpec Model.EngPy Model.RunCase Model.EngNative.
Local Open Scope N_scope.

Record ncase := mkncase {
  nc : rcase;              (* image, input, fuel and the observed behaviour (Model/RunCase.v) *)
  nk_flat_max : N;         (* flat_max_words argument of fjm_run.run, 0 = not given *)
  nk_no_flat : bool;       (* FLIPJUMP_NO_FLAT=1 *)
  nk_measure : bool;       (* FLIPJUMP_MEASURE_SPECULATION=1 *)
  nk_last_ops : N;         (* last_ops_length passed to core.run (maxlen or 0) *)
  ne_storage : N           (* observed storage_mode: 0 flat, 1 hybrid, 2 paged, 3 = not reported *)
}.

(* keys of Reader.memory per segment: the data words and a zero tail shorter than 1000 words
   (fjm_reader.Reader._init_memory); segments are disjoint, so sorting the ranges sorts the keys *)
Fixpoint reader_ranges (segs : list (N * N)) (dl : list N) : list (N * N) :=
  match segs, dl with
  | (s, l) :: segs', d :: dl' =>
    (s, s + (if (d <? l) && (l - d <? 1000) then l else d)) :: reader_ranges segs' dl'
  | _, _ => []
  end.

(* contiguous runs: `if run_start is None or address != next_address` *)
Fixpoint merge_runs (l : list (N * N)) : list (N * N) :=
  match l with
  | [] => []
  | (a, b) :: r =>
    match merge_runs r with
    | (c, d) :: r' => if b =? c then (a, d) :: r' else (a, b) :: (c, d) :: r'
    | [] => [(a, b)]
    end
  end.

Fixpoint vals_rev (wm : mem) (hi : N) (n : nat) (acc : list N) : list N :=
  match n with O => acc | S k => vals_rev wm (hi - 1) k (mget0 wm (hi - 1) :: acc) end.

Definition reader_runs (c : rcase) : list (N * list N) :=
  let wm := mem_of_list c.(c_words) in
  let rs := filter (fun r => fst r <? snd r) (reader_ranges c.(c_segs) c.(c_dlen)) in
  map (fun r => (fst r, vals_rev wm (snd r) (N.to_nat (snd r - fst r)) [])) (merge_runs (seg_sort rs)).

Definition load_native (c : ncase) : option nmem :=
  match Memory_init (N.shiftl 1 c.(nc).(c_ww)) c.(nk_flat_max) with
  | None => None
  | Some m0 =>
    let m1 := fold_left (fun om s => match om with Some m => Memory_add_segment m (fst s) (snd s) | None => None end)
                        c.(nc).(c_segs) (Some m0) in
    fold_left (fun om r => match om with Some m => Memory_set_words m (fst r) (snd r) | None => None end)
              (reader_runs c.(nc)) m1
  end.

Definition knobs_of (c : ncase) : knobs := mkknobs c.(nk_no_flat) 0 c.(nk_measure) c.(nk_last_ops).

Definition ncause_code (c : ncause) : N * N :=
  match c with NC c' => cause_code c' | NPythonError => (100, 0) | NCrash => (101, 0) end.

Definition lk_code (lk : loop_kind) : N := match lk with LMeasured => 0 | LFlat => 1 | LPaged => 2 | LRing => 3 end.

(* final words through NativeDeviceMemory.read_word = Memory.get_word *)
Fixpoint read_back (m : nmem) (l : list (N * N)) : list (N * N) :=
  match l with
  | [] => []
  | p :: r => let '(m1, v) := Memory_get_word m (fst p) in (fst p, v) :: read_back m1 r
  end.

(* load + Memory_run; None = the model raises where the engine ran *)
Definition run_native (c : ncase) : option (loop_kind * ncause * nst * list N) :=
  match load_native c with
  | None => None
  | Some m =>
    match Memory_run (knobs_of c) m (bytes_bits c.(nc).(c_input)) (N.to_nat c.(nc).(c_fuel)) with
    | RunValueError _ => None
    | RunDone lk cs s last => Some (lk, cs, s, last)
    end
  end.

Definition robs_of (c : ncase) (cs : ncause) (s : nst) (last : list N) : robs :=
  let '(cc, fa) := ncause_code cs in
  let '(ob, ot) := out_bytes s.(s_out) in
  mkobs cc s.(s_ops) fa (N.of_nat (length s.(s_out))) ob (bits_val ot) last (read_back s.(s_m) c.(nc).(e_mem)).

(* (observables, storage mode, loop) - for diagnostics *)
Definition observe_native (c : ncase) : option (robs * N * N) :=
  match run_native c with
  | None => None
  | Some (lk, cs, s, last) => Some (robs_of c cs s last, storage_mode s.(s_m), lk_code lk)
  end.

Definition storage_matches (c : ncase) (s : nst) : bool :=
  (c.(ne_storage) =? 3) || (storage_mode s.(s_m) =? c.(ne_storage)).

(* verdict + model-directed coverage tags (storage mode, loop, cause code) in one evaluation.
   watchdog expiry (observed cause 6): only "the model does not halt within the fuel" is compared *)
Definition native_eval (c : ncase) : bool * (N * N * N) :=
  match run_native c with
  | None => (false, (9, 9, 9))
  | Some (lk, cs, s, last) =>
    (storage_matches c s &&
     (if c.(nc).(e_cause) =? 6 then (match cs with NC OutOfFuel => true | _ => false end)
      else obs_matches c.(nc) (robs_of c cs s last)),
     (storage_mode s.(s_m), lk_code lk, fst (ncause_code cs)))
  end.

Definition check_native_case (c : ncase) : bool := fst (native_eval c).
