(* Executable transcription of flipjump/interpreter/io_devices/{FixedIO,StandardIO,KeyboardIO,BrokenIO}.py,
   function by function, exceptions as explicit results.  No proofs here (Proofs/DevicesProps.v).
   Python ints are N/Z; bytes objects are lists of N; str objects are lists of code points. *)
From FJ Require Import Lib.Base Spec.MachineSpec Spec.IOSpec.
From Coq Require Uint63.
Local Open Scope N_scope.

(* result of read_bit *)
Inductive rd := RBit (b : bool) | REof | RExn (code : N).

Definition EXN_OVERFLOW : N := 1.   (* int.to_bytes(1, 'little') of a value >= 256 *)
Definition EXN_INDEX : N := 2.      (* deque.popleft() of an empty deque *)

(* ---- the output side: the same statements appear in FixedIO, StandardIO and KeyboardIO
   (_output, current_output_byte, bits_to_write_in_output_byte) ---------------------------------- *)

Record wbuf := mkwbuf { w_out : list N; w_cur : N; w_n : N }.
Definition wb_init : wbuf := mkwbuf [] 0 0.

(* write_bit; `echo` is StandardIO's stdout (None for the other devices).  Returns the exception, if any. *)
Definition wb_write (s : wbuf) (bit : bool) : option N * wbuf :=
  let cur := N.lor (w_cur s) (N.shiftl (N.b2n bit) (w_n s)) in     (* current_output_byte |= bit << bits_to_write *)
  let n := w_n s + 1 in                                              (* bits_to_write += 1 *)
  if n =? 8 then
    if cur <? 256                                                    (* current_output_byte.to_bytes(1, 'little') *)
    then (None, mkwbuf (w_out s ++ [cur]) 0 0)
    else (Some EXN_OVERFLOW, mkwbuf (w_out s) cur n)
  else (None, mkwbuf (w_out s) cur n).

Definition wb_get (s : wbuf) (allow_incomplete : bool) : obs :=
  if negb allow_incomplete && negb (w_n s =? 0) then OIncomplete else OBytes (w_out s).

(* ---- FixedIO ---------------------------------------------------------------------------------- *)

Record fio := mkfio { f_rem : list N; f_cin : N; f_nin : N; f_w : wbuf }.
Definition fx_init (input : list N) : fio := mkfio input 0 0 wb_init.

Definition fx_read_bit (s : fio) : rd * fio :=
  let refill :=
    if f_nin s =? 0 then
      match f_rem s with
      | [] => None                                                   (* raise IOReadOnEOF *)
      | b :: r => Some (mkfio r b 8 (f_w s))
      end
    else Some s in
  match refill with
  | None => (REof, s)
  | Some s1 =>
      let bit := N.land (f_cin s1) 1 =? 1 in
      (RBit bit, mkfio (f_rem s1) (N.shiftr (f_cin s1) 1) (f_nin s1 - 1) (f_w s1))
  end.

Definition fx_write_bit (s : fio) (bit : bool) : option N * fio :=
  let '(e, w') := wb_write (f_w s) bit in (e, mkfio (f_rem s) (f_cin s) (f_nin s) w').

Definition fx_get_output (s : fio) (allow_incomplete : bool) : obs := wb_get (f_w s) allow_incomplete.

Definition rd_obs (r : rd) : obs := match r with RBit b => OBit b | REof => OEof | RExn c => ORaw c end.
Definition wr_obs (e : option N) : obs := match e with None => ODone | Some c => ORaw c end.

Definition fx_step (s : fio) (o : op) : obs * fio :=
  match o with
  | OpRead => let '(r, s') := fx_read_bit s in (rd_obs r, s')
  | OpWrite b => let '(e, s') := fx_write_bit s b in (wr_obs e, s')
  | OpGet a => (fx_get_output s a, s)
  end.

Fixpoint fx_run (s : fio) (ops : list op) : list obs :=
  match ops with
  | [] => []
  | o :: r => let '(ob, s') := fx_step s o in ob :: fx_run s' r
  end.

(* ---- StandardIO: stdin is the list of characters still to come (each < 256, so that
   read(1).encode('raw_unicode_escape') is that one byte); stdout is the list of characters written. *)

Record sio := mksio { s_verbose : bool; s_stdin : list N; s_stdout : list N; s_cin : N; s_nin : N; s_w : wbuf }.
Definition so_init (verbose : bool) (stdin : list N) : sio := mksio verbose stdin [] 0 0 wb_init.

Definition so_read_bit (s : sio) : rd * sio :=
  let refill :=
    if s_nin s =? 0 then
      match s_stdin s with
      | [] => None                                                   (* read(1) == '' : raise IOReadOnEOF *)
      | b :: r => Some (mksio (s_verbose s) r (s_stdout s) b 8 (s_w s))
      end
    else Some s in
  match refill with
  | None => (REof, s)
  | Some s1 =>
      let bit := N.land (s_cin s1) 1 =? 1 in
      (RBit bit, mksio (s_verbose s1) (s_stdin s1) (s_stdout s1) (N.shiftr (s_cin s1) 1) (s_nin s1 - 1) (s_w s1))
  end.

Definition so_write_bit (s : sio) (bit : bool) : option N * sio :=
  let w := s_w s in
  let cur := N.lor (w_cur w) (N.shiftl (N.b2n bit) (w_n w)) in
  let n := w_n w + 1 in
  if n =? 8 then
    if cur <? 256 then
      let stdout' := if s_verbose s then s_stdout s ++ [cur] else s_stdout s in   (* stdout.write(byte.decode()) *)
      (None, mksio (s_verbose s) (s_stdin s) stdout' (s_cin s) (s_nin s) (mkwbuf (w_out w ++ [cur]) 0 0))
    else (Some EXN_OVERFLOW, mksio (s_verbose s) (s_stdin s) (s_stdout s) (s_cin s) (s_nin s) (mkwbuf (w_out w) cur n))
  else (None, mksio (s_verbose s) (s_stdin s) (s_stdout s) (s_cin s) (s_nin s) (mkwbuf (w_out w) cur n)).

Definition so_get_output (s : sio) (allow_incomplete : bool) : obs := wb_get (s_w s) allow_incomplete.

Definition so_step (s : sio) (o : op) : obs * sio :=
  match o with
  | OpRead => let '(r, s') := so_read_bit s in (rd_obs r, s')
  | OpWrite b => let '(e, s') := so_write_bit s b in (wr_obs e, s')
  | OpGet a => (so_get_output s a, s)
  end.

(* the answers and the final state (for the captured stdout) *)
Fixpoint so_run (s : sio) (ops : list op) : list obs * sio :=
  match ops with
  | [] => ([], s)
  | o :: r => let '(ob, s') := so_step s o in let '(l, s'') := so_run s' r in (ob :: l, s'')
  end.

(* ---- KeyboardIO ---------------------------------------------------------------------------------- *)

(* sorted(events, key=lambda event: event.tic): a stable sort *)
Fixpoint tic_insert (x : kev) (l : list kev) : list kev :=
  match l with
  | [] => [x]
  | y :: r => if (k_tic x <=? k_tic y)%Z then x :: l else y :: tic_insert x r
  end.
Definition sort_events (events : list kev) : list kev := fold_right tic_insert [] events.

Record kbd := mkkbd {
  kb_events : list kev;      (* ScriptedKeyEventSource.events *)
  kb_next : nat;             (* ScriptedKeyEventSource._next_index *)
  kb_tic : Z;
  kb_pend : list bool;       (* _pending_input_bits, leftmost first *)
  kb_w : wbuf }.

Definition kb_init (events : list kev) : kbd := mkkbd (sort_events events) 0 0 [] wb_init.

(* ScriptedKeyEventSource.next_due_event: the answer and the new _next_index *)
Definition next_due_event (events : list kev) (next : nat) (tic : Z) : option (bool * Z) * nat :=
  match nth_error events next with                      (* _next_index < len(events) and ... *)
  | Some e => if (k_tic e <=? tic)%Z then (Some (k_down e, k_code e), S next) else (None, next)
  | None => (None, next)
  end.

Definition queue_bits (value : Z) (count : list Z) : list bool :=
  map (fun i => Z.land (Z.shiftr value i) 1 =? 1)%Z count.          (* (value >> i) & 1 == 1 *)
Definition queue_input_byte (value : Z) : list bool := queue_bits value [0; 1; 2; 3; 4; 5; 6; 7]%Z.
Definition queue_input_hex (value : Z) : list bool := queue_bits value [0; 1; 2; 3]%Z.

Definition kb_poll (s : kbd) : kbd :=
  let '(event, next') := next_due_event (kb_events s) (kb_next s) (kb_tic s) in
  let tic' := (kb_tic s + 1)%Z in
  match event with
  | None => mkkbd (kb_events s) next' tic' (kb_pend s ++ queue_input_hex 0) (kb_w s)
  | Some (is_down, keycode) =>
      mkkbd (kb_events s) next' tic'
            ((kb_pend s ++ queue_input_hex (if is_down then 9 else 8)) ++ queue_input_byte keycode) (kb_w s)
  end.

Definition kb_read_bit (s : kbd) : rd * kbd :=
  let s1 := match kb_pend s with [] => kb_poll s | _ => s end in
  match kb_pend s1 with
  | [] => (RExn EXN_INDEX, s1)                                     (* popleft of an empty deque *)
  | b :: r => (RBit b, mkkbd (kb_events s1) (kb_next s1) (kb_tic s1) r (kb_w s1))
  end.

Definition kb_write_bit (s : kbd) (bit : bool) : option N * kbd :=
  let '(e, w') := wb_write (kb_w s) bit in (e, mkkbd (kb_events s) (kb_next s) (kb_tic s) (kb_pend s) w').

Definition kb_get_output (s : kbd) (allow_incomplete : bool) : obs := wb_get (kb_w s) allow_incomplete.

Definition kb_step (s : kbd) (o : op) : obs * kbd :=
  match o with
  | OpRead => let '(r, s') := kb_read_bit s in (rd_obs r, s')
  | OpWrite b => let '(e, s') := kb_write_bit s b in (wr_obs e, s')
  | OpGet a => (kb_get_output s a, s)
  end.

Fixpoint kb_run (s : kbd) (ops : list op) : list obs :=
  match ops with
  | [] => []
  | o :: r => let '(ob, s') := kb_step s o in ob :: kb_run s' r
  end.

(* ---- ScriptedKeyEventSource.from_text, for ASCII text ------------------------------------------ *)

Fixpoint codes_eqb (a b : list N) : bool :=
  match a, b with [], [] => true | x :: a', y :: b' => (x =? y) && codes_eqb a' b' | _, _ => false end.

(* str.isspace for code points < 128 *)
Definition is_space (c : N) : bool := ((9 <=? c) && (c <=? 13)) || ((28 <=? c) && (c <=? 32)).

Fixpoint lstrip (l : list N) : list N :=
  match l with c :: r => if is_space c then lstrip r else l | [] => [] end.
Definition strip (l : list N) : list N := rev (lstrip (rev (lstrip l))).

(* str.splitlines for code points < 128: \n \r \r\n \v \f \x1c \x1d \x1e end a line *)
Definition is_linebreak (c : N) : bool := ((10 <=? c) && (c <=? 13)) || ((28 <=? c) && (c <=? 30)).
Fixpoint splitlines_aux (t : list N) (cur : list N) : list (list N) :=
  match t with
  | [] => match cur with [] => [] | _ => [rev cur] end
  | c :: r =>
      if c =? 13 then
        match r with
        | c2 :: r' => if c2 =? 10 then rev cur :: splitlines_aux r' [] else rev cur :: splitlines_aux r []
        | [] => rev cur :: splitlines_aux r []
        end
      else if is_linebreak c then rev cur :: splitlines_aux r []
      else splitlines_aux r (c :: cur)
  end.
Definition splitlines (t : list N) : list (list N) := splitlines_aux t [].

(* str.split(',') *)
Fixpoint split_comma (t : list N) (cur : list N) : list (list N) :=
  match t with
  | [] => [rev cur]
  | c :: r => if c =? 44 then rev cur :: split_comma r [] else split_comma r (c :: cur)
  end.

Definition lower (l : list N) : list N := map (fun c => if (65 <=? c) && (c <=? 90) then c + 32 else c) l.

(* int(s, 0) on a stripped ASCII string; None = ValueError *)
Definition digit_val (c : N) : option N :=
  if (48 <=? c) && (c <=? 57) then Some (c - 48)
  else if (97 <=? c) && (c <=? 122) then Some (c - 87)
  else if (65 <=? c) && (c <=? 90) then Some (c - 55)
  else None.

(* digits of the base with single underscores between them; at least one digit; nothing else *)
Fixpoint scan_digits (base : N) (s : list N) (prev_underscore seen : bool) (acc : N) : option N :=
  match s with
  | [] => if prev_underscore || negb seen then None else Some acc
  | c :: r =>
      if c =? 95 then (if prev_underscore || negb seen then None else scan_digits base r true seen acc)
      else match digit_val c with
           | Some d => if d <? base then scan_digits base r false true (acc * base + d) else None
           | None => None
           end
  end.

Definition after_prefix (base : N) (r : list N) : option N :=
  match r with
  | c :: r' => if c =? 95 then scan_digits base r' false false 0 else scan_digits base r false false 0   (* one '_' allowed after the prefix *)
  | [] => None
  end.

Definition py_int0_unsigned (s : list N) : option N :=
  match s with
  | c0 :: r0 =>
      if c0 =? 48 then
        match r0 with
        | x :: r =>
            if (x =? 120) || (x =? 88) then after_prefix 16 r
            else if (x =? 111) || (x =? 79) then after_prefix 8 r
            else if (x =? 98) || (x =? 66) then after_prefix 2 r
            else match scan_digits 10 s false false 0 with Some 0 => Some 0 | _ => None end   (* "00", "0_0"; "01" is an error *)
        | [] => Some 0
        end
      else scan_digits 10 s false false 0
  | [] => None
  end.

Definition py_int0 (s : list N) : option Z :=
  match s with
  | c :: r =>
      if c =? 45 then option_map (fun v => (- Z.of_N v)%Z) (py_int0_unsigned r)
      else if c =? 43 then option_map Z.of_N (py_int0_unsigned r)
      else option_map Z.of_N (py_int0_unsigned s)
  | [] => None
  end.

(* the four IODeviceException messages of from_text *)
Definition BAD_LINE : N := 1.      (* 'bad scripted-keyboard line' (not three fields) *)
Definition BAD_DOWN_UP : N := 2.   (* 'bad down/up value on scripted-keyboard line' *)
Definition BAD_NUMBER : N := 3.    (* 'bad number on scripted-keyboard line' *)
Definition BAD_KEYCODE : N := 4.   (* 'keycode on scripted-keyboard line .. is not a byte' *)

Inductive line_res := LSkip | LEvent (e : kev) | LBad (kind : N).

Definition S_DOWN : list N := [100; 111; 119; 110].
Definition S_UP : list N := [117; 112].

Definition parse_line (line0 : list N) : line_res :=
  let line := strip line0 in
  match line with
  | [] => LSkip
  | c :: _ =>
    if c =? 35 then LSkip else                                       (* '#' *)
    match map strip (split_comma line []) with
    | [tic; down_up; keycode] =>
        let du := lower down_up in
        let is_down :=
          if codes_eqb du S_DOWN || codes_eqb du [49] then Some true
          else if codes_eqb du S_UP || codes_eqb du [48] then Some false
          else None in
        match is_down with
        | None => LBad BAD_DOWN_UP
        | Some d =>
            match py_int0 tic, py_int0 keycode with
            | Some t, Some k => if (0 <=? k)%Z && (k <=? 255)%Z then LEvent (mkkev t d k) else LBad BAD_KEYCODE
            | _, _ => LBad BAD_NUMBER
            end
        end
    | _ => LBad BAD_LINE
    end
  end.

Inductive presult := POk (events : list kev) | PErr (kind line_number : N) | PUnsupported.

Fixpoint parse_lines (ls : list (list N)) (line_number : N) (events : list kev) : presult :=
  match ls with
  | [] => POk events
  | l :: r =>
      match parse_line l with
      | LSkip => parse_lines r (line_number + 1) events
      | LEvent e => parse_lines r (line_number + 1) (events ++ [e])
      | LBad k => PErr k line_number
      end
  end.

(* outside the modelled domain (non-ASCII text: other whitespace/digits/line breaks; very long numbers: the
   interpreter's int-string limit) the model gives no answer *)
Definition parse_script (text : list N) : presult :=
  if existsb (fun c => 128 <=? c) text || (4000 <? N.of_nat (length text)) then PUnsupported
  else parse_lines (splitlines text) 1 [].

(* ---- BrokenIO ---------------------------------------------------------------------------------- *)

Definition br_step (o : op) : obs := match o with OpRead => OBroken | OpWrite _ => OBroken | OpGet _ => OBroken end.
Definition br_run (ops : list op) : list obs := map br_step ops.

(* ---- evaluation of correspondence cases (checks/c17.py) ---------------------------------------- *)

(* answers as numbers: 0/1 bit, 2 EOF, 3 done, 4 IncompleteOutput, 5 BrokenIOUsed, 6+c other exception,
   16 + (1 b0 b1 .. in base 256) for bytes *)
Definition bytes_code (l : list N) : N := fold_left (fun a b => N.shiftl a 8 + b) l 1.   (* a * 256 + b *)
Definition obs_code (o : obs) : N :=
  match o with
  | OBit b => N.b2n b | OEof => 2 | ODone => 3 | OIncomplete => 4 | OBroken => 5
  | ORaw c => 6 + c | OBytes l => 16 + bytes_code l
  end.
Definition op_of_code (c : N) : op :=
  match c with 0 => OpRead | 1 => OpWrite false | 2 => OpWrite true | 3 => OpGet false | _ => OpGet true end.

(* a bit string b_0 .. b_{n-1} as the number 2^n + sum b_i 2^i: the binary digits below the leading one, lowest first *)
Fixpoint pos_bits (p : positive) : list bool :=
  match p with xH => [] | xO q => false :: pos_bits q | xI q => true :: pos_bits q end.
Definition bits_of_code (nv : N) : list bool := match nv with N0 => [] | Npos p => pos_bits p end.

(* packing cases: device (0 FixedIO, 1 StandardIO silent, 2 StandardIO verbose, 3 KeyboardIO), the written bits,
   codes of get_output(allow_incomplete_output=False) and (=True) afterwards *)
Definition model_pack (dev : N) (bs : list bool) : list obs :=
  let ops := map OpWrite bs ++ [OpGet false; OpGet true] in
  match dev with
  | 0 => fx_run (fx_init []) ops
  | 1 => fst (so_run (so_init false []) ops)
  | 2 => fst (so_run (so_init true []) ops)
  | _ => kb_run (kb_init []) ops
  end.
Definition pack_expect (tr : list obs) (n : nat) (cF cT : N) : bool :=
  forallb (fun o => obs_code o =? 3) (firstn n tr) && codes_eqb (map obs_code (skipn n tr)) [cF; cT].
Definition model_pack_ok (c : N * N * N * N) : bool :=
  let '(dev, nv, cF, cT) := c in
  let bs := bits_of_code nv in pack_expect (model_pack dev bs) (length bs) cF cT.
Definition spec_pack_ok (c : N * N * N * N) : bool :=
  let '(_, nv, cF, cT) := c in
  let bs := bits_of_code nv in
  (obs_code (get_answer bs false) =? cF) && (obs_code (get_answer bs true) =? cT).
Definition check_pack (c : N * N * N * N) : bool := model_pack_ok c && spec_pack_ok c.
(* the same case as one primitive integer nv + 2^17 * (cF + 2^18 * (cT + 2^18 * dev))  (nv < 2^17, cF, cT < 2^18: at
   most 16 written bits); only a faster way of getting the 2^17 exhaustive cases per device into Coq *)
Definition check_pack63 (x : Uint63.int) : bool :=
  let z := Z.to_N (Uint63.to_Z x) in
  check_pack (N.shiftr z 53, N.land z 131071, N.land (N.shiftr z 17) 262143, N.land (N.shiftr z 35) 262143).

(* trace cases: (input bytes, operation codes, observed answer codes) *)
Definition tcase := (list N * list N * list N)%type.
Definition model_fixed (c : tcase) : list N := let '(input, ops, _) := c in map obs_code (fx_run (fx_init input) (map op_of_code ops)).
Definition spec_fixed (c : tcase) : list N := let '(input, ops, _) := c in map obs_code (device_trace (fixed_input input) (map op_of_code ops)).
Definition check_fixed (c : tcase) : bool := codes_eqb (model_fixed c) (snd c) && codes_eqb (spec_fixed c) (snd c).

(* StandardIO: (verbose, stdin characters, operation codes, observed answer codes, captured stdout characters) *)
Definition scase := (bool * list N * list N * list N * list N)%type.
Definition model_standard (c : scase) : list N * list N :=
  let '(verbose, input, ops, _, _) := c in
  let '(tr, s) := so_run (so_init verbose input) (map op_of_code ops) in (map obs_code tr, s_stdout s).
Definition spec_standard (c : scase) : list N * list N :=
  let '(verbose, input, ops, _, _) := c in
  (map obs_code (device_trace (fixed_input input) (map op_of_code ops)),
   if verbose then fst (pack (written (map op_of_code ops))) else []).
Definition check_standard (c : scase) : bool :=
  let '(_, _, _, ob, out) := c in
  codes_eqb (fst (model_standard c)) ob && codes_eqb (snd (model_standard c)) out &&
  codes_eqb (fst (spec_standard c)) ob && codes_eqb (snd (spec_standard c)) out.

(* KeyboardIO over an event list given to ScriptedKeyEventSource directly *)
Definition kcase := (list (Z * bool * Z) * list N * list N)%type.
Definition mk_events (l : list (Z * bool * Z)) : list kev := map (fun e => mkkev (fst (fst e)) (snd (fst e)) (snd e)) l.
Definition model_kbd (c : kcase) : list N := let '(evs, ops, _) := c in map obs_code (kb_run (kb_init (mk_events evs)) (map op_of_code ops)).
Definition spec_kbd (c : kcase) : list N := let '(evs, ops, _) := c in map obs_code (device_trace (kb_input (mk_events evs)) (map op_of_code ops)).
Definition check_kbd (c : kcase) : bool := codes_eqb (model_kbd c) (snd c) && codes_eqb (spec_kbd c) (snd c).

(* KeyboardIO over a script text: (text, what the generator wrote: Some events in script order | None when a line is
   malformed, operation codes, observed constructor code, observed answer codes).
   constructor code: 0 = constructed; 16 * line number + message kind for an IODeviceException of from_text *)
Definition xcase := (list N * option (list (Z * bool * Z)) * list N * N * list N)%type.
Definition model_script (c : xcase) : N * list N :=
  let '(text, _, ops, _, _) := c in
  match parse_script text with
  | POk evs => (0, map obs_code (kb_run (kb_init evs) (map op_of_code ops)))
  | PErr k n => (16 * n + k, [])
  | PUnsupported => (15, [])
  end.
Definition spec_script_ok (c : xcase) : bool :=
  let '(_, gen, ops, ctor, ob) := c in
  match gen with
  | None => negb (ctor =? 0)                        (* a malformed line: a device error, no device *)
  | Some evs => (ctor =? 0) && codes_eqb (map obs_code (device_trace (kb_input (mk_events evs)) (map op_of_code ops))) ob
  end.
Definition model_script_ok (c : xcase) : bool :=
  let '(_, _, _, ctor, ob) := c in (fst (model_script c) =? ctor) && codes_eqb (snd (model_script c)) ob.
Definition check_script (c : xcase) : bool := model_script_ok c && spec_script_ok c.

(* BrokenIO: (operation codes, observed answer codes) *)
Definition check_broken (c : list N * list N) : bool :=
  codes_eqb (map obs_code (br_run (map op_of_code (fst c)))) (snd c) &&
  codes_eqb (map obs_code (broken_trace (map op_of_code (fst c)))) (snd c).

(* the same cases with their small numbers written as primitive integers (Coq parses those literals about four times
   faster than N literals); answers that are byte strings (codes >= 16) come separately, marked 15 in the list *)
Definition int_N (x : Uint63.int) : N := Z.to_N (Uint63.to_Z x).
Fixpoint merge_obs (small : list Uint63.int) (big : list N) : list N :=
  match small with
  | [] => []
  | x :: r =>
      let c := int_N x in
      if c =? 15 then match big with b :: bg => b :: merge_obs r bg | [] => [15] end
      else c :: merge_obs r big
  end.
Definition check_fixed63 (c : list Uint63.int * list Uint63.int * list Uint63.int * list N) : bool :=
  let '(input, ops, small, big) := c in check_fixed (map int_N input, map int_N ops, merge_obs small big).
Definition check_standard63 (c : bool * list Uint63.int * list Uint63.int * list Uint63.int * list N * list Uint63.int) : bool :=
  let '(v, input, ops, small, big, out) := c in
  check_standard (v, map int_N input, map int_N ops, merge_obs small big, map int_N out).
Definition check_kbd63 (c : list (Z * bool * Z) * list Uint63.int * list Uint63.int * list N) : bool :=
  let '(evs, ops, small, big) := c in check_kbd (evs, map int_N ops, merge_obs small big).
Definition check_script63 (c : list Uint63.int * option (list (Z * bool * Z)) * list Uint63.int * Uint63.int * list Uint63.int * list N) : bool :=
  let '(text, gen, ops, ctor, small, big) := c in
  check_script (map int_N text, gen, map int_N ops, int_N ctor, merge_obs small big).
Definition check_broken63 (c : list Uint63.int * list Uint63.int) : bool :=
  check_broken (map int_N (fst c), map int_N (snd c)).
