(* C01 - every engine executes the FlipJump machine semantics exactly.  Statements only. *)
From FJ Require Import Lib.Base Spec.MachineSpec Model.EngPy Model.RunCase Proofs.MachineProps Proofs.EngPyProps.
Local Open Scope N_scope.

(* The halting observation of the machine definition is a function of the image and input alone
   (it does not depend on how much fuel the evaluation was given). *)
Theorem C01_halting_result_unique :
  forall ww sg k1 k2 s c1 s1 c2 s2,
    run ww sg k1 s = (c1, s1) -> run ww sg k2 s = (c2, s2) -> c1 <> OutOfFuel -> c2 <> OutOfFuel ->
    c1 = c2 /\ s1 = s2.
Proof. exact run_fuel_unique. Qed.
Print Assumptions C01_halting_result_unique.

(* The tracing/profiling loop (_run_featured) and the fast loop (_run_fast), as transcribed in Model/EngPy.v,
   compute exactly the machine definition: for every width w = 2^ww >= 8, every segment table, every
   Reader-style memory representation (dict + zero ranges) that denotes the image (memR), every input and
   every number of steps, they end with the same cause (incl. fault address), the same ip, remaining input,
   output bits, op count and op history, and memories that still denote the same image. *)
Theorem C01_featured :
  forall ww, 3 <= ww -> forall sg zb fuel s ps,
    stR ww sg zb s ps -> ip s < 2 ^ (MachineSpec.w ww) ->
    obsR ww sg zb (run ww sg fuel s) (run_py (featured_step ww zb) fuel ps).
Proof. exact featured_run_correct. Qed.
Print Assumptions C01_featured.

Theorem C01_fast :
  forall ww, 3 <= ww -> forall sg zb fuel s ps,
    stR ww sg zb s ps -> ip s < 2 ^ (MachineSpec.w ww) ->
    obsR ww sg zb (run ww sg fuel s) (run_py (fast_step ww zb) fuel ps).
Proof. exact fast_run_correct. Qed.
Print Assumptions C01_fast.

(* non-vacuity: a concrete loaded image (w = 16, one segment, an op that outputs a bit then jumps into the zero tail and stops with ip<2w)
   satisfies the hypotheses, and the three evaluations agree on it *)
Example C01_hypotheses_satisfiable :
  let c := mkcase 1 4 [(0, 6)] [4] [(0, 33); (1, 64); (2, 5); (3, 64)] [] 10 2 2 0 1 [] 1 None [] in
  check_case c = true.
Proof. vm_compute. reflexivity. Qed.
