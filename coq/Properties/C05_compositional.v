(* C05 - full-width bit-vector macros for ALL operands, by composition instead of enumeration.  Statements only.
   The machinery (locality, run_split, segment transfer, chain_run) is stated in Properties/C04_compositional.v; the
   per-run theorems  TC_bit_<macro>_n<n>_w<w> : forall a b, a < 2 ^ n -> b < 2 ^ n -> block_correct ww segs img b<k> (bit_<macro> n) [a; b]
   are generated into coq/Gen by every run of ./check C05 (harness/fjverif/stl_compose.py) and closed with: *)
From FJ Require Import Lib.Base Spec.MachineSpec Spec.StlSpec Model.StlRun Model.StlDigit
  Proofs.StlProps Proofs.Locality Proofs.StlCompose.
Local Open Scope N_scope.

(* bit.xor n (F = f = N.lxor): digit-wise, no carry *)
Theorem C05_compose_digitwise :
  forall ww sg img ch f F,
    (forall x y j, dg (ch_bits ch) j (F x y) = f (dg (ch_bits ch) j x) (dg (ch_bits ch) j y)) ->
    ch_rev ch = false -> ch_fall ch = 0 ->
    chain_static ww img ch = true ->
    length (cvars ch) = 2%nat ->
    pro_check ww sg img ch [] = true ->
    (forall i, (i < ch_n ch)%nat -> forallb (digit_check ww sg img ch (dspec_map2 f) i) (digit_dom ch i) = true) ->
    epi_all ww sg img ch = true ->
    forall a b, block_correct ww sg img (ch_block ch) (v_map2 F) [a; b].
Proof. exact compose_map2. Qed.
Print Assumptions C05_compose_digitwise.

(* bit.not n *)
Theorem C05_compose_not :
  forall ww sg img ch,
    ch_rev ch = false -> ch_fall ch = 0 ->
    chain_static ww img ch = true ->
    length (cvars ch) = 1%nat ->
    pro_check ww sg img ch [] = true ->
    (forall i, (i < ch_n ch)%nat ->
       forallb (digit_check ww sg img ch (dspec_map1 (fun d => 2 ^ ch_bits ch - 1 - d)) i) (digit_dom ch i) = true) ->
    epi_all ww sg img ch = true ->
    forall a, a < 2 ^ (ch_bits ch * N.of_nat (ch_n ch)) ->
    block_correct ww sg img (ch_block ch) (v_not (ch_bits ch * N.of_nat (ch_n ch))) [a].
Proof. exact compose_not. Qed.
Print Assumptions C05_compose_not.

(* LOCALITY, on which both rest *)
Theorem C05_locality :
  forall ww sg k s c sf T W s',
    run_fp ww sg k s [] [] = (c, sf, T, W) ->
    ip s' = ip s -> inp s' = inp s ->
    (forall a, In a T -> mget0 (m s') a = mget0 (m s) a) ->
    exists sf',
      run ww sg k s' = (c, sf') /\
      ip sf' = ip sf /\ inp sf' = inp sf /\
      (exists o, outp sf = o ++ outp s /\ outp sf' = o ++ outp s') /\
      (exists h, hist sf = h ++ hist s /\ hist sf' = h ++ hist s') /\
      ops sf' + ops s = ops sf + ops s' /\
      (forall a, In a T -> mget0 (m sf') a = mget0 (m sf) a) /\
      (forall a, ~ In a W -> mget0 (m sf') a = mget0 (m s') a).
Proof. exact locality. Qed.
Print Assumptions C05_locality.

Example C05_specs_are_digitwise : bit_xor 64 = v_map2 N.lxor /\ bit_not 64 = v_not (1 * 64).
Proof. split; reflexivity. Qed.
