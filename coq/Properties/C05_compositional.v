(* C05 - full-width bit-vector macros for ALL operands, by composition instead of enumeration.  Statements only.
   The machinery (locality, run_split, segment transfer, chain_run) is stated in Properties/C04_compositional.v; the
   per-run theorems  TC_bit_<macro>_n<n>_w<w> : forall a b, a < 2 ^ n -> b < 2 ^ n -> block_correct ww segs img b<k> (bit_<macro> n) [a; b]
   are generated into coq/Gen by every run of ./check C05 (harness/fjverif/stl_compose.py) and closed with: *)
From FJ Require Import Lib.Base Spec.MachineSpec Spec.StlSpec Model.StlRun Model.StlDigit
  Proofs.StlProps Proofs.Locality Proofs.StlCompose.
Local Open Scope N_scope.

(* bit.xor n (F = f = N.lxor): digit-wise, no carry *)
Theorem C05_compose_digitwise :
  forall ww sg img ch f F,
    (forall x y j, dg (ch_bits ch) j (F x y) = f (dg (ch_bits ch) j x) (dg (ch_bits ch) j y)) ->
    ch_rev ch = false -> ch_fall ch = 0 ->
    chain_static ww img ch = true ->
    length (cvars ch) = 2%nat ->
    pro_check ww sg img ch [] = true ->
    (forall i, (i < ch_n ch)%nat -> forallb (digit_check ww sg img ch (dspec_map2 f) i) (digit_dom ch i) = true) ->
    epi_all ww sg img ch = true ->
    forall a b, block_correct ww sg img (ch_block ch) (v_map2 F) [a; b].
Proof. exact compose_map2. Qed.
Print Assumptions C05_compose_digitwise.

(* bit.not n *)
Theorem C05_compose_not :
  forall ww sg img ch,
    ch_rev ch = false -> ch_fall ch = 0 ->
    chain_static ww img ch = true ->
    length (cvars ch) = 1%nat ->
    pro_check ww sg img ch [] = true ->
    (forall i, (i < ch_n ch)%nat ->
       forallb (digit_check ww sg img ch (dspec_map1 (fun d => 2 ^ ch_bits ch - 1 - d)) i) (digit_dom ch i) = true) ->
    epi_all ww sg img ch = true ->
    forall a, a < 2 ^ (ch_bits ch * N.of_nat (ch_n ch)) ->
    block_correct ww sg img (ch_block ch) (v_not (ch_bits ch * N.of_nat (ch_n ch))) [a].
Proof. exact compose_not. Qed.
Print Assumptions C05_compose_not.

(* bit.inc n: the carry is a cell, a step that finds it clear leaves the macro *)
Theorem C05_compose_inc :
  forall ww sg img ch,
    ch_bits ch = 1 ->
    ch_rev ch = false -> ch_fall ch = 0 ->
    chain_static ww img ch = true ->
    length (cvars ch) = 1%nat ->
    pro_check ww sg img ch [1] = true ->
    (forall i, (i < ch_n ch)%nat -> forallb (digit_check ww sg img ch dspec_binc i) (digit_dom ch i) = true) ->
    epi_all ww sg img ch = true ->
    forall a, a < 2 ^ (ch_bits ch * N.of_nat (ch_n ch)) ->
    block_correct ww sg img (ch_block ch) (v_inc (ch_bits ch * N.of_nat (ch_n ch))) [a].
Proof. exact compose_binc. Qed.
Print Assumptions C05_compose_inc.

(* bit.add n (carry chain), bit.cmp n (three-way, from the most significant bit), bit.if / if0 / if1 n (zero test) *)
Theorem C05_compose_add :
  forall ww sg img ch,
    ch_rev ch = false -> ch_fall ch = 0 ->
    chain_static ww img ch = true ->
    length (cvars ch) = 2%nat ->
    pro_check ww sg img ch [0] = true ->
    (forall i, (i < ch_n ch)%nat -> forallb (digit_check ww sg img ch (dspec_add (2 ^ ch_bits ch)) i) (digit_dom ch i) = true) ->
    epi_all ww sg img ch = true ->
    forall a b, a < 2 ^ (ch_bits ch * N.of_nat (ch_n ch)) -> b < 2 ^ (ch_bits ch * N.of_nat (ch_n ch)) ->
    block_correct ww sg img (ch_block ch) (v_add (ch_bits ch * N.of_nat (ch_n ch))) [a; b].
Proof. exact compose_add. Qed.
Print Assumptions C05_compose_add.

Theorem C05_compose_cmp :
  forall ww sg img ch,
    ch_rev ch = true -> ch_fall ch = 2 ->
    chain_static ww img ch = true ->
    length (cvars ch) = 2%nat ->
    pro_check ww sg img ch [] = true ->
    (forall i, (i < ch_n ch)%nat -> forallb (digit_check ww sg img ch dspec_cmp i) (digit_dom ch i) = true) ->
    epi_all ww sg img ch = true ->
    forall a b, a < 2 ^ (ch_bits ch * N.of_nat (ch_n ch)) -> b < 2 ^ (ch_bits ch * N.of_nat (ch_n ch)) ->
    block_correct ww sg img (ch_block ch) (v_cmp (ch_bits ch * N.of_nat (ch_n ch))) [a; b].
Proof. exact compose_cmp. Qed.
Print Assumptions C05_compose_cmp.

Theorem C05_compose_if :
  forall ww sg img ch xz xnz,
    ch_rev ch = false -> ch_fall ch = xz ->
    chain_static ww img ch = true ->
    length (cvars ch) = 1%nat ->
    pro_check ww sg img ch [] = true ->
    (forall i, (i < ch_n ch)%nat -> forallb (digit_check ww sg img ch (dspec_if xnz) i) (digit_dom ch i) = true) ->
    epi_all ww sg img ch = true ->
    forall a, a < 2 ^ (ch_bits ch * N.of_nat (ch_n ch)) ->
    block_correct ww sg img (ch_block ch) (v_if (ch_bits ch * N.of_nat (ch_n ch)) xz xnz) [a].
Proof. exact compose_if. Qed.
Print Assumptions C05_compose_if.

(* bit.xor_zero / bit.swap n (both operands change), bit.zero n *)
Theorem C05_compose_digitwise2 :
  forall ww sg img ch f g F G,
    (forall x y j, dg (ch_bits ch) j (F x y) = f (dg (ch_bits ch) j x) (dg (ch_bits ch) j y)) ->
    (forall x y j, dg (ch_bits ch) j (G x y) = g (dg (ch_bits ch) j x) (dg (ch_bits ch) j y)) ->
    ch_rev ch = false -> ch_fall ch = 0 ->
    chain_static ww img ch = true ->
    length (cvars ch) = 2%nat ->
    pro_check ww sg img ch [] = true ->
    (forall i, (i < ch_n ch)%nat -> forallb (digit_check ww sg img ch (dspec_map22 f g) i) (digit_dom ch i) = true) ->
    epi_all ww sg img ch = true ->
    forall a b, block_correct ww sg img (ch_block ch) (v_map22 F G) [a; b].
Proof. exact compose_map22. Qed.
Print Assumptions C05_compose_digitwise2.

(* LOCALITY, on which both rest *)
Theorem C05_locality :
  forall ww sg k s c sf T W s',
    run_fp ww sg k s [] [] = (c, sf, T, W) ->
    ip s' = ip s -> inp s' = inp s ->
    (forall a, In a T -> mget0 (m s') a = mget0 (m s) a) ->
    exists sf',
      run ww sg k s' = (c, sf') /\
      ip sf' = ip sf /\ inp sf' = inp sf /\
      (exists o, outp sf = o ++ outp s /\ outp sf' = o ++ outp s') /\
      (exists h, hist sf = h ++ hist s /\ hist sf' = h ++ hist s') /\
      ops sf' + ops s = ops sf + ops s' /\
      (forall a, In a T -> mget0 (m sf') a = mget0 (m sf) a) /\
      (forall a, ~ In a W -> mget0 (m sf') a = mget0 (m s') a).
Proof. exact locality. Qed.
Print Assumptions C05_locality.

Example C05_specs_are_digitwise :
  bit_xor 64 = v_map2 N.lxor /\ bit_not 64 = v_not (1 * 64) /\ bit_swap 64 = v_map22 (fun _ s => s) (fun d _ => d) /\
  bit_xor_zero 64 = v_map22 N.lxor (fun _ _ => 0) /\ bit_zero 64 = v_map1 (fun _ => 0) /\ bit_if0 64 = v_if (1 * 64) 1 0.
Proof. repeat split; reflexivity. Qed.
