(* C01 (native part) / C07 (storage layouts) - the native engine _fjcore.c, as transcribed in Model/EngNative.v,
   executes the machine semantics of Spec/MachineSpec.v under every storage layout and knob.  Statements only.

   Reading guide.  `memR ww sg fc nm m` (Proofs/NativeMemProps.v): the native MemoryObject nm represents the machine
   memory m of the image with segments sg; fc is the storage layout (None = paged, Some c = flat window of c words,
   the rest paged).  `stR ww sg fc s ns`: machine state s and native loop state ns agree on ip, remaining input,
   output, op count (mod 2^64) and memory (through memR).  `top_guard ww sg fuel s` is the guard of finding F1:
   ww <= 5, or no op of the machine run starts in the last 2w bits of the 64-bit address space. *)
From FJ Require Import Lib.Base Spec.MachineSpec Model.EngPy Model.RunCase Model.EngNative Model.NativeCase
     Proofs.NativeMemProps Proofs.NativeFlatProps Proofs.NativePagedProps.
Local Open Scope N_scope.

(* ---- the unsigned single-compare tests of the C loops ------------------------------------------------------ *)
Theorem C01_native_output_test : forall f d, f < M64 -> d + 1 < M64 ->
  (sub64 f d <=? 1) = ((d <=? f) && (f <=? d + 1)).
Proof. exact out_test. Qed.
Print Assumptions C01_native_output_test.

Theorem C01_native_input_test : forall i lo d, i < M64 -> lo + d < M64 ->
  (sub64 (sub64 i lo) 1 <? d) = ((lo <? i) && (i <=? lo + d)).
Proof. exact in_test. Qed.
Print Assumptions C01_native_input_test.

Theorem C01_native_own_words_test : forall f i d, f < M64 -> i < M64 ->
  ((i <=? f) && (sub64 f i <? d)) = ((i <=? f) && (f <? i + d)).
Proof. exact own_test. Qed.
Print Assumptions C01_native_own_words_test.

(* ---- the access helpers return what the machine's rdw / flip / set_bit / get_word give --------------------- *)
Theorem C01_native_read_word : forall ww, 3 <= ww <= 6 -> forall sg, loadable_segs ww sg = true ->
  forall fc nm m a nm' r, memR ww sg fc nm m -> a * w ww < M64 -> mem_read_word nm a = (nm', r) ->
  match rdw sg m a with
  | Some v => r = Some v /\ memR ww sg fc nm' m
  | None => r = None /\ errR ww sg fc nm' m (N.shiftl a ww)
  end /\ pages_le nm nm'.
Proof. exact read_word_spec. Qed.
Print Assumptions C01_native_read_word.

Theorem C01_native_flip_bit : forall ww, 3 <= ww <= 6 -> forall sg, loadable_segs ww sg = true ->
  forall fc nm m ba nm' ok, memR ww sg fc nm m -> ba < M64 -> mem_flip_bit nm ba = (nm', ok) ->
  match rdw sg m (N.shiftr ba ww) with
  | Some v => ok = true /\ memR ww sg fc nm' (mset m (N.shiftr ba ww) (flip_bit ww v ba))
  | None => ok = false /\ errR ww sg fc nm' m (N.shiftl (N.shiftr ba ww) ww)
  end /\ pages_le nm nm'.
Proof. exact flip_bit_spec. Qed.
Print Assumptions C01_native_flip_bit.

Theorem C01_native_write_bit : forall ww, 3 <= ww <= 6 -> forall sg, loadable_segs ww sg = true ->
  forall fc nm m ba (b : bool) nm' ok, memR ww sg fc nm m -> ba < M64 -> mem_write_bit nm ba b = (nm', ok) ->
  match rdw sg m (N.shiftr ba ww) with
  | Some v => ok = true /\ memR ww sg fc nm' (mset m (N.shiftr ba ww) (set_bit ww v (N.land ba (w ww - 1)) b))
  | None => ok = false /\ errR ww sg fc nm' m (N.shiftl (N.shiftr ba ww) ww)
  end /\ pages_le nm nm'.
Proof. exact write_bit_spec. Qed.
Print Assumptions C01_native_write_bit.

(* guard (finding F1): an unaligned read must end below 2^64, otherwise `word_address + 1` / `<< ww` wrap *)
Theorem C01_native_get_word : forall ww, 3 <= ww <= 6 -> forall sg, loadable_segs ww sg = true ->
  forall fc nm m ba nm' r, memR ww sg fc nm m -> ba < M64 -> ba < 2 * 2 ^ w ww ->
  (N.land ba (w ww - 1) <> 0 -> ba + w ww < M64) ->
  mem_get_word_unaligned nm ba = (nm', r) ->
  match get_word ww sg m ba with
  | inr v => r = Some v /\ memR ww sg fc nm' m
  | inl a => r = None /\ errR ww sg fc nm' m a
  end /\ pages_le nm nm'.
Proof. exact get_word_spec. Qed.
Print Assumptions C01_native_get_word.

(* mem_get_word_unaligned's `word_address == word_mask` branch cannot be taken by a run (ip < 2^w) *)
Theorem C01_native_mask_branch_unreachable : forall ww, 3 <= ww <= 6 ->
  forall ba, ba < 2 * 2 ^ w ww -> (N.shiftr ba ww =? wmask ww) = false.
Proof. exact mask_branch_dead. Qed.
Print Assumptions C01_native_mask_branch_unreachable.

(* ---- the three loops ---------------------------------------------------------------------------------------- *)
Theorem C01_native_flat_step : forall ww, 3 <= ww <= 6 -> forall sg, loadable_segs ww sg = true ->
  forall fc c s ns, fc = Some c -> stR ww sg fc s ns -> ip s < 2 ^ w ww -> ip s + dw ww <= M64 ->
  nsim ww sg fc (step ww sg s) (flat_step ns).
Proof. exact flat_sim. Qed.
Print Assumptions C01_native_flat_step.

Theorem C01_native_flat : forall ww, 3 <= ww <= 6 -> forall sg, loadable_segs ww sg = true ->
  forall fc c fuel s ns, fc = Some c -> stR ww sg fc s ns -> ip s < 2 ^ w ww -> top_guard ww sg fuel s ->
  NC (fst (run ww sg fuel s)) = fst (run_n flat_step fuel ns) /\
  stR ww sg fc (snd (run ww sg fuel s)) (snd (run_n flat_step fuel ns)).
Proof. exact flat_run_correct. Qed.
Print Assumptions C01_native_flat.

Theorem C01_native_measured : forall ww, 3 <= ww <= 6 -> forall sg, loadable_segs ww sg = true ->
  forall fc fuel s ns, stR ww sg fc s ns -> ip s < 2 ^ w ww -> top_guard ww sg fuel s ->
  NC (fst (run ww sg fuel s)) = fst (run_n measured_step fuel ns) /\
  stR ww sg fc (snd (run ww sg fuel s)) (snd (run_n measured_step fuel ns)).
Proof. exact measured_run_correct. Qed.
Print Assumptions C01_native_measured.

(* with_ring = false: the paged loop on paged storage; with_ring = true: the last-ops clone on any storage *)
Theorem C01_native_paged : forall ww, 3 <= ww <= 6 -> forall sg, loadable_segs ww sg = true ->
  forall fc with_ring k fuel s ns, (with_ring = false -> fc = None) ->
  stR ww sg fc s ns -> ip s < 2 ^ w ww -> top_guard ww sg fuel s ->
  NC (fst (run ww sg fuel s)) = fst (run_n (paged_step with_ring k) fuel ns) /\
  stR ww sg fc (snd (run ww sg fuel s)) (snd (run_n (paged_step with_ring k) fuel ns)).
Proof. exact paged_run_correct. Qed.
Print Assumptions C01_native_paged.

(* build_run_result's ring read-out = the last k started op addresses of the machine run, oldest first *)
Theorem C01_native_ring_readout : forall ww, 3 <= ww <= 6 -> forall sg, loadable_segs ww sg = true ->
  forall fc k fuel s ns, 0 < k -> k + k <= M64 -> stR ww sg fc s ns -> hist s = [] ->
  s_ring ns = PositiveMap.empty N -> s_rw ns = 0 -> N.of_nat fuel < M64 -> ip s < 2 ^ w ww -> top_guard ww sg fuel s ->
  let nr := snd (run_n (paged_step true k) fuel ns) in
  ring_readout (s_ring nr) k (s_rw nr) = rev (firstn (N.to_nat k) (hist (snd (run ww sg fuel s)))).
Proof. exact ring_run_readout. Qed.
Print Assumptions C01_native_ring_readout.

(* ---- C07: results do not depend on the storage layout -------------------------------------------------------- *)
Theorem C07_native_layout_independent : forall ww sg fc1 fc2 f1 f2 fuel s ns1 ns2,
  loop_ok ww sg fc1 f1 -> loop_ok ww sg fc2 f2 -> stR ww sg fc1 s ns1 -> stR ww sg fc2 s ns2 ->
  ip s < 2 ^ w ww -> top_guard ww sg fuel s ->
  let r1 := run_n f1 fuel ns1 in let r2 := run_n f2 fuel ns2 in
  fst r1 = fst r2 /\ s_out (snd r1) = s_out (snd r2) /\ s_ops (snd r1) = s_ops (snd r2) /\
  s_inp (snd r1) = s_inp (snd r2) /\
  exists mm, memR ww sg fc1 (s_m (snd r1)) mm /\ memR ww sg fc2 (s_m (snd r2)) mm.
Proof. exact layout_independent. Qed.
Print Assumptions C07_native_layout_independent.

Theorem C07_native_loops_ok : forall ww, 3 <= ww <= 6 -> forall sg, loadable_segs ww sg = true ->
  (forall c, loop_ok ww sg (Some c) flat_step) /\ (forall fc, loop_ok ww sg fc measured_step) /\
  loop_ok ww sg None (paged_step false 0) /\ (forall fc k, loop_ok ww sg fc (paged_step true k)).
Proof.
  exact (fun ww Hww sg Hload => conj (flat_loop_ok ww Hww sg Hload) (conj (measured_loop_ok ww Hww sg Hload)
          (conj (paged_loop_ok ww Hww sg Hload) (ring_loop_ok ww Hww sg Hload)))).
Qed.
Print Assumptions C07_native_loops_ok.

(* mem_decide_storage keeps the image; the flat window is max over the segments starting below the limit of min(end, limit) *)
Theorem C07_native_decide_storage : forall ww, 3 <= ww <= 6 -> forall sg, loadable_segs ww sg = true ->
  forall nm mm no_flat env nm', memR ww sg None nm mm -> n_decided nm = false ->
  mem_decide_storage nm no_flat env = DS_ok nm' ->
  exists fc', memR ww sg fc' nm' mm /\
    (fc' = None \/ (no_flat = false /\ fc' = Some (window (mem_flat_words_limit nm env) (n_segs nm)))).
Proof. exact decide_storage_ok. Qed.
Print Assumptions C07_native_decide_storage.

(* ---- load + Memory_run: the engine as fjm_run._run_native drives it ------------------------------------------ *)
Theorem C01_native_end_to_end : forall ww, 3 <= ww <= 6 -> forall sg, loadable_segs ww sg = true ->
  forall fmw runs nm k input fuel lk c ns last,
  Forall (run_ok ww sg) runs -> load_image ww sg fmw runs = Some nm ->
  let mm := fold_left (fun mm r => store_words ww mm (fst r) (snd r)) runs (PositiveMap.empty N) in
  top_guard ww sg fuel (init mm input) -> N.of_nat fuel < M64 -> k_last_ops k + k_last_ops k <= M64 ->
  Memory_run k nm input fuel = RunDone lk c ns last ->
  let r := run ww sg fuel (init mm input) in
  c = NC (fst r) /\ s_out ns = outp (snd r) /\ s_ops ns = u64 (ops (snd r)) /\ s_inp ns = inp (snd r) /\
  (exists fc', memR ww sg fc' (s_m ns) (m (snd r))) /\
  last = (if 0 <? k_last_ops k then rev (firstn (N.to_nat (k_last_ops k)) (hist (snd r))) else []).
Proof. exact native_end_to_end. Qed.
Print Assumptions C01_native_end_to_end.

(* ---- the accessors devices use (NativeDeviceMemory.read_word / write_word), on in-segment words (C19) ------- *)
Theorem C01_native_api_get_word : forall ww, 3 <= ww <= 6 -> forall sg, loadable_segs ww sg = true ->
  forall fc nm mm a nm' v, memR ww sg fc nm mm -> valid sg a = true ->
  Memory_get_word nm a = (nm', v) -> v = mget0 mm a /\ memR ww sg fc nm' mm.
Proof. exact api_get_word_spec. Qed.
Print Assumptions C01_native_api_get_word.

Theorem C01_native_api_set_word : forall ww, 3 <= ww <= 6 -> forall sg, loadable_segs ww sg = true ->
  forall fc nm mm a v, memR ww sg fc nm mm -> valid sg a = true ->
  memR ww sg fc (Memory_set_word nm a v) (mset mm a (N.land v (wmask ww))).
Proof. exact api_set_word_spec. Qed.
Print Assumptions C01_native_api_set_word.

(* ---- finding F1: without the guard the statement is false (the model reproduces the engine) ---------------- *)
(* w = 64, segments (0,2) and (2^58-2, 2); op 0 jumps to the op in the LAST word of the address space
   (ip = (2^58-1)*64).  Machine definition: memory error at 2^64 after 1 op.  Native engine (flat/hybrid loop):
   `ip + width` wraps to 0, word 0 is read as the jump word, the run ends with ip < 2w after 2 ops. *)
Definition f1_case : ncase :=
  mkncase (mkcase 2 6 [(0, 2); (288230376151711742, 2)] [2; 2] [(1, 18446744073709551552)] [] 10
                  2 2 0 0 [] 0 None []) 0 false false 0 1.

Example C01_native_refuted :
  loadable_segs 6 (c_segs (nc f1_case)) = true /\
  check_native_case f1_case = true /\                                  (* the model: NullIP (code 2) after 2 ops *)
  (let o := observe (nc f1_case) in o_cause o = 5 /\ o_fault o = 18446744073709551616 /\ o_ops o = 1) /\
  forallb (no_top_op 6) (hist (snd (run_case (nc f1_case)))) = false.   (* and the guard rejects this run *)
Proof. vm_compute. repeat split; reflexivity. Qed.

(* ---- non-vacuity ------------------------------------------------------------------------------------------------ *)
(* a w = 64 image with two segments (one beyond a window of 3 words: hybrid storage) that executes 13 ops
   (12 of them flipping bits of the far segment); the hypotheses of C01_native_end_to_end hold for it and the model run agrees
   with the machine definition under four different knob settings *)
Definition nv_segs : list (N * N) := [(0, 32); (16384, 4)].
Definition nv_runs : list (N * list N) :=
  [(0, [1048576; 256; 0; 0; 1048641; 384; 1048578; 512; 1048643; 640; 1048580; 768; 1048645; 896; 1048582; 1024; 1048647; 1152; 1048584; 1280; 1048649; 1408; 1048586; 1536; 1048651; 1048704; 0; 0; 0; 0; 0; 0]); (16384, [0; 0; 323; 0])].

Example C01_native_hypotheses_satisfiable :
  loadable_segs 6 nv_segs = true /\
  (exists nm, load_image 6 nv_segs 3 nv_runs = Some nm) /\
  forallb (fun r => ((fst r + N.of_nat (length (snd r))) * 64 <=? M64) &&
                    forallb (fun j => valid nv_segs (fst r + N.of_nat j)) (seq 0 (length (snd r)))) nv_runs = true /\
  (let mm := fold_left (fun mm r => store_words 6 mm (fst r) (snd r)) nv_runs (PositiveMap.empty N) in
   forallb (no_top_op 6) (hist (snd (run 6 nv_segs 20 (init mm [])))) = true /\
   ops (snd (run 6 nv_segs 20 (init mm []))) = 13 /\ fst (run 6 nv_segs 20 (init mm [])) = NullIP).
Proof. vm_compute. repeat split; try reflexivity. eexists. reflexivity. Qed.
