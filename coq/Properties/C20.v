(* C20 - the fj command, its split flows and the Python API agree.  Statements only.
   Model: Model/Cli.v - the option plumbing of flipjump_cli (parse_args defaults/choices, get_fjm_file_path,
   get_debug_file_path, get_files_paths, get_version, assemble, run) and of flipjump_quickstart (assemble, run, debug,
   assemble_and_run) as maps from the user's options `uopts` to the argument records `asm_call` (what reaches
   Writer(...) and assembler.assemble(...)) and `run_call` (what reaches flipjump_quickstart.debug -> fjm_run.run).
   `model_defs` is the table of defaults; Tie/C20_tie.v proves it equal to the one regenerated from the source.
   These theorems are small: they say that the three routes call the same functions with the same arguments.  That
   the same arguments give the same bytes is C13; that the routes really behave like this is the correspondence
   campaign of checks/c20.py, which carries the weight of this property. *)
From FJ Require Import Lib.Base Model.Cli Proofs.CliProps.
From Coq Require Import String.
Local Open Scope string_scope.

(* one step (fj [options] -o OUT files) and two steps (fj --asm [options] -o OUT files; fj --run OUT [options]) make
   the same assemble call and the same run call - for any table of defaults, any temporary directories. *)
Theorem C20_same_args_one_step_two_steps :
  forall (stl_paths : list path) (is_file : path -> bool) (suffix_of : path -> string) (io_modes : list string)
         (render_nat : nat -> string) (d : defs) (u : uopts) (tmp1 tmp2 : path),
    twostep_expressible u -> (forall o, uo_outfile u = Some o -> ends_with ".fjm" o = true) ->
    onestep_asm d stl_paths is_file suffix_of io_modes render_nat u tmp1
      = twostep_asm d stl_paths is_file suffix_of io_modes render_nat u tmp2
    /\ onestep_run d is_file suffix_of io_modes u tmp1 = twostep_run d is_file suffix_of io_modes u tmp2.
Proof.
  intros. split; [now apply onestep_twostep_same_asm | now apply onestep_twostep_same_run].
Qed.
Print Assumptions C20_same_args_one_step_two_steps.

(* the command line and flipjump_quickstart.assemble / run: whenever the command line accepts the request, the API
   (given the same options as keywords, the rest left to its defaults) makes the same calls - paths compared up to
   absolute(), for requests the API can express (no -f/--lzma_preset other than the Writer defaults, no breakpoints,
   no temporary debug file). *)
Theorem C20_same_args_command_line_api :
  forall (stl_paths : list path) (is_file : path -> bool) (suffix_of : path -> string) (absolute : path -> path)
         (io_modes : list string) (render_nat : nat -> string),
    (forall p, absolute (absolute p) = absolute p) ->
    forall (u : uopts) (tmp o : path),
      uo_outfile u = Some o -> api_expressible model_defs u = true ->
      (forall c, onestep_asm model_defs stl_paths is_file suffix_of io_modes render_nat u tmp = inl (Some c) ->
                 norm_asm absolute c = norm_asm absolute (api_assemble model_defs stl_paths absolute render_nat u o))
      /\ (forall c, onestep_run model_defs is_file suffix_of io_modes u tmp = inl (Some c) -> c = api_run model_defs u o).
Proof.
  intros stl_paths is_file suffix_of absolute io_modes render_nat Habs u tmp o EO Hx. split; intros c Hc.
  - eapply cli_api_same_asm; eauto.
  - eapply cli_api_same_run; eauto.
Qed.
Print Assumptions C20_same_args_command_line_api.

(* assemble_and_run(files, ...) is the one-step command with "-d" (temporary debug file) and "-v 3". *)
Theorem C20_assemble_and_run_is_one_step :
  forall (stl_paths : list path) (is_file : path -> bool) (suffix_of : path -> string) (absolute : path -> path)
         (io_modes : list string) (render_nat : nat -> string),
    (forall p, absolute (absolute p) = absolute p) ->
    forall (u : uopts) (tmp : path) (c : asm_call),
      api_expressible model_defs u = true -> uo_outfile u = None -> uo_debug u = None ->
      uo_profile u = false -> uo_flat_max_words u = None ->
      onestep_asm model_defs stl_paths is_file suffix_of io_modes render_nat
        (mkuo (uo_files u) (uo_width u) (Some (dflt (uo_version u) 3%Z)) (uo_flags u) (uo_no_stl u) None (Some None)
              (uo_werror u) (uo_preset u) (uo_silent u) (uo_max_depth u) (uo_stats u) (uo_trace u) (uo_profile u)
              (uo_debug_ops u) (uo_flat_max_words u) (uo_io u) (uo_breakpoints u) (uo_breakpoints_contains u)) tmp
        = inl (Some c) ->
      norm_asm absolute c = norm_asm absolute (fst (api_assemble_and_run model_defs stl_paths absolute render_nat u tmp)).
Proof. intros; eapply assemble_and_run_is_onestep_d_v3; eauto. Qed.
Print Assumptions C20_assemble_and_run_is_one_step.

(* the documented defaults: width 64; without -v, version 3 iff an output file is requested, else 1 (the two-step
   flow and flipjump_quickstart.assemble always name an output file: 3); the standard library files s1..sn come first
   unless --no_stl / use_stl=False. *)
Theorem C20_defaults :
  forall (stl_paths : list path) (is_file : path -> bool) (suffix_of : path -> string) (absolute : path -> path)
         (io_modes : list string) (render_nat : nat -> string) (u : uopts) (tmp o : path) (c : asm_call),
    (onestep_asm model_defs stl_paths is_file suffix_of io_modes render_nat u tmp = inl (Some c) ->
       (uo_width u = None -> ac_width c = 64%Z)
       /\ (uo_version u = None -> ac_version c = match uo_outfile u with Some _ => 3%Z | None => 1%Z end)
       /\ ac_files c = ((if uo_no_stl u then [] else number_from "s" render_nat 1 stl_paths)
                        ++ number_from "f" render_nat 1 (uo_files u))%list)
    /\ (twostep_asm model_defs stl_paths is_file suffix_of io_modes render_nat u tmp = inl (Some c) ->
       (uo_width u = None -> ac_width c = 64%Z) /\ (uo_version u = None -> ac_version c = 3%Z)
       /\ ac_files c = ((if uo_no_stl u then [] else number_from "s" render_nat 1 stl_paths)
                        ++ number_from "f" render_nat 1 (uo_files u))%list)
    /\ ((uo_width u = None -> ac_width (api_assemble model_defs stl_paths absolute render_nat u o) = 64%Z)
        /\ (uo_version u = None -> ac_version (api_assemble model_defs stl_paths absolute render_nat u o) = 3%Z)
        /\ ac_files (api_assemble model_defs stl_paths absolute render_nat u o)
           = ((if uo_no_stl u then [] else number_from "s" render_nat 1 stl_paths)
              ++ number_from "f" render_nat 1 (map absolute (uo_files u)))%list).
Proof.
  intros stl_paths is_file suffix_of absolute io_modes render_nat u tmp o c. split; [|split].
  - intros H. split; [|split].
    + intros E. eapply (default_width stl_paths is_file suffix_of absolute); eauto.
    + intros E. eapply default_version_onestep; eauto.
    + eapply default_stl; eauto.
  - intros H. split; [|split].
    + intros E. eapply (default_width stl_paths is_file suffix_of absolute); eauto.
    + intros E. eapply default_version_twostep; eauto.
    + eapply default_stl; eauto.
  - split; [|split].
    + intros E. eapply (default_width stl_paths is_file suffix_of absolute io_modes render_nat u tmp); eauto.
    + intros E. now apply default_version_api.
    + apply default_stl_api.
Qed.
Print Assumptions C20_defaults.

(* Non-vacuity: a request with an output file, a width, --no_stl, a debug file and -s goes through all three routes
   and the calls coincide. *)
Example C20_routes_example :
  let u := mkuo ["/w/p.fj"] (Some 32%Z) None None true (Some "/w/out.fjm") (Some (Some "/w/d.fjd")) true None true
                None false false false None None None [] [] in
  let isf := fun _ : path => true in
  let suf := fun p : path => if ends_with ".fjm" p then ".fjm" else ".fj" in
  onestep_asm model_defs ["/stl/a.fj"] isf suf ["standard"; "pc"] (fun _ => "1") u "/tmp/x"
    = inl (Some (mkasm [("f1", "/w/p.fj")] "/w/out.fjm" 32 3 0 6 true (Some "/w/d.fjd") false false 900))
  /\ twostep_asm model_defs ["/stl/a.fj"] isf suf ["standard"; "pc"] (fun _ => "1") u "/tmp/y"
    = inl (Some (mkasm [("f1", "/w/p.fj")] "/w/out.fjm" 32 3 0 6 true (Some "/w/d.fjd") false false 900))
  /\ api_assemble model_defs ["/stl/a.fj"] (fun p => p) (fun _ => "1") u "/w/out.fjm"
    = mkasm [("f1", "/w/p.fj")] "/w/out.fjm" 32 3 0 6 true (Some "/w/d.fjd") false false 900
  /\ twostep_expressible u /\ api_expressible model_defs u = true.
Proof.
  cbv zeta. split; [vm_compute; reflexivity|]. split; [vm_compute; reflexivity|]. split; [vm_compute; reflexivity|].
  split; [|vm_compute; reflexivity].
  split; [discriminate|]. right. exists "/w/d.fjd". split; [reflexivity | discriminate].
Qed.
