(* C11 - the native engine is memory-safe.  Statements only (index-safety theorems are added with Model/EngNative.v). *)
From FJ Require Import Lib.Base Spec.MachineSpec Proofs.MachineProps.

Theorem C11_machine_total : forall ww sg s c s', step ww sg s = inr (c, s') -> c <> OutOfFuel.
Proof. exact step_not_oof. Qed.
Print Assumptions C11_machine_total.
