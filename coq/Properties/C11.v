(* C11 - the native engine is memory-safe: the index-arithmetic half.
   Statements about Model/NativeSafe.v, the index/size model of flipjump/interpreter/_fjcore.c in which every array
   access is checked ([OOB]) and every probe/search loop runs on explicit fuel ([NoFuel]).  A model computation that
   "returns [Ok (out, state)]" has reported neither; [out] is [Val _] (normal return) or [Raise e] (Python exception).
   Quantified in every theorem: the allocator oracle [al] (any allocation may fail; none exceeds PTRDIFF_MAX), the
   overflow oracle [ov] (the value every wrapping u64 computation wraps to), the process environment [ev], the
   callback/signal behaviour [wd] (each callback performs any list of get_word/set_word calls with arbitrary
   addresses, then returns or raises), all stored words, all arguments (any N: the C entry points reduce mod 2^64).
   Reference-count ownership and "cannot crash the host" are NOT statements of this file (dynamic evidence only). *)
From FJ Require Import Lib.Base Model.NativeSafe Model.NativeSafeCase
  Proofs.NativeSafeTbl Proofs.NativeSafeProps Proofs.NativeSafeLoops Proofs.NativeSafeApi Proofs.NativeSafeMain.
Local Open Scope N_scope.

(* the well-formedness invariant is established by __init__ and preserved by every API call, in any order,
   whatever the arguments: the call sequence never reaches OOB/NoFuel; each call returns or raises *)
Theorem C11_no_oob_calls : forall al ov w g f k cs, valid_w w ->
  exists outs s', do_calls al ov cs (fresh w g f k) = Ok (outs, s') /\ wf s'.
Proof. exact C11_no_oob_calls_proof. Qed.
Print Assumptions C11_no_oob_calls.

Theorem C11_no_oob_load : forall al ov w g f k cs, valid_w w -> Forall load_call cs ->
  exists outs s', do_calls al ov cs (fresh w g f k) = Ok (outs, s') /\ wf s'.
Proof. exact C11_no_oob_load_proof. Qed.
Print Assumptions C11_no_oob_load.

Theorem C11_wf_preserved : forall al ov c s, wf s ->
  exists o s', do_call al ov c s = Ok (o, s') /\ wf s'.
Proof. exact C11_wf_preserved_proof. Qed.
Print Assumptions C11_wf_preserved.

Theorem C11_no_oob_decide_storage : forall ev al s, wf s ->
  exists o s', mem_decide_storage ev al s = Ok (o, s') /\ wf s'.
Proof. exact C11_no_oob_decide_storage_proof. Qed.
Print Assumptions C11_no_oob_decide_storage.

(* any number of ops of each of the three loops, from any well-formed state and any well-formed locals
   (any ip < 2^64, a ring of the announced non-zero length or none, any shadow table below load 1/2);
   the flat loop runs on flat storage with its cached flat_count *)
Theorem C11_no_oob_run : forall k al ov wd fc steps l s, wf s -> wf_loc l -> loop_pre k (fshape s) fc ->
  exists o s', loop_n steps k al ov wd fc l s = Ok (o, s') /\ wf s'
               /\ match o with Val r => wf_runres r | Raise _ => True end.
Proof. exact C11_no_oob_run_proof. Qed.
Print Assumptions C11_no_oob_run.

(* Memory.run as a whole: argument conversion, storage decision, dispatch, ring allocation, n ops, result *)
Theorem C11_no_oob_api_run : forall ev al ov wd lol ip n s, wf s ->
  exists o s', api_run ev al ov wd lol ip n s = Ok (o, s') /\ wf s'.
Proof. exact C11_no_oob_api_run_proof. Qed.
Print Assumptions C11_no_oob_api_run.

(* the probe loops: with slots_used * 2 < slot_count (what the growth test before every probe establishes) the
   lookup ends within slot_count steps at an in-range slot; the rehash of a full table ends too *)
Theorem C11_probe_terminates : forall (V : Type) (dflt : V) (valid : V -> Prop) ov (t : tbl V) key,
  wf_tbl valid t -> t_used t * 2 < t_count t ->
  exists r, tbl_probe dflt ov t key = Ok r /\ match r with Found h _ | Empty h => h < t_count t end.
Proof. exact C11_probe_terminates_proof. Qed.
Print Assumptions C11_probe_terminates.

Theorem C11_probe_terminates_growth : forall (V : Type) (dflt : V) (valid : V -> Prop) ov init (t : tbl V) nc,
  wf_tbl valid t -> pow2 init -> 2 <= init -> tbl_new_count init t = Ok nc -> nc * 16 <= PTRDIFF_MAX ->
  t_count t <= t_used t * 2 ->
  exists t', tbl_rehash dflt ov t nc = Ok t' /\ wf_tbl valid t' /\ t_used t' * 2 < t_count t'.
Proof. exact C11_probe_terminates_growth_proof. Qed.
Print Assumptions C11_probe_terminates_growth.

Theorem C11_get_page_total : forall al ov wa s, wf s -> wa < U64 ->
  exists o s', mem_get_page al ov wa s = Ok (o, s') /\ wf s'.
Proof. exact C11_get_page_total_proof. Qed.
Print Assumptions C11_get_page_total.

(* an allocation refused inside mem_get_page (slot table, Page, or the 128 KB words array): the call raises and the
   object stays well-formed - no occupied slot, no cache entry is left pointing at a freed page; the same page can be
   requested again (C11_get_page_total applies to s') *)
Theorem C11_get_page_failure_wf : forall al ov wa s e s', wf s -> wa < U64 ->
  mem_get_page al ov wa s = Ok (Raise e, s') -> wf s'.
Proof. exact C11_get_page_failure_wf_proof. Qed.
Print Assumptions C11_get_page_failure_wf.

(* the last-ops ring: run allocates last_ops_length > 0 entries, every op writes at ring_writes % length
   (part of C11_no_oob_run), and build_run_result's start/total/modulo arithmetic reads inside the ring *)
Theorem C11_ring_in_range : forall l, wf_loc l -> exists out, ring_readout l = Ok out.
Proof. exact C11_ring_in_range_proof. Qed.
Print Assumptions C11_ring_in_range.

(* a ring whose byte size does not fit (last_ops_length >= 2^60, in particular every length for which
   last_ops_length * 8 wraps) is refused by calloc before any op runs: the call raises, for every allocator *)
Theorem C11_huge_ring_refused : forall ev al ov wd lol ip n s, wf s -> (1152921504606846976 <= lol)%Z ->
  exists e s', api_run ev al ov wd lol ip n s = Ok (Raise e, s').
Proof. exact C11_huge_ring_refused_proof. Qed.
Print Assumptions C11_huge_ring_refused.

Theorem C11_ring_allocated : forall ip len, ip < U64 -> 0 < len -> wf_loc (init_locals ip (Some (anew len 0)) len).
Proof. exact C11_ring_allocated_proof. Qed.
Print Assumptions C11_ring_allocated.

(* overflowing address computations.
   (1) the two overflow tests reject every wrapping range before anything is stored;
   (2) every other wrap-capable computation (ip + width, word_address << ww, key * golden, ip + 1, ops++,
       ring_writes++) takes its wrapped value from the arbitrary oracle ov in ALL theorems above: whatever value it
       wraps to, no access leaves its allocation (restated for one op of any loop);
   (3) the size/index computations whose wrap would be dangerous are [nowrap] sites of the model - a wrap there is an
       OOB result, excluded by the same theorems. *)
Theorem C11_no_wild_wrap :
  (forall al start len s, U64 <= start mod U64 + len mod U64 -> api_add_segment al start len s = Ok (Raise ValueError, s))
  /\ (forall al ov start values s, N.of_nat (length values) < SSIZE_LIM -> U64 <= start mod U64 + N.of_nat (length values) ->
        api_set_words al ov start values s = Ok (Raise ValueError, s))
  /\ (forall (ov : wov) k al wd fc l s, wf s -> wf_loc l -> loop_pre k (fshape s) fc ->
        exists o s', loop_op k al ov wd fc l s = Ok (o, s') /\ wf s').
Proof. exact C11_no_wild_wrap_proof. Qed.
Print Assumptions C11_no_wild_wrap.

(* ---------------------------------------------------------------- non-vacuity and the F1 wrap *)

Example C11_fresh_wf : wf (fresh 64 true 0 0).
Proof. apply wf_fresh. unfold valid_w. auto. Qed.

(* a loaded image that is then run on flat storage: the hypotheses of C11_no_oob_run are met by a reachable state *)
Definition ex_calls : list call :=
  [CAddSegment 0 6; CSetWords 0 [ItInt 300; ItInt 256; ItInt 0; ItInt 0; ItInt 0; ItInt 0]; CSetWord 70000 5;
   CRun env0 (fixed_io []) 0 0 (N.to_nat 100); CGetWord 1].
Definition ex_state : st := match do_calls al_ok ov_c ex_calls (fresh 64 true 0 0) with Ok (_, s) => s | _ => zeroed end.
Example C11_ex_calls_run : exists s', do_calls al_ok ov_c ex_calls (fresh 64 true 0 0) = Ok ([None; None; None; None; None], s')
                                      /\ storage_mode s' = 3 /\ fshape s' = Some 6.
Proof. eexists. split; [vm_compute; reflexivity|]. split; reflexivity. Qed.
Example C11_ex_loop_pre : wf ex_state /\ loop_pre LFlat (fshape ex_state) 6 /\ wf_loc (init_locals 0 None 0).
Proof.
  split; [|split; [reflexivity|apply wf_init_locals; [lia|exact Logic.I]]].
  destruct (C11_no_oob_calls al_ok ov_c 64 true 0 0 ex_calls ltac:(unfold valid_w; auto)) as (outs & s' & E & W).
  unfold ex_state. rewrite E. exact W.
Qed.

(* a call that raises, one that overflows, one beyond the flat span: the exceptional exits are reachable *)
Example C11_ex_overflow_rejected :
  exists s', do_calls al_ok ov_c [CAddSegment 18446744073709551615 1; CAddSegment 18446744073709551614 1; CSetWords 18446744073709551615 [ItInt 1]]
               (fresh 64 true 0 0) = Ok ([Some ValueError; None; Some ValueError], s').
Proof. eexists. vm_compute. reflexivity. Qed.

(* a table at load 1/2 exists and probing it is covered: 32 pages force the growth from 64 to 128 slots *)
Example C11_ex_growth :
  match do_calls al_ok ov_c (map (fun i => CSetWord (N.of_nat i * PAGE_WORDS) 1) (seq 0 40)) (fresh 8 true 0 0) with
  | Ok (_, s) => t_count (m_tbl s) = 128 /\ t_used (m_tbl s) = 40
  | _ => False
  end.
Proof. vm_compute. split; reflexivity. Qed.

(* finding F1 (DESIGN section 6): w = 64, far segment (2^58 - 2, 2), op 0 jumps to the op in the last word of the
   address space.  ip + width wraps to 0: the engine reads word 0 (value 192) as the jump word - a wrong RESULT
   (the reference reports a memory error at 2^64), obtained through the ordinary bounds-tested read; with another
   value for the wrapped sum the run ends differently and still without OOB. *)
Definition f1_far : N := 288230376151711742.
Definition f1_state : st :=
  match do_calls al_ok ov_c [CAddSegment 0 4; CAddSegment f1_far 2;
                             CSetWords 0 [ItInt 192; ItInt 18446744073709551552; ItInt 0; ItInt 0];
                             CSetWords f1_far [ItInt 0; ItInt (f1_far * 64 + 1)]] (fresh 64 true 0 0)
  with Ok (_, s) => s | _ => zeroed end.
Example C11_F1_wrap_is_a_checked_read :
  (exists s' l, api_run env0 al_ok ov_c (fixed_io []) 0 0 2 f1_state = Ok (Val (mkRunOut (Running l) [] None), s') /\ l_ip l = 192 /\ l_ops l = 2)
  /\ (exists s' l, api_run env0 al_ok (fun _ _ => 9223372036854775808) (fixed_io []) 0 0 2 f1_state
                   = Ok (Val (mkRunOut (Finished TERM_MEMORY_ERROR l) [] (Some 9223372036854775808)), s')).
Proof. split; [eexists; eexists; split; [vm_compute; reflexivity|split; reflexivity]|eexists; eexists; vm_compute; reflexivity]. Qed.
