(* C09 - library input/print/cast macros are exact inverses of the byte encoding.  Statements only.

   The per-macro instance theorems
       T_<macro>_<params>_w<w>_<alphabet>_maxlen<L> :
         forall vs inb, in_dom <ranges> vs -> (length inb <= L)%nat -> in_alpha <alphabet> inb ->
                        block_correct_io ww segs img b<k> <spec> vs inb
   are generated into coq/Gen from the image assembled from the CURRENT source by every run of ./check C09
   (harness/fjverif/stl_io.py) and proved there with the theorems below; the evidence file lists them.
   `allbytes` alphabets are all 256 byte values; `sample<k>` alphabets are a SAMPLE of k byte values (one per
   class: digits, letters, signs, terminators, an invalid byte, NUL) - stated in the theorem name. *)
From FJ Require Import Lib.Base Spec.MachineSpec Spec.StlSpec Spec.StlIOSpec Model.StlRun Model.StlIORun
     Proofs.StlProps Proofs.StlIOProps.
Local Open Scope N_scope.

(* a `true` of the checker is the frame equation with IO: started with the input bytes, the machine halts by the
   self-loop of the documented exit having printed exactly the documented bytes (then the exit's marker) and consumed
   exactly the documented number of input bits, and every word of the final memory equals the image patched with the
   documented values except the declared scratch bits - or, when the input ends first, stops with cause EOF *)
Theorem C09_checker_decides_io_frame_equation :
  forall ww sg img b S vs inb, check_block_io ww sg img b S vs inb = true -> block_correct_io ww sg img b S vs inb.
Proof. exact check_block_io_sound. Qed.
Print Assumptions C09_checker_decides_io_frame_equation.

(* enumeration of a stated finite domain (operand values ++ positions of the input symbols in the alphabet) is a
   universally quantified statement over that domain *)
Theorem C09_enumeration_is_universal :
  forall ww sg img b S nv alpha rs,
    forallb (check_io_enc ww sg img b S nv alpha) (enum_dom rs) = true ->
    forall ops, in_dom rs ops -> block_correct_io ww sg img b S (firstn nv ops) (decode alpha (skipn nv ops)).
Proof. exact io_by_enumeration. Qed.
Print Assumptions C09_enumeration_is_universal.

(* the encoded statements for every length up to L give the readable one: all operand values in their ranges and ALL
   input strings over the alphabet of length at most L *)
Theorem C09_strings_over_alphabet :
  forall (P : list N -> list N -> Prop) rs alpha L,
    (forall l, (l <= L)%nat ->
       forall ops, in_dom (rs ++ repeat (0, len alpha) l) ops ->
                   P (firstn (length rs) ops) (decode alpha (skipn (length rs) ops))) ->
    forall vs inb, in_dom rs vs -> (length inb <= L)%nat -> in_alpha alpha inb -> P vs inb.
Proof. exact io_strings_upto. Qed.
Print Assumptions C09_strings_over_alphabet.

(* the `allbytes` alphabet really is every byte *)
Theorem C09_all_bytes_alphabet : forall inb, Forall (fun c => c < 256) inb -> in_alpha all_bytes inb.
Proof. exact in_alpha_all_bytes. Qed.
Print Assumptions C09_all_bytes_alphabet.

(* a word that no executed op wrote keeps its initial value (why comparing the written words suffices) *)
Theorem C09_unwritten_words_keep_their_value :
  forall ww sg d s c s' wl,
    run_pow ww sg d s [] = Halt c s' wl ->
    (exists k, run ww sg k s = (c, s')) /\ forall a, ~ In a wl -> mget (m s') a = mget (m s) a.
Proof. exact run_pow_halt. Qed.
Print Assumptions C09_unwritten_words_keep_their_value.

(* domains can be cut into shards along any operand *)
Theorem C09_domain_sharding :
  forall pre (P : list N -> Prop) lo mid hi rs,
    (forall vs, in_dom (pre ++ (lo, mid) :: rs) vs -> P vs) -> (forall vs, in_dom (pre ++ (mid, hi) :: rs) vs -> P vs) ->
    forall vs, in_dom (pre ++ (lo, hi) :: rs) vs -> P vs.
Proof. exact dom_split_at. Qed.
Print Assumptions C09_domain_sharding.

(* the hypotheses are satisfiable and the specs say something: "-12\n" read as a signed decimal number, 255 printed *)
Example C09_spec_examples :
  in_dom [(0, 256)] [7] /\ in_alpha [48; 49; 50; 45; 10] [45; 49; 50; 10] /\
  hex_input_dec_int 2 [7] [45; 49; 50; 10] = Some (IoDone [244] 0 [] 32 []) /\
  hex_input_dec_int 2 [7] [45; 49] = Some (IoEof []) /\
  hex_print_dec_uint 2 [255] [] = Some (IoDone [255] 0 [50; 53; 53] 0 []) /\
  hex_print_dec_int 2 [128] [] = Some (IoDone [128] 0 [45; 49; 50; 56] 0 []) /\
  hex_print_uint 2 1 1 [10] [] = Some (IoDone [10] 0 [48; 120; 65] 0 []).
Proof. repeat split; try (vm_compute; reflexivity); repeat constructor; cbn; lia. Qed.
