(* C18 (engine part) - the three ENGINES, with a device that raises at its k-th call, stop where the machine-level
   fault model of Model/Faults.v stops.  Statements only.

   Reading guide.  `frun ww sg k fuel s calls` (Model/Faults.v): the machine with a device failing at call k;
   it ends with `Halt c` (the run ended by itself) or `DevFail in_read` (the device raised in write_bit / read_bit).
   `frun_py (featured_fstep ..)` / `frun_py (fast_fstep ..)` (Model/EngPyFaults.v): fjm_run._run_featured / _run_fast
   with that device; `frun_n (flat_fstep ..|measured_fstep ..|paged_fstep .. with_ring K)` (Model/EngNativeFaults.v):
   the loops of _fjcore.c with failing callbacks; `Memory_frun`: Memory.run incl. its exception path
   (last_run_op_count, last_run_last_ops).  stR / memR: the state / memory representation relations of the
   failure-free refinement proofs (Proofs/EngPyProps.v, Proofs/NativeMemProps.v, Proofs/NativeFlatProps.v);
   `top_guard` is the guard of finding F1 (no op in the last 2w bits of the 64-bit address space; automatic for w <= 32).
   Every Reader state satisfies memR (Proofs/GlueLoad.v reader_memR), every loaded native image satisfies the
   native memR (Proofs/NativePagedProps.v load_ok). *)
From FJ Require Import Lib.Base Spec.MachineSpec Model.EngPy Model.RunCase Model.Faults Model.FaultCase
     Model.EngPyFaults Model.EngNative Model.NativeCase Model.EngNativeFaults Model.FaultCaseEng
     Proofs.EngPyProps Proofs.FaultsProps Proofs.EngPyFaultsProps
     Proofs.NativeMemProps Proofs.NativeFlatProps Proofs.NativePagedProps Proofs.EngNativeFaultsProps.
Local Open Scope N_scope.

(* ---- the Python engines ----------------------------------------------------------------------------------------- *)
(* _run_featured with a device failing at call k ends like the machine with that device: same reason
   (DevFail in_read / Halt c, incl. the fault address), same number of device calls made, same op count, output,
   remaining input, op history (the stopped op's address included) and ip, and a Reader memory that still represents
   the machine's memory.  For every width w = 2^ww >= 8, segment table, representation of the image, input, k, fuel. *)
Theorem C18_featured_fault_refines :
  forall ww, 3 <= ww -> forall sg zb k fuel s ps calls,
    EngPyProps.stR ww sg zb s ps -> ip s < 2 ^ w ww ->
    let '(fc, s', c') := frun ww sg k fuel s calls in
    let '(pfc, ps', pc') := frun_py (featured_fstep ww zb k) fuel ps calls in
    pfc = fc /\ pc' = c' /\
    p_ops ps' = ops s' /\ p_out ps' = outp s' /\ p_inp ps' = inp s' /\ p_hist ps' = hist s' /\ p_ip ps' = ip s' /\
    EngPyProps.memR ww sg zb (p_mem ps') (m s').
Proof. exact (fun ww Hww sg zb => py_fault_refines ww Hww sg zb true). Qed.
Print Assumptions C18_featured_fault_refines.

(* the same for _run_fast (whose `finally` stores the local op counter) *)
Theorem C18_fast_fault_refines :
  forall ww, 3 <= ww -> forall sg zb k fuel s ps calls,
    EngPyProps.stR ww sg zb s ps -> ip s < 2 ^ w ww ->
    let '(fc, s', c') := frun ww sg k fuel s calls in
    let '(pfc, ps', pc') := frun_py (fast_fstep ww zb k) fuel ps calls in
    pfc = fc /\ pc' = c' /\
    p_ops ps' = ops s' /\ p_out ps' = outp s' /\ p_inp ps' = inp s' /\ p_hist ps' = hist s' /\ p_ip ps' = ip s' /\
    EngPyProps.memR ww sg zb (p_mem ps') (m s').
Proof. exact (fun ww Hww sg zb => py_fault_refines ww Hww sg zb false). Qed.
Print Assumptions C18_fast_fault_refines.

(* from the start of a run, for every Reader-style representation pm of the image m0 *)
Theorem C18_py_fault_refines_from_start :
  forall ww, 3 <= ww -> forall sg zb featured k fuel pm m0 input,
    EngPyProps.memR ww sg zb pm m0 ->
    let '(fc, s', c') := frun ww sg k fuel (init m0 input) 0 in
    let '(pfc, ps', pc') := frun_py (engine_fstep ww zb featured k) fuel (mkpst 0 pm input [] 0 []) 0 in
    pfc = fc /\ pc' = c' /\
    p_ops ps' = ops s' /\ p_out ps' = outp s' /\ p_inp ps' = inp s' /\ p_hist ps' = hist s' /\ p_ip ps' = ip s' /\
    EngPyProps.memR ww sg zb (p_mem ps') (m s').
Proof. exact py_fault_refines_init. Qed.
Print Assumptions C18_py_fault_refines_from_start.

(* with C18_stop_is_op_boundary: a Python engine stopped by the device is in the state the failure-free MACHINE
   reaches after n whole ops, plus the device calls the stopped op already made *)
Theorem C18_py_stop_is_op_boundary :
  forall ww, 3 <= ww -> forall sg zb featured k fuel s ps calls rd ps' calls',
    EngPyProps.stR ww sg zb s ps -> ip s < 2 ^ w ww ->
    frun_py (engine_fstep ww zb featured k) fuel ps calls = (DevFail rd, ps', calls') ->
    exists n sn s', steps ww sg n s = Some sn /\ stopped_at rd sn s' /\ EngPyProps.stR ww sg zb s' ps' /\
                    ops sn = ops s + N.of_nat n /\ k = Some calls'.
Proof. exact py_fault_stop_boundary. Qed.
Print Assumptions C18_py_stop_is_op_boundary.

(* a Python engine run that ends by itself although the device might fail later is a run of the machine definition *)
Theorem C18_py_no_failure_no_effect :
  forall ww, 3 <= ww -> forall sg zb featured k fuel s ps calls c ps' calls',
    EngPyProps.stR ww sg zb s ps -> ip s < 2 ^ w ww ->
    frun_py (engine_fstep ww zb featured k) fuel ps calls = (Halt c, ps', calls') ->
    fst (run ww sg fuel s) = c /\ EngPyProps.stR ww sg zb (snd (run ww sg fuel s)) ps'.
Proof. exact py_fault_halt_is_run. Qed.
Print Assumptions C18_py_no_failure_no_effect.

(* fjm_run.run over a Python loop: the outcome class is the except ladder's and the statistics / the state left
   behind are the machine's stop state *)
Theorem C18_py_run_outcome :
  forall ww, 3 <= ww -> forall sg zb featured k x fuel s ps,
    EngPyProps.stR ww sg zb s ps -> ip s < 2 ^ w ww ->
    match frun ww sg k fuel s 0, py_run ww zb featured k x fuel ps with
    | (Halt c, s', _), PStats c' ps' => c' = c /\ EngPyProps.stR ww sg zb s' ps'
    | (DevFail _, s', _), PKbdStats ps' => run_ladder x = KbdStatistics /\ EngPyProps.stR ww sg zb s' ps'
    | (DevFail _, s', _), PReraised ps' => run_ladder x = Reraised /\ EngPyProps.stR ww sg zb s' ps'
    | (DevFail _, s', _), PWrapped ps' => run_ladder x = WrappedRuntimeError /\ EngPyProps.stR ww sg zb s' ps'
    | _, _ => False
    end.
Proof. exact py_run_outcome. Qed.
Print Assumptions C18_py_run_outcome.

(* ---- the native engine ------------------------------------------------------------------------------------------ *)
(* every loop of _fjcore.c with failing callbacks refines the machine with a failing device: the flat loop on flat /
   hybrid storage, the measurement loop on any storage, the paged loop on paged storage, the last-ops clone on any
   storage (floop_ok = for every fuel, related start states, calls: same reason, same number of device calls, states
   related by the native stR: ip, remaining input, output, op count mod 2^64, memory) *)
Theorem C18_native_loops_fault_refine :
  forall ww, 3 <= ww <= 6 -> forall sg, loadable_segs ww sg = true -> forall k,
    (forall c, floop_ok ww sg (Some c) k (flat_fstep k)) /\ (forall fc, floop_ok ww sg fc k (measured_fstep k)) /\
    floop_ok ww sg None k (paged_fstep k false 0) /\ (forall fc K, floop_ok ww sg fc k (paged_fstep k true K)).
Proof. exact native_loops_fault_ok. Qed.
Print Assumptions C18_native_loops_fault_refine.

Theorem C18_native_fault_refines :
  forall ww, 3 <= ww <= 6 -> forall sg, loadable_segs ww sg = true -> forall fc k stepf,
    floop_ok ww sg fc k stepf ->
    forall fuel s ns calls, NativeFlatProps.stR ww sg fc s ns -> ip s < 2 ^ w ww ->
    top_guard ww sg fuel s ->
    let '(fcm, s', c') := frun ww sg k fuel s calls in
    let '(fcn, ns', cn') := frun_n stepf fuel ns calls in
    fcn = embed_fc fcm /\ cn' = c' /\
    s_ops ns' = u64 (ops s') /\ s_out ns' = outp s' /\ s_inp ns' = inp s' /\ s_ip ns' = ip s' /\
    NativeMemProps.memR ww sg fc (s_m ns') (m s').
Proof. exact native_fault_refines. Qed.
Print Assumptions C18_native_fault_refines.

(* the ring of the last-ops clone at the stop, as ring_to_list reads it out = the last K started ops of the machine's
   fault run, oldest first, the stopped op's address included *)
Theorem C18_native_fault_ring :
  forall ww, 3 <= ww <= 6 -> forall sg, loadable_segs ww sg = true -> forall fc k K fuel s ns calls,
    0 < K -> K + K <= M64 -> NativeFlatProps.stR ww sg fc s ns -> hist s = [] ->
    s_ring ns = PositiveMap.empty N -> s_rw ns = 0 -> N.of_nat fuel < M64 -> ip s < 2 ^ w ww ->
    top_guard ww sg fuel s ->
    let nr := snd (fst (frun_n (paged_fstep k true K) fuel ns calls)) in
    ring_readout (s_ring nr) K (s_rw nr) = rev (firstn (N.to_nat K) (hist (snd (fst (frun ww sg k fuel s calls))))).
Proof. exact native_fault_ring_readout. Qed.
Print Assumptions C18_native_fault_ring.

(* load (Memory(w), add_segment, set_words) + Memory.run with failing callbacks, whatever the knobs (flat window,
   forced paged, measurement loop, ring length): a result tuple iff the machine ends by itself, NULL (the callback's
   exception) iff the machine's device failed, in the same call kind; last_run_op_count, the output, the remaining
   input, the memory and the returned / kept (last_run_last_ops) last-ops list are the machine's stop state *)
Theorem C18_native_fault_end_to_end :
  forall ww, 3 <= ww <= 6 -> forall sg, loadable_segs ww sg = true ->
  forall k fmw runs nm kn input fuel,
    Forall (run_ok ww sg) runs -> load_image ww sg fmw runs = Some nm ->
    let mm := fold_left (fun mm r => store_words ww mm (fst r) (snd r)) runs (PositiveMap.empty N) in
    top_guard ww sg fuel (init mm input) -> N.of_nat fuel < M64 -> k_last_ops kn + k_last_ops kn <= M64 ->
    let '(fcm, s', _) := frun ww sg k fuel (init mm input) 0 in
    match Memory_frun k kn nm input fuel with
    | FRunValueError _ => True
    | FRunDone lk c ns last => (exists c0, fcm = Halt c0 /\ c = NC c0) /\ stop_obs ww sg kn s' ns last
    | FRunRaised lk rd ns kept => fcm = DevFail rd /\ stop_obs ww sg kn s' ns kept
    end.
Proof. exact native_fault_end_to_end. Qed.
Print Assumptions C18_native_fault_end_to_end.

(* with C18_stop_is_op_boundary: a native loop stopped by a callback is in the state the failure-free MACHINE reaches
   after n whole ops, plus the device calls the stopped op already made *)
Theorem C18_native_stop_is_op_boundary :
  forall ww, 3 <= ww <= 6 -> forall sg, loadable_segs ww sg = true -> forall fc k stepf,
    floop_ok ww sg fc k stepf ->
    forall fuel s ns calls rd ns' calls', NativeFlatProps.stR ww sg fc s ns -> ip s < 2 ^ w ww ->
    top_guard ww sg fuel s ->
    frun_n stepf fuel ns calls = (NDevFail rd, ns', calls') ->
    exists n sn s', steps ww sg n s = Some sn /\ stopped_at rd sn s' /\ NativeFlatProps.stR ww sg fc s' ns' /\
                    ops sn = ops s + N.of_nat n /\ k = Some calls'.
Proof. exact native_fault_stop_boundary. Qed.
Print Assumptions C18_native_stop_is_op_boundary.

(* ---- "identically for all engines" ---------------------------------------------------------------------------- *)
(* a Python loop and a native loop, started on representations of the same machine state with the same failing device,
   stop for the same reason after the same device calls, with the same op count (C: mod 2^64), output, remaining input
   and ip, on memories that represent one and the same machine memory *)
Theorem C18_engines_stop_identically :
  forall ww, 3 <= ww <= 6 -> forall sg, loadable_segs ww sg = true -> forall zb fc k stepf featured,
    floop_ok ww sg fc k stepf ->
    forall fuel s ps ns calls, EngPyProps.stR ww sg zb s ps -> NativeFlatProps.stR ww sg fc s ns ->
    ip s < 2 ^ w ww -> top_guard ww sg fuel s ->
    let '(pfc, ps', pc') := frun_py (engine_fstep ww zb featured k) fuel ps calls in
    let '(fcn, ns', cn') := frun_n stepf fuel ns calls in
    fcn = embed_fc pfc /\ cn' = pc' /\
    s_ops ns' = u64 (p_ops ps') /\ s_out ns' = p_out ps' /\ s_inp ns' = p_inp ps' /\ s_ip ns' = p_ip ps' /\
    exists mm, EngPyProps.memR ww sg zb (p_mem ps') mm /\ NativeMemProps.memR ww sg fc (s_m ns') mm.
Proof. exact engines_stop_identically. Qed.
Print Assumptions C18_engines_stop_identically.

(* ---- non-vacuity -------------------------------------------------------------------------------------------------- *)
(* w = 16, one segment of 6 words, input byte 1.  Op 0 outputs a 1 (device call 0), flips a bit of word 2 and jumps
   to 32; the op at 32 holds the input bit: it reads a 1 (call 1), which lands in its own jump word and sends it
   back to 32, where it reads again (call 2).  With the device raising at call 2 all three engine models (native:
   the last-ops clone with a ring of 3, the flat loop and the paged loop) and the machine-level model stop in
   read_bit with op count 2, one output bit and last ops [0; 32; 32]; with the device raising at call 0 they stop in
   write_bit after 0 ops with no output and last ops [0].  The observed fields are in the campaign's encoding. *)
Definition nv_fcase (eng k ops_ outn outv : N) (in_read : bool) (last : option (N * list N)) : fcase :=
  mkfcase (mkcase eng 4 [(0, 6)] [4] [(0, 33); (1, 32); (2, 33); (3, 0)] [1] 10 0 ops_ 0 outn [] outv last [])
          k true in_read true.

Example C18_engine_failures_reachable :
  forallb (fun eng => check_fault_case_eng (mkfcase_eng (nv_fcase eng 2 2 1 1 true (Some (3, [0; 32; 32]))) false 3) &&
                      check_fault_case (nv_fcase eng 2 2 1 1 true (Some (3, [0; 32; 32]))) &&
                      check_fault_case_eng (mkfcase_eng (nv_fcase eng 0 0 0 0 false (Some (3, [0]))) false 3) &&
                      check_fault_case (nv_fcase eng 0 0 0 0 false (Some (3, [0])))) [0; 1; 2] = true /\
  check_fault_case_eng (mkfcase_eng (nv_fcase 2 2 2 1 1 true None) false 0) = true /\     (* native, flat loop *)
  check_fault_case_eng (mkfcase_eng (nv_fcase 2 2 2 1 1 true None) true 0) = true /\      (* native, paged loop *)
  (exists ps', frun_case_py (nv_fcase 0 2 2 1 1 true None) = (DevFail true, ps', 2)) /\
  (exists ns', frun_case_native (mkfcase_eng (nv_fcase 2 2 2 1 1 true None) false 3)
               = Some (FRunRaised LRing true ns' [0; 32; 32])) /\
  (* and a wrong expectation (op count 3) is rejected *)
  check_fault_case_eng (mkfcase_eng (nv_fcase 2 2 3 1 1 true (Some (3, [0; 32; 32]))) false 3) = false.
Proof. vm_compute. repeat split; try reflexivity; eexists; reflexivity. Qed.
