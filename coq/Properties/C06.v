From FJ Require Import Lib.Base Lib.Bytes Spec.ImageSpec Model.Fjm Proofs.FjmCodec Proofs.FjmReader Proofs.FjmWriter Proofs.FjmProps.
(* C06 - writing then reading an .fjm preserves the memory image in every version.  Statements only.
   Model: Model/Fjm.v (exec = a sequence of add_data / add_segment calls on one Writer, write = write_to_file,
   read_thr thr = Reader.__init__ with zero-tail threshold thr; read = read_thr 1000).
   Spec: Spec/ImageSpec.v (lword, word_of, same_image, representable).
   liblzma is the pair (compress, decompress) with the premise decompress (compress x) = x.
   fits_u64: the pool and the table have fewer than 2^64 entries (their lengths are packed as u64). *)
Local Open Scope Z_scope.

(* Every call sequence the writer accepts, at every width / version / flags / threshold: if the file gets
   written, reading it gives an image whose segments are the declared ones, whose word at every address inside a
   segment is the supplied data then zeros, and every address outside all segments is invalid (lword = None);
   the header fields come back, and the file's segment table is consistent. *)
Theorem C06_roundtrip :
  forall (compress : bytes -> option bytes) (decompress : bytes -> option bytes),
    (forall x z, compress x = Some z -> decompress z = Some x) ->
  forall c thr ops res st file,
    cfg_valid c = true ->
    exec c ops ws_empty = (res, Some st) -> fits_u64 st = true ->
    write compress c st = WOk file ->
    exists img L,
      read_thr thr decompress file = ROk img /\
      logical ops res [] = Some L /\
      same_image (i_segs img) (i_mem img) (i_zeros img) L /\
      i_w img = Z.to_N (c_w c) /\ i_ver img = Z.to_N (c_ver c) /\ i_flags img = Z.to_N (c_flags c) /\
      consistent_table (i_pool_len img) (i_table img) = true.
Proof. intros compress decompress H c thr ops res st file V. exact (roundtrip compress decompress H c V thr ops res st file). Qed.
Print Assumptions C06_roundtrip.

(* The image does not depend on the version (nor on flags / preset): two configurations that accept the same
   calls of the same sequence load the same segments and the same word at every address. *)
Theorem C06_version_independent :
  forall (compress : bytes -> option bytes) (decompress : bytes -> option bytes),
    (forall x z, compress x = Some z -> decompress z = Some x) ->
  forall c1 c2 thr ops res st1 st2 f1 f2 i1 i2,
    cfg_valid c1 = true -> cfg_valid c2 = true ->
    exec c1 ops ws_empty = (res, Some st1) -> exec c2 ops ws_empty = (res, Some st2) ->
    fits_u64 st1 = true -> fits_u64 st2 = true ->
    write compress c1 st1 = WOk f1 -> write compress c2 st2 = WOk f2 ->
    read_thr thr decompress f1 = ROk i1 -> read_thr thr decompress f2 = ROk i2 ->
    i_segs i1 = i_segs i2 /\ forall a, word_of (i_mem i1) (i_zeros i1) a = word_of (i_mem i2) (i_zeros i2) a.
Proof. exact version_independent. Qed.
Print Assumptions C06_version_independent.

(* Dense (explicit zeros, tail < threshold) and lazy (zero ranges) tails denote the same image: the answers do
   not depend on the threshold. *)
Theorem C06_zero_tail :
  forall (compress : bytes -> option bytes) (decompress : bytes -> option bytes),
    (forall x z, compress x = Some z -> decompress z = Some x) ->
  forall c thr1 thr2 ops res st file i1 i2,
    cfg_valid c = true -> exec c ops ws_empty = (res, Some st) -> fits_u64 st = true ->
    write compress c st = WOk file ->
    read_thr thr1 decompress file = ROk i1 -> read_thr thr2 decompress file = ROk i2 ->
    i_segs i1 = i_segs i2 /\ forall a, word_of (i_mem i1) (i_zeros i1) a = word_of (i_mem i2) (i_zeros i2) a.
Proof. exact zero_tail. Qed.
Print Assumptions C06_zero_tail.

(* The reader's re-basing of a jump word undoes the writer's, including wrap-around of the relative value:
   rel_dec w k y = (y + k*w) & (2^w - 1)  applied to  (p - k*w) mod 2^w  gives p back. *)
Theorem C06_relative_jump_cancel :
  forall (w p : Z) (k : N), 0 <= w -> 0 <= p < 2 ^ w ->
    rel_dec (Z.to_N w) k (Z.to_N ((p - Z.of_N k * w) mod 2 ^ w)) = Z.to_N p.
Proof. exact rel_cancel. Qed.
Print Assumptions C06_relative_jump_cancel.

(* An input the format cannot represent is refused with the library's error: no call of any sequence ends in
   another exception (exec returns a final state), and write_to_file does not either. *)
Theorem C06_unrepresentable_rejected :
  forall (compress : bytes -> option bytes) c ops,
    cfg_valid c = true ->
    snd (exec c ops ws_empty) <> None /\
    forall res st, exec c ops ws_empty = (res, Some st) -> fits_u64 st = true ->
                   forall e p, write compress c st <> WRaw e p.
Proof. exact writer_total. Qed.
Print Assumptions C06_unrepresentable_rejected.

(* ... and what was accepted is representable: pairwise disjoint, even, non-empty segments below 2^64, an even
   number of supplied words that fit the segment, every word below 2^w. *)
Theorem C06_accepted_is_representable :
  forall c ops res st,
    cfg_valid c = true -> exec c ops ws_empty = (res, Some st) ->
    exists L, logical ops res [] = Some L /\ representable (Z.to_N (c_w c)) L = true.
Proof. exact accepted_representable. Qed.
Print Assumptions C06_accepted_is_representable.

(* byte codecs *)
Theorem C06_u16_codec : forall v, (v < 2 ^ 16)%N -> le_dec (u16_enc v) = v.
Proof. exact u16_roundtrip. Qed.
Print Assumptions C06_u16_codec.
Theorem C06_u32_codec : forall v, (v < 2 ^ 32)%N -> le_dec (u32_enc v) = v.
Proof. exact u32_roundtrip. Qed.
Print Assumptions C06_u32_codec.
Theorem C06_u64_codec : forall v, (v < 2 ^ 64)%N -> le_dec (u64_enc v) = v.
Proof. exact u64_roundtrip. Qed.
Print Assumptions C06_u64_codec.
Theorem C06_bytes_codec : forall b, all_bytes b = true -> le_enc (length b) (le_dec b) = b.
Proof. exact le_enc_dec. Qed.
Print Assumptions C06_bytes_codec.

(* The hypotheses are satisfiable on a non-trivial input: w = 16, version 2, flags 5, two segments (one with a
   lazy zero tail of 1000 words, one at word 2^40), identity codec; the calls are accepted, the state fits, the
   file is written, and it reads back with the words supplied (closed boolean computation). *)
Example C06_hypotheses_satisfiable :
  let c := mkcfg 16 2 5 0 in
  let ops := [AddData [1; 65535; 3; 40]; AddSeg 0 1004 0 4; AddData [7; 9]; AddSeg (2 ^ 40) 2 4 2] in
  let is v (o : option N) := match o with Some x => (x =? v)%N | None => false end in
  match exec c ops ws_empty with
  | (_, Some st) =>
    cfg_valid c && fits_u64 st &&
    match write Some c st with
    | WOk file =>
      match read Some file with
      | ROk img =>
        pairs_eqb (i_segs img) [(0, 1004); (2 ^ 40, 2)]%N && pairs_eqb (i_zeros img) [(4, 1004)]%N &&
        is 65535%N (word_of (i_mem img) (i_zeros img) 1) && is 9%N (word_of (i_mem img) (i_zeros img) (2 ^ 40 + 1)) &&
        is 0%N (word_of (i_mem img) (i_zeros img) 1003) &&
        match word_of (i_mem img) (i_zeros img) 1004 with None => true | Some _ => false end
      | _ => false
      end
    | _ => false
    end
  | _ => false
  end = true.
Proof. vm_compute. reflexivity. Qed.
