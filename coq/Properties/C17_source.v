(* C17, source tie - FixedIO and StandardIO AS THEY READ NOW are byte-exact.  Statements only.
   coq/Gen/Facts_Devices.v is regenerated from the current flipjump/interpreter/io_devices/{FixedIO,StandardIO}.py by
   harness/fjverif/gen_facts_devices.py on every run of ./check C17 (Python `ast` -> the Python-subset IR of Model/PyIR.v,
   fail closed); this file is rebuilt against it.
   Chain: source --translator--> IR --(PyIR.exec = Model/Devices.v, below)--> Model/Devices.v --C17_fixed_trace /
   C17_standard_trace--> Spec/IOSpec.v.
   [callD f args w] runs the regenerated body of method f (Tie/Devices_steps.v); the device object is the attribute list
   d_self (w_dev w), sys.stdin / sys.stdout are d_stdin / d_stdout.  [fixed_denotes o s] / [std_denotes d s]: the six
   attributes of the object have the values of the model state s.  [agrees w ans post r]: the call r made in world w is
   not Unsupported, answers the observation ans (value returned / exception raised), leaves a device satisfying post,
   and does not touch the rest of the world. *)
From FJ Require Import Lib.Base Spec.MachineSpec Spec.IOSpec Model.PyIR Model.Devices Proofs.DevicesProps.
From FJ Require Import Gen.Facts_Devices Tie.Devices_steps Tie.Devices_tie.        (* regenerated; keep on its own line *)
Local Open Scope N_scope.

(* ---- FixedIO: every method, for EVERY object that denotes a model state, every argument ---------------------------- *)
Theorem C17_source_fixed_init :
  forall w input, agrees w ODone (fixed_post w (fx_init input)) (callD F_fixed_init [VBytes input] w).
Proof. exact tie_fixed_init. Qed.
Print Assumptions C17_source_fixed_init.

Theorem C17_source_fixed_read_bit :
  forall w s, fixed_denotes (d_self (w_dev w)) s ->
    agrees w (rd_obs (fst (fx_read_bit s))) (fixed_post w (snd (fx_read_bit s))) (callD F_fixed_read_bit [] w).
Proof. exact tie_fixed_read_bit. Qed.
Print Assumptions C17_source_fixed_read_bit.

Theorem C17_source_fixed_write_bit :
  forall w s b, fixed_denotes (d_self (w_dev w)) s ->
    agrees w (wr_obs (fst (fx_write_bit s b))) (fixed_post w (snd (fx_write_bit s b))) (callD F_fixed_write_bit [VBool b] w).
Proof. exact tie_fixed_write_bit. Qed.
Print Assumptions C17_source_fixed_write_bit.

Theorem C17_source_fixed_get_output :
  forall w s a, fixed_denotes (d_self (w_dev w)) s ->
    agrees w (fx_get_output s a) (fixed_post w s) (callD F_fixed_get_output [VBool a] w).
Proof. exact tie_fixed_get_output. Qed.
Print Assumptions C17_source_fixed_get_output.

(* ---- StandardIO (stdin characters < 256: one character is one byte of raw_unicode_escape) ------------------------- *)
Theorem C17_source_std_init :
  forall w verbose, d_stdout (w_dev w) = [] ->
    agrees w ODone (fun d => std_denotes d (so_init verbose (d_stdin (w_dev w)))) (callD F_std_init [VBool verbose] w).
Proof. exact tie_std_init. Qed.
Print Assumptions C17_source_std_init.

Theorem C17_source_std_read_bit :
  forall w s, std_denotes (w_dev w) s -> all_below_256 (s_stdin s) = true ->
    agrees w (rd_obs (fst (so_read_bit s))) (fun d => std_denotes d (snd (so_read_bit s))) (callD F_std_read_bit [] w).
Proof. exact tie_std_read_bit. Qed.
Print Assumptions C17_source_std_read_bit.

Theorem C17_source_std_write_bit :
  forall w s b, std_denotes (w_dev w) s ->
    agrees w (wr_obs (fst (so_write_bit s b))) (fun d => std_denotes d (snd (so_write_bit s b))) (callD F_std_write_bit [VBool b] w).
Proof. exact tie_std_write_bit. Qed.
Print Assumptions C17_source_std_write_bit.

Theorem C17_source_std_get_output :
  forall w s a, std_denotes (w_dev w) s ->
    agrees w (so_get_output s a) (fun d => std_denotes d s) (callD F_std_get_output [VBool a] w).
Proof. exact tie_std_get_output. Qed.
Print Assumptions C17_source_std_get_output.

(* ---- whole devices: constructed by the regenerated __init__, driven call by call -------------------------------- *)
Theorem C17_source_fixed_is_model :
  forall input ops, fst (src_run true (src_fixed_new input) ops) = fx_run (fx_init input) ops.
Proof. exact tie_fixed_device. Qed.
Print Assumptions C17_source_fixed_is_model.

Theorem C17_source_std_is_model :
  forall verbose stdin ops, all_below_256 stdin = true ->
    fst (src_run false (src_std_new verbose stdin) ops) = fst (so_run (so_init verbose stdin) ops) /\
    d_stdout (w_dev (snd (src_run false (src_std_new verbose stdin) ops))) = s_stdout (snd (so_run (so_init verbose stdin) ops)).
Proof. exact tie_std_device. Qed.
Print Assumptions C17_source_std_is_model.

(* composed with C17_fixed_trace / C17_standard_trace: the current source answers what Spec/IOSpec.v requires *)
Theorem C17_source_fixed_trace :
  forall input ops, fst (src_run true (src_fixed_new input) ops) = device_trace (fixed_input input) ops.
Proof. exact src_fixed_trace. Qed.
Print Assumptions C17_source_fixed_trace.

Theorem C17_source_standard_trace :
  forall verbose stdin ops, all_below_256 stdin = true ->
    fst (src_run false (src_std_new verbose stdin) ops) = device_trace (fixed_input stdin) ops /\
    d_stdout (w_dev (snd (src_run false (src_std_new verbose stdin) ops))) = if verbose then fst (pack (written ops)) else [].
Proof. exact src_standard_trace. Qed.
Print Assumptions C17_source_standard_trace.

(* non-vacuity: the interpreter really runs the regenerated methods (read 3 bits of b'\x05\xff', write 8 bits, get) *)
Example C17_source_runs :
  check_fixed_src ([5; 255], [0; 0; 0; 2; 2; 1; 1; 1; 1; 1; 2; 3], [1; 0; 1; 3; 3; 3; 3; 3; 3; 3; 3; 16 + (256 + 131)]) = true /\
  check_standard_src (true, [65], [0; 2; 1; 1; 1; 1; 1; 2; 1; 3], [1; 3; 3; 3; 3; 3; 3; 3; 3; 337], [65]) = true.
Proof. vm_compute. split; reflexivity. Qed.
