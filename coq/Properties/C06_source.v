(* C06, source tie - the Writer's data / segment methods and write_to_file AS THEY READ NOW are those of Model/Fjm.v.
   Statements only.
   coq/Gen/Facts_Writer.v is regenerated from the current flipjump/fjm/fjm_writer.py (add_data, add_segment and every
   helper it calls: _validate_segment_not_overlapping, _validate_segment_addresses_not_overlapping,
   _validate_segment_data_not_overlapping, _is_collision, _update_to_relative_jumps, get_segment_addresses_repr;
   add_simple_segment_with_data; write_to_file) by harness/fjverif/gen_facts_writer.py on every run of ./check C06 (Python `ast` -> the
   Python-subset IR of Model/PyIR.v, fail closed); this file is rebuilt against it.
   Chain: source --translator--> IR --(PyIR.exec = Fjm.add_data / Fjm.add_segment, below)--> Model/Fjm.v --C06_roundtrip,
   C06_unrepresentable_rejected ...--> Spec/ImageSpec.v.
   The Writer object is the attribute list of the interpreter's world (word_size, version, segments as 4-tuples, data as ints);
   Python ints are unbounded and may be negative ([of_Z]).  [src_step c st op] (Tie/Writer_steps.v) runs one call from the
   object that denotes configuration c and state st, and answers the outcome code of Fjm.exec (0 returned, 1 library error),
   the returned int and the state the object is left in.  [src_write compress c st] runs the regenerated write_to_file:
   struct.pack is the interpreter's EPack (unsigned little-endian fields, struct.error outside the range), the opened file
   is the output stream of the world, lzma (Writer._compress_data) is the oracle `compress` exactly as in Fjm.write; what
   it answers is the file written - or the partial file an exception leaves behind. *)
From FJ Require Import Lib.Base Lib.Bytes Spec.ImageSpec Model.Fjm Model.PyIR.
From FJ Require Import Gen.Facts_Writer Tie.Writer_steps Tie.Writer_tie.        (* regenerated; keep on its own line *)
Local Open Scope Z_scope.

(* one call, for EVERY configuration with a word size that is not negative (every constructed Writer), every state and
   every argument - negative, odd, oversized ones included: same outcome, same returned value, same state afterwards; in
   particular a rejected call leaves the object as it was *)
Theorem C06_source_call :
  forall c, 0 <= c_w c -> forall st op, src_step c st op = Some (hand_step c st op).
Proof. exact tie_step. Qed.
Print Assumptions C06_source_call.

(* hence any sequence of calls: the per-call outcomes and the final table + data pool are those of Fjm.exec *)
Theorem C06_source_calls :
  forall c, 0 <= c_w c -> forall ops st, src_exec c ops st = Some (Fjm.exec c ops st).
Proof. exact tie_exec. Qed.
Print Assumptions C06_source_calls.

(* the same two methods at any call depth and in any world whose object denotes (c, st): what is returned, which world is
   left ([ends_as]: OpOk - a world denoting the new state and otherwise unchanged; OpLib - the SAME world; never OpRaw) *)
Theorem C06_source_add_data :
  forall c, 0 <= c_w c -> forall d w st l, Wden c w st ->
    ends_as c w (add_data c st l) of_Z (call_at wr_cfg writer_program (S d) F_w_add_data [VList (map of_Z l)] w).
Proof. exact tie_add_data_call. Qed.
Print Assumptions C06_source_add_data.

Theorem C06_source_add_segment :
  forall c, 0 <= c_w c -> forall d w st s l ds dl, Wden c w st ->
    ends_as c w (add_segment c st s l ds dl) (fun _ => VNone)
            (call_at wr_cfg writer_program (S (S (S (S d)))) F_w_add_segment [of_Z s; of_Z l; of_Z ds; of_Z dl] w).
Proof. exact tie_add_segment_call. Qed.
Print Assumptions C06_source_add_segment.

(* the helpers *)
Theorem C06_source_is_collision :
  forall d w s1 e1 s2 e2,
    call_at wr_cfg writer_program (S d) F_w_is_collision [of_Z s1; of_Z e1; of_Z s2; of_Z e2] w =
    EOk (VBool (is_collision s1 e1 s2 e2)) w.
Proof. exact tie_is_collision. Qed.
Print Assumptions C06_source_is_collision.

Theorem C06_source_validate_not_overlapping :
  forall c d w st s l ds dl, Wden c w st ->
    call_at wr_cfg writer_program (S (S (S d))) F_w_validate_segment_not_overlapping [of_Z s; of_Z l; of_Z ds; of_Z dl] w =
    if addresses_overlap (ws_segs st) s l || (is_rel c && data_overlap (ws_segs st) ds dl) then EExn (XLib 0) w else EOk VNone w.
Proof. exact tie_validate_not_overlapping. Qed.
Print Assumptions C06_source_validate_not_overlapping.

Theorem C06_source_update_to_relative_jumps :
  forall c, 0 <= c_w c -> forall d w st s ds dl, Wden c w st ->
    0 <= ds -> 0 <= dl -> dl mod 2 = 0 -> ds + dl <= Z.of_nat (length (ws_data st)) ->
    exists D' w', update_to_relative_jumps (c_w c) s ds dl (ws_data st) = Some D' /\
      call_at wr_cfg writer_program (S d) F_w_update_to_relative_jumps [of_Z s; of_Z ds; of_Z dl] w = EOk VNone w' /\
      Wden c w' (mkws (ws_segs st) D') /\ same_rest w w'.
Proof. exact tie_update_to_relative_jumps. Qed.
Print Assumptions C06_source_update_to_relative_jumps.

(* add_simple_segment_with_data(s, data) = add_data(data) then add_segment(s, len(data), <its result>, len(data)); when
   the segment is rejected the data stay added *)
Theorem C06_source_add_simple :
  forall c, 0 <= c_w c -> forall d w st s l, Wden c w st ->
    match add_data c st l with
    | OpOk st1 r =>
        match add_segment c st1 s (Z.of_nat (length l)) r (Z.of_nat (length l)) with
        | OpOk st2 _ => exists w2, simple_call d w s l = EOk VNone w2 /\ Wden c w2 st2 /\ same_rest w w2
        | OpLib => exists w1, simple_call d w s l = EExn (XLib 0) w1 /\ Wden c w1 st1 /\ same_rest w w1
        | OpRaw _ => False
        end
    | OpLib => simple_call d w s l = EExn (XLib 0) w
    | OpRaw _ => False
    end.
Proof. exact tie_add_simple. Qed.
Print Assumptions C06_source_add_simple.

(* write_to_file, for EVERY configuration (any word size, version, flags), state and codec: the same bytes in the same
   order - header, extension (versions > 0), one 32-byte entry per segment, the pool packed with the word format of the
   width, compressed for version 3 - and the same partial file when struct.pack refuses a value or the width has no format *)
Theorem C06_source_write :
  forall (compress : bytes -> option bytes) c st, src_write compress c st = Some (write compress c st).
Proof. exact tie_write. Qed.
Print Assumptions C06_source_write.

(* non-vacuity: the interpreter really runs the regenerated methods (w = 16, relative jumps: a negative intermediate value
   masked to 16 bits; rejected calls with a negative / odd / overlapping / oversized argument) *)
Example C06_source_runs :
  src_exec (mkcfg 16 2 0 6)
    [AddData [5; 300; 7; 70000]; AddData [5; 300; 7; 8; 1; 2]; AddSeg 0 8 0 4; AddSeg 4 4 4 2; AddSeg 100 6 4 (-2);
     AddSeg 16 2 2 2; AddSeg 32 2000 4 2; AddSeg (-2) 2 0 0; AddSeg 64 2 0 8] ws_empty =
  Some ([(1%N, 0); (0%N, 0); (0%N, 0); (1%N, 0); (1%N, 0); (1%N, 0); (0%N, 0); (1%N, 0); (1%N, 0)],
        Some (mkws [(0, 8, 0, 4); (32, 2000, 4, 2)] [5; 284; 7; 65496; 1; 65010])) /\
  (match src_write (fun b => Some b) (mkcfg 16 2 7 6) (mkws [(0, 8, 0, 4); (32, 2000, 4, 2)] [5; 284; 7; 65496; 1; 65010]) with
   | Some (WOk f) => Nat.eqb (length f) 108%nat | _ => false end) = true /\
  (match src_write (fun b => Some b) (mkcfg 16 1 7 6) (mkws [(0, 8, 0, 4); (-1, 2, 0, 0)] [5; 70000]) with
   | Some (WRaw ExStruct partial) => Nat.eqb (length partial) 64%nat | _ => false end) = true.
Proof. vm_compute. repeat split; reflexivity. Qed.
