(* C07 - results and final memory do not depend on engine or storage layout.  Statements only.
   The refinement theorems of the native engine's storage layouts and loops are in Properties/C01_native.v
   (C07_native_layout_independent, C07_native_loops_ok, C07_native_decide_storage, C01_native_ring_readout). *)
From FJ Require Import Lib.Base Spec.MachineSpec Proofs.MachineProps.

Theorem C07_halting_result_unique :
  forall ww sg k1 k2 s c1 s1 c2 s2,
    run ww sg k1 s = (c1, s1) -> run ww sg k2 s = (c2, s2) -> c1 <> OutOfFuel -> c2 <> OutOfFuel ->
    c1 = c2 /\ s1 = s2.
Proof. exact run_fuel_unique. Qed.
Print Assumptions C07_halting_result_unique.
