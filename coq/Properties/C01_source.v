(* C01, source tie - the pure-Python engines AS THEY READ NOW compute the machine definition.  Statements only.
   coq/Gen/Facts_EngPy.v is regenerated from the current flipjump/fjm/fjm_reader.py and flipjump/interpreter/fjm_run.py
   by harness/fjverif/gen_facts_engpy.py on every run of ./check C01 (Python `ast` -> the Python-subset IR of
   Model/PyIR.v, fail closed); this file is rebuilt against it.
   Chain: source --translator--> IR --(PyIR.exec = hand model, below)--> Model/EngPy.v --C01_fast / C01_featured-->
   Spec/MachineSpec.v.  [callS ww zb depth f args world] is the PyIR interpreter running the regenerated body of f for a
   Reader of width 2^ww with GarbageHandling.Stop and zero ranges zb; [src_fast_step]/[src_featured_step]
   (Tie/EngPy_steps.v) run one iteration of the regenerated `while True:` body from a model state. *)
From FJ Require Import Lib.Base Spec.MachineSpec Model.EngPy Model.PyIR Model.RunCase Proofs.EngPyProps.
From FJ Require Import Gen.Facts_EngPy Tie.EngPy_steps Tie.EngPy_tie.        (* regenerated; keep on its own line *)
Local Open Scope N_scope.

(* ---- the Reader's memory methods: for EVERY memory, argument and width ------------------------------------------ *)
Theorem C01_source_get_memory_word :
  forall ww zb d wd a,
    callS ww zb (S (S d)) F_get_memory_word [VInt a] wd = ret_word wd (py_get_memory_word ww zb (w_mem wd) a).
Proof. exact tie_get_memory_word. Qed.
Print Assumptions C01_source_get_memory_word.

Theorem C01_source_set_memory_word :
  forall ww zb d wd a v,
    callS ww zb (S d) F_set_memory_word [VInt a; VInt v] wd =
    EOk VNone (with_mem wd (py_set_memory_word ww (w_mem wd) a v)).
Proof. exact tie_set_memory_word. Qed.
Print Assumptions C01_source_set_memory_word.

Theorem C01_source_bit_address_decompose :
  forall ww zb d wd ba,
    callS ww zb (S d) F_bit_address_decompose [VInt ba] wd =
    EOk (VPair (VInt (fst (py_decompose ww ba))) (VInt (snd (py_decompose ww ba)))) wd.
Proof. exact tie_bit_address_decompose. Qed.
Print Assumptions C01_source_bit_address_decompose.

Theorem C01_source_get_word :
  forall ww zb d wd ba,
    callS ww zb (S (S (S d))) F_get_word [VInt ba] wd = ret_word wd (py_get_word ww zb (w_mem wd) ba).
Proof. exact tie_get_word. Qed.
Print Assumptions C01_source_get_word.

Theorem C01_source_read_bit :
  forall ww zb d wd ba,
    callS ww zb (S (S (S d))) F_read_bit [VInt ba] wd = ret_bit wd (py_read_bit ww zb (w_mem wd) ba).
Proof. exact tie_read_bit. Qed.
Print Assumptions C01_source_read_bit.

Theorem C01_source_write_bit :
  forall ww zb d wd ba b,
    callS ww zb (S (S (S d))) F_write_bit [VInt ba; VBool b] wd = ret_unit wd (py_write_bit ww zb (w_mem wd) ba b).
Proof. exact tie_write_bit. Qed.
Print Assumptions C01_source_write_bit.

(* ---- the loop bodies: for EVERY model state ---------------------------------------------------------------------- *)
(* one iteration of the regenerated _run_fast body (with its `finally:` clause on the way out) is one [fast_step];
   [halt_view] forgets the ip of a halted run, which the loops do not return *)
Theorem C01_source_fast_body :
  forall ww zb s, src_fast_step ww zb s = Some (halt_view (fast_step ww zb s)).
Proof. exact tie_run_fast. Qed.
Print Assumptions C01_source_fast_body.

(* the same for _run_featured taken with breakpoint_handler = None and show_trace = False, including its helpers
   _handle_output, _handle_input, _trace_flip, _trace_jump, which are translated and executed as well *)
Theorem C01_source_featured_body :
  forall ww zb s, src_featured_step ww zb s = Some (halt_view (featured_step ww zb s)).
Proof. exact tie_run_featured. Qed.
Print Assumptions C01_source_featured_body.

(* the statements before the loops start them at ip = 0, ops = 0 - the initial state RunCase.py_init / MachineSpec.init use *)
Theorem C01_source_fast_start :
  forall ww zb, exists en0, loop_env ww zb [] src_run_fast_prelude = Some en0 /\
    lookup en0 v_run_fast_ip = Some (VInt 0) /\ lookup en0 v_run_fast_ops = Some (VInt 0).
Proof. exact tie_run_fast_start. Qed.
Print Assumptions C01_source_fast_start.

Theorem C01_source_featured_start :
  forall ww zb, exists en0, loop_env ww zb featured_params src_run_featured_prelude = Some en0 /\
    lookup en0 v_run_featured_ip = Some (VInt 0).
Proof. exact tie_run_featured_start. Qed.
Print Assumptions C01_source_featured_start.

(* ---- composed with the simulation lemmas of Proofs/EngPyProps.v: the current source refines MachineSpec.step ------ *)
Theorem C01_source_fast_step :
  forall ww, 3 <= ww -> forall sg zb s ps,
    stR ww sg zb s ps -> ip s < 2 ^ (MachineSpec.w ww) ->
    sim_src ww sg zb (step ww sg s) (src_fast_step ww zb ps).
Proof. exact src_fast_sim. Qed.
Print Assumptions C01_source_fast_step.

Theorem C01_source_featured_step :
  forall ww, 3 <= ww -> forall sg zb s ps,
    stR ww sg zb s ps -> ip s < 2 ^ (MachineSpec.w ww) ->
    sim_src ww sg zb (step ww sg s) (src_featured_step ww zb ps).
Proof. exact src_featured_sim. Qed.
Print Assumptions C01_source_featured_step.

(* whole runs: same cause (incl. fault address), remaining input, output bits, op count, op history, and memories that
   denote the same image, for every width >= 8, segment table, Reader representation, input and number of steps *)
Theorem C01_source_fast :
  forall ww, 3 <= ww -> forall sg zb fuel s ps,
    stR ww sg zb s ps -> ip s < 2 ^ (MachineSpec.w ww) ->
    obsR_src ww sg zb (run ww sg fuel s) (run_py (src_total (src_fast_step ww zb)) fuel ps).
Proof. exact src_fast_run_correct. Qed.
Print Assumptions C01_source_fast.

Theorem C01_source_featured :
  forall ww, 3 <= ww -> forall sg zb fuel s ps,
    stR ww sg zb s ps -> ip s < 2 ^ (MachineSpec.w ww) ->
    obsR_src ww sg zb (run ww sg fuel s) (run_py (src_total (src_featured_step ww zb)) fuel ps).
Proof. exact src_featured_run_correct. Qed.
Print Assumptions C01_source_featured.

(* non-vacuity: the interpreter really runs the regenerated bodies (w = 16, an op that outputs a bit, then jumps into
   the zero tail and stops with ip < 2w) and ends as the real engines do, on both loops *)
Example C01_source_runs :
  let c e := mkcase e 4 [(0, 6)] [4] [(0, 33); (1, 64); (2, 5); (3, 64)] [] 10 2 2 0 1 [] 1 None [] in
  check_case_src (c 0) = true /\ check_case_src (c 1) = true.
Proof. vm_compute. split; reflexivity. Qed.
