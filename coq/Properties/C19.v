(* C19 - devices see the same program memory under every engine; the screen decodes its command stream as
   documented or rejects it with a device error.  Statements only. *)
From FJ Require Import Lib.Base Spec.MachineSpec Model.DevMem Model.Screen Proofs.DevMemProps Proofs.ScreenProps.
Local Open Scope N_scope.

(* A device write to an in-segment word is what every later device read and every later program access of that
   word returns (masked to w bits); no other word changes; no address becomes readable or unreadable.
   (`norm` is the address the adapter actually accesses; it is the identity on in-segment addresses.) *)
Theorem C19_view_consistent :
  forall ww ad d a v,
    valid (v_sg d) (norm ww ad a) = true ->
    let d' := write_word ww ad d a v in
    read_word ww ad d' a = N.land v (wmask ww) /\
    (forall b, norm ww ad b <> norm ww ad a -> read_word ww ad d' b = read_word ww ad d b) /\
    rdw (v_sg d') (v_m d') (norm ww ad a) = Some (N.land v (wmask ww)) /\
    (forall b, b <> norm ww ad a -> rdw (v_sg d') (v_m d') b = rdw (v_sg d) (v_m d) b) /\
    (forall b, valid (v_sg d') b = valid (v_sg d) b).
Proof. exact view_consistent. Qed.
Print Assumptions C19_view_consistent.

(* a word that has no entry in the memory map (never loaded, never written) reads 0 *)
Theorem C19_unwritten_reads_zero :
  forall ww ad d a, mget (v_m d) (norm ww ad a) = None -> read_word ww ad d a = 0.
Proof. exact read_unwritten. Qed.
Print Assumptions C19_unwritten_reads_zero.

(* a device that performs no memory access leaves the run exactly the machine's run *)
Theorem C19_no_device_no_change :
  forall ww ad fuel s x, x_script x = [] ->
    drun ww ad fuel s x = (let '(c, s') := run ww (x_sg x) fuel s in (c, s', x)).
Proof. exact no_device_no_change. Qed.
Print Assumptions C19_no_device_no_change.

(* the packed byte is bits #w .. #w+7 of the op's jump word (w >= 16, i.e. ww >= 4) *)
Theorem C19_data_byte :
  forall ww ad d op v, 4 <= ww ->
    let a := jump_word_address ww op in
    let d' := write_data_byte ww ad d op v in
    read_data_byte ww ad d' op = N.land v 255 /\
    (forall i, i < dbit ww \/ dbit ww + 8 <= i ->
       N.testbit (read_word ww ad d' a) i = N.testbit (N.land (read_word ww ad d a) (wmask ww)) i) /\
    (forall i, i < 8 -> N.testbit (read_word ww ad d' a) (dbit ww + i) = N.testbit v i) /\
    (forall b, norm ww ad b <> norm ww ad a -> read_word ww ad d' b = read_word ww ad d b).
Proof. exact data_byte. Qed.
Print Assumptions C19_data_byte.

Theorem C19_data_byte_fits : forall ww, 4 <= ww -> dbit ww + 8 <= MachineSpec.w ww.
Proof. exact data_byte_fits. Qed.
Print Assumptions C19_data_byte_fits.

(* with every device access inside a segment, the run (result, memory, output, what the device read) is the same
   under the Reader adapter (featured / fast loops) and the native adapter (flat / hybrid / paged storage) *)
Theorem C19_engine_independent :
  forall ww sg fuel s x,
    segs_bounded ww sg = true -> x_sg x = sg -> script_inseg ww sg (x_script x) = true ->
    drun ww AdReader fuel s x = drun ww AdNative fuel s x.
Proof. exact adapter_independent. Qed.
Print Assumptions C19_engine_independent.

(* the decoder never leaves through anything but a device error (w >= 16 or no memory attached), and never gets
   stuck: its state stays well formed (the pixel list has width*height entries, the pending command is shorter
   than its length) *)
Theorem C19_screen_total :
  forall mv bs, view_ok mv ->
    match snd (decode mv sinit bs) with Some (inr _) => False | _ => True end /\ sinv mv (fst (decode mv sinit bs)).
Proof. intros mv bs H. exact (screen_total mv H bs sinit (sinit_inv mv)). Qed.
Print Assumptions C19_screen_total.

(* update_screen: pixel (x, y) of the presented frame is the packed byte at addr + (x + y*width)*2w, masked to bpp *)
Theorem C19_screen_layout :
  forall v st addr st',
    update_screen (Some v) st addr = ROk st' ->
    s_width st' = s_width st /\ s_height st' = s_height st /\ s_bpp st' = s_bpp st /\ s_palette st' = s_palette st /\
    s_frames st' = (s_pix st', s_palette st', expand (s_palette st') (s_pix st')) :: s_frames st /\
  s_rgb st' = expand (s_palette st') (s_pix st') /\
    length (s_pix st') = N.to_nat (s_width st * s_height st) /\
    forall x y, x < s_width st -> y < s_height st ->
      nthN (s_pix st') (x + y * s_width st) =
      N.land (sv_rdb v (addr + (x + y * s_width st) * (2 * sv_w v))) (N.ones (s_bpp st)).
Proof. exact screen_layout. Qed.
Print Assumptions C19_screen_layout.

(* set_palette: entry k is the three packed bytes at addr + 3k*2w, + (3k+1)*2w, + (3k+2)*2w *)
Theorem C19_palette_layout :
  forall v st addr st',
    set_palette (Some v) st addr = ROk st' ->
    s_pix st' = s_pix st /\ s_frames st' = s_frames st /\
    length (s_palette st') = N.to_nat (s_palsize st) /\
    forall k, k < s_palsize st ->
      nth (N.to_nat k) (s_palette st') (0, 0, 0) =
      (sv_rdb v (addr + (3 * k) * (2 * sv_w v)), sv_rdb v (addr + (3 * k + 1) * (2 * sv_w v)),
       sv_rdb v (addr + (3 * k + 2) * (2 * sv_w v))).
Proof. exact palette_layout. Qed.
Print Assumptions C19_palette_layout.

(* update_rectangle: pixels outside the box keep their value, pixels inside get the framebuffer byte *)
Theorem C19_rectangle_only_box :
  forall v st x y rw rh addr st',
    update_rectangle (Some v) st x y rw rh addr = ROk st' ->
    x + rw <= s_width st /\ y + rh <= s_height st /\
    s_width st' = s_width st /\ s_height st' = s_height st /\ s_palette st' = s_palette st /\
    s_frames st' = (s_pix st', s_palette st', expand (s_palette st') (s_pix st')) :: s_frames st /\
  s_rgb st' = expand (s_palette st') (s_pix st') /\
    length (s_pix st') = length (s_pix st) /\
    forall px py, px < s_width st -> py < s_height st ->
      nthN (s_pix st') (px + py * s_width st) =
      if (x <=? px) && (px <? x + rw) && (y <=? py) && (py <? y + rh)
      then N.land (sv_rdb v (addr + (px + py * s_width st) * (2 * sv_w v))) (N.ones (s_bpp st))
      else nthN (s_pix st) (px + py * s_width st).
Proof. exact rectangle_only_box. Qed.
Print Assumptions C19_rectangle_only_box.

(* ---- the hypotheses are satisfiable / the definitions compute -------------------------------------------------- *)

(* w = 16: a device writes 0xAB into the packed byte of the op at bit address 64 (jump word 5) and 0x1234 into
   word 2 at its first IO call; the program (op 0 outputs a bit and jumps to op 64, whose jump word the device
   changed: bits 5..12 now hold 0xAB, so the next jump goes to 0xAB*32, outside the segment) sees the write *)
Example C19_script_visible :
  let sg := [(0, 8)] in
  let m0 := mem_of_list [(0, 33); (1, 64); (4, 40); (5, 64)] in
  let script := [[AWriteByte 64 0xAB; AReadByte 64; AWrite 2 0x1234; ARead 2]] in
  script_inseg 4 sg script = true /\ segs_bounded 4 sg = true /\
  let '(c, s, x) := drun 4 AdNative 10 (init m0 []) (mkdx sg script []) in
  (c, ops s, rev (x_log x), mget0 (m s) 5) = (MemErr (0xAB * 32), 2, [LVal 0xAB; LVal 0x1234], 0xAB * 32).
Proof. vm_compute. repeat split. Qed.

(* a 2x1 screen at w = 16: init, update_screen from address 64 -> one frame with the two packed bytes *)
Example C19_screen_frame :
  let d := mkdv (mem_of_list [(5, 0x11 * 32); (7, 0xF2 * 32 + 3)]) [] in
  let mv := Some (view_of 4 AdNative d) in
  view_ok mv /\
  let '(st, e) := decode mv sinit [1; 2; 0; 1; 0; 4; 0; 0;  3; 64; 0] in
  (e, rev (s_frames st)) = (None, [([1; 2], [], [(0, 0, 0); (0, 0, 0)])]).
Proof. vm_compute. split; [discriminate|reflexivity]. Qed.

(* malformed streams end in a device error *)
Example C19_screen_rejects :
  snd (decode None sinit [7]) = Some (inl (EUnknownCommand 7)) /\
  snd (decode None sinit [1; 2; 0; 1; 0; 5; 0; 0]) = Some (inl (EBadBpp 5)) /\
  snd (decode None sinit [5]) = Some (inl ENotInit) /\
  snd (decode None sinit [3]) = Some (inl ENoMemory).
Proof. vm_compute. repeat split. Qed.

(* below w = 16 the packed-byte helpers raise ValueError, which is not a device error: the width guard of
   C19_screen_total is needed *)
Example C19_screen_w8_raw :
  snd (decode (Some (mksv 8 (fun _ => 0))) sinit [1; 1; 0; 1; 0; 8; 0; 0;  3; 0]) = Some (inr RValueError).
Proof. vm_compute. reflexivity. Qed.

(* palette cycling: the same pixel indices presented twice with a set_palette in between give two different RGB
   frames - every present expands the indices through the palette current at that present *)
Example C19_palette_cycle :
  let b x := x * 32 in
  let d := mkdv (mem_of_list [(5, b 0); (7, b 1);                                        (* framebuffer at 64 *)
                              (17, b 10); (19, b 20); (21, b 30); (23, b 200); (25, b 100); (27, b 0);       (* palette A at 256 *)
                              (33, b 1); (35, b 2); (37, b 3); (39, b 250); (41, b 251); (43, b 252)]) [] in  (* palette B at 512 *)
  let '(st, e) := decode (Some (view_of 4 AdNative d)) sinit
                    [1; 2; 0; 1; 0; 8; 2; 0;  2; 0; 1;  3; 64; 0;  2; 0; 2;  3; 64; 0] in
  (e, map (fun f => (fst (fst f), snd f)) (rev (s_frames st)), s_rgb st) =
  (None, [([0; 1], [(10, 20, 30); (200, 100, 0)]); ([0; 1], [(1, 2, 3); (250, 251, 252)])], [(1, 2, 3); (250, 251, 252)]).
Proof. vm_compute. reflexivity. Qed.
