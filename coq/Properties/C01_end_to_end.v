From FJ Require Import Lib.Base Lib.Bytes Spec.MachineSpec Spec.ImageSpec Model.Fjm Model.EngPy Model.RunCase
     Model.EngNative Model.NativeCase Proofs.FjmReader Proofs.EngPyProps Proofs.NativeFlatProps Proofs.NativePagedProps
     Proofs.GlueLoad Proofs.GlueRun.
(* C01 / C06 / C07 end to end - from the FILE the user runs down to the machine definition.  Statements only.

   The chain:  writer calls --C06_roundtrip--> file --Reader (Model/Fjm.v read_thr)--> Reader state (dict, zero ranges,
   segments) --GlueLoad (memR)--> engine models (Model/EngPy.v loops; Model/EngNative.v loaded through the run grouping
   of fjm_run._run_native) --C01 refinements--> Spec/MachineSpec.v `run` on the declared image.  No link of the chain
   is left to a campaign.

   Reading guide.
     exec c ops ws_empty = (res, Some st), write compress c st = WOk file : the calls `ops` on one Writer of
         configuration c (width, version, flags, preset) were accepted or refused with the library error (res) and
         the file was written;  logical ops res [] = Some L : the image those calls declare (Spec/ImageSpec.v).
     lmem L : the machine memory holding the declared words (GlueLoad.lmem; `C01_lmem_denotes`: it reads lword L).
     ww_of w = log2 w;  run ww (lsegs L) fuel (init (lmem L) input) : the machine definition on the declared image.
     py_start pm input : ip 0, the Reader's dict, the input bits;  py_loop true/false : _run_featured / _run_fast.
     py_obs_eq, native_obs_eq (Proofs/GlueRun.v) list the observables: cause incl. fault address, op count (native:
         modulo 2^64), output bits, remaining input, started-op history (native: the last-ops list), final ip, and the
         final memory at every word address (Some v inside a segment, None outside).
     dict_runs pm : the loop of _run_native grouping sorted(mem.memory) into contiguous runs (one set_words each);
     load_image / Memory_run : Model/EngNative.v;  top_guard : the guard of finding F1 (w = 64, top of address space);
     addressable ww L : every declared segment ends within 2^(w - ww) words (what w-bit bit addresses can reach).
   liblzma is the pair (compress, decompress) with the premise decompress (compress x) = x, as in C06. *)
Local Open Scope N_scope.

(* ---- the Reader's result denotes the image (every accepted file, not only written ones) ----------------------- *)

(* the word at every address: data word (re-based for relative versions) / 0 in the zero tail / None outside *)
Theorem C01_reader_word_cases :
  forall (thr : N) (decompress : bytes -> option bytes) (b : bytes) (img : image),
    read_thr thr decompress b = ROk img ->
    exists rel data,
      i_pool_len img = N.of_nat (length data) /\
      forall a, word_of (i_mem img) (i_zeros img) a =
                match find (in_tseg a) (i_table img) with
                | Some t => Some (seg_word (i_w img) rel data t a)
                | None => None
                end.
Proof. exact reader_word_cases. Qed.
Print Assumptions C01_reader_word_cases.

(* the dict, read as a machine memory over the image's segments, answers like the Reader at every address *)
Theorem C01_reader_denotes :
  forall (thr : N) (decompress : bytes -> option bytes) (b : bytes) (img : image),
    read_thr thr decompress b = ROk img ->
    forall a, rdw (i_segs img) (i_mem img) a = word_of (i_mem img) (i_zeros img) a.
Proof. exact reader_denotes. Qed.
Print Assumptions C01_reader_denotes.

(* words are below 2^w because they are decoded from w/8 bytes (a file is a list of bytes; so is the decoder's output) *)
Theorem C01_reader_words_lt :
  forall (thr : N) (decompress : bytes -> option bytes) (b : bytes) (img : image),
    read_thr thr decompress b = ROk img ->
    all_bytes b = true -> (forall z x, decompress z = Some x -> all_bytes x = true) ->
    forall a v, mget (i_mem img) a = Some v -> v < 2 ^ i_w img.
Proof. exact reader_words_lt. Qed.
Print Assumptions C01_reader_words_lt.

(* the Reader state satisfies the representation relation of the engine proofs with every memory it denotes *)
Theorem C01_reader_memR :
  forall (thr : N) (decompress : bytes -> option bytes) (b : bytes) (img : image),
    read_thr thr decompress b = ROk img ->
    all_bytes b = true -> (forall z x, decompress z = Some x -> all_bytes x = true) ->
    (3 <= ww_of (i_w img) <= 6 /\ MachineSpec.w (ww_of (i_w img)) = i_w img) /\
    forall m0, (forall a, rdw (i_segs img) m0 a = word_of (i_mem img) (i_zeros img) a) ->
               EngPyProps.memR (ww_of (i_w img)) (i_segs img) (i_zeros img) (i_mem img) m0.
Proof.
  exact (fun thr d b img H Hb Hd => conj (reader_width thr d b img H) (reader_memR thr d b img H Hb Hd)).
Qed.
Print Assumptions C01_reader_memR.

Theorem C01_lmem_denotes :
  forall w L, representable w L = true -> forall a, rdw (lsegs L) (lmem L) a = lword L a.
Proof. exact lmem_denotes. Qed.
Print Assumptions C01_lmem_denotes.

(* the campaign's reconstruction of the Reader state (RunCase.py_init, what `observe_py` starts from) for a case that
   describes an accepted file: the Reader's zero ranges, the Reader's dict up to extensional equality, the same memR *)
Theorem C01_campaign_py_init :
  forall (decompress : bytes -> option bytes) (b : bytes) (img : image),
    Fjm.read decompress b = ROk img ->
    all_bytes b = true -> (forall z x, decompress z = Some x -> all_bytes x = true) ->
  forall c : rcase,
    c_segs c = i_segs img -> c_dlen c = map dl_of (i_table img) ->
    (forall a v, In (a, v) (c_words c) -> mget (i_mem img) a = Some v) ->
    (forall a v, mget (i_mem img) a = Some v -> v <> 0 -> In (a, v) (c_words c)) ->
  forall m0, (forall a, rdw (i_segs img) m0 a = word_of (i_mem img) (i_zeros img) a) ->
    exists pm,
      py_init c = (i_zeros img, mkpst 0 pm (bytes_bits (c_input c)) [] 0 []) /\
      (forall a, mget pm a = mget (i_mem img) a) /\
      EngPyProps.memR (ww_of (i_w img)) (i_segs img) (i_zeros img) pm m0.
Proof. exact campaign_py_init. Qed.
Print Assumptions C01_campaign_py_init.

(* ---- (a) both Python loops, from the file --------------------------------------------------------------------- *)
Theorem C01_file_run_python :
  forall (compress : bytes -> option bytes) (decompress : bytes -> option bytes),
    (forall x z, compress x = Some z -> decompress z = Some x) ->
  forall c thr ops res st file,
    cfg_valid c = true -> exec c ops ws_empty = (res, Some st) -> fits_u64 st = true ->
    write compress c st = WOk file ->
    exists img L,
      read_thr thr decompress file = ROk img /\ logical ops res [] = Some L /\
      let ww := ww_of (Z.to_N (c_w c)) in
      forall featured input fuel,
        py_obs_eq (lsegs L) (i_zeros img)
                  (run ww (lsegs L) fuel (init (lmem L) input))
                  (run_py (py_loop featured ww (i_zeros img)) fuel (py_start (i_mem img) input)).
Proof. exact file_run_python. Qed.
Print Assumptions C01_file_run_python.

(* ---- (b) the grouping of the Reader dict into set_words runs, and the native engine from the file ---------------- *)
Theorem C01_reader_runs_correct :
  forall ww sg zeros pm m0,
    3 <= ww <= 6 -> loadable_segs ww sg = true -> EngPyProps.memR ww sg zeros pm m0 ->
    Forall (run_ok ww sg) (dict_runs pm) /\
    (forall a, mget (loaded_mem ww (dict_runs pm)) a = mget pm a) /\
    EngPyProps.memR ww sg zeros pm (loaded_mem ww (dict_runs pm)).
Proof. exact reader_runs_correct. Qed.
Print Assumptions C01_reader_runs_correct.

(* the campaign's derivation (NativeCase.reader_runs) on a case that describes an accepted file: same precondition,
   same loaded memory as the real grouping *)
Theorem C01_campaign_reader_runs :
  forall (decompress : bytes -> option bytes) (b : bytes) (img : image),
    Fjm.read decompress b = ROk img ->
    all_bytes b = true -> (forall z x, decompress z = Some x -> all_bytes x = true) ->
  forall c : rcase,
    c_segs c = i_segs img -> c_dlen c = map dl_of (i_table img) ->
    (forall a v, In (a, v) (c_words c) -> mget (i_mem img) a = Some v) ->
    (forall a v, mget (i_mem img) a = Some v -> v <> 0 -> In (a, v) (c_words c)) ->
    loadable_segs (ww_of (i_w img)) (i_segs img) = true ->
    Forall (run_ok (ww_of (i_w img)) (i_segs img)) (reader_runs c) /\
    (forall a, mget (loaded_mem (ww_of (i_w img)) (reader_runs c)) a = mget (i_mem img) a) /\
    (forall a, mget (loaded_mem (ww_of (i_w img)) (reader_runs c)) a =
               mget (loaded_mem (ww_of (i_w img)) (dict_runs (i_mem img))) a).
Proof. exact campaign_reader_runs. Qed.
Print Assumptions C01_campaign_reader_runs.

Theorem C01_file_run_native :
  forall (compress : bytes -> option bytes) (decompress : bytes -> option bytes),
    (forall x z, compress x = Some z -> decompress z = Some x) ->
  forall c thr ops res st file,
    cfg_valid c = true -> exec c ops ws_empty = (res, Some st) -> fits_u64 st = true ->
    write compress c st = WOk file ->
    exists img L,
      read_thr thr decompress file = ROk img /\ logical ops res [] = Some L /\
      let ww := ww_of (Z.to_N (c_w c)) in
      addressable ww L = true ->
      forall fmw k input fuel nm lk cs ns last,
        load_image ww (lsegs L) fmw (dict_runs (i_mem img)) = Some nm ->
        top_guard ww (lsegs L) fuel (init (lmem L) input) ->
        N.of_nat fuel < M64 -> k_last_ops k + k_last_ops k <= M64 ->
        Memory_run k nm input fuel = RunDone lk cs ns last ->
        native_obs_eq (lsegs L) k (run ww (lsegs L) fuel (init (lmem L) input)) cs ns last.
Proof. exact file_run_native. Qed.
Print Assumptions C01_file_run_native.

(* ---- (c) C01 + C07 from the file: the three engine models agree -------------------------------------------------- *)
Theorem C01_file_run_all_engines_agree :
  forall (compress : bytes -> option bytes) (decompress : bytes -> option bytes),
    (forall x z, compress x = Some z -> decompress z = Some x) ->
  forall c thr ops res st file,
    cfg_valid c = true -> exec c ops ws_empty = (res, Some st) -> fits_u64 st = true ->
    write compress c st = WOk file ->
    exists img L,
      read_thr thr decompress file = ROk img /\ logical ops res [] = Some L /\
      let ww := ww_of (Z.to_N (c_w c)) in
      forall input fuel,
        let pf := run_py (featured_step ww (i_zeros img)) fuel (py_start (i_mem img) input) in
        let pq := run_py (fast_step ww (i_zeros img)) fuel (py_start (i_mem img) input) in
        (fst pf = fst pq /\ p_ops (snd pf) = p_ops (snd pq) /\ p_out (snd pf) = p_out (snd pq) /\
         p_inp (snd pf) = p_inp (snd pq) /\ p_hist (snd pf) = p_hist (snd pq) /\
         forall a, py_lookup (i_zeros img) (p_mem (snd pf)) a = py_lookup (i_zeros img) (p_mem (snd pq)) a) /\
        (addressable ww L = true ->
         forall fmw k nm lk cs ns last,
           load_image ww (lsegs L) fmw (dict_runs (i_mem img)) = Some nm ->
           top_guard ww (lsegs L) fuel (init (lmem L) input) ->
           N.of_nat fuel < M64 -> k_last_ops k + k_last_ops k <= M64 ->
           Memory_run k nm input fuel = RunDone lk cs ns last ->
           cs = NC (fst pf) /\ s_ops ns = u64 (p_ops (snd pf)) /\ s_out ns = p_out (snd pf) /\ s_inp ns = p_inp (snd pf) /\
           last = (if 0 <? k_last_ops k then rev (firstn (N.to_nat (k_last_ops k)) (p_hist (snd pf))) else []) /\
           forall a v, py_lookup (i_zeros img) (p_mem (snd pf)) a = Some v -> snd (Memory_get_word (s_m ns) a) = v).
Proof. exact file_run_all_engines_agree. Qed.
Print Assumptions C01_file_run_all_engines_agree.

(* ---- non-vacuity ------------------------------------------------------------------------------------------------- *)
(* w = 16, version 2 (relative jumps), flags 5, identity codec.  Two segments: (0, 1012) with 10 data words and a lazy
   zero tail of 1002 words (a zeros_boundaries range), and (2000, 2).  The program outputs 1, reads one input bit into
   its own jump word, flips a bit of the second segment, outputs 1 again, flips a word of the lazy tail and stops in a
   self loop after 4 ops.  Every hypothesis of the theorems above holds for it, and the three engine models and the
   machine definition give the same observables (closed computation). *)
Definition e2e_cfg : wcfg := mkcfg 16 2 5 0.
Definition e2e_ops : list wop :=
  [AddData [33; 32; 32003; 64; 32; 128; 33; 128; 16048; 128]%Z; AddSeg 0 1012 0 10;
   AddData [7; 9]%Z; AddSeg 2000 2 10 2].
Definition e2e_knobs : list knobs :=
  [mkknobs false 0 false 0; mkknobs true 0 false 0; mkknobs false 0 true 0; mkknobs false 0 false 3].

Example C01_end_to_end_hypotheses_satisfiable :
  match exec e2e_cfg e2e_ops ws_empty with
  | (res, Some st) =>
    match write Some e2e_cfg st, logical e2e_ops res [] with
    | WOk file, Some L =>
      match read Some file with
      | ROk img =>
        let sg := lsegs L in
        let r := run 4 sg 100 (init (lmem L) [true]) in
        let same_py (p : cause * pst) :=
          cause_eqb (fst p) (fst r) && (p_ops (snd p) =? ops (snd r)) &&
          list_eqb (map N.b2n (p_out (snd p))) (map N.b2n (outp (snd r))) && list_eqb (p_hist (snd p)) (hist (snd r)) &&
          forallb (fun a => match py_lookup (i_zeros img) (p_mem (snd p)) a, rdw sg (m (snd r)) a with
                            | Some x, Some y => x =? y | None, None => true | _, _ => false end)
                  [0; 2; 3; 1003; 1011; 1012; 2000; 2001; 2002] in
        let same_native (k : knobs) (fmw : N) :=
          match load_image 4 sg fmw (dict_runs (i_mem img)) with
          | Some nm =>
            match Memory_run k nm [true] 100 with
            | RunDone _ (NC cs) ns last =>
              cause_eqb cs (fst r) && (s_ops ns =? ops (snd r)) &&
              list_eqb (map N.b2n (s_out ns)) (map N.b2n (outp (snd r))) &&
              list_eqb last (if 0 <? k_last_ops k then rev (firstn (N.to_nat (k_last_ops k)) (hist (snd r))) else []) &&
              forallb (fun a => match rdw sg (m (snd r)) a with
                                | Some y => snd (Memory_get_word (s_m ns) a) =? y | None => true end)
                      [0; 2; 3; 1003; 1011; 2000; 2001]
            | _ => false
            end
          | None => false
          end in
        cfg_valid e2e_cfg && fits_u64 st && (4 =? ww_of (Z.to_N (c_w e2e_cfg))) &&
        representable 16 L && addressable 4 L && loadable_segs 4 sg &&
        RunCase.pairs_eqb (i_segs img) [(0, 1012); (2000, 2)] && RunCase.pairs_eqb (i_zeros img) [(10, 1012)] &&
        (length (dict_runs (i_mem img)) =? 2)%nat &&
        (* the machine definition on the declared image: 4 ops, two 1 bits, self loop; words flipped in both segments *)
        cause_eqb (fst r) Looping && (ops (snd r) =? 4) && list_eqb (map N.b2n (outp (snd r))) [1; 1] &&
        list_eqb (hist (snd r)) [128; 96; 32; 0] &&
        match rdw sg (m (snd r)) 2000, rdw sg (m (snd r)) 1003 with Some 5, Some 1 => true | _, _ => false end &&
        (* the engines *)
        same_py (run_py (py_loop true 4 (i_zeros img)) 100 (py_start (i_mem img) [true])) &&
        same_py (run_py (py_loop false 4 (i_zeros img)) 100 (py_start (i_mem img) [true])) &&
        forallb (fun k => same_native k 0 && same_native k 3) e2e_knobs
      | _ => false
      end
    | _, _ => false
    end
  | _ => false
  end = true.
Proof. vm_compute. reflexivity. Qed.
