From FJ Require Import Lib.Base Lib.Bytes Spec.ImageSpec Model.Fjm Proofs.FjmProps.
Local Open Scope N_scope.
Theorem C10_u64_codec : forall v, v < 2 ^ 64 -> le_dec (u64_enc v) = v.
Proof. exact u64_roundtrip. Qed.
Print Assumptions C10_u64_codec.
