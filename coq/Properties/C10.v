From FJ Require Import Lib.Base Lib.Bytes Spec.ImageSpec Model.Fjm Proofs.FjmCodec Proofs.FjmReader Proofs.FjmWriter Proofs.FjmProps Proofs.FjmTorn Proofs.FjmBound.
(* C10 - reading an .fjm is total, and damaged or torn files are rejected.  Statements only.
   read_thr thr decompress b models Reader.__init__ on the byte string b; its result is an image (ROk), the
   library's read error (RErr k) or any other exception (RRaw e: KeyError, IndexError, or the model's own fuel). *)
Local Open Scope N_scope.

(* Total: for every byte string, every threshold and every behaviour of the LZMA decoder, opening the file ends
   with an image or the read error - never with another exception. *)
Theorem C10_total :
  forall (thr : N) (decompress : bytes -> option bytes) (b : bytes) (e : rexn),
    read_thr thr decompress b <> RRaw e.
Proof. exact read_total. Qed.
Print Assumptions C10_total.

(* Consistent: an accepted file has a supported width and version and a consistent segment table - every segment
   non-empty, 2w-aligned, ending below 2^64, holding its (even-length) data, the data range inside the pool, the
   segments pairwise disjoint; the loaded segments are the table's. *)
Theorem C10_consistent :
  forall (thr : N) (decompress : bytes -> option bytes) (b : bytes) (img : image),
    read_thr thr decompress b = ROk img ->
    consistent_table (i_pool_len img) (i_table img) = true /\
    supported_width (i_w img) = true /\ i_ver img <= 3 /\ i_segs img = map seg_of (i_table img).
Proof. exact read_consistent. Qed.
Print Assumptions C10_consistent.

(* Bounded: what an accepted file makes the reader build is bounded by the BYTES, never by the values in the table.
   For every accepted byte string b (n = number of table entries, hs = 20 or 32 header bytes):
   (1) n is the header's segment_num, it is the number of loaded segments, and hs + 32 n <= |b|;
   (2) the data pool has pool_len words with pool_len * wb = |fd|, fd = the payload (the bytes after the table),
       or its decompression in version 3;
   (3) the memory dictionary has at most n * (pool_len + thr - 1) entries (thr = 1000: a zero tail shorter than thr
       is materialised, a longer one - e.g. a 32-byte entry claiming 2^60 words - is ONE range) and there are at
       most n zero ranges.
   Hence entries <= (|b| / 32) * (|fd| / wb + 999).  Outside this bound: a version-3 decompression bomb (|fd| is the
   DECOMPRESSED size, which liblzma bounds by its ratio, not by a constant times |b|); and entries are a product, not
   a sum, because versions 0/1 let segments share one data range. *)
Theorem C10_bounded :
  forall (thr : N) (decompress : bytes -> option bytes) (b : bytes) (img : image),
    read_thr thr decompress b = ROk img ->
    let n := length (i_table img) in
    let hs := if i_ver img =? 0 then 20%nat else 32%nat in
    N.of_nat n = u_at 12 8 (firstn header_base_size b) /\
    length (i_segs img) = n /\
    (hs + 32 * n <= length b)%nat /\
    (exists wb fd,
        word_bytes (i_w img) = Some wb /\
        (if i_ver img =? 3 then decompress (skipn (hs + 32 * n) b) = Some fd else fd = skipn (hs + 32 * n) b) /\
        (N.to_nat (i_pool_len img) * wb = length fd)%nat) /\
    (PositiveMap.cardinal (i_mem img) <= n * (N.to_nat (i_pool_len img) + N.to_nat (thr - 1)))%nat /\
    (length (i_zeros img) <= n)%nat.
Proof. exact read_bounded. Qed.
Print Assumptions C10_bounded.

(* The segment count is checked against the bytes before any per-segment work.  init_segments_loop is the list
   comprehension of _init_segments exactly as Python runs it - range(segment_num) is lazy, so a count of 2^64-1
   costs nothing by itself; one f.read(32)+unpack per iteration; the first short read raises struct.error (the read
   error).  For EVERY count n and byte string b it performs at most |b|/32 + 1 reads, its outcome is the bounded form
   used inside read_thr, and a count the bytes cannot hold ends in the read error. *)
Theorem C10_segment_count_checked :
  forall (n : N) (b : bytes),
    let '(reads, res) := init_segments_loop (S (length b)) n b in
    (reads <= length b / 32 + 1)%nat /\
    res = (if N.of_nat (length b) <? 32 * n then None else read_segs (N.to_nat n) b) /\
    (N.of_nat (length b) < 32 * n -> res = None).
Proof. exact segment_count_checked. Qed.
Print Assumptions C10_segment_count_checked.

(* Torn: every strict prefix of a file produced by the writer (any accepted call sequence, any width / version)
   is rejected with the read error, or still loads exactly the same Reader state (this happens only when the cut
   removes whole pool words that no segment references).  Premise on liblzma: a strict prefix of a raw LZMA2
   stream produced by the compressor does not decode. *)
Theorem C10_torn :
  forall (compress : bytes -> option bytes) (decompress : bytes -> option bytes),
    (forall x z k, compress x = Some z -> (k < length z)%nat -> decompress (firstn k z) = None) ->
  forall c thr ops res st file img k,
    cfg_valid c = true ->
    exec c ops ws_empty = (res, Some st) -> fits_u64 st = true ->
    write compress c st = WOk file ->
    read_thr thr decompress file = ROk img ->
    (k < length file)%nat ->
    (exists e, read_thr thr decompress (firstn k file) = RErr e) \/
    (exists img', read_thr thr decompress (firstn k file) = ROk img' /\ same_loaded img' img).
Proof. intros compress decompress H c thr ops res st file img k V. exact (torn compress decompress H c V thr ops res st file img k). Qed.
Print Assumptions C10_torn.

(* Non-vacuity: a version-1 file whose pool has two unreferenced trailing words.  Cutting exactly those two words
   (4 bytes) still loads the same segments and words; cutting one byte more, or into the table, or into the
   header, is rejected; a corrupted magic is rejected (closed boolean computation, identity codec). *)
Example C10_examples :
  let c := mkcfg 16 1 0 0 in
  let ops := [AddData [1; 2; 3; 4; 5; 6]%Z; AddSeg 0 6 0 4] in
  let rejected r := match r with RErr _ => true | _ => false end in
  match exec c ops ws_empty with
  | (_, Some st) =>
    match write Some c st with
    | WOk file =>
      let n := length file in
      match read Some file, read Some (firstn (n - 4) file) with
      | ROk img, ROk img' =>
        pairs_eqb (i_segs img) [(0, 6)] && pairs_eqb (i_segs img') [(0, 6)] &&
        mem_eqb (i_mem img') [(0, 1); (1, 2); (2, 3); (3, 4); (4, 0); (5, 0)] &&
        mem_eqb (i_mem img) [(0, 1); (1, 2); (2, 3); (3, 4); (4, 0); (5, 0)] &&
        rejected (read Some (firstn (n - 5) file)) && rejected (read Some (firstn (n - 6) file)) &&
        rejected (read Some (firstn 40 file)) && rejected (read Some (firstn 19 file)) &&
        rejected (read Some (firstn 0 file)) && rejected (read Some (patch file 0 [0])) &&
        (* a 64-byte file claiming 2^40 segments is refused after 1 read; claiming a 2^60-word segment costs 1 range *)
        rejected (read Some (patch file 12 [0; 0; 0; 0; 0; 1; 0; 0])) &&
        (match init_segments_loop (S n) (2 ^ 40) (skipn 32 file) with (reads, None) => Nat.leb reads 2 | _ => false end) &&
        match read Some (patch file 40 [0; 0; 0; 0; 0; 0; 0; 16]) with
        | ROk big => pairs_eqb (i_segs big) [(0, 2 ^ 60)] && pairs_eqb (i_zeros big) [(4, 2 ^ 60)] &&
                     (N.of_nat (PositiveMap.cardinal (i_mem big)) =? 4)
        | _ => false
        end
      | _, _ => false
      end
    | _ => false
    end
  | _ => false
  end = true.
Proof. vm_compute. reflexivity. Qed.
