From FJ Require Import Lib.Base Lib.Bytes Spec.ImageSpec Model.Fjm Proofs.FjmCodec Proofs.FjmReader Proofs.FjmWriter Proofs.FjmProps Proofs.FjmTorn.
(* C10 - reading an .fjm is total, and damaged or torn files are rejected.  Statements only.
   read_thr thr decompress b models Reader.__init__ on the byte string b; its result is an image (ROk), the
   library's read error (RErr k) or any other exception (RRaw e: KeyError, IndexError, or the model's own fuel). *)
Local Open Scope N_scope.

(* Total: for every byte string, every threshold and every behaviour of the LZMA decoder, opening the file ends
   with an image or the read error - never with another exception. *)
Theorem C10_total :
  forall (thr : N) (decompress : bytes -> option bytes) (b : bytes) (e : rexn),
    read_thr thr decompress b <> RRaw e.
Proof. exact read_total. Qed.
Print Assumptions C10_total.

(* Consistent: an accepted file has a supported width and version and a consistent segment table - every segment
   non-empty, 2w-aligned, ending below 2^64, holding its (even-length) data, the data range inside the pool, the
   segments pairwise disjoint; the loaded segments are the table's. *)
Theorem C10_consistent :
  forall (thr : N) (decompress : bytes -> option bytes) (b : bytes) (img : image),
    read_thr thr decompress b = ROk img ->
    consistent_table (i_pool_len img) (i_table img) = true /\
    supported_width (i_w img) = true /\ i_ver img <= 3 /\ i_segs img = map seg_of (i_table img).
Proof. exact read_consistent. Qed.
Print Assumptions C10_consistent.

(* Torn: every strict prefix of a file produced by the writer (any accepted call sequence, any width / version)
   is rejected with the read error, or still loads exactly the same Reader state (this happens only when the cut
   removes whole pool words that no segment references).  Premise on liblzma: a strict prefix of a raw LZMA2
   stream produced by the compressor does not decode. *)
Theorem C10_torn :
  forall (compress : bytes -> option bytes) (decompress : bytes -> option bytes),
    (forall x z k, compress x = Some z -> (k < length z)%nat -> decompress (firstn k z) = None) ->
  forall c thr ops res st file img k,
    cfg_valid c = true ->
    exec c ops ws_empty = (res, Some st) -> fits_u64 st = true ->
    write compress c st = WOk file ->
    read_thr thr decompress file = ROk img ->
    (k < length file)%nat ->
    (exists e, read_thr thr decompress (firstn k file) = RErr e) \/
    (exists img', read_thr thr decompress (firstn k file) = ROk img' /\ same_loaded img' img).
Proof. intros compress decompress H c thr ops res st file img k V. exact (torn compress decompress H c V thr ops res st file img k). Qed.
Print Assumptions C10_torn.

(* Non-vacuity: a version-1 file whose pool has two unreferenced trailing words.  Cutting exactly those two words
   (4 bytes) still loads the same segments and words; cutting one byte more, or into the table, or into the
   header, is rejected; a corrupted magic is rejected (closed boolean computation, identity codec). *)
Example C10_examples :
  let c := mkcfg 16 1 0 0 in
  let ops := [AddData [1; 2; 3; 4; 5; 6]%Z; AddSeg 0 6 0 4] in
  let rejected r := match r with RErr _ => true | _ => false end in
  match exec c ops ws_empty with
  | (_, Some st) =>
    match write Some c st with
    | WOk file =>
      let n := length file in
      match read Some file, read Some (firstn (n - 4) file) with
      | ROk img, ROk img' =>
        pairs_eqb (i_segs img) [(0, 6)] && pairs_eqb (i_segs img') [(0, 6)] &&
        mem_eqb (i_mem img') [(0, 1); (1, 2); (2, 3); (3, 4); (4, 0); (5, 0)] &&
        mem_eqb (i_mem img) [(0, 1); (1, 2); (2, 3); (3, 4); (4, 0); (5, 0)] &&
        rejected (read Some (firstn (n - 5) file)) && rejected (read Some (firstn (n - 6) file)) &&
        rejected (read Some (firstn 40 file)) && rejected (read Some (firstn 19 file)) &&
        rejected (read Some (firstn 0 file)) && rejected (read Some (patch file 0 [0]))
      | _, _ => false
      end
    | _ => false
    end
  | _ => false
  end = true.
Proof. vm_compute. reflexivity. Qed.
