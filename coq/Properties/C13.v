(* C13 - assembly output is a pure function of its inputs.  Statements only.
   Model: Model/AsmCache.v (global state of the assembler process: stl-prefix cache, parser globals, interpreter
   recursion limit; lexing/parsing, expansion and writing are arbitrary pure functions of what the code hands them,
   the parse additionally of the recursion limit in force).  `history_free_statement sh` is the property in full:
   for every history of assemble calls and every probe, the result of the probe after the history equals its result
   in a fresh process - under the two stated assumptions `content_identified` ((resolved path, mtime_ns, size)
   identifies a file's content) and `spelling_identified` (an stl file is always passed under one spelling). *)
From FJ Require Import Lib.Base Model.AsmCache Proofs.AsmCacheProps.
From Coq Require Import String.

(* The full statement is FALSE on the current tree (finding F13: sys.setrecursionlimit is set per assembly, after
   parsing, and never restored).  Witness, evaluated on the model: assemble(";0;0", max_recursion_depth=60) followed
   by a default-depth assembly of a macro definition whose parse needs more than 160 frames. *)
Theorem C13_history_free_refuted : ~ history_free_statement code_shape.
Proof. exact history_free_refuted. Qed.
Print Assumptions C13_history_free_refuted.

(* The same statement under the guard `limit_restored`: the limit a fresh process starts with is in force again
   after every call of the history. *)
Theorem C13_history_free :
  forall (text diag consts macros mainops opts output : Type)
         (init_consts : Z -> consts) (init_macros : string -> string -> macros) (init_main : mainops)
         (parse_file : Z -> bool -> list string -> pstate consts macros mainops -> string -> string -> text
                       -> parse_out diag consts macros mainops)
         (final_validate : pstate consts macros mainops -> list diag)
         (backend : Z -> Z -> Z -> opts -> pstate consts macros mainops -> output + diag)
         (U : request text diag opts -> Prop),
    content_identified U -> spelling_identified U ->
    forall (L0 : Z) (history : list (request text diag opts)) (probe : request text diag opts),
      Forall U history -> U probe ->
      limit_restored init_consts init_macros init_main parse_file final_validate backend code_shape
                     (init_g L0) history = true ->
      snd (assemble_step init_consts init_macros init_main parse_file final_validate backend code_shape
             (run_history init_consts init_macros init_main parse_file final_validate backend code_shape
                          (init_g L0) history) probe)
      = snd (assemble_step init_consts init_macros init_main parse_file final_validate backend code_shape
                           (init_g L0) probe).
Proof. exact history_free_guarded_code. Qed.
Print Assumptions C13_history_free.

(* The guard holds whenever no earlier call asked for a non-default max_recursion_depth (900 + 100 = 1000 = the
   limit of a fresh CPython process). *)
Theorem C13_default_depth_restores_limit :
  forall (text diag consts macros mainops opts output : Type)
         (init_consts : Z -> consts) (init_macros : string -> string -> macros) (init_main : mainops)
         (parse_file : Z -> bool -> list string -> pstate consts macros mainops -> string -> string -> text
                       -> parse_out diag consts macros mainops)
         (final_validate : pstate consts macros mainops -> list diag)
         (backend : Z -> Z -> Z -> opts -> pstate consts macros mainops -> output + diag)
         (history : list (request text diag opts)),
    forallb (fun rq => Z.eqb (rq_depth rq) DEFAULT_DEPTH) history = true ->
    limit_restored init_consts init_macros init_main parse_file final_validate backend code_shape
                   (init_g FRESH_LIMIT) history = true.
Proof. exact default_depth_restores_limit. Qed.
Print Assumptions C13_default_depth_restores_limit.

(* With the limit put back when assemble returns or raises (the proposed fix) the full statement holds. *)
Theorem C13_history_free_fixed : history_free_statement fixed_shape.
Proof. exact history_free_fixed. Qed.
Print Assumptions C13_history_free_fixed.

(* The structural facts read from the source are all needed: dropping the width, the warning mode or (mtime, size)
   from the key, sharing the main macro's op list on restore, sharing the macro dictionary on snapshot, not resetting
   curr_namespace per file or error_occurred per call - each makes the statement false (even with the limit restored). *)
Theorem C13_structure_is_needed :
  ~ history_free_statement Variants.no_width_key /\ ~ history_free_statement Variants.no_werror_key /\
  ~ history_free_statement Variants.no_mtime_size_key /\ ~ history_free_statement Variants.shared_main_ops /\
  ~ history_free_statement Variants.shared_macros_snapshot /\ ~ history_free_statement Variants.ns_not_reset /\
  ~ history_free_statement Variants.err_not_reset.
Proof.
  exact (conj variant_no_width_refuted (conj variant_no_werror_refuted (conj variant_no_mtime_size_refuted
        (conj variant_shared_main_ops_refuted (conj variant_shared_macros_snapshot_refuted
        (conj variant_ns_not_reset_refuted variant_err_not_reset_refuted)))))).
Qed.
Print Assumptions C13_structure_is_needed.

(* Non-vacuity: a history (warm cache, another width, a failing input that leaves a namespace open) that meets the
   guard, after which the probe is served from the cache; and the F13 witness does not meet the guard. *)
Example C13_guard_is_satisfiable :
  limit_restored Replay.r_init_consts Replay.r_init_macros [] Replay.r_parse_file (fun _ => []) Replay.r_backend
                 code_shape Replay.g0 Example.history = true.
Proof. exact example_guard_holds. Qed.
Example C13_guard_excludes_the_witness :
  limit_restored Replay.r_init_consts Replay.r_init_macros [] Replay.r_parse_file (fun _ => []) Replay.r_backend
                 code_shape Replay.g0 Witness.history = false.
Proof. exact witness_guard_false. Qed.
