(* C13 - assembly output is a pure function of its inputs.  Statements only.
   Model: Model/AsmCache.v (global state of the assembler process: stl-prefix cache, parser globals, interpreter
   recursion limit; lexing/parsing, expansion and writing are arbitrary pure functions of what the code hands them,
   the parse additionally of the recursion limit in force).  `history_free_statement sh` (Model/AsmCache.v) is the
   property in full: for all opaque functions, every history of assemble calls and every probe,

       snd (assemble_step sh (run_history sh (init_g L0) history) probe) = snd (assemble_step sh (init_g L0) probe)

   under the two stated assumptions `content_identified` ((resolved path, mtime_ns, size) identifies a file's content)
   and `spelling_identified` (an stl file is always passed under one spelling). *)
From FJ Require Import Lib.Base Model.AsmCache Proofs.AsmCacheProps.
From Coq Require Import String.

(* The result of an assembly does not depend on what the process assembled before. *)
Theorem C13_history_free :
  forall (text diag consts macros mainops opts output : Type)
         (init_consts : Z -> consts) (init_macros : string -> string -> macros) (init_main : mainops)
         (parse_file : Z -> bool -> list string -> pstate consts macros mainops -> string -> string -> text
                       -> parse_out diag consts macros mainops)
         (final_validate : pstate consts macros mainops -> list diag)
         (backend : Z -> Z -> Z -> opts -> pstate consts macros mainops -> output + diag)
         (U : request text diag opts -> Prop),
    content_identified U -> spelling_identified U ->
    forall (L0 : Z) (history : list (request text diag opts)) (probe : request text diag opts),
      Forall U history -> U probe ->
      snd (assemble_step init_consts init_macros init_main parse_file final_validate backend code_shape
             (run_history init_consts init_macros init_main parse_file final_validate backend code_shape
                          (init_g L0) history) probe)
      = snd (assemble_step init_consts init_macros init_main parse_file final_validate backend code_shape
                           (init_g L0) probe).
Proof. exact history_free_code. Qed.
Print Assumptions C13_history_free.

(* assemble leaves the interpreter's recursion limit as it found it - whatever the call does (success, parse
   error, failure in a later stage) *)
Theorem C13_recursion_limit_preserved :
  forall (text diag consts macros mainops opts output : Type)
         (init_consts : Z -> consts) (init_macros : string -> string -> macros) (init_main : mainops)
         (parse_file : Z -> bool -> list string -> pstate consts macros mainops -> string -> string -> text
                       -> parse_out diag consts macros mainops)
         (final_validate : pstate consts macros mainops -> list diag)
         (backend : Z -> Z -> Z -> opts -> pstate consts macros mainops -> output + diag)
         (g : gstate text diag consts macros mainops) (rq : request text diag opts),
    g_limit (fst (assemble_step init_consts init_macros init_main parse_file final_validate backend code_shape g rq))
    = g_limit g.
Proof. exact limit_preserved_code. Qed.
Print Assumptions C13_recursion_limit_preserved.

(* The structural facts read from the source are all needed: dropping the width, the warning mode or (mtime, size)
   from the key, sharing the main macro's op list on restore, sharing the macro dictionary on snapshot, not resetting
   curr_namespace per file or error_occurred per call, not restoring the recursion limit (the tree before commit
   fe7c037, finding F13; witness: assemble(";0;0", max_recursion_depth=60) then a default-depth assembly of a macro
   definition whose parse needs more than 160 frames) - each makes the statement false. *)
Theorem C13_structure_is_needed :
  ~ history_free_statement Variants.no_width_key /\ ~ history_free_statement Variants.no_werror_key /\
  ~ history_free_statement Variants.no_mtime_size_key /\ ~ history_free_statement Variants.shared_main_ops /\
  ~ history_free_statement Variants.shared_macros_snapshot /\ ~ history_free_statement Variants.ns_not_reset /\
  ~ history_free_statement Variants.err_not_reset /\ ~ history_free_statement Variants.limit_not_restored.
Proof.
  exact (conj variant_no_width_refuted (conj variant_no_werror_refuted (conj variant_no_mtime_size_refuted
        (conj variant_shared_main_ops_refuted (conj variant_shared_macros_snapshot_refuted
        (conj variant_ns_not_reset_refuted (conj variant_err_not_reset_refuted
         variant_limit_not_restored_refuted))))))).
Qed.
Print Assumptions C13_structure_is_needed.

(* Non-vacuity: a history (warm cache, another width, a failing input that leaves a namespace open) after which the
   probe is served from a cache that holds two entries, and assembles. *)
Example C13_nontrivial_history :
  List.length (g_cache (run_history Replay.r_init_consts Replay.r_init_macros [] Replay.r_parse_file
                                    Replay.r_final_validate Replay.r_backend code_shape Replay.g0 Example.history)) = 2%nat
  /\ Replay.class_of (snd (Replay.step code_shape
         (run_history Replay.r_init_consts Replay.r_init_macros [] Replay.r_parse_file Replay.r_final_validate
                      Replay.r_backend code_shape Replay.g0 Example.history) Example.probe)) = 0%Z.
Proof. exact example_probe_hits_cache. Qed.
