(* C16 - The debug label table is exact.
   Statements only; proofs in Proofs/LabelsProps.v; the model (Model/Labels.v) is tied to the real assembler, to
   load_debugging_labels and to BreakpointHandler.breakpoints by harness/fjverif/checks/c16.py on every run.
   C16_addresses ("every label maps to the address of the statement it precedes in the assembled image") has two
   parts: the table maps a declared label to the address given at its declaration (C16_table, clause 2), and that
   address is the address of the following statement in the image - checked against the image by the campaign
   (spec_lcase: the flip word of the op a label precedes is found exactly at the label's address). *)
From FJ Require Import Lib.Base Model.Labels Proofs.LabelsProps.
From Coq Require Import String.
Local Open Scope string_scope.
Local Open Scope list_scope.
Local Open Scope N_scope.

(* Names are unique: the rendered name of a macro-local or ':start:' label determines the whole expansion path
   (file, line, repetition index, macro name, parameter count of every step) and the leaf.  Invariant used: file
   short names and identifiers contain none of '-' ':' '(' ')' (identifiers are [A-Za-z_][A-Za-z_0-9]* with dots). *)
Theorem C16_unique : forall p1 l1 p2 l2,
  Forall wf_comp p1 -> Forall wf_comp p2 -> ~ In 45 l1 -> ~ In 45 l2 ->
  render_label p1 l1 = render_label p2 l2 -> p1 = p2 /\ l1 = l2.
Proof. exact render_label_inj. Qed.
Print Assumptions C16_unique.

(* ... and two different source labels (global or local) never share a name *)
Theorem C16_unique_names : forall n1 n2,
  (match n1 with Global g => ~ In 45 g | Local p l => Forall wf_comp p /\ ~ In 45 l end) ->
  (match n2 with Global g => ~ In 45 g | Local p l => Forall wf_comp p /\ ~ In 45 l end) ->
  render_name n1 = render_name n2 -> n1 = n2.
Proof. exact render_name_inj. Qed.
Print Assumptions C16_unique_names.

(* The table built by the preprocessor:
   1. keys are unique (a second declaration is an error, not a silent overwrite);
   2. every declared label maps to the address of its declaration;
   3. a ':start:' label that is in the table sits at its expansion's start address, and no declared label has that
      address (start names are pairwise distinct and differ from every declared and segment label, by C16_unique_names
      and because segment labels '_.wflip_area_start_i' contain no '-');
   4. every expansion start address carries at least one label.
   (Unguarded since the segment-label collision - findings F17 / N2 - was fixed: see C16_names_distinct.) *)
Theorem C16_table : forall evs starts t,
  build evs starts = BOk t ->
  NoDup (keys t) /\
  (forall n a, In (Decl n a) evs -> lookup t n = Some a) /\
  (NoDup (map fst starts) ->
   (forall n, In n (map fst starts) -> ~ In n (decl_names evs) /\ ~ In n (silent_names evs)) ->
   forall n a a', In (n, a) starts -> lookup t n = Some a' -> a' = a /\ ~ In a (decl_addrs evs)) /\
  (forall n a, In (n, a) starts -> exists l, lookup t l = Some a).
Proof. exact table_exact. Qed.
Print Assumptions C16_table.

(* whenever a table is produced, all declared labels and segment labels have pairwise distinct names: a source label
   spelled like a segment label is a "label declared twice" error in either order, never an overwrite *)
Theorem C16_names_distinct : forall evs starts t, build evs starts = BOk t -> NoDup (map ev_name evs).
Proof. exact names_distinct. Qed.
Print Assumptions C16_names_distinct.

(* save then load returns the table, under the round-trip laws of json and raw LZMA2 (premises of the theorem) *)
Theorem C16_roundtrip : forall (bytes : Type) (json_dumps : table -> bytes) (json_loads : bytes -> option table)
    (lzma_compress : bytes -> bytes) (lzma_decompress : bytes -> option bytes),
  (forall t, NoDup (keys t) -> json_loads (json_dumps t) = Some t) ->
  (forall b, lzma_decompress (lzma_compress b) = Some b) ->
  forall t, NoDup (keys t) ->
  load_labels bytes json_loads lzma_decompress (save_labels bytes json_dumps lzma_compress t) = Some t.
Proof. exact roundtrip. Qed.
Print Assumptions C16_roundtrip.

(* breakpoints resolve to exactly: the given addresses, the addresses of the given labels that exist, and the
   addresses of all labels containing one of the given substrings; unknown exact labels are the warnings *)
Theorem C16_breakpoints : forall A Ls Sub t a,
  In a (map fst (get_breakpoints A Ls Sub t)) <->
  In a A \/ (exists l, In l Ls /\ lookup t l = Some a) \/
  (exists l s, In (l, a) t /\ In s Sub /\ substr s l = true).
Proof. exact breakpoints_dom. Qed.
Print Assumptions C16_breakpoints.

Theorem C16_substring : forall s l, substr s l = true <-> exists pre post, l = pre ++ s ++ post.
Proof. exact substr_spec. Qed.
Print Assumptions C16_substring.

Theorem C16_breakpoint_warnings : forall Ls t l, In l (bp_warnings Ls t) <-> In l Ls /\ lookup t l = None.
Proof. exact bp_warnings_spec. Qed.
Print Assumptions C16_breakpoint_warnings.

(* ---- the former findings F17 / N2: a source label named like a segment label is now rejected in both orders ----
   `ns _ { wflip_area_start_0: op }  op  segment ...`  (label first: used to be silently re-pointed to 64) and
   `op  segment ...  ns _ { wflip_area_start_0: op }`   (segment first: used to die with KeyError). *)
Example C16_segment_label_collision_rejected :
  build [Decl (S_ "_.wflip_area_start_0") 0; Silent (S_ "_.wflip_area_start_0") 64] [([45; 45; 45] ++ start_leaf, 0%Z)]
    = BDup (S_ "_.wflip_area_start_0") /\
  build [Silent (S_ "_.wflip_area_start_0") 32; Decl (S_ "_.wflip_area_start_0") 4096] []
    = BDup (S_ "_.wflip_area_start_0").
Proof. vm_compute. split; reflexivity. Qed.

(* ---- the hypotheses are satisfiable on a non-trivial expansion ---- *)
(*   f2:l1  m 1, foo        (m declares @x, the parameter label foo, and reps n twice; n declares @z)  *)
Definition nv_m := mkcomp (S_ "f2") 1 None (S_ "m") 2.
Definition nv_n i := mkcomp (S_ "f1") 5 (Some i) (S_ "a.n") 1.
Definition nv_evs := [Decl (S_ "start") 0; Decl (render_label [nv_m] (S_ "x")) 0; Decl (S_ "foo") 32;
                      Decl (render_label [nv_m; nv_n 0] (S_ "z")) 64; Decl (render_label [nv_m; nv_n 1] (S_ "z")) 96;
                      Silent (S_ "_.wflip_area_start_0") 128; Decl (S_ "seg") 4096].
Definition nv_starts := [(render_label [] start_leaf, 0%Z); (render_label [nv_m] start_leaf, 0%Z);
                         (render_label [nv_m; nv_n 0] start_leaf, 64%Z); (render_label [nv_m; nv_n 1] start_leaf, 96%Z);
                         (render_label [mkcomp (S_ "f2") 9 None (S_ "q") 0] start_leaf, 4128%Z)].
Example C16_nonvacuous :
  render_label [nv_m; nv_n 1] (S_ "z") = S_ "f2:l1:m(2)---f1:l5:rep1:a.n(1)---z" /\
  render_label [] start_leaf = S_ "---:start:" /\
  build nv_evs nv_starts =
    BOk [(S_ "start", 0); (S_ "f2:l1:m(2)---x", 0); (S_ "foo", 32); (S_ "f2:l1:m(2)---f1:l5:rep0:a.n(1)---z", 64);
         (S_ "f2:l1:m(2)---f1:l5:rep1:a.n(1)---z", 96); (S_ "_.wflip_area_start_0", 128); (S_ "seg", 4096);
         (S_ "f2:l9:q---:start:", 4128)]%Z /\
  Forall wf_comp [nv_m; nv_n 1].
Proof.
  vm_compute. repeat split; repeat constructor; intros H; repeat (destruct H as [H|H]; [discriminate|]); exact H.
Qed.

Example C16_breakpoints_nonvacuous :
  get_breakpoints [7; 64]%Z [S_ "foo"; S_ "nope"] [S_ ":rep"]
    [(S_ "foo", 32); (S_ "f2:l1:m(2)---f1:l5:rep0:a.n(1)---z", 64); (S_ "f2:l1:m(2)---f1:l5:rep1:a.n(1)---z", 96)]%Z
  = [(7, None); (64, Some (S_ "f2:l1:m(2)---f1:l5:rep0:a.n(1)---z")); (96, Some (S_ "f2:l1:m(2)---f1:l5:rep1:a.n(1)---z"));
     (32, Some (S_ "foo"))]%Z /\
  bp_warnings [S_ "foo"; S_ "nope"] [(S_ "foo", 32%Z)] = [S_ "nope"].
Proof. vm_compute. split; reflexivity. Qed.
