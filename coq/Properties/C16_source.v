(* C16, source tie - breakpoint resolution AS IT READS NOW is the one of Model/Labels.v.  Statements only.
   coq/Gen/Facts_Breakpoints.v is regenerated from the current flipjump/interpreter/debugging/breakpoints.py
   (update_breakpoints_from_addresses_set, update_breakpoints_from_breakpoint_contains_set,
   update_breakpoints_from_breakpoint_set, and the order in which get_breakpoints calls them on its fresh dict) by
   harness/fjverif/gen_facts_breakpoints.py on every run of ./check C16 (Python `ast` -> the Python-subset IR of
   Model/PyIR.v, fail closed); this file is rebuilt against it.
   Chain: source --translator--> IR --(PyIR.exec = Labels.bp_addresses / bp_contains / bp_exact, below)--> Model/Labels.v
   --C16_breakpoints, C16_breakpoint_warnings--> the property.
   Sets are the lists of their elements in iteration order, dicts the lists of their items in insertion order (an updated
   key keeps its position), labels are data strings (`in` on them is the substring test), print() writes the warning lines
   to the output stream.  [src_from_* .. d out] (Tie/Breakpoints_steps.v) runs one regenerated function on the dict d and
   the output so far; it answers the dict the caller sees afterwards and the output. *)
From FJ Require Import Lib.Base Model.Labels Model.PyIR.
From Coq Require Import String.
From FJ Require Import Gen.Facts_Breakpoints Tie.Breakpoints_steps Tie.Breakpoints_tie.        (* regenerated; keep on its own line *)
Local Open Scope string_scope.
Local Open Scope Z_scope.

(* the three functions, for EVERY set (in any iteration order), table and incoming dict *)
Theorem C16_source_from_addresses :
  forall A d out, src_from_addresses A d out = Some (bp_addresses A d, out).
Proof. exact tie_from_addresses. Qed.
Print Assumptions C16_source_from_addresses.

(* the label table is a dict: distinct keys *)
Theorem C16_source_from_contains :
  forall Sub t d out, NoDup (map fst t) -> src_from_contains Sub t d out = Some (bp_contains Sub t d, out).
Proof. exact tie_from_contains. Qed.
Print Assumptions C16_source_from_contains.

Theorem C16_source_from_labels :
  forall Ls t d out,
    src_from_labels Ls t d out = Some (bp_exact Ls t d, (out ++ List.concat (map warn_line (bp_warnings Ls t)))%list).
Proof. exact tie_from_labels. Qed.
Print Assumptions C16_source_from_labels.

(* get_breakpoints: the dict and everything printed *)
Theorem C16_source_get_breakpoints :
  forall A Ls Sub t, NoDup (map fst t) ->
    src_get_breakpoints A Ls Sub t = Some (get_breakpoints A Ls Sub t, List.concat (map warn_line (bp_warnings Ls t))).
Proof. exact tie_get_breakpoints. Qed.
Print Assumptions C16_source_get_breakpoints.

(* composed with C16_breakpoints / C16_breakpoint_warnings: where the current source puts a breakpoint and what it warns about *)
Theorem C16_source_breakpoints :
  forall A Ls Sub t d out, NoDup (map fst t) -> src_get_breakpoints A Ls Sub t = Some (d, out) ->
    (forall a, In a (map fst d) <->
       In a A \/ (exists l, In l Ls /\ Labels.lookup t l = Some a) \/ (exists l s, In (l, a) t /\ In s Sub /\ substr s l = true)) /\
    out = List.concat (map warn_line (bp_warnings Ls t)) /\
    (forall l, In l (bp_warnings Ls t) <-> In l Ls /\ Labels.lookup t l = None).
Proof. exact src_breakpoints_dom. Qed.
Print Assumptions C16_source_breakpoints.

(* non-vacuity: the interpreter really runs the regenerated functions (an address, an exact label, an unknown label, a
   substring that hits two labels of a rep) *)
Example C16_source_runs :
  check_bcase_src (mkbcase
    [(S_ "foo", 32); (S_ "f2:l1:m(2)---f1:l5:rep0:a.n(1)---z", 64); (S_ "f2:l1:m(2)---f1:l5:rep1:a.n(1)---z", 96)]
    [7; 64] [S_ "foo"; S_ "nope"] [S_ ":rep"]
    [(7, None); (64, Some (S_ "f2:l1:m(2)---f1:l5:rep0:a.n(1)---z")); (96, Some (S_ "f2:l1:m(2)---f1:l5:rep1:a.n(1)---z"));
     (32, Some (S_ "foo"))] [S_ "nope"]) = true.
Proof. vm_compute. reflexivity. Qed.
