(* C12, source tie - the evaluation recursion of expressions AS IT READS NOW is the one of Model/Expr.v.  Statements only.
   coq/Gen/Facts_Expr.v is regenerated from the current flipjump/assembler/inner_classes/expr.py (Expr.eval_new and
   Expr.exact_eval) by harness/fjverif/gen_facts_expr.py on every run of ./check C12 (Python `ast` -> the Python-subset IR of
   Model/PyIR.v, fail closed); this file is rebuilt against it.
   Chain: source --translator--> IR --(Tie/Expr_steps.expr_call = Expr.exact_eval / Expr.eval_new, below)--> Model/Expr.v
          --Properties/C12.v--> the property;   operator table: source --gen_facts_c12--> Gen/Facts_C12.v = doc_op_table
          (Tie/C12_tie.op_table_is_documented), whose denotation Expr.py_call is what a call through the table means here.
   An Expr object is VObj of its attribute (int / name / (operator key, operands)); dictionaries are their items in insertion
   order; [run_exact_eval d e L w] / [run_eval_new d e S w] run the regenerated method on the encoded tree with call depth d in
   the world w, whose input-bit stream answers the identity tests `is` between objects of equal content (any stream: CPython's
   object identity is one of them); [enc_outcome] reads the model's outcome as an outcome of the interpreter: the value, or the
   diagnostic class of the FlipJumpExprException (0 raised by an operator function, 1 unknown label, 2 bad math operation). *)
From FJ Require Import Lib.Base Model.Ast Spec.ExprSpec Model.Expr Model.PyIR.
From FJ Require Import Gen.Facts_Expr Tie.Expr_steps Tie.Expr_tie.        (* regenerated; keep on its own line *)
Local Open Scope string_scope.
Local Open Scope Z_scope.

(* exact_eval: for EVERY tree, label table, world and call depth above the height of the tree *)
Theorem C12_source_exact_eval :
  forall d e L w, (height e < d)%nat ->
    run_exact_eval d e L w = enc_outcome of_Z (Expr.exact_eval (env_of_list L) e) w.
Proof. exact tie_exact_eval. Qed.
Print Assumptions C12_source_exact_eval.

(* eval_new: for EVERY tree, parameter dictionary, call depth, and every answer stream of `is` (part of w; w' is what is left) *)
Theorem C12_source_eval_new :
  forall d e S w, (height e < d)%nat ->
    exists w', run_eval_new d e S w = enc_outcome enc (Expr.eval_new (msubst_of_list S) e) w'.
Proof. exact tie_eval_new. Qed.
Print Assumptions C12_source_eval_new.

(* a call through op_string_to_function is the model's apply_op (every key of the model is a key of the table) *)
Theorem C12_source_operator_call :
  forall o zs w,
    op_lookup [VText (codes (opname_str o))] w = EOk (VText (codes (opname_str o))) w /\
    op_call [VText (codes (opname_str o)); VList (map of_Z zs)] w = op_outcome (apply_op o zs) w.
Proof. exact op_call_is_apply_op. Qed.
Print Assumptions C12_source_operator_call.

(* staging: what eval_new leaves is evaluated by exact_eval as the model says *)
Theorem C12_source_staged :
  forall d e S L w m, (height e < d)%nat -> Expr.eval_new (msubst_of_list S) e = Ok m ->
    exists w', run_eval_new d e S w = EOk (enc m) w' /\
               forall d', (height m < d')%nat ->
                 run_exact_eval d' m L w' = enc_outcome of_Z (Expr.exact_eval (env_of_list L) m) w'.
Proof. exact src_staged. Qed.
Print Assumptions C12_source_staged.

(* composed with C12 (Proofs/ExprProps.exact_eval_spec): on every tree the parser builds, the current exact_eval returns the
   value of the specification, or reports its error *)
Theorem C12_source_exact_eval_meets_spec :
  forall d e L w, (height (embed e) < d)%nat ->
    run_exact_eval d (embed e) L w = enc_outcome of_Z (final_outcome (ExprSpec.eval (env_of_list L) e)) w.
Proof. exact src_exact_eval_spec. Qed.
Print Assumptions C12_source_exact_eval_meets_spec.

(* non-vacuity: the interpreter really runs the regenerated methods (a folded constant part, a substituted parameter, a label
   resolved afterwards, a negative shift count, an unknown label, a negative exponent) *)
Example C12_source_runs :
  check_scase (mk_scase
    (Ast.EOp OAdd [Ast.EOp OMul [Ast.EInt 3; Ast.ELbl "p"]; Ast.EOp OShr [Ast.ELbl "x"; Ast.EInt 1]])
    [("p", Ast.EInt (-7))] [("x", 9)]
    (SoTree (Ast.EOp OAdd [Ast.EInt (-21); Ast.EOp OShr [Ast.ELbl "x"; Ast.EInt 1]]))
    (SoLib 1) (SoInt (-17))) = true /\
  check_scase (mk_scase
    (Ast.EOp OShr [Ast.ELbl "x"; Ast.EOp OSub [Ast.EInt 0; Ast.ELbl "p"]])
    [("p", Ast.EInt 1)] [("x", 9); ("p", 5)]
    (SoTree (Ast.EOp OShr [Ast.ELbl "x"; Ast.EInt (-1)])) (SoLib 2) (SoLib 2)) = true /\
  check_scase (mk_scase
    (Ast.EOp OPow [Ast.EInt 2; Ast.ELbl "p"]) [("p", Ast.EInt (-1))] [] (SoLib 2) (SoLib 1) SoOther) = true /\
  check_scase (mk_scase
    (Ast.EOp OPow [Ast.EInt 2; Ast.ELbl "p"]) [] [("p", -1)]
    (SoTree (Ast.EOp OPow [Ast.EInt 2; Ast.ELbl "p"])) (SoLib 0) (SoLib 0)) = true.
Proof. vm_compute. repeat split. Qed.
