(* C12 - constant expressions evaluate as unbounded-integer arithmetic.  Statements only.

   Spec/ExprSpec.v : eval (the meaning), subst, the documented precedence table + reference parser,
                     the value of a literal.
   Model/Expr.v    : expr.py (op table, get_minimized_expr, eval_new, exact_eval) and the expression
                     actions / literal decoders of fj_parser.py, with Python-level exceptions explicit.
   ok_value / value_of forget WHICH error was reported: "equal" below means the same integer, or an
   error on both sides (the staged path may report it earlier and as a different exception). *)
From FJ Require Import Lib.Base Model.Ast Spec.ExprSpec Model.Expr Proofs.ExprProps.
Local Open Scope string_scope.
Local Open Scope Z_scope.
Local Open Scope list_scope.

(* ------------------------------------------------------------------------------------------ *)
(** 1. Every entry of the operator table computes the operation of the specification.
       (raw_outcome: division by zero -> ZeroDivisionError, negative shift -> ValueError,
        negative exponent -> the library's FlipJumpExprException; the three callers wrap these.) *)
Theorem C12_ops :
  (forall o a b, apply_op (binop_name o) [a; b] = raw_outcome (eval_bin o a b)) /\
  (forall u a, apply_op (unop_name u) [a] = Ok (eval_un u a)) /\
  (forall c a b, apply_op OCond [c; a; b] = Ok (if truthy c then a else b)).
Proof. exact (conj apply_bin_spec (conj apply_un_spec apply_cond_spec)). Qed.
Print Assumptions C12_ops.

(* what the specification's operators are: floor division, modulo with the divisor's sign, ... *)
Theorem C12_floor_division_and_modulo_sign :
  forall a b, b <> 0 ->
  exists q r, eval_bin BDiv a b = Val q /\ eval_bin BMod a b = Val r /\
              a = b * q + r /\ (0 <= r < b \/ b < r <= 0).
Proof. exact div_mod_meaning. Qed.
Print Assumptions C12_floor_division_and_modulo_sign.

Theorem C12_arithmetic_shifts :
  forall a n, 0 <= n ->
  eval_bin BShl a n = Val (Z.shiftl a n) /\ eval_bin BShr a n = Val (Z.shiftr a n) /\
  forall i, 0 <= i -> Z.testbit (Z.shiftr a n) i = Z.testbit a (i + n).
Proof. exact shift_meaning. Qed.
Print Assumptions C12_arithmetic_shifts.

Theorem C12_twos_complement_bit_operators :
  forall a b i, 0 <= i ->
  (forall v, eval_bin BAnd a b = Val v -> Z.testbit v i = Z.testbit a i && Z.testbit b i) /\
  (forall v, eval_bin BOr a b = Val v -> Z.testbit v i = Z.testbit a i || Z.testbit b i) /\
  (forall v, eval_bin BXor a b = Val v -> Z.testbit v i = xorb (Z.testbit a i) (Z.testbit b i)) /\
  Z.testbit (eval_un UNot a) i = negb (Z.testbit a i).
Proof. exact bitwise_meaning. Qed.
Print Assumptions C12_twos_complement_bit_operators.

Theorem C12_bit_length :
  forall z, z <> 0 -> 0 < bit_length z /\ 2 ^ (bit_length z - 1) <= Z.abs z < 2 ^ bit_length z.
Proof. exact bit_length_meaning. Qed.
Print Assumptions C12_bit_length.

(* ------------------------------------------------------------------------------------------ *)
(** 2. The final evaluation is the specification, error for error. *)
Theorem C12_exact_eval :
  forall labels e, exact_eval labels (embed e) = final_outcome (eval labels e).
Proof. exact exact_eval_spec. Qed.
Print Assumptions C12_exact_eval.

(** 3. Stage independence.  [staged consts stages labels e] = parser folding with the constants
       [consts], then one eval_new pass per element of [stages], then exact_eval with [labels]. *)

(* identifiers resolved to integers: constants first, then each stage, labels last; an identifier
   bound at several stages takes the earliest binding (env_chain) *)
Theorem C12_stage_independent :
  forall consts rhos labels e,
  ok_value (staged consts (map int_msubst rhos) labels e) =
  value_of (eval (env_chain (consts :: rhos ++ [labels])) e).
Proof. exact stage_independent. Qed.
Print Assumptions C12_stage_independent.

(* hence: any two ways of distributing the same bindings over the stages (any partition into
   constants / parameters / labels, any number and order of stages) give the same result *)
Theorem C12_any_partition_any_order :
  forall e c1 r1 l1 c2 r2 l2,
  (forall s, env_chain (c1 :: r1 ++ [l1]) s = env_chain (c2 :: r2 ++ [l2]) s) ->
  ok_value (staged c1 (map int_msubst r1) l1 e) = ok_value (staged c2 (map int_msubst r2) l2 e).
Proof. exact any_partition_any_order. Qed.
Print Assumptions C12_any_partition_any_order.

(* replacements that are expressions themselves (macro arguments mentioning labels, the rep-iterator
   rename, ...): each model replacement is any partial evaluation ([represents]) of the spec one *)
Theorem C12_stage_independent_general :
  forall consts sms sts labels e,
  Forall2 subst_represents sms sts ->
  ok_value (staged consts sms labels e) =
  value_of (eval labels (subst_all sts (subst (int_subst consts) e))).
Proof. exact stage_independent_general. Qed.
Print Assumptions C12_stage_independent_general.

(* `x = expr` *)
Theorem C12_constant_definition :
  forall consts e, ok_value (define_const consts e) = value_of (eval consts e).
Proof. exact define_const_spec. Qed.
Print Assumptions C12_constant_definition.

(* no exception from outside the library's hierarchy escapes from any of the three paths
   (the model does not build the text of the error message: see the evidence's assumptions) *)
Theorem C12_no_raw_exception :
  forall consts sms sts labels e st x,
  Forall2 subst_represents sms sts -> staged_trace consts sms labels e <> (st, RawExn x).
Proof. exact no_raw_exception. Qed.
Print Assumptions C12_no_raw_exception.

(* ------------------------------------------------------------------------------------------ *)
(** 4. The reference parser realises the documented table (finite domains, by computation). *)
Theorem C12_precedence_pairs :
  forall o1 o2 x y z,
  parse [TIdent x; TBinop o1; TIdent y; TBinop o2; TIdent z] =
  match pair_shape_of o1 o2 with
  | GroupLeft => Some (SBin o2 (SBin o1 (SId x) (SId y)) (SId z))
  | GroupRight => Some (SBin o1 (SId x) (SBin o2 (SId y) (SId z)))
  | SyntaxError => None
  end.
Proof. exact parse_pairs. Qed.
Print Assumptions C12_precedence_pairs.

Theorem C12_prefix_then_binary :
  forall u o x y,
  parse [prefix_token u; TIdent x; TBinop o; TIdent y] =
  Some (if prefix_binds_tighter u o then SBin o (prefix_apply u (SId x)) (SId y)
        else prefix_apply u (SBin o (SId x) (SId y))).
Proof. exact parse_prefix_then_binary. Qed.
Print Assumptions C12_prefix_then_binary.

Theorem C12_binary_then_prefix :
  forall u o x y,
  parse [TIdent x; TBinop o; prefix_token u; TIdent y] = Some (SBin o (SId x) (prefix_apply u (SId y))).
Proof. exact parse_binary_then_prefix. Qed.
Print Assumptions C12_binary_then_prefix.

Theorem C12_conditional_right_associative :
  forall a b c d e,
  parse [TIdent a; TQuest; TIdent b; TColon; TIdent c; TQuest; TIdent d; TColon; TIdent e] =
  Some (SCond (SId a) (SId b) (SCond (SId c) (SId d) (SId e))).
Proof. exact parse_cond_right_assoc. Qed.
Print Assumptions C12_conditional_right_associative.

Theorem C12_conditional_binds_weakest :
  forall o a b c d,
  parse [TIdent a; TBinop o; TIdent b; TQuest; TIdent c; TColon; TIdent d] =
    Some (SCond (SBin o (SId a) (SId b)) (SId c) (SId d)) /\
  parse [TIdent a; TQuest; TIdent b; TColon; TIdent c; TBinop o; TIdent d] =
    Some (SCond (SId a) (SId b) (SBin o (SId c) (SId d))) /\
  parse [TIdent a; TQuest; TIdent b; TBinop o; TIdent c; TColon; TIdent d] =
    Some (SCond (SId a) (SBin o (SId b) (SId c)) (SId d)).
Proof. exact parse_cond_lowest. Qed.
Print Assumptions C12_conditional_binds_weakest.

(* ------------------------------------------------------------------------------------------ *)
(** 5. Literals: the lexer actions compute positional / little-endian values. *)
(* domain: at most 4300 characters (CPython's decimal conversion limit; hex and binary have none) *)
Theorem C12_literal_decimal :
  forall s ds, s <> [] -> Z.of_nat (List.length s) <= 4300 -> digits_of dec_digit s = Some ds ->
  number_value doc_char_escapes s = Ok (positional 10 ds).
Proof. exact decimal_literal. Qed.
Print Assumptions C12_literal_decimal.

(* beyond it the literal is refused with a lexing error (never silently given another value) *)
Theorem C12_literal_decimal_too_long_is_refused :
  forall s, 4300 < Z.of_nat (List.length s) -> (forall c, In c s -> 48 <= c <= 57) ->
  number_value doc_char_escapes s = LibError LexLiteralTooLong.
Proof. exact decimal_literal_too_long. Qed.
Print Assumptions C12_literal_decimal_too_long_is_refused.

Theorem C12_literal_hex :
  forall x s ds, x = 120 \/ x = 88 -> s <> [] -> digits_of hex_digit s = Some ds ->
  number_value doc_char_escapes (48 :: x :: s) = Ok (positional 16 ds).
Proof. exact hex_literal. Qed.
Print Assumptions C12_literal_hex.

Theorem C12_literal_binary :
  forall x s ds, x = 98 \/ x = 66 -> s <> [] -> digits_of bin_digit s = Some ds ->
  number_value doc_char_escapes (48 :: x :: s) = Ok (positional 2 ds).
Proof. exact binary_literal. Qed.
Print Assumptions C12_literal_binary.

Theorem C12_literal_char :
  forall it, item_ok it = true ->
  number_value doc_char_escapes (39 :: item_text it ++ [39]) = Ok (item_value it).
Proof. exact char_literal. Qed.
Print Assumptions C12_literal_char.

Theorem C12_literal_string_little_endian :
  forall its, forallb item_ok its = true ->
  string_value doc_char_escapes (items_text its) = Ok (little_endian (map item_value its)).
Proof. exact string_literal. Qed.
Print Assumptions C12_literal_string_little_endian.

(* where the token ends: at the first quote that is not part of an escape, whatever follows on the
   line (so two literals on one line stay two literals).  [no_bare_quote its]: inside the literal a quote is written \dq. *)
Theorem C12_string_ends_at_first_quote :
  forall its rest,
  forallb item_ok its = true -> no_bare_quote its = true ->
  lex_string_body doc_char_escapes (items_text its ++ 34 :: rest) = Some its.
Proof. exact string_ends_at_first_quote. Qed.
Print Assumptions C12_string_ends_at_first_quote.

(* ------------------------------------------------------------------------------------------ *)
(** Non-vacuity: concrete instances of the hypotheses and of every path. *)

(* (c + p) * L / 3 - (7 % (0 - 2)) << 70 >> 68 : constant c, parameter p, rep iterator i, label L *)
Definition ex_expr : sexpr :=
  SBin BSub (SBin BDiv (SBin BMul (SBin BAdd (SId "c") (SId "p")) (SId "L")) (SInt 3))
            (SBin BShr (SBin BShl (SBin BMod (SInt 7) (SNeg (SInt 2))) (SBin BAdd (SInt 70) (SId "i"))) (SInt 68)).

Example ex_all_paths_crossed :
  staged_trace (env_of_list [("c", 5)]) [int_msubst (env_of_list [("p", -9)]); int_msubst (env_of_list [("i", 2)])]
               (env_of_list [("L", 128)]) ex_expr = (AtFinal, Ok (-155))
  /\ eval (env_of_list [("c", 5); ("p", -9); ("i", 2); ("L", 128)]) ex_expr = Val (-155)
  /\ staged (env_of_list [("L", 128); ("i", 2)]) [] (env_of_list [("c", 5); ("p", -9)]) ex_expr = Ok (-155).
Proof. vm_compute. auto. Qed.

(* a replacement that is itself an expression with a label in it (macro argument  L+8 ), and the
   iterator rename of a rep: the hypothesis of the general theorem is satisfiable *)
Example ex_general_hypothesis :
  Forall2 subst_represents
    [ (fun s => if String.eqb s "i" then Some (ELbl "i:rep") else None);
      (fun s => if String.eqb s "p" then Some (EOp OAdd [ELbl "L"; EInt 8]) else None) ]
    [ (fun s => if String.eqb s "i" then Some (SId "i:rep") else None);
      (fun s => if String.eqb s "p" then Some (SBin BAdd (SId "L") (SBin BMul (SInt 2) (SInt 4))) else None) ].
Proof.
  repeat constructor; intros s; destruct (String.eqb s _); try exact I.
  - apply RepId.
  - apply (RepBin BAdd); [apply RepId|apply RepFolded; reflexivity].
Qed.

(* the error is reported earlier, and differently, but it is an error on every path *)
Example ex_error_reported_earlier :
  let e := SBin BAdd (SBin BShl (SInt 1) (SNeg (SId "x"))) (SBin BDiv (SInt 1) (SInt 0)) in
  staged_trace no_env [] (env_of_list [("x", 3)]) e = (AtParse, LibError (ExprBadMath (Some ZeroDivisionError))) /\
  eval (env_of_list [("x", 3)]) e = Err NegativeShift /\
  staged_trace no_env [int_msubst (env_of_list [("x", 3)])] no_env (SBin BShl (SInt 1) (SNeg (SId "x")))
    = (AtSubst 0, LibError (ExprBadMath (Some ValueError))) /\
  staged_trace no_env [] (env_of_list [("x", 3)]) (SBin BShl (SInt 1) (SNeg (SId "x")))
    = (AtFinal, LibError (ExprBadMath (Some ValueError))).
Proof. vm_compute. auto. Qed.

(* ?: && || evaluate every operand *)
Example ex_eager_conditional :
  eval no_env (SCond (SInt 1) (SInt 2) (SBin BDiv (SInt 1) (SInt 0))) = Err DivByZero /\
  eval no_env (SBin BLor (SInt 1) (SBin BDiv (SInt 1) (SInt 0))) = Err DivByZero.
Proof. vm_compute. auto. Qed.

(* intermediates far beyond 64 bits *)
Example ex_unbounded :
  eval no_env (SBin BMod (SBin BPow (SInt 3) (SInt 200)) (SBin BSub (SBin BShl (SInt 1) (SInt 127)) (SInt 1)))
  = Val 10810968933129975378600013865352026249.
Proof. vm_compute. reflexivity. Qed.

Example ex_literals :
  number_value doc_char_escapes [48; 120; 49; 70] = Ok 31 /\                 (* 0x1F *)
  number_value doc_char_escapes [48; 98; 49; 48; 49] = Ok 5 /\               (* 0b101 *)
  number_value doc_char_escapes [39; 92; 110; 39] = Ok 10 /\                 (* '\n' *)
  string_value doc_char_escapes [72; 105; 92; 120; 52; 49] = Ok 4286792 /\   (* "Hi\x41" = 0x416948 *)
  parse [TBinop BSub; TNum 2; TBinop BPow; TNum 2; TBinop BAdd; TNum 10] =
    Some (SBin BAdd (SNeg (SBin BPow (SInt 2) (SInt 2))) (SInt 10)) /\
  (* two one-letter literals joined by + : after the opening quote the first literal is the single letter *)
  lex_string_body doc_char_escapes [97; 34; 32; 43; 32; 34; 98; 34] = Some [Plain 97].
Proof. vm_compute. auto 7. Qed.
