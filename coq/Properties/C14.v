From FJ Require Import Lib.Base.
(* C14 - every assembly failure is a specific library diagnostic (statements; proofs in Proofs/AsmErrorsProps.v,
   model in Model/AsmErrors.v = /repo after the fix commits for F7, F8, F9, N1, N2, N3, N4 (523f875, d8bb7f7), N5, F10 (0a31844).

   `assemble_model cfg t` is the outcome of `assemble` on the parse tree t: a verdict (success, a specific library
   exception LibError k, the catch-all "Unknown exception ... please report this bug" with the raw exception that caused
   it, or no return at all) and the state of the output path.  cfg = memory width, fjm version, max_recursion_depth and
   the interpreter's resources (deepest walkable expression, largest finishing rep count, largest materialisable pad,
   largest allocatable shift).  The theorems hold for EVERY configuration and every tree. *)
From FJ Require Import Model.Ast Model.AsmErrors Proofs.AsmErrorsProps.
Local Open Scope string_scope.
Local Open Scope Z_scope.

(* The outcome is success or a specific library exception - never the catch-all, never a hang - for every tree the parser
   can return (has_main: the dictionary holds the main macro ("", 0)) that stays clear of the one class of defects still
   open in /repo (refuted below):
     counts_materialisable   F9b/N6  a pad of more ops than memory can hold, a rep count or power that never finishes *)
Theorem C14_specific : forall cfg t, has_main t = true ->
  counts_materialisable cfg t = true ->
  specific (assemble_model cfg t) = true.
Proof. exact specific_under_guards. Qed.
Print Assumptions C14_specific.

(* Without any guard: the only raw exception that reaches the catch-all is MemoryError (so no struct.error from the
   writer, no IndexError from the wflip chain, no KeyError from a dictionary, no TypeError/ZeroDivisionError from an
   operator, no ValueError from a handler that builds a message, and - since 0a31844 - no RecursionError). *)
Theorem C14_catch_all_classes : forall cfg t, has_main t = true ->
  match o_verdict (assemble_model cfg t) with
  | VOk | VLib _ | VHang => True
  | VCatchAll x => x = MemoryError
  end.
Proof. exact verdict_cases. Qed.
Print Assumptions C14_catch_all_classes.

(* A failed assembly leaves no file: unguarded since b770ddf / 3bd0fc0 (every word is range-checked before the file is
   opened, so the only step that touches the output path cannot fail). *)
Theorem C14_no_file_on_failure : forall cfg t, no_file_on_failure (assemble_model cfg t) = true.
Proof. exact no_file_left. Qed.
Print Assumptions C14_no_file_on_failure.

Theorem C14_never_partial_file : forall cfg t, o_file (assemble_model cfg t) <> PartialFile.
Proof. exact write_stage_total. Qed.
Print Assumptions C14_never_partial_file.

(* ---------------------------------------------------------------------------------------------------------------- *)
(* Witnesses.  The default configuration: 900 nested macro calls, expression depth 450, rep 2^22, pad 2^24, 2^33 bits. *)
Definition cfg0 (w : Z) (v : N) : config := mkcfg w v 900 450 (2 ^ 22) (2 ^ 24) (2 ^ 33).
Definition P (l : N) : code_pos := mkpos "p.fj" "f1" l.
Definition prog (ops : list stmt) : macro_dict := [(main_macro_name, mkmacro [] [] ops "" (P 1))].
Definition nxt : expr := ELbl "$".
Definition shl (a b : Z) : expr := EOp OShl [EInt a; EInt b].
Fixpoint sum_x (n : nat) : expr := match n with O => ELbl "x" | S k => EOp OAdd [sum_x k; ELbl "x"] end.

(* open findings: the unguarded statement is false on the current tree *)
(* F9b   `;`  `pad 1<<50`  at w = 64 *)
Example C14_F9b_refuted :
  o_verdict (assemble_model (cfg0 64 3) (prog [SFlipJump (EInt 0) nxt (P 1); SPad (shl 1 50) (P 2)])) = VCatchAll MemoryError.
Proof. vm_compute. reflexivity. Qed.
(* N6    `def m { ; }`  `rep(1<<40, i) m` *)
Example C14_hang_refuted :
  o_verdict (assemble_model (cfg0 64 3)
    [(main_macro_name, mkmacro [] [] [SRepCall (shl 1 40) "i" "m" [] (P 4)] "" (P 1));
     (("m", 0%N), mkmacro [] [] [SFlipJump (EInt 0) nxt (P 2)] "" (P 1))]) = VHang.
Proof. vm_compute. reflexivity. Qed.
(* F10   `;x+x+...+x` (600 terms) `x:`, and the same tree in a macro body (walked at parse time)  ->  FlipJumpAssemblerException
         "The source nests too deeply for python's recursion limit ..." (0a31844), nothing written *)
Example C14_F10_fixed :
  assemble_model (cfg0 64 3) (prog [SFlipJump (EInt 0) (sum_x 599) (P 1); SLabel "x" (P 2)]) = mkout (VLib KTooDeep) NoFile /\
  assemble_model (cfg0 64 0)
    [(main_macro_name, mkmacro [] [] [SMacroCall "m" [EInt 1] (P 4)] "" (P 1));
     (("m", 1%N), mkmacro ["x"] [] [SFlipJump (EInt 0) (sum_x 599) (P 2)] "" (P 1))] = mkout (VLib KTooDeep) NoFile.
Proof. vm_compute. split; reflexivity. Qed.

(* fixed findings: the old witnesses are now specific library errors, and no file is touched *)
(* F7    `;1/0`  ->  FlipJumpExprException "bad math operation" *)
Example C14_F7_fixed :
  assemble_model (cfg0 64 0) (prog [SFlipJump (EInt 0) (EOp ODiv [EInt 1; EInt 0]) (P 1)]) = mkout (VLib KBadMath) NoFile.
Proof. vm_compute. reflexivity. Qed.
Example C14_F7_shift_fixed :
  assemble_model (cfg0 64 0) (prog [SFlipJump (EInt 0) (EOp OShl [EInt 1; EOp OSub [EInt 0; EInt 1]]) (P 1)]) = mkout (VLib KBadMath) NoFile.
Proof. vm_compute. reflexivity. Qed.
(* F8    `;0-1` at version 0 and 3, `;1<<64`  ->  FlipJumpAssemblerException "Not enough space ... in op" *)
Example C14_F8_fixed :
  forallb (fun v => match assemble_model (cfg0 64 v) (prog [SFlipJump (EInt 0) (EOp OSub [EInt 0; EInt 1]) (P 1)]) with
                    | mkout (VLib KOpRange) NoFile => true | _ => false end) [0; 1; 2; 3]%N = true.
Proof. vm_compute. reflexivity. Qed.
Example C14_F8_high_fixed :
  assemble_model (cfg0 64 1) (prog [SFlipJump (EInt 0) (shl 1 64) (P 1)]) = mkout (VLib KOpRange) NoFile.
Proof. vm_compute. reflexivity. Qed.
(* N4    `;x+(1<<20000)` (x undefined), `;` `pad 0-(1<<20000)`, `;` `pad 1<<20000`: the messages print 2^20000 in hex (523f875) *)
Example C14_N4_fixed :
  assemble_model (cfg0 64 3) (prog [SFlipJump (EInt 0) (EOp OAdd [ELbl "x"; shl 1 20000]) (P 1)]) = mkout (VLib KOpEval) NoFile /\
  assemble_model (cfg0 64 3) (prog [SFlipJump (EInt 0) nxt (P 1); SPad (EOp OSub [EInt 0; shl 1 20000]) (P 2)]) = mkout (VLib KPadNonPositive) NoFile /\
  assemble_model (cfg0 64 3) (prog [SFlipJump (EInt 0) nxt (P 1); SPad (shl 1 20000) (P 2)]) = mkout (VLib KPadTooBig) NoFile.
Proof. vm_compute. repeat split; reflexivity. Qed.
(* N4'   `;` `reserve 1<<20000` `pad 2`; `;` `reserve (1<<20000)+64` `pad 2`; `wflip 0, 3` `reserve 128` `;` `reserve 1<<20000`
         (d8bb7f7: the address / the word is printed through int_to_str / hex) *)
Example C14_N4_residual_fixed :
  assemble_model (cfg0 64 3) (prog [SFlipJump (EInt 0) nxt (P 1); SReserve (shl 1 20000) (P 2); SPad (EInt 2) (P 3)])
  = mkout (VLib KPadTooBig) NoFile /\
  assemble_model (cfg0 64 3) (prog [SFlipJump (EInt 0) nxt (P 1); SReserve (EOp OAdd [shl 1 20000; EInt 64]) (P 2); SPad (EInt 2) (P 3)])
  = mkout (VLib KPadUnaligned) NoFile.
Proof. vm_compute. split; reflexivity. Qed.
Example C14_N4_add_data_fixed :
  assemble_model (cfg0 64 3)
    (prog [SWordFlip (EInt 0) (EInt 3) nxt (P 1); SReserve (EInt 128) (P 2); SFlipJump (EInt 0) nxt (P 3); SReserve (shl 1 20000) (P 4)])
  = mkout (VLib KWriterData) NoFile.
Proof. vm_compute. reflexivity. Qed.
(* N2    `;` `segment 1024` `ns _ { wflip_area_start_0: }`, and the label declared BEFORE the segment  ->  'label declared twice' *)
Example C14_N2_fixed :
  assemble_model (cfg0 64 3)
    (prog [SFlipJump (EInt 0) nxt (P 1); SSegment (EInt 1024) (P 2); SLabel "_.wflip_area_start_0" (P 4); SFlipJump (EInt 0) nxt (P 6)])
  = mkout (VLib KLabelTwice) NoFile /\
  assemble_model (cfg0 64 3)
    (prog [SLabel "_.wflip_area_start_0" (P 2); SFlipJump (EInt 0) nxt (P 4); SSegment (EInt 1024) (P 5); SFlipJump (EInt 0) nxt (P 6)])
  = mkout (VLib KLabelTwice) NoFile.
Proof. vm_compute. split; reflexivity. Qed.
(* a negative reserve (825c6f7) *)
Example C14_negative_reserve :
  assemble_model (cfg0 64 3) (prog [SFlipJump (EInt 0) nxt (P 1); SReserve (EInt (-64)) (P 2)]) = mkout (VLib KReserveNegative) NoFile.
Proof. vm_compute. reflexivity. Qed.
(* F9    `;`  `pad 1<<70`  ->  FlipJumpPreprocessorException "... exceeds the 64-bits memory-width" *)
Example C14_F9_fixed :
  assemble_model (cfg0 64 3) (prog [SFlipJump (EInt 0) nxt (P 1); SPad (shl 1 70) (P 2)]) = mkout (VLib KPadTooBig) NoFile.
Proof. vm_compute. reflexivity. Qed.

(* the guards are satisfiable on programs that do something: a macro with a parameter and a local label, a rep, a wflip,
   a pad, a second segment - assembled, file complete *)
Definition sample : macro_dict :=
  [(main_macro_name, mkmacro [] []
      [SMacroCall "m" [ELbl "x"; EInt 3] (P 1); SRepCall (EInt 2) "i" "m" [ELbl "x"; ELbl "i"] (P 2);
       SWordFlip (ELbl "x") (EInt 5) nxt (P 3); SPad (EInt 4) (P 4); SLabel "x" (P 5); SFlipJump (EInt 0) (ELbl "x") (P 5);
       SSegment (EInt 4096) (P 6); SFlipJump (EInt 0) nxt (P 7)] "" (P 1));
   (("m", 2%N), mkmacro ["a"; "b"] ["loc"]
      [SFlipJump (ELbl "a") (ELbl "loc") (P 9); SLabel "loc" (P 10); SFlipJump (EOp OAdd [ELbl "b"; ELbl "b"]) nxt (P 10)] "" (P 8))].

Example C14_guards_satisfiable :
  let c := cfg0 64 3 in
  (has_main sample && counts_materialisable c sample)%bool = true
  /\ assemble_model c sample = mkout VOk CompleteFile.
Proof. vm_compute. split; reflexivity. Qed.

(* and on a program that fails: an undefined macro is a specific error under the same guards *)
Example C14_guards_satisfiable_on_failure :
  let c := cfg0 32 1 in let t := prog [SMacroCall "nope" [EInt 1] (P 1)] in
  (has_main t && counts_materialisable c t)%bool = true
  /\ assemble_model c t = mkout (VLib KMacroUndefined) NoFile.
Proof. vm_compute. split; reflexivity. Qed.
