(* C08 - pointer, stack and call/return macros address exactly the pointed cell.  Statements only.

   The per-block instance theorems
       T_<block>_w<w> : forall vs, in_udom [<product of explicit value lists>; ...] vs ->
                                   ptr_block_correct ww segs img b<k> pcs <spec> vs
   (one per pointer macro instance, ordered pair of dereferences, balanced push/pop word and call tree; a pointer
   operand ranges over the addresses of every cell of the block's buffer, the pointed cell over every stored value,
   an index over -k..k) are generated into coq/Gen from the image assembled from the CURRENT source by every run of
   ./check C08 (harness/fjverif/stl_ptr.py) and proved there with the theorems below; the evidence file lists them. *)
From FJ Require Import Lib.Base Spec.MachineSpec Spec.StlSpec Spec.StlPtrSpec Model.StlRun Model.StlPtrRun
     Proofs.StlProps Proofs.StlPtrProps.
Local Open Scope N_scope.

(* a `true` of the checker is the C08 statement: the machine halts by the self-loop of the documented exit, has printed
   that exit's marker bytes, EVERY word of the final memory equals the image patched with the documented values except
   the declared scratch bits, and the library's global pointer cells are consistent *)
Theorem C08_checker_decides_statement :
  forall ww sg img b pcs S vs, check_ptr_block ww sg img b pcs S vs = true -> ptr_block_correct ww sg img b pcs S vs.
Proof. exact check_ptr_block_sound. Qed.
Print Assumptions C08_checker_decides_statement.

(* the C08 statement contains the frame equation of C04/C05 ("exactly at the pointed cell and nowhere else") *)
Theorem C08_statement_contains_frame_equation :
  forall ww sg img b pcs S vs, ptr_block_correct ww sg img b pcs S vs -> block_correct ww sg img b S vs.
Proof. exact ptr_block_correct_frame. Qed.
Print Assumptions C08_statement_contains_frame_equation.

(* ... and the consistency clause: in the final memory the flip word of to_flip equals the value of to_flip_var and the
   jump word of to_jump equals the value of to_jump_var (what set_flip_pointer / set_jump_pointer rely on) *)
Theorem C08_statement_contains_pointer_consistency :
  forall ww sg img b pcs S vs vs' x,
    S vs = Some (vs', x) -> ptr_block_correct ww sg img b pcs S vs ->
    exists k s, run ww sg k (init (start_mem ww img b vs) []) = (Looping, s) /\ ptr_consistent ww pcs s.(m).
Proof. exact ptr_block_correct_consistent. Qed.
Print Assumptions C08_statement_contains_pointer_consistency.

Theorem C08_consistency_clause_sound :
  forall ww pcs mm, ptr_consistent_b ww pcs mm = true -> ptr_consistent ww pcs mm.
Proof. exact ptr_consistent_b_sound. Qed.
Print Assumptions C08_consistency_clause_sound.

(* enumeration of an explicit-list operand domain is a universally quantified statement over that domain *)
Theorem C08_list_enumeration_is_universal :
  forall ww sg img b pcs S ls,
    forallb (check_ptr_block ww sg img b pcs S) (enum_ldom ls) = true ->
    forall vs, in_ldom ls vs -> ptr_block_correct ww sg img b pcs S vs.
Proof. exact ptr_blocks_by_list_enumeration. Qed.
Print Assumptions C08_list_enumeration_is_universal.

Theorem C08_union_enumeration_is_universal :
  forall ww sg img b pcs S ds,
    forallb (check_ptr_block ww sg img b pcs S) (enum_udom ds) = true ->
    forall vs, in_udom ds vs -> ptr_block_correct ww sg img b pcs S vs.
Proof. exact ptr_blocks_by_union_enumeration. Qed.
Print Assumptions C08_union_enumeration_is_universal.

(* domains are cut into shards along the value list of any operand, unions are proved product by product *)
Theorem C08_domain_sharding :
  forall pre (P : list N -> Prop) l1 l2 rs,
    (forall vs, in_ldom (pre ++ l1 :: rs) vs -> P vs) -> (forall vs, in_ldom (pre ++ l2 :: rs) vs -> P vs) ->
    forall vs, in_ldom (pre ++ (l1 ++ l2) :: rs) vs -> P vs.
Proof. exact ldom_split_at. Qed.
Print Assumptions C08_domain_sharding.

Theorem C08_domain_recut :
  forall pre (P : list N -> Prop) l l' rs,
    l = l' -> (forall vs, in_ldom (pre ++ l' :: rs) vs -> P vs) -> forall vs, in_ldom (pre ++ l :: rs) vs -> P vs.
Proof. exact ldom_recut. Qed.
Print Assumptions C08_domain_recut.

Theorem C08_union_of_products :
  forall (P : list N -> Prop) d ds,
    (forall vs, in_ldom d vs -> P vs) -> (forall vs, in_udom ds vs -> P vs) -> forall vs, in_udom (d :: ds) vs -> P vs.
Proof. exact udom_cons. Qed.
Print Assumptions C08_union_of_products.

(* the half-open ranges of C04/C05 are a special case of explicit lists *)
Theorem C08_ranges_are_lists :
  forall rs vs, in_dom rs vs -> in_ldom (map (fun r => range (fst r) (snd r)) rs) vs.
Proof. exact in_dom_ldom. Qed.
Print Assumptions C08_ranges_are_lists.

(* the hypotheses are satisfiable and the specs are not vacuous: w = 64, a 4-cell byte buffer at bit address 4096 *)
Example C08_domain_inhabited :
  in_udom [[[7]; addrs 4096 128 4; map (set_cell 8 0xA53CC35A 2) (from 0 256)]] [7; 4224; 0xA5EEC35A] /\
  ptr_load 6 8 256 4096 4 [7; 4224; 0xA5EEC35A] = Some ([0xC3; 4224; 0xA5EEC35A], 0) /\
  ptr_store 6 8 16 4096 4 [4352; 0x9; 0xA5EEC35A] = Some ([4352; 0x9; 0xA5E9C35A], 0) /\
  ptr_load 6 8 256 4096 4 [7; 4225; 0] = None /\
  ptr_index_of 6 [0; 4096; 2 ^ 64 - 1] = Some ([3968; 4096; 2 ^ 64 - 1], 0).
Proof.
  split; [|vm_compute; repeat split; reflexivity].
  apply Exists_cons_hd. apply in_ldom3.
  - left. reflexivity.
  - apply (addrs_In 4096 128 4 1). lia.
  - apply in_map_iff. exists 0xEE. split; [vm_compute; reflexivity|]. apply from_In. lia.
Qed.

(* the abstract stack returns the pushed values in reverse order *)
Example C08_stack_is_lifo :
  stack_word [Push Hex 0%nat; Push Byte 1%nat; Push (Vec 3) 2%nat; Pop (Vec 3) 3%nat; Pop Byte 4%nat; Pop Hex 5%nat]
             [0x7; 0xB2; 0x5C3; 0; 0; 0; 99] = Some ([0x7; 0xB2; 0x5C3; 0x5C3; 0xB2; 0x7; 99], 0) /\
  stack_word [Push Hex 0%nat; Pop Byte 1%nat] [1; 2] = None /\
  call_trace 8 [[Mark 97; Call 1%nat; Mark 65]; [Mark 98]] [Mark 48; Call 0%nat; Mark 46; FCall 1%nat] = [48; 97; 98; 65; 46; 98].
Proof. vm_compute. repeat split; reflexivity. Qed.
