(* C10 (and C06), source tie - the loading stage of the Reader AS IT READS NOW is the one of Model/Fjm.v.  Statements only.
   coq/Gen/Facts_Loader.v is regenerated from the current Reader._validate_segments and Reader._init_memory
   (flipjump/fjm/fjm_reader.py) by harness/fjverif/gen_facts_loader.py on every run of ./check C10 (Python `ast` -> the
   Python-subset IR of Model/PyIR.v, fail closed); this file is rebuilt against it.
   Chain: source --translator--> IR --(PyIR.exec = Fjm.validate_segments / Fjm.init_memory, below)--> Model/Fjm.v --C10_total,
   C10_consistent, C06 round trip ...--> Spec/ImageSpec.v.
   [src_stage w ver table data] (Tie/Loader_steps.v): the PyIR interpreter runs the regenerated _init_memory - which calls
   the regenerated _validate_segments - on a Reader of that width and version, the table as a list of 4-tuples and the
   pool as a list of ints, and its outcome (memory dict, memory_segments, zeros_boundaries, or the library error by its
   diagnostic class) is read as an [mres].  The header / table / payload parsing before it (struct.unpack, lzma) stays the
   hand transcription in Fjm.read_thr. *)
From FJ Require Import Lib.Base Lib.Bytes Spec.ImageSpec Model.Fjm Model.PyIR Proofs.FjmReader.
From FJ Require Import Gen.Facts_Loader Tie.Loader_steps Tie.Loader_tie.        (* regenerated; keep on its own line *)
Local Open Scope N_scope.

(* Reader._validate_segments, for EVERY segment table, world and call depth *)
Theorem C10_source_validate_segments :
  forall d table w,
    call_at ldr_cfg loader_program (S d) F_validate_segments [VList (map seg_value table)] w =
    if validate_segments table then EExn (XLib 1) w else EOk VNone w.
Proof. exact tie_validate_segments. Qed.
Print Assumptions C10_source_validate_segments.

(* Reader._init_memory, for EVERY width, version, segment table and data pool: the dict, memory_segments and
   zeros_boundaries it builds - or the class of the error it raises - are those of Fjm.init_memory after Fjm.validate_segments *)
Theorem C10_source_init_memory :
  forall w ver table data,
    src_stage w ver table data =
    (if validate_segments table then MErr ETable
     else init_memory src_reserved_dict_threshold w ((ver =? 2) || (ver =? 3)) data (N.of_nat (length data))
                      (PositiveMap.empty N) table).
Proof. exact tie_init_memory. Qed.
Print Assumptions C10_source_init_memory.

(* the threshold below which a zero tail is stored word by word, as the current fjm_consts.py has it *)
Theorem C10_source_threshold : src_reserved_dict_threshold = reserved_dict_threshold.
Proof. exact threshold_is. Qed.
Print Assumptions C10_source_threshold.

(* hence the whole reader model with the regenerated loading stage IS Fjm.read, on every byte string and codec *)
Theorem C10_source_reader :
  forall (decompress : bytes -> option bytes) (b : bytes), read_src decompress b = read decompress b.
Proof. exact read_src_is_read. Qed.
Print Assumptions C10_source_reader.

(* composed with C10_total: through the regenerated stage too, reading ends with an image or a read error *)
Theorem C10_source_total :
  forall (decompress : bytes -> option bytes) (b : bytes) (e : rexn), read_src decompress b <> RRaw e.
Proof. exact read_src_total. Qed.
Print Assumptions C10_source_total.

(* non-vacuity: the interpreter really runs the regenerated functions (a relative-jump image with a long zero tail; an odd
   data length; an overlapping table) *)
Example C10_source_runs :
  (match src_stage 16 2 [(0, 8, 0, 4); (16, 2000, 4, 2)] [5; 6; 7; 8; 9; 10] with
   | MOk segs m z => pairs_eqb segs [(0, 8); (16, 2000)] && pairs_eqb z [(18, 2016)] &&
                     mem_eqb m [(0, 5); (1, 22); (2, 7); (3, 56); (4, 0); (5, 0); (6, 0); (7, 0); (16, 9); (17, 282)]
   | _ => false end) = true /\
  src_stage 16 1 [(0, 8, 0, 3)] [5; 6; 7] = MErr EOddData /\
  src_stage 16 1 [(0, 8, 0, 4); (6, 4, 0, 0)] [5; 6; 7; 8] = MErr ETable.
Proof. vm_compute. repeat split; reflexivity. Qed.
