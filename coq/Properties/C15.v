(* C15 - Debugging never changes the program and stops exactly where asked.
   Statements only; proofs in Proofs/DebugProps.v; the model (Model/Debug.v) is tied to the real debugger by
   harness/fjverif/checks/c15.py on every run. *)
From FJ Require Import Lib.Base Spec.MachineSpec Spec.DebugSpec Model.Debug Proofs.DebugProps.
From Coq Require Import String.
Local Open Scope string_scope.
Local Open Scope list_scope.
Local Open Scope N_scope.

(* For every width, segment table, initial memory, input, breakpoint set, label table, command script and fuel:
   if no line of the script is a quit command and the script does not run dry (no EOF at a prompt), the debugged run
   reports exactly the output, cause (with fault address) and op count of the undebugged run, and ends in the
   identical machine state.  (Unguarded since finding F11 was fixed: the pause banner shows a word outside the memory
   segments as such instead of raising; a regression is caught by the campaign as 'pause-banner-fault'.) *)
Theorem C15_transparent : forall ww sg bps tbl fuel m0 input script,
  let r := debug_run ww sg bps tbl fuel m0 input script in
  no_quit script = true -> ran_dry r = false ->
  dobs r = Some (mobs (run ww sg fuel (init m0 input))) /\ d_st r = snd (run ww sg fuel (init m0 input)).
Proof. exact transparent. Qed.
Print Assumptions C15_transparent.

(* The pauses are exactly the iterations of the undebugged run at which the next op's address is a breakpoint or the
   op count equals the pending target (step: c+1, skip N: c+N, continue: none, continue-all: never again), taken
   before the op executes; the script matters only through its resuming actions. *)
Theorem C15_pauses : forall ww sg bps tbl fuel m0 input script,
  let r := debug_run ww sg bps tbl fuel m0 input script in
  pauses (d_events r) = expected_pauses bps (trace ww sg fuel (init m0 input)) None (actions_of script).
Proof. exact pauses_debug_run. Qed.
Print Assumptions C15_pauses.

(* quit / end of input: the run stops as a keyboard interrupt in the state the undebugged run has after exactly
   n completed ops (plus the registration of the paused op's address), and the last thing printed is ": exit";
   a quit needs a quit command. *)
Theorem C15_quit : forall ww sg bps tbl fuel m0 input script,
  let r := debug_run ww sg bps tbl fuel m0 input script in
  (d_cause r = DQuit \/ d_cause r = DEof) ->
  exists n s', (n < fuel)%nat /\ nsteps ww sg n (init m0 input) = Some s' /\ d_st r = touch s' /\
               ops s' = N.of_nat n /\ exists evs, d_events r = evs ++ [EvAct AExit].
Proof. exact quit_prefix. Qed.
Print Assumptions C15_quit.

Theorem C15_quit_needs_command : forall ww sg bps tbl fuel m0 input script,
  no_quit script = true -> d_cause (debug_run ww sg bps tbl fuel m0 input script) <> DQuit.
Proof. exact quit_needs_command. Qed.
Print Assumptions C15_quit_needs_command.

(* reads, help, unknown and malformed commands, empty lines are inert: two scripts with the same resuming actions
   give the same cause, the same final machine state and the same pauses. *)
Theorem C15_reads_inert : forall ww sg bps tbl fuel m0 input sc1 sc2,
  actions_of sc1 = actions_of sc2 ->
  let r1 := debug_run ww sg bps tbl fuel m0 input sc1 in
  let r2 := debug_run ww sg bps tbl fuel m0 input sc2 in
  d_cause r1 = d_cause r2 /\ d_st r1 = d_st r2 /\ pauses (d_events r1) = pauses (d_events r2).
Proof. exact reads_inert. Qed.
Print Assumptions C15_reads_inert.

(* a word read prints the machine word at the printed address; a bit/hex/byte vector read prints the little-endian
   number made of its `len` fields (stride 2w, field at bit #w of the jump word), below the Reader's address wrap. *)
Theorem C15_read_word : forall ww sg mm a a' v,
  0 < ww -> show_addr ww sg mm None a = EvReadWord a' v ->
  a' = a /\ (0 <= a)%Z /\ get_word ww sg mm (Z.to_N a) = inr v.
Proof. exact read_word_true. Qed.
Print Assumptions C15_read_word.

Theorem C15_read_var : forall ww sg mm ty len idx a f l v,
  negb ((ty =? 102) || (ty =? 106)) = true ->
  show_addr ww sg mm (Some (ty, len, idx)) a = EvReadVar f l v ->
  N.shiftr (Z.to_N l) ww < wmask ww ->
  (0 <= a)%Z /\ f = (a + Z.of_N (2 * len * idx * w ww))%Z /\ l = (f + Z.of_N (2 * w ww * len))%Z /\
  v = var_value ww sg mm (bits_per_word ty) (Z.to_N f) 0 (N.to_nat len).
Proof. exact read_var_true. Qed.
Print Assumptions C15_read_var.

(* ---- the former F11 witness: now transparent ----
   w = 8, one segment of 6 words, op 0 jumps to the op in the LAST word (bit 40) whose flip word is the output
   address 2w+1 = 17 and whose jump word lies outside the segment; breakpoint at 40, script "c".  The banner shows the
   jump word as outside the memory segments (None) and the op then runs exactly as undebugged: one output bit,
   memory error at 48. *)
Definition f11_words : list (N * N) := [(1, 40); (5, 17)].
Definition f11_run := debug_run 3 [(0, 6)] [40] [] 10 (mem_of_list f11_words) [] [L "c"].

Example C15_banner_outside_segments :
  d_events f11_run = [EvPause true 40 1 (Some 17) None; EvAct AContinue] /\
  dobs f11_run = Some ([true], MemErr 48, 1) /\
  dobs f11_run = Some (mobs (run 3 [(0, 6)] 10 (init (mem_of_list f11_words) []))).
Proof. vm_compute. repeat split. Qed.

(* ---- the hypotheses are satisfiable on non-trivial runs ---- *)
(* w = 8: a ring of three ops 0 -> 32 -> 64 -> 32 ... that outputs a bit at 32 and loops for ever; breakpoint at 32;
   script: read, step, skip 2, help, continue, continue-all: four pauses, the third by the breakpoint while
   the skip target (4) is still pending. *)
Definition nv_words : list (N * N) := [(1, 32); (4, 17); (5, 64); (8, 0); (9, 32)].
Definition nv_script := [L "r :b2:0"; L "s"; L "s 2"; L "h"; L "c"; L "c*"].
Definition nv_run := debug_run 3 [(0, 12)] [32] [] 12 (mem_of_list nv_words) [] nv_script.

Example C15_nonvacuous :
  no_quit nv_script = true /\ ran_dry nv_run = false /\
  pauses (d_events nv_run) = [(32, 1); (64, 2); (32, 3); (32, 5)] /\
  ops (d_st nv_run) = 12 /\ d_cause nv_run = DM OutOfFuel /\ List.length (outp (d_st nv_run)) = 6%nat.
Proof. vm_compute. repeat split. Qed.

Example C15_quit_nonvacuous :
  let r := debug_run 3 [(0, 12)] [32] [] 12 (mem_of_list nv_words) [] [L "s"; L "r 0x20"; L "Q"] in
  d_cause r = DQuit /\ ops (d_st r) = 2 /\
  d_events r = [EvPause true 32 1 (Some 17) (Some 64); EvAct AStep; EvPause false 64 2 (Some 0) (Some 32);
                EvReadWord 32 17; EvAct AExit].
Proof. vm_compute. repeat split. Qed.
