(* C18 - a device failure or interrupt stops the run at a consistent point.  Statements only. *)
From FJ Require Import Lib.Base Spec.MachineSpec Model.Faults Model.RunCase Model.FaultCase Model.SignalCase Proofs.FaultsProps.
Local Open Scope N_scope.

(* If the device raises at its k-th call, the run stops in exactly the state the failure-free machine reaches
   after n whole ops (for some n): same memory, remaining input, ip and op count (initial + n); the op that was
   stopped is named in the history; of that op only the device calls already made are visible (its output bit
   when the failure is in the read that follows it).  Holds for every image, input, k and number of steps. *)
Theorem C18_stop_is_op_boundary :
  forall ww sg k fuel s calls rd s' calls',
    frun ww sg k fuel s calls = (DevFail rd, s', calls') ->
    exists n sn, steps ww sg n s = Some sn /\ stopped_at rd sn s' /\ ops sn = ops s + N.of_nat n /\ k = Some calls'.
Proof. exact frun_prefix. Qed.
Print Assumptions C18_stop_is_op_boundary.

(* A run that ends by itself before the failing call is a run of the machine definition. *)
Theorem C18_no_failure_no_effect :
  forall ww sg k fuel s calls c s' calls',
    frun ww sg k fuel s calls = (Halt c, s', calls') -> run ww sg fuel s = (c, s').
Proof. exact frun_halt. Qed.
Print Assumptions C18_no_failure_no_effect.

(* The except ladder of fjm_run.run: library IO exceptions propagate unchanged, KeyboardInterrupt becomes a
   statistics result, anything else is wrapped. *)
Theorem C18_ladder :
  run_ladder XLibIO = Reraised /\ run_ladder XEofOnWrite = Reraised /\
  run_ladder XKbdInt = KbdStatistics /\ run_ladder XForeign = WrappedRuntimeError.
Proof. repeat split. Qed.
Print Assumptions C18_ladder.

(* non-vacuity: an image whose first op outputs a bit; the device raises at call 0 *)
Example C18_failure_reachable :
  exists s', frun 4 [(0, 6)] (Some 0) 5 (init (mem_of_list [(0, 33); (1, 64)]) []) 0 = (DevFail false, s', 0).
Proof. eexists. vm_compute. reflexivity. Qed.

(* asynchronous interrupt: the campaign's verdict "consistent" (Model/SignalCase.v, evaluated on every signal case) means
   that everything observed is the machine's state after exactly the reported number of ops *)
Theorem C18_signal_verdict_sound : forall c,
  check_signal_case c = 0 ->
  exists s, run c.(c_ww) c.(c_segs) (N.to_nat c.(e_ops)) (init (mem_of_list c.(c_words)) (bytes_bits c.(c_input))) = (OutOfFuel, s)
            /\ s.(ops) = c.(e_ops) /\ out_is c s.(outp) = true /\ mem_is c s.(m) = true
            /\ (last_is c s.(hist) = true \/ last_is c (s.(ip) :: s.(hist)) = true).
Proof. exact check_signal_case_sound. Qed.
Print Assumptions C18_signal_verdict_sound.
