(* C04 (and C05) - full-width flagship macros for ALL operands, by composition instead of enumeration.  Statements only.

   The per-run theorems
       TC_<macro>_n<n>_w<w> : forall a b, a < 16 ^ n -> b < 16 ^ n -> block_correct ww segs img b<k> (hex_add n) [a; b]
   (n = 16: the 64-bit add, 2^128 operand pairs) are generated into coq/Gen from the image assembled from the CURRENT
   source by every run of ./check C04 (harness/fjverif/stl_compose.py) and closed with the theorems below.  The only
   computations are the finite checks named in the hypotheses of C04_compose_add (Model/StlDigit.v):
     chain_static                  sizes, distinct addresses, the entry state is in the declared domain
     pro_check                     one run: op 0 .. the first digit step
     digit_check i (digits, cells) one run per digit position i and per state of `digit_dom` = every digit value of every
                                   operand x every declared value of every state cell (hex.add: 16 x 16 x 2 carry x 2 x 1)
     epi_all                       one run per exit tail and state of `cell_dom`: after the digit steps .. that exit's `stl.loop` *)
From FJ Require Import Lib.Base Spec.MachineSpec Spec.StlSpec Model.StlRun Model.StlDigit
  Proofs.StlProps Proofs.Locality Proofs.StlCompose.
Local Open Scope N_scope.

(* LOCALITY (DESIGN 3.1).  run_fp is `run` logging the words T its ops read or write and the words W they write.  If s'
   has the same ip and input as s and agrees with s on T, then `run k s'` ends with the same cause after the same ops
   at the same ips, prints the same, its memory agrees with the final memory of s on T and is the memory of s' outside W. *)
Theorem C04_locality :
  forall ww sg k s c sf T W s',
    run_fp ww sg k s [] [] = (c, sf, T, W) ->
    ip s' = ip s -> inp s' = inp s ->
    (forall a, In a T -> mget0 (m s') a = mget0 (m s) a) ->
    exists sf',
      run ww sg k s' = (c, sf') /\
      ip sf' = ip sf /\ inp sf' = inp sf /\
      (exists o, outp sf = o ++ outp s /\ outp sf' = o ++ outp s') /\
      (exists h, hist sf = h ++ hist s /\ hist sf' = h ++ hist s') /\
      ops sf' + ops s = ops sf + ops s' /\
      (forall a, In a T -> mget0 (m sf') a = mget0 (m sf) a) /\
      (forall a, ~ In a W -> mget0 (m sf') a = mget0 (m s') a).
Proof. exact locality. Qed.
Print Assumptions C04_locality.

(* the instrumented run is the run *)
Theorem C04_run_fp_is_run : forall ww sg k s T W, fst (fst (run_fp ww sg k s T W)) = run ww sg k s.
Proof. exact run_fp_run. Qed.
Print Assumptions C04_run_fp_is_run.

(* k1 + k2 ops = k2 ops from the state after k1 ops (when the first part did not halt) *)
Theorem C04_run_split :
  forall ww sg k1 k2 s,
    run ww sg (k1 + k2) s = match run ww sg k1 s with (OutOfFuel, s1) => run ww sg k2 s1 | r => r end.
Proof. exact run_split. Qed.
Print Assumptions C04_run_split.

(* one checked segment, lifted by locality to EVERY memory that agrees with `image overridden by l` outside the words F
   the segment is checked not to touch: it reaches one of the stop addresses after some k ops, leaves F alone and the
   rest is the image overridden by l' *)
Theorem C04_segment_transfer :
  forall ww sg img ch F A stops l l' ipf,
    seg_eval ww sg img ch F A stops l = Some (l', ipf) ->
    map fst l' = map fst l /\ In ipf stops /\
    forall m0 n0 h0, (forall a, F a = false -> mget0 m0 a = over img l a) ->
      exists k sf, run ww sg k (mkst A m0 [] [] n0 h0) = (OutOfFuel, sf) /\ ip sf = ipf /\ inp sf = [] /\ outp sf = [] /\
        (forall a, F a = true -> mget0 (m sf) a = mget0 m0 a) /\
        (forall a, F a = false -> mget0 (m sf) a = over img l' a).
Proof. exact seg_eval_sound. Qed.
Print Assumptions C04_segment_transfer.

(* the carry chain is addition: digit lists in base B, least significant first, last carry dropped *)
Theorem C04_ripple_add_correct :
  forall B ds, B <> 0 -> forall ss c, length ss = length ds ->
    value B (ripple B ds ss c) = (value B ds + value B ss + c) mod B ^ N.of_nat (length ds).
Proof. exact ripple_add_correct. Qed.
Print Assumptions C04_ripple_add_correct.

(* any rep-over-the-digits block: if the finite checks hold, then from the image patched with ANY operand values the block
   reaches the `stl.loop` of the exit e that the digit specification D determines (chain_rel), having printed that exit's
   marker, and the final memory is described digit by digit (rows' = final digit rows incl. the private temporaries of
   the digit steps, `vpart` = their operand part) *)
Theorem C04_chain_run :
  forall ww sg img ch (D : dspec) pexp,
    chain_static ww img ch = true ->
    pro_check ww sg img ch pexp = true ->
    (forall i, (i < ch_n ch)%nat -> forallb (digit_check ww sg img ch D i) (digit_dom ch i) = true) ->
    epi_all ww sg img ch = true ->
    forall vs, length vs = length (cvars ch) ->
    exists cvP rows' cvE e xa marker cvF k s,
      prefixb pexp (cv_idx (ch_cells ch) cvP) = true /\
      chain_rel (ch_cells ch) (ch_fall ch) D (rows_of ch vs) cvP (map (vpart ch) rows') cvE e /\
      rows_okb ch 0 rows' = true /\ length rows' = ch_n ch /\
      nth_error (b_exits (ch_block ch)) (N.to_nat e) = Some (xa, marker) /\
      run ww sg k (init (start_mem ww img (ch_block ch) vs) []) = (Looping, s) /\ ip s = xa /\
      out_bytes (outp s) = (marker, []) /\
      Inv ww img ch rows' cvF (m s) /\
      (forall a, In a (cell_addrs ch) ->
         eq_mod (scratch_mask (ch_block ch) a) (over img (sig_cells ch cvF) a) (over img (sig_cells ch (cv0 img ch)) a) = true).
Proof. exact chain_run. Qed.
Print Assumptions C04_chain_run.

(* dst[:n] += src[:n] for ALL operands: the frame equation of Spec/StlSpec.v for v_add (= hex_add n / bit_add n) *)
Theorem C04_compose_add :
  forall ww sg img ch,
    ch_rev ch = false -> ch_fall ch = 0 ->
    chain_static ww img ch = true ->
    length (cvars ch) = 2%nat ->
    pro_check ww sg img ch [0] = true ->
    (forall i, (i < ch_n ch)%nat ->
       forallb (digit_check ww sg img ch (dspec_add (2 ^ ch_bits ch)) i) (digit_dom ch i) = true) ->
    epi_all ww sg img ch = true ->
    forall a b, a < 2 ^ (ch_bits ch * N.of_nat (ch_n ch)) -> b < 2 ^ (ch_bits ch * N.of_nat (ch_n ch)) ->
    block_correct ww sg img (ch_block ch) (v_add (ch_bits ch * N.of_nat (ch_n ch))) [a; b].
Proof. exact compose_add. Qed.
Print Assumptions C04_compose_add.

(* dst[:n] -= src[:n] for ALL operands (borrow chain = ripple addition of the complemented subtrahend) *)
Theorem C04_compose_sub :
  forall ww sg img ch,
    ch_rev ch = false -> ch_fall ch = 0 ->
    chain_static ww img ch = true ->
    length (cvars ch) = 2%nat ->
    pro_check ww sg img ch [0] = true ->
    (forall i, (i < ch_n ch)%nat ->
       forallb (digit_check ww sg img ch (dspec_sub (2 ^ ch_bits ch)) i) (digit_dom ch i) = true) ->
    epi_all ww sg img ch = true ->
    forall a b, a < 2 ^ (ch_bits ch * N.of_nat (ch_n ch)) -> b < 2 ^ (ch_bits ch * N.of_nat (ch_n ch)) ->
    block_correct ww sg img (ch_block ch) (v_sub (ch_bits ch * N.of_nat (ch_n ch))) [a; b].
Proof. exact compose_sub. Qed.
Print Assumptions C04_compose_sub.

(* digit-wise macros without a carry (hex.xor / hex.or / hex.and: F = f = N.lxor / N.lor / N.land): dst = F dst src *)
Theorem C04_compose_digitwise :
  forall ww sg img ch f F,
    (forall x y j, dg (ch_bits ch) j (F x y) = f (dg (ch_bits ch) j x) (dg (ch_bits ch) j y)) ->
    ch_rev ch = false -> ch_fall ch = 0 ->
    chain_static ww img ch = true ->
    length (cvars ch) = 2%nat ->
    pro_check ww sg img ch [] = true ->
    (forall i, (i < ch_n ch)%nat -> forallb (digit_check ww sg img ch (dspec_map2 f) i) (digit_dom ch i) = true) ->
    epi_all ww sg img ch = true ->
    forall a b, block_correct ww sg img (ch_block ch) (v_map2 F) [a; b].
Proof. exact compose_map2. Qed.
Print Assumptions C04_compose_digitwise.

Theorem C04_digit_of_bitwise :
  forall bits x y j,
    dg bits j (N.lxor x y) = N.lxor (dg bits j x) (dg bits j y) /\
    dg bits j (N.lor x y) = N.lor (dg bits j x) (dg bits j y) /\
    dg bits j (N.land x y) = N.land (dg bits j x) (dg bits j y).
Proof. exact (fun bits x y j => conj (dg_lxor bits x y j) (conj (dg_lor bits x y j) (dg_land bits x y j))). Qed.
Print Assumptions C04_digit_of_bitwise.

(* x[:n] = !x[:n] for ALL operands *)
Theorem C04_compose_not :
  forall ww sg img ch,
    ch_rev ch = false -> ch_fall ch = 0 ->
    chain_static ww img ch = true ->
    length (cvars ch) = 1%nat ->
    pro_check ww sg img ch [] = true ->
    (forall i, (i < ch_n ch)%nat ->
       forallb (digit_check ww sg img ch (dspec_map1 (fun d => 2 ^ ch_bits ch - 1 - d)) i) (digit_dom ch i) = true) ->
    epi_all ww sg img ch = true ->
    forall a, a < 2 ^ (ch_bits ch * N.of_nat (ch_n ch)) ->
    block_correct ww sg img (ch_block ch) (v_not (ch_bits ch * N.of_nat (ch_n ch))) [a].
Proof. exact compose_not. Qed.
Print Assumptions C04_compose_not.

(* hex[:n]++ and hex[:n]-- for ALL operands (the macro leaves at the first digit that does not overflow / underflow) *)
Theorem C04_compose_inc :
  forall ww sg img ch,
    ch_rev ch = false -> ch_fall ch = 0 ->
    chain_static ww img ch = true ->
    length (cvars ch) = 1%nat ->
    pro_check ww sg img ch [] = true ->
    (forall i, (i < ch_n ch)%nat -> forallb (digit_check ww sg img ch (dspec_inc (2 ^ ch_bits ch)) i) (digit_dom ch i) = true) ->
    epi_all ww sg img ch = true ->
    forall a, a < 2 ^ (ch_bits ch * N.of_nat (ch_n ch)) ->
    block_correct ww sg img (ch_block ch) (v_inc (ch_bits ch * N.of_nat (ch_n ch))) [a].
Proof. exact compose_inc. Qed.
Print Assumptions C04_compose_inc.

Theorem C04_compose_dec :
  forall ww sg img ch,
    ch_rev ch = false -> ch_fall ch = 0 ->
    chain_static ww img ch = true ->
    length (cvars ch) = 1%nat ->
    pro_check ww sg img ch [] = true ->
    (forall i, (i < ch_n ch)%nat -> forallb (digit_check ww sg img ch (dspec_dec (2 ^ ch_bits ch)) i) (digit_dom ch i) = true) ->
    epi_all ww sg img ch = true ->
    forall a, a < 2 ^ (ch_bits ch * N.of_nat (ch_n ch)) ->
    block_correct ww sg img (ch_block ch) (v_dec (ch_bits ch * N.of_nat (ch_n ch))) [a].
Proof. exact compose_dec. Qed.
Print Assumptions C04_compose_dec.

(* a<b: goto lt; a==b: goto eq; a>b: goto gt - for ALL operands (steps from the most significant digit, leaves at the
   first differing digit; exits lt = 1, eq = 2, gt = 3) *)
Theorem C04_compose_cmp :
  forall ww sg img ch,
    ch_rev ch = true -> ch_fall ch = 2 ->
    chain_static ww img ch = true ->
    length (cvars ch) = 2%nat ->
    pro_check ww sg img ch [] = true ->
    (forall i, (i < ch_n ch)%nat -> forallb (digit_check ww sg img ch dspec_cmp i) (digit_dom ch i) = true) ->
    epi_all ww sg img ch = true ->
    forall a b, a < 2 ^ (ch_bits ch * N.of_nat (ch_n ch)) -> b < 2 ^ (ch_bits ch * N.of_nat (ch_n ch)) ->
    block_correct ww sg img (ch_block ch) (v_cmp (ch_bits ch * N.of_nat (ch_n ch))) [a; b].
Proof. exact compose_cmp. Qed.
Print Assumptions C04_compose_cmp.

(* lexicographic comparison of digit lists, most significant digit first, is comparison of the values *)
Theorem C04_cmp_lex_correct :
  forall B ds ss, length ss = length ds ->
    (forall d, In d ds -> d < B) -> (forall s, In s ss -> s < B) ->
    cmp_lex ds ss = if valr B ds <? valr B ss then 1 else if valr B ds =? valr B ss then 2 else 3.
Proof. exact cmp_lex_correct. Qed.
Print Assumptions C04_cmp_lex_correct.

(* if hex[:n]==0 goto l0 else goto l1 (and if0 / if1) for ALL operands: xz / xnz = the exits taken for zero / non-zero *)
Theorem C04_compose_if :
  forall ww sg img ch xz xnz,
    ch_rev ch = false -> ch_fall ch = xz ->
    chain_static ww img ch = true ->
    length (cvars ch) = 1%nat ->
    pro_check ww sg img ch [] = true ->
    (forall i, (i < ch_n ch)%nat -> forallb (digit_check ww sg img ch (dspec_if xnz) i) (digit_dom ch i) = true) ->
    epi_all ww sg img ch = true ->
    forall a, a < 2 ^ (ch_bits ch * N.of_nat (ch_n ch)) ->
    block_correct ww sg img (ch_block ch) (v_if (ch_bits ch * N.of_nat (ch_n ch)) xz xnz) [a].
Proof. exact compose_if. Qed.
Print Assumptions C04_compose_if.

(* digit-wise macros that change both operands (hex.xor_zero: F = N.lxor, G = 0) *)
Theorem C04_compose_digitwise2 :
  forall ww sg img ch f g F G,
    (forall x y j, dg (ch_bits ch) j (F x y) = f (dg (ch_bits ch) j x) (dg (ch_bits ch) j y)) ->
    (forall x y j, dg (ch_bits ch) j (G x y) = g (dg (ch_bits ch) j x) (dg (ch_bits ch) j y)) ->
    ch_rev ch = false -> ch_fall ch = 0 ->
    chain_static ww img ch = true ->
    length (cvars ch) = 2%nat ->
    pro_check ww sg img ch [] = true ->
    (forall i, (i < ch_n ch)%nat -> forallb (digit_check ww sg img ch (dspec_map22 f g) i) (digit_dom ch i) = true) ->
    epi_all ww sg img ch = true ->
    forall a b, block_correct ww sg img (ch_block ch) (v_map22 F G) [a; b].
Proof. exact compose_map22. Qed.
Print Assumptions C04_compose_digitwise2.

(* one operand, digit-wise (hex.zero: F = f = fun _ => 0) *)
Theorem C04_compose_digitwise1 :
  forall ww sg img ch f F,
    (forall x j, dg (ch_bits ch) j (F x) = f (dg (ch_bits ch) j x)) ->
    ch_rev ch = false -> ch_fall ch = 0 ->
    chain_static ww img ch = true ->
    length (cvars ch) = 1%nat ->
    pro_check ww sg img ch [] = true ->
    (forall i, (i < ch_n ch)%nat -> forallb (digit_check ww sg img ch (dspec_map1 f) i) (digit_dom ch i) = true) ->
    epi_all ww sg img ch = true ->
    forall a, block_correct ww sg img (ch_block ch) (v_map1 F) [a].
Proof. exact compose_map1. Qed.
Print Assumptions C04_compose_digitwise1.

(* the arithmetic hypotheses are satisfiable: 0xFF + 0x01 ripples into 0x00, 0xFFFFFFFFFFFFFFFF + 1 wraps to 0 *)
Example C04_ripple_example :
  ripple 16 [15; 15] [1; 0] 0 = [0; 0] /\ value 16 [15; 15] = 255 /\
  hex_add 16 [18446744073709551615; 1] = Some ([0; 1], 0) /\
  hex_xor 16 = v_map2 N.lxor /\ hex_or 16 = v_map2 N.lor /\ hex_and 16 = v_map2 N.land.
Proof. repeat split; vm_compute; reflexivity. Qed.
