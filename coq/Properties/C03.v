(* C03 - macro expansion is hygienic inlining.  Statements only (proofs: Proofs/MacroProps.v).

   Model/Macro.v      resolve_macros : the preprocessor, transcribed (tied to /repo by the campaign of checks/c03.py)
   Spec/InlineSpec.v  inline         : the capture-avoiding textual inliner on resolved names

   wf_tree D          what the parser guarantees about a tree (identifiers are identifiers, parameters/locals pairwise
                      different, no `$` in a call argument, one call per code position in a body, file short names
                      are identifiers); evaluated on every tree the campaign dumps from the real parser. *)
From FJ Require Import Lib.Base.
From FJ Require Import Model.Ast Model.Expr Model.Macro Spec.InlineSpec Proofs.MacroProps.
Local Open Scope string_scope.

(* ---- substitution is one pass --------------------------------------------------------------------------------- *)

(* Substituting a dictionary sg into e (Expr.eval_new) gives an expression whose value, under ANY label table L, is the
   value of e where every substituted name stands for the value OF ITS REPLACEMENT UNDER L: the replacement is
   evaluated in the caller's environment and is never looked up through sg again - an argument spelled like a
   parameter, a local label or an iterator of the callee keeps its own meaning.  Both directions: the substitution
   succeeds and has that value exactly when e has a value in the composed environment. *)
Theorem C03_subst_once :
  forall (sg : msubst) (e : expr) (L : string -> option Z) (v : Z),
    (exists e', eval_new sg e = Ok e' /\ exact_eval L e' = Ok v) <-> exact_eval (env_subst L sg) e = Ok v.
Proof. exact subst_once_iff. Qed.
Print Assumptions C03_subst_once.

(* The dictionary pass of the code is the TEXTUAL one-pass substitution of the specification followed by constant
   folding, when the dictionary holds the folded forms of the textual bindings (R_sub). *)
Theorem C03_subst_once_textual :
  forall (pd : pdict) (b : binding) (e : expr),
    R_sub pd b -> eval_new (subst_of pd) e = eval_new empty_sub (subst (lookup b) e).
Proof. exact eval_new_is_subst_then_fold. Qed.
Print Assumptions C03_subst_once_textual.

(* ---- rep ------------------------------------------------------------------------------------------------------- *)

(* Whenever the code expands `rep(times, it) name args` (in any state, with any dictionary built by the preprocessor:
   folded replacements, no ':' names), the count evaluates to some n and the result is exactly that of the n calls
   name args[it := 0]; ...; name args[it := n-1] in sequence, the iterator being substituted SIMULTANEOUSLY with the
   parameters (innermost binder), each expansion under its own path "…:rep<j>:name". *)
Theorem C03_rep :
  forall w D rec pd prefix times it name args pos st st1,
    hygienic_dict pd -> Forall nice_expr args -> is_ident it = true ->
    step_op w D rec pd prefix (SRepCall times it name args pos) st = ROk st1 ->
    exists t' n, eval_new (subst_of pd) times = Ok t' /\ exact_eval (labels_env (ps_core st)) t' = Ok n /\
                 rep_calls rec (call_name name args) pd it args prefix pos (Z.to_nat n) 0 st = ROk st1.
Proof. exact rep_unrolls. Qed.
Print Assumptions C03_rep.

(* rep 0 expands to nothing (not even a look-up of the macro) *)
Theorem C03_rep_zero :
  forall w D rec pd prefix times it name args pos st st1 t',
    step_op w D rec pd prefix (SRepCall times it name args pos) st = ROk st1 ->
    eval_new (subst_of pd) times = Ok t' -> exact_eval (labels_env (ps_core st)) t' = Ok 0%Z -> st1 = st.
Proof. exact rep_zero. Qed.
Print Assumptions C03_rep_zero.

(* ---- generated names --------------------------------------------------------------------------------------------- *)

(* A generated local-label name "path---l" is not a name a program can spell (`-` is not an identifier character),
   and two generated names are equal only for the same label l of expansions reached through calls with the same
   file short name, line, repetition index, macro name and arity (injectivity of the path rendering). *)
Theorem C03_fresh :
  forall pi1 l1 pi2 l2,
    Forall step_wf pi1 -> Forall step_wf pi2 -> is_ident l1 = true -> is_ident l2 = true ->
    user_name (impl_fresh pi1 l1) = false /\
    (impl_fresh pi1 l1 = impl_fresh pi2 l2 -> map frame_data pi1 = map frame_data pi2 /\ l1 = l2).
Proof. exact fresh_names. Qed.
Print Assumptions C03_fresh.

(* On the expansion paths that occur in a well-formed tree (each step a call statement of the body reached so far,
   repetition indices >= 0) the code's naming is injective outright: the same generated name means the same label of
   the same expansion - the names of different expansions are renamed apart. *)
Theorem C03_fresh_paths :
  forall D pi1 l1 pi2 l2,
    wf_tree D = true -> valid_path D pi1 -> valid_path D pi2 -> is_ident l1 = true -> is_ident l2 = true ->
    impl_fresh pi1 l1 = impl_fresh pi2 l2 -> pi1 = pi2 /\ l1 = l2.
Proof. exact fresh_on_valid_paths. Qed.
Print Assumptions C03_fresh_paths.

(* the hygienic iterator name "…:rep:i" is neither a user name nor a local-label name nor a dictionary key *)
Theorem C03_fresh_iterator :
  forall prefix pos it, is_ident it = true ->
    niceb (hygienic_iterator prefix pos it) = false /\
    (forall s, dotted_ident s = true -> s <> hygienic_iterator prefix pos it) /\
    (forall p l, is_ident l = true -> local_label p l <> hygienic_iterator prefix pos it).
Proof. exact iterator_name_fresh. Qed.
Print Assumptions C03_fresh_iterator.

(* ---- expansion = inlining ------------------------------------------------------------------------------------------ *)

(* For every memory width, every well-formed tree and every depth limit: if the macro program expands (resolve_macros
   succeeds) and the specification's inliner is defined on it (rep counts are constant expressions), then the inlined
   program P is macro free, and the preprocessor expands P to THE SAME op list and to a label table that agrees with
   the macro program's on every name that is not a macro-start label (debug information no expression can name).
   Generated names are taken as the code builds them (impl_fresh), so the renaming is the identity here; C03_fresh
   says that this naming is fresh and injective.  Equal op lists and label values give equal images by C02. *)
Theorem C03_inline :
  forall w D depth ops lbls P,
    wf_tree D = true ->
    resolve_macros w D depth = ROk (ops, lbls) ->
    inline impl_fresh D (N.to_nat depth) = Some P ->
    Forall (fun s => stmt_primitive s = true) P /\
    exists lbls', resolve_macros w (prim_tree P) depth = ROk (ops, lbls') /\
                  forall s, is_start_label s = false -> dict_get lbls' s = dict_get lbls s.
Proof. exact inline_correct. Qed.
Print Assumptions C03_inline.

(* Any admissible naming.  The textual inliner may name the local labels of the expansions as it likes, provided the
   naming is admissible for the program ([admissible_for] in Proofs/MacroProps.v):
     - different (expansion, local label) pairs - over the expansion paths of D - get different names, and
     - no generated name is reserved: a name the program writes (in an expression or as a declared label), `$`, an
       assembler-internal label `_.wflip_area_start_<k>`, or the main macro's start label.
   Then the inlined program P is macro free and the preprocessor expands it to ops whose word VALUES under P's own
   label table are exactly the values of the macro program's ops under the macro program's label table
   ([eval_lop]: flip/jump/wflip words as the last assembly phase reads them - FlipJump.get_flip(labels) ... -, padding
   counts, segment and reserve addresses).  Label NAMES differ by the one-to-one renaming of generated names; they
   reach the image only through these values.  Proof: C03_inline for the code's own naming, then invariance of the
   expansion of macro-free programs under a one-to-one correspondence of names (inline_rel, run_ops_rel, Nt_biinj). *)
Theorem C03_inline_any_naming :
  forall w D depth ops lbls fresh P,
    wf_tree D = true -> admissible_for D fresh ->
    resolve_macros w D depth = ROk (ops, lbls) ->
    inline fresh D (N.to_nat depth) = Some P ->
    Forall (fun s => stmt_primitive s = true) P /\
    exists ops' lbls', resolve_macros w (prim_tree P) depth = ROk (ops', lbls') /\
                       map (eval_lop lbls) ops = map (eval_lop lbls') ops'.
Proof. exact inline_any_naming. Qed.
Print Assumptions C03_inline_any_naming.

(* the code's own naming is admissible for every well-formed tree, and so is another one (the same path rendering
   behind a tag character no program can write) *)
Theorem C03_admissible_namings :
  forall D, wf_tree D = true -> admissible_for D impl_fresh /\ admissible_for D fresh_tagged.
Proof. intros D WF. split; [exact (impl_admissible D WF) | exact (tagged_admissible D WF)]. Qed.
Print Assumptions C03_admissible_namings.

(* ---- several files --------------------------------------------------------------------------------------------------- *)

(* Reading the same statements from several files gives the tree D of the one-file program at other code positions
   (tree_repos phi D, for any map phi of positions that keeps the tree well formed).  It expands to the same op list -
   and the same labels but for macro-start labels - as the macro-free program obtained by inlining D ITSELF with the
   local-label names that carry the new positions: splitting changes the file:line components of generated names and
   nothing else.  (Together with C03_inline: both programs are expansions of inlinings of the same tree D.) *)
Theorem C03_split :
  forall phi w D depth ops lbls P,
    wf_tree (tree_repos phi D) = true ->
    resolve_macros w (tree_repos phi D) depth = ROk (ops, lbls) ->
    inline (fun p => impl_fresh (map (step_repos phi) p)) D (N.to_nat depth) = Some P ->
    Forall (fun s => stmt_primitive s = true) P /\
    exists lbls', resolve_macros w (prim_tree P) depth = ROk (ops, lbls') /\
                  forall s, is_start_label s = false -> dict_get lbls' s = dict_get lbls s.
Proof. exact split_correct. Qed.
Print Assumptions C03_split.

(* the statements of the files are expanded as one concatenated body: the second part starts in the state (address,
   ops, labels) the first part leaves *)
Theorem C03_split_concat :
  forall w D rec pd prefix ops1 ops2 st,
    run_ops w D rec pd prefix (ops1 ++ ops2) st = rbind (run_ops w D rec pd prefix ops1 st) (run_ops w D rec pd prefix ops2).
Proof. exact run_ops_concat. Qed.
Print Assumptions C03_split_concat.

(* ---- namespace resolution -------------------------------------------------------------------------------------------- *)

(* k+1 leading dots strip k levels of the current namespace (FJParser.base_name_to_ns_full_name is Spec ns_resolve);
   more dots than levels is the recorded syntax error.  `rest` does not start with a dot. *)
Theorem C03_ns_resolve :
  forall curr k rest,
    lstrip_dots rest = (O, rest) ->
    match ns_resolve curr (S k) rest with
    | Some s => base_name_to_ns_full_name curr (String "." (Nat.iter k (String ".") rest)) = NsName s
    | None => exists r, base_name_to_ns_full_name curr (String "." (Nat.iter k (String ".") rest)) = NsTooManyDots r
    end.
Proof. exact ns_resolve_correct. Qed.
Print Assumptions C03_ns_resolve.

(* ---- the hypotheses are satisfiable: a program with namespaces, aliases, nested calls and a rep ----------------------- *)

Local Open Scope N_scope.
Definition example_tree : macro_dict :=
 [(("", 0%N), mkmacro [] [] [SLabel "a.x" (mkpos "t2.fj" "f1" 2%N);
   SFlipJump (EInt (0)%Z) (ELbl "a.x") (mkpos "t2.fj" "f1" 3%N);
   SMacroCall "a.m" [EInt (77)%Z] (mkpos "t2.fj" "f1" 20%N);
   SMacroCall "a.b.k" [EInt (5)%Z] (mkpos "t2.fj" "f1" 21%N);
   SRepCall (EInt (2)%Z) "i" "a.b.k" [ELbl "i"] (mkpos "t2.fj" "f1" 22%N)] "" (mkpos "t2.fj" "f1" 1%N));
 (("a.m", 1%N), mkmacro ["x"] [] [SFlipJump (EInt (0)%Z) (ELbl "a.x") (mkpos "t2.fj" "f1" 5%N);
   SFlipJump (EInt (0)%Z) (ELbl "x") (mkpos "t2.fj" "f1" 6%N);
   SFlipJump (EInt (0)%Z) (ELbl "a.x") (mkpos "t2.fj" "f1" 7%N)] "a" (mkpos "t2.fj" "f1" 4%N));
 (("a.b.k", 1%N), mkmacro ["p"] ["q"] [SLabel "a.b.q" (mkpos "t2.fj" "f1" 11%N);
   SFlipJump (EInt (0)%Z) (ELbl "a.x") (mkpos "t2.fj" "f1" 12%N);
   SFlipJump (EInt (0)%Z) (ELbl "a.b.q") (mkpos "t2.fj" "f1" 13%N);
   SFlipJump (EInt (0)%Z) (ELbl "a.b.q") (mkpos "t2.fj" "f1" 14%N);
   SFlipJump (EInt (0)%Z) (ELbl "p") (mkpos "t2.fj" "f1" 15%N);
   SMacroCall "a.m" [ELbl "q"] (mkpos "t2.fj" "f1" 16%N)] "a.b" (mkpos "t2.fj" "f1" 10%N))].

Example C03_hypotheses_satisfiable :
  wf_tree example_tree = true /\
  (exists ops lbls P, resolve_macros 64 example_tree 900 = ROk (ops, lbls) /\ List.length ops = 26%nat /\
                      inline impl_fresh example_tree (N.to_nat 900) = Some P /\ List.length P = 29%nat) /\
  check_mcase (mkmcase 64 900 example_tree (ExpErr 0) None) = 30.
Proof.
  split; [vm_compute; reflexivity|]. split; [|vm_compute; reflexivity].
  eexists _, _, _. split; [vm_compute; reflexivity|]. split; [reflexivity|]. split; [vm_compute; reflexivity | reflexivity].
Qed.

(* the other file split of the same program: positions moved to a second file *)
Example C03_split_satisfiable :
  let phi := fun p => mkpos (cp_file p) "f2" (cp_line p + 100) in
  wf_tree (tree_repos phi example_tree) = true /\
  (exists ops lbls, resolve_macros 64 (tree_repos phi example_tree) 900 = ROk (ops, lbls)) /\
  (exists P, inline (fun p => impl_fresh (map (step_repos phi) p)) example_tree (N.to_nat 900) = Some P).
Proof.
  split; [vm_compute; reflexivity|]. split; [eexists _, _; vm_compute; reflexivity | eexists; vm_compute; reflexivity].
Qed.

(* ---- the guard `no $ in a call argument` (part of wf_tree) is needed: `$` passed as an argument is NOT substituted ---- *)
(* def m x { ;x }   m $   ;0  : the code leaves `$` in the expanded op (the assembly is then rejected: "Can't evaluate
   label $"), the textual inlining `;$` means the next address.  Reported as a finding; replayed by the directed cases
   of checks/c03.py. *)
Definition dollar_tree : macro_dict :=
 [(("", 0%N), mkmacro [] [] [SMacroCall "m" [ELbl "$"] (mkpos "t.fj" "f1" 4%N);
                              SFlipJump (EInt 0%Z) (EInt 0%Z) (mkpos "t.fj" "f1" 5%N)] "" (mkpos "t.fj" "f1" 1%N));
  (("m", 1%N), mkmacro ["x"] [] [SFlipJump (EInt 0%Z) (ELbl "x") (mkpos "t.fj" "f1" 2%N)] "" (mkpos "t.fj" "f1" 1%N))].

Example C03_inline_dollar_argument_refuted :
  wf_tree dollar_tree = false /\
  exists ops lbls P ops' lbls',
    resolve_macros 64 dollar_tree 900 = ROk (ops, lbls) /\ inline impl_fresh dollar_tree (N.to_nat 900) = Some P /\
    resolve_macros 64 (prim_tree P) 900 = ROk (ops', lbls') /\
    nth 1 ops (LPadding 0) = LFlipJump (EInt 0%Z) (ELbl "$") /\ nth 1 ops' (LPadding 0) = LFlipJump (EInt 0%Z) (EInt 128%Z).
Proof.
  split; [vm_compute; reflexivity|]. eexists _, _, _, _, _.
  split; [vm_compute; reflexivity|]. split; [vm_compute; reflexivity|]. split; [vm_compute; reflexivity|]. split; reflexivity.
Qed.

(* rep 0 does not need its callee: `; / rep(0, i) nosuch i` expands (to the one op) and inlines to the one statement,
   while `rep(1, i) nosuch i` is rejected (macro not defined) and has no inlining.  (The model returns before
   prepare_macro_call when the count is 0; C03_rep_zero has no hypothesis about the callee.) *)
Definition rep_undefined_tree (n : Z) : macro_dict :=
 [(("", 0%N), mkmacro [] [] [SFlipJump (EInt 0%Z) (ELbl "$") (mkpos "t.fj" "f1" 1%N);
                              SRepCall (EInt n) "i" "nosuch" [ELbl "i"] (mkpos "t.fj" "f1" 2%N)] "" (mkpos "t.fj" "f1" 1%N))].

Example C03_rep_zero_undefined_callee :
  wf_tree (rep_undefined_tree 0) = true /\
  (exists lbls, resolve_macros 64 (rep_undefined_tree 0) 900 = ROk ([LNewSegment 0 128; LFlipJump (EInt 0%Z) (EInt 128%Z)], lbls)) /\
  (exists s, inline impl_fresh (rep_undefined_tree 0) (N.to_nat 900) = Some [s]) /\
  resolve_macros 64 (rep_undefined_tree 1) 900 = RErr (PreUnknownMacro ("nosuch", 1%N)) /\
  inline impl_fresh (rep_undefined_tree 1) (N.to_nat 900) = None.
Proof.
  split; [vm_compute; reflexivity|]. split; [eexists; vm_compute; reflexivity|]. split; [eexists; vm_compute; reflexivity|].
  split; vm_compute; reflexivity.
Qed.

(* both namings are admissible for the example program, the inliner is defined under both, and the two inlined programs
   differ (the theorem is not about one naming in disguise) *)
Example C03_any_naming_satisfiable :
  admissible_for example_tree impl_fresh /\ admissible_for example_tree fresh_tagged /\
  (exists P1 P2, inline impl_fresh example_tree (N.to_nat 900) = Some P1 /\
                 inline fresh_tagged example_tree (N.to_nat 900) = Some P2 /\
                 nth 5 P1 (SLabel "" (mkpos "" "" 0)) = SLabel "f1:l21:a.b.k(1)---q" (mkpos "t2.fj" "f1" 11%N) /\
                 nth 5 P2 (SLabel "" (mkpos "" "" 0)) = SLabel "@f1:l21:a.b.k(1)---q" (mkpos "t2.fj" "f1" 11%N)).
Proof.
  assert (WF : wf_tree example_tree = true) by (vm_compute; reflexivity).
  split; [exact (impl_admissible _ WF)|]. split; [exact (tagged_admissible _ WF)|].
  eexists _, _. split; [vm_compute; reflexivity|]. split; [vm_compute; reflexivity|]. split; reflexivity.
Qed.
