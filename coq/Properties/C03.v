From FJ Require Import Lib.Base.
From FJ Require Import Model.Ast Model.Expr Model.Macro Spec.InlineSpec Proofs.MacroProps.
Theorem C03_placeholder : True. Proof. exact placeholder_true. Qed.
Print Assumptions C03_placeholder.
