(* C04 - hex library macros compute their documented function for every operand.  Statements only.

   The per-macro instance theorems
       T_<macro>_<params>_w<w> : forall vs, in_dom <ranges> vs -> block_correct ww segs img b<k> <spec> vs
   are generated into coq/Gen from the image assembled from the CURRENT source by every run of ./check C04
   (harness/fjverif/stl.py) and proved there with the two theorems below; the evidence file lists them. *)
From FJ Require Import Lib.Base Spec.MachineSpec Spec.StlSpec Model.StlRun Proofs.StlProps.
Local Open Scope N_scope.

(* a `true` of the checker is the frame equation: the machine halts by the self-loop of the documented exit, has
   printed that exit's marker, and every word of the final memory equals the image patched with the documented
   values, except the declared scratch bits *)
Theorem C04_checker_decides_frame_equation :
  forall ww sg img b S vs, check_block ww sg img b S vs = true -> block_correct ww sg img b S vs.
Proof. exact check_block_sound. Qed.
Print Assumptions C04_checker_decides_frame_equation.

(* enumeration of a stated finite operand domain is a universally quantified statement over that domain *)
Theorem C04_enumeration_is_universal :
  forall ww sg img b S rs,
    forallb (check_block ww sg img b S) (enum_dom rs) = true ->
    forall vs, in_dom rs vs -> block_correct ww sg img b S vs.
Proof. exact blocks_by_enumeration. Qed.
Print Assumptions C04_enumeration_is_universal.

(* a word that no executed op wrote keeps its initial value (why comparing the written words suffices) *)
Theorem C04_unwritten_words_keep_their_value :
  forall ww sg d s c s' wl,
    run_pow ww sg d s [] = Halt c s' wl ->
    (exists k, run ww sg k s = (c, s')) /\ forall a, ~ In a wl -> mget (m s') a = mget (m s) a.
Proof. exact run_pow_halt. Qed.
Print Assumptions C04_unwritten_words_keep_their_value.

(* domains can be cut into shards along any operand *)
Theorem C04_domain_sharding :
  forall pre (P : list N -> Prop) lo mid hi rs,
    (forall vs, in_dom (pre ++ (lo, mid) :: rs) vs -> P vs) -> (forall vs, in_dom (pre ++ (mid, hi) :: rs) vs -> P vs) ->
    forall vs, in_dom (pre ++ (lo, hi) :: rs) vs -> P vs.
Proof. exact dom_split_at. Qed.
Print Assumptions C04_domain_sharding.

(* the hypotheses are satisfiable: a two-operand domain and a spec that is defined on it *)
Example C04_domain_inhabited : in_dom [(0, 256); (0, 256)] [200; 100] /\ hex_add 2 [200; 100] = Some ([44; 100], 0).
Proof. split; [repeat constructor; cbn; lia | vm_compute; reflexivity]. Qed.
