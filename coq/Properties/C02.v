From FJ Require Import Lib.Base.
(* C02: the assembled image equals the denotation of the macro-free source. *)
From FJ Require Import Spec.MachineSpec Model.Ast Spec.DenoteSpec Model.DenoteCheck Model.Layout.
From FJ Require Import Proofs.DenoteProps Proofs.LayoutProps Proofs.LayoutChains.
Local Open Scope string_scope.

(* 1. the certified checker decides the property for one program on the implementation's own output
      (run inside Coq by ./check C02 on every generated program) *)
Theorem C02_check_denotes_sound :
  forall (ww : N) (img : image) (P : list stmt) (lbls : labels),
    check_denotes ww img P lbls = true -> Denotes ww img P lbls.
Proof. exact check_denotes_sound. Qed.
Print Assumptions C02_check_denotes_sound.

(* 2. universal theorems about the model of the assembler (Model/Layout.v), proved so far:
      the address and label clauses of Denotes ... *)
Theorem C02_sound_labels_partial :
  forall ww ver strict P segs words lbls,
    assemble_model ww ver strict P = Ok (segs, words, lbls) ->
    lexical_labels P = true ->
    exists L, place ww (lookup lbls) P 0 = Some L /\ Forall (label_ok lbls) L.
Proof. exact assemble_labels_sound. Qed.
Print Assumptions C02_sound_labels_partial.

(* ... all clauses of Denotes except the wflip clause (stmt_ok_static = stmt_ok with `True` for wflip statements): for
   every program the model (= the current code, strict_range = true) assembles, the statement addresses are defined,
   labels have the address of the next statement, each op's two words hold its expressions' values, reserved ranges
   are inside a segment and read zero, segments are loadable (pairwise disjoint, word-pair aligned, in range).
   lexical_labels (no label is spelled `:wflips:...`) is a property of parser output, see C02_sound below. *)
Theorem C02_sound_static_partial :
  forall ww ver P segs words lbls,
    assemble_model ww ver true P = Ok (segs, words, lbls) ->
    lexical_labels P = true ->
    exists L, place ww (lookup lbls) P 0 = Some L
              /\ loadable_segs ww segs = true
              /\ Forall (stmt_ok_static ww (image_of segs words) L lbls) L.
Proof. exact assemble_static_sound. Qed.
Print Assumptions C02_sound_static_partial.

(* ... and: whatever is emitted is a list of well-formed, pairwise disjoint, in-range, word-pair aligned segments
   (an overlapping / misaligned / out-of-range segment never reaches an image) *)
Theorem C02_rejects_segments_partial :
  forall ww ver strict P segs words lbls,
    assemble_model ww ver strict P = Ok (segs, words, lbls) ->
    exists wr, wr_inv ww wr /\ segs = read_segments wr /\ words = read_words ww ver wr.
Proof. exact assemble_segments_sound. Qed.
Print Assumptions C02_rejects_segments_partial.

(* ... the execution part of the wflip clause, on the machine definition, for ANY image (no assembler involved): a chain
   stored in the image (op x_i has flip word f_i and jump word x_{i+1}, the last one R) whose flips are the bits of
   the statement and whose ops after the first are auxiliary (aux_ok, not on the input-cell op, not below 2w) satisfies
   wflip_ok: from the statement's address the run performs |flip_bits A V| ops, flips exactly those bits, each once,
   and is at R - under the clause's side conditions (wflip_side_ok) *)
Theorem C02_wflip_exec :
  forall ww img (L : list placed) (a A V R : N) (cs : list (N * N)),
    cs <> [] -> next_of cs R = a ->
    chain_in ww (i_segs img) (i_mem img) cs R ->
    map snd cs = flip_bits ww A V ->
    NoDup (map snd cs) ->
    (forall x, In x (tl (map fst cs)) ->
               aux_ok ww img L x = true /\ covers_input ww x = false /\ (dw ww <= x)%N) ->
    wflip_ok ww img L a A V R.
Proof. exact wflip_exec. Qed.
Print Assumptions C02_wflip_exec.

(* ... hence the whole of Denotes, given only that every wflip statement has such a stored chain in the model's image
   (wflip_chain_ok = what C02_wflip_chain_invariant + C02_aux_placement still have to establish) *)
Theorem C02_sound_modulo_chains_partial :
  forall ww ver P segs words lbls,
    assemble_model ww ver true P = Ok (segs, words, lbls) ->
    lexical_labels P = true ->
    (forall L, place ww (lookup lbls) P 0 = Some L -> Forall (wflip_chain_ok ww (image_of segs words) L lbls) L) ->
    Denotes ww (image_of segs words) P lbls.
Proof. exact assemble_sound_modulo_chains. Qed.
Print Assumptions C02_sound_modulo_chains_partial.

(* ... and the first part of the auxiliary placement: for every program the model assembles, no chain op (label
   `:wflips:k`) is on the op that holds the input cell - the fix of finding F16, for all programs *)
Theorem C02_aux_not_on_io_partial :
  forall ww ver strict P segs words lbls,
    assemble_model ww ver strict P = Ok (segs, words, lbls) -> lexical_labels P = true -> aux_on_io ww lbls = false.
Proof. exact assemble_aux_not_on_io. Qed.
Print Assumptions C02_aux_not_on_io_partial.

(* ... the hypothesis of C02_sound_modulo_chains_partial holds (Proofs/LayoutChains.v: the sharing-table invariant of
   insert_wflip_ops): in the image of every program the model assembles, every wflip statement has a stored chain that
   starts at the statement's own address, flips exactly flip_bits A V in order, ends with a jump to R, and whose ops
   after the first are auxiliary: aux_ok (in a pad hole or in the wflip area of a segment, overlapping no op / wflip /
   reserve), not on the input-cell op, not below 2w.  A table entry made in an earlier segment stays a valid chain
   (emitted words never change), so reusing it from a later segment is covered. *)
Theorem C02_wflip_chain_invariant :
  forall ww ver P segs words lbls,
    assemble_model ww ver true P = Ok (segs, words, lbls) ->
    lexical_labels P = true ->
    forall L, place ww (lookup lbls) P 0 = Some L -> Forall (wflip_chain_ok ww (image_of segs words) L lbls) L.
Proof. exact assemble_chains. Qed.
Print Assumptions C02_wflip_chain_invariant.

(* THE theorem: for every macro-free program the model of the current assembler (strict_range = true) assembles, the
   image is the program's denotation.  No defect guard is left (F17 and F18 are fixed in /repo and in the model, see
   C02_F17_rejected / C02_F18_rejected).  The one hypothesis, lexical_labels P = "no label statement is spelled
   `:wflips:...`", is a property of parser output: identifiers are [a-zA-Z_][a-zA-Z_0-9]* joined by dots
   (fj_parser.py id_re / dot_id_re) and never contain `:`; the assembler generates the names `:wflips:<k>` for its
   auxiliary ops and assigns them without a duplicate check (BinaryData._insert_wflip_label), which is harmless exactly
   because no source label can have such a name. *)
Theorem C02_sound :
  forall ww ver P segs words lbls,
    assemble_model ww ver true P = Ok (segs, words, lbls) ->
    lexical_labels P = true ->
    Denotes ww (image_of segs words) P lbls.
Proof. exact assemble_sound. Qed.
Print Assumptions C02_sound.

(* the general statements of Proofs/LayoutProps.v (any strict flag, C02_guards): the second is a corollary of the first *)
Theorem C02_rejects_from_sound_partial : C02_sound_statement -> C02_rejects_statement.
Proof. exact C02_rejects_from_sound. Qed.
Print Assumptions C02_rejects_from_sound_partial.

(* 3. the hypotheses are satisfiable: a program with shared wflip chains, pad holes, a reserve and two segments *)
Definition ps := mkpos "f1.fj" "f1" 1%N.
Definition prog_ok : list stmt :=
  [SFlipJump (EInt 0) (ELbl "a") ps; SLabel "r" ps; SFlipJump (EInt 0) (ELbl "r") ps;
   SLabel "t" ps; SFlipJump (EInt 0) (EInt 0) ps; SFlipJump (EInt 0) (EInt 0) ps;
   SLabel "a" ps; SWordFlip (ELbl "t") (EInt 14) (ELbl "r") ps; SWordFlip (ELbl "t") (EInt 13) (ELbl "r") ps;
   SPad (EInt 4) ps; SWordFlip (EOp OAdd [ELbl "t"; EInt 16]) (EInt 7) (ELbl "a") ps;
   SReserve (EInt 64) ps; SFlipJump (ELbl "$") (EOp OSub [ELbl "$"; EInt 32]) ps;
   SSegment (EInt 1024) ps; SLabel "z" ps; SFlipJump (EInt 0) (ELbl "z") ps].

Example C02_nonvacuous :
  exists segs words lbls,
    assemble_model 4 3 true prog_ok = Ok (segs, words, lbls)
    /\ C02_guards 4 3 true prog_ok lbls = true
    /\ Denotes 4 (image_of segs words) prog_ok lbls.
Proof.
  eexists. eexists. eexists. split; [vm_compute; reflexivity|]. split; [vm_compute; reflexivity|].
  apply check_denotes_sound. vm_compute. reflexivity.
Qed.

(* two benign programs on which an earlier, over-strict formalisation of the spec was false (the code is right, the
   assembler's output is the same as below): `wflip A, 0, R` with a negative A (value 0: the address is not looked at;
   the clause demanded 0 <= A unconditionally) and a zero-size reserve placed, in another segment, on the middle word
   of an auxiliary chain op (an empty interval overlaps nothing; `occupies` counted it).  Spec/DenoteSpec.v now says
   `V = 0 \/ 0 <= A` and `occupies` needs pl_addr < pl_next. *)
Definition prog_null_wflip : list stmt := [SWordFlip (EInt (-16)) (EInt 0) (EInt 0) ps].
Definition prog_empty_reserve : list stmt :=
  [SWordFlip (ELbl "t") (EInt 3) (EInt 0) ps; SLabel "t" ps; SFlipJump (EInt 0) (EInt 0) ps;
   SSegment (EInt 80) ps; SReserve (EInt 0) ps].
Example C02_null_wflip_negative_address :
  exists segs words lbls,
    assemble_model 4 0 true prog_null_wflip = Ok (segs, words, lbls) /\ Denotes 4 (image_of segs words) prog_null_wflip lbls.
Proof. eexists. eexists. eexists. split; [vm_compute; reflexivity|]. apply check_denotes_sound. vm_compute. reflexivity. Qed.
Example C02_empty_reserve_inside_aux_op :
  exists segs words lbls,
    assemble_model 4 0 true prog_empty_reserve = Ok (segs, words, lbls)
    /\ lookup lbls ":wflips:0" = Some 64%Z
    /\ Denotes 4 (image_of segs words) prog_empty_reserve lbls.
Proof.
  eexists. eexists. eexists. split; [vm_compute; reflexivity|]. split; [vm_compute; reflexivity|].
  apply check_denotes_sound. vm_compute. reflexivity.
Qed.

(* 4. the recorded defects and their fixes *)
Definition witness (ww ver : N) (P : list stmt) : Prop :=
  exists segs words lbls,
    assemble_model ww ver true P = Ok (segs, words, lbls)
    /\ check_denotes ww (image_of segs words) P lbls = false.

(* F16 (fixed in /repo by 435c753): the pad hole at 2w, the op that holds the input cell, is no longer handed to a wflip
   chain: the three chain ops go to the holes at 6w, 4w and then to the wflip area, and the image is the denotation *)
Definition prog_F16 : list stmt :=
  [SFlipJump (EInt 0) (ELbl "start") ps; SPad (EInt 4) ps; SLabel "start" ps;
   SWordFlip (ELbl "t") (EInt 15) (ELbl "done") ps; SLabel "done" ps; SFlipJump (EInt 0) (ELbl "done") ps;
   SLabel "t" ps; SFlipJump (EInt 0) (EInt 0) ps].
Example C02_F16_fixed :
  exists segs words lbls,
    assemble_model 4 0 true prog_F16 = Ok (segs, words, lbls)
    /\ lookup lbls ":wflips:2" = Some 224%Z /\ aux_on_io 4 lbls = false
    /\ Denotes 4 (image_of segs words) prog_F16 lbls.
Proof.
  eexists. eexists. eexists. split; [vm_compute; reflexivity|].
  split; [vm_compute; reflexivity|]. split; [vm_compute; reflexivity|].
  apply check_denotes_sound. vm_compute. reflexivity.
Qed.

(* F17 (fixed in /repo by 07c8d15): a source label `_.wflip_area_start_0` was overwritten by the first `segment`; it is
   now the 'label declared twice' error, whether the label comes before the segment or after it *)
Definition prog_F17 : list stmt :=
  [SLabel "_.wflip_area_start_0" ps; SFlipJump (EInt 0) (ELbl "_.wflip_area_start_0") ps;
   SFlipJump (EInt 0) (ELbl "_.wflip_area_start_0") ps; SSegment (EInt 256) ps; SFlipJump (EInt 0) (ELbl "$") ps].
Example C02_F17_rejected : assemble_model 4 0 true prog_F17 = LibError KLabelTwice /\ lexical_labels prog_F17 = true.
Proof. split; vm_compute; reflexivity. Qed.
Definition prog_F17_after : list stmt :=
  [SFlipJump (EInt 0) (EInt 0) ps; SSegment (EInt 256) ps; SLabel "_.wflip_area_start_0" ps; SFlipJump (EInt 0) (ELbl "$") ps].
Example C02_F17_after_rejected : assemble_model 4 0 true prog_F17_after = LibError KLabelTwice.
Proof. vm_compute. reflexivity. Qed.

(* F18 (fixed in /repo by 825c6f7): a negative reserve back to the start of the piece kept the earlier ops in the image;
   every negative reserve is now rejected where its size is evaluated *)
Definition prog_F18 : list stmt :=
  [SFlipJump (EInt 0) (ELbl "s") ps; SSegment (EInt 1024) ps; SLabel "s" ps; SFlipJump (EInt 0) (ELbl "$") ps;
   SFlipJump (EInt 0) (ELbl "$") ps; SReserve (EInt (-64)) ps; SLabel "x" ps; SFlipJump (EInt 0) (ELbl "x") ps;
   SReserve (EInt 128) ps].
Example C02_F18_rejected : assemble_model 4 1 true prog_F18 = LibError KReserveNegative.
Proof. vm_compute. reflexivity. Qed.

(* F8 (fixed in /repo by b770ddf): an op word that does not fit [0, 2^w) is rejected; before the fix (strict_range =
   false) fjm versions 2/3 wrapped the jump word: kept as the regression witness the campaign signature refers to *)
Definition prog_F8 : list stmt := [SFlipJump (EInt 0) (EInt (-1)) ps].
Example C02_F8_rejected : assemble_model 3 2 true prog_F8 = LibError KWflipValue.
Proof. vm_compute. reflexivity. Qed.
(* without the asserts of b770ddf (strict_range = false) the program is still rejected, by the word-range check that
   3bd0fc0 added to Writer.add_data: the mod-2^w wrap of fjm versions 2/3 (finding F8) cannot come back silently *)
Example C02_F8_writer_backstop : assemble_model 3 2 false prog_F8 = LibError KWriterWordRange.
Proof. vm_compute. reflexivity. Qed.

(* the writer's check is reachable in the current code: a chain-link word holding a wflip-area address >= 2^w is emitted by
   a `reserve` before the end of the segment is validated (w = 8: the wflip area starts at 256 = 2^w) *)
Definition prog_word_range : list stmt :=
  [SFlipJump (EInt 0) (EInt 0) ps; SSegment (EInt 208) ps; SWordFlip (EInt 0) (EInt 3) (EInt 0) ps;
   SReserve (EInt 32) ps].
Example C02_writer_word_range : assemble_model 3 3 true prog_word_range = LibError KWriterWordRange.
Proof. vm_compute. reflexivity. Qed.
