From FJ Require Import Lib.Base.
(* C02: the assembled image equals the denotation of the macro-free source. *)
From FJ Require Import Spec.MachineSpec Model.Ast Spec.DenoteSpec Model.DenoteCheck Model.Layout Proofs.DenoteProps.

(* the certified checker decides the property for one program on the implementation's own output *)
Theorem C02_check_denotes_sound :
  forall (ww : N) (img : image) (P : list stmt) (lbls : labels),
    check_denotes ww img P lbls = true -> Denotes ww img P lbls.
Proof. exact check_denotes_sound. Qed.
Print Assumptions C02_check_denotes_sound.
