(* C17 - bit-level IO devices are byte-exact.  Statements only (proofs: Proofs/DevicesProps.v).
   Model/Devices.v transcribes FixedIO, StandardIO, KeyboardIO (+ ScriptedKeyEventSource) and BrokenIO;
   Spec/IOSpec.v says what every operation must answer.  No theorem below bounds a length. *)
From FJ Require Import Lib.Base Spec.MachineSpec Spec.IOSpec Model.Devices Proofs.DevicesProps.
From Coq Require Import Permutation Sorted.
Local Open Scope N_scope.

(* ---- bits <-> bytes -------------------------------------------------------------------------------- *)

(* the packing function is exactly the relation "bits of the bytes, lsb first, then fewer than 8 pending bits" *)
Theorem C17_pack_characterised :
  forall bs bytes pend, pack bs = (bytes, pend) <-> packs bs bytes pend.
Proof. exact pack_characterised. Qed.
Print Assumptions C17_pack_characterised.

Theorem C17_pack_unpack :
  forall bytes, Forall (fun b => b < 256) bytes -> pack (bytes_bits bytes) = (bytes, []).
Proof. exact pack_unpack. Qed.
Print Assumptions C17_pack_unpack.

Theorem C17_unpack_pack :
  forall bs, bytes_bits (fst (pack bs)) ++ snd (pack bs) = bs.
Proof. exact unpack_pack. Qed.
Print Assumptions C17_unpack_pack.

Theorem C17_pack_pending_count :
  forall bs, length (snd (pack bs)) = (length bs mod 8)%nat /\ length (fst (pack bs)) = (length bs / 8)%nat.
Proof. exact pack_pending_count. Qed.
Print Assumptions C17_pack_pending_count.

(* get_output: all full bytes when incomplete output is allowed; otherwise IncompleteOutput exactly when the
   number of written bits is not a multiple of 8 *)
Theorem C17_get_output_allowing_incomplete :
  forall bs, get_answer bs true = OBytes (fst (pack bs)).
Proof. exact get_answer_true. Qed.
Print Assumptions C17_get_output_allowing_incomplete.

Theorem C17_get_output_strict :
  forall bs, get_answer bs false = if (length bs mod 8 =? 0)%nat then OBytes (fst (pack bs)) else OIncomplete.
Proof. exact get_answer_false. Qed.
Print Assumptions C17_get_output_strict.

(* ---- FixedIO ---------------------------------------------------------------------------------------- *)

(* every sequence of read_bit / write_bit / get_output calls, in any interleaving, is answered as specified;
   in particular write_bit never raises and a failed read leaves the device usable *)
Theorem C17_fixed_trace :
  forall input ops, fx_run (fx_init input) ops = device_trace (fixed_input input) ops.
Proof. exact fixed_trace. Qed.
Print Assumptions C17_fixed_trace.

(* n successive reads return the first n bits of MachineSpec.bytes_bits input (the machine's input of C01),
   and IOReadOnEOF from read number 8*|input|+1 on *)
Theorem C17_fixed_reads :
  forall input n,
    fx_run (fx_init input) (repeat OpRead n) =
    map OBit (firstn n (bytes_bits input)) ++ repeat OEof (n - 8 * length input).
Proof. exact fixed_reads. Qed.
Print Assumptions C17_fixed_reads.

(* read number k (from 0) returns bit (k mod 8) of byte (k / 8) *)
Theorem C17_fixed_input_bit :
  forall input k,
    fixed_input input k = option_map (fun byte => N.testbit byte (N.of_nat (k mod 8))) (nth_error input (k / 8)).
Proof. exact fixed_input_bit. Qed.
Print Assumptions C17_fixed_input_bit.

Theorem C17_fixed_input_eof :
  forall input k, fixed_input input k = None <-> (8 * length input <= k)%nat.
Proof. exact fixed_input_eof. Qed.
Print Assumptions C17_fixed_input_eof.

Theorem C17_fixed_writes :
  forall input bs,
    fx_run (fx_init input) (map OpWrite bs ++ [OpGet false; OpGet true]) =
    map (fun _ => ODone) bs ++ [get_answer bs false; get_answer bs true].
Proof. exact fixed_writes. Qed.
Print Assumptions C17_fixed_writes.

(* link with C01: the device's collected bytes are MachineSpec.out_bytes of the machine's output list *)
Theorem C17_fixed_output_is_out_bytes :
  forall input outp,
    fx_run (fx_init input) (map OpWrite (rev outp) ++ [OpGet true]) =
    map (fun _ => ODone) (rev outp) ++ [OBytes (fst (out_bytes outp))].
Proof. exact fixed_output_is_out_bytes. Qed.
Print Assumptions C17_fixed_output_is_out_bytes.

(* writing back all the bits read from an input gives the input bytes *)
Theorem C17_echo_roundtrip :
  forall bytes a, Forall (fun b => b < 256) bytes -> get_answer (bytes_bits bytes) a = OBytes bytes.
Proof. exact echo_roundtrip. Qed.
Print Assumptions C17_echo_roundtrip.

(* ---- StandardIO -------------------------------------------------------------------------------------- *)

(* same answers as FixedIO over the stdin bytes; stdout receives exactly the completed output bytes when verbose *)
Theorem C17_standard_trace :
  forall verbose stdin ops,
    fst (so_run (so_init verbose stdin) ops) = device_trace (fixed_input stdin) ops /\
    s_stdout (snd (so_run (so_init verbose stdin) ops)) = if verbose then fst (pack (written ops)) else [].
Proof. exact standard_trace. Qed.
Print Assumptions C17_standard_trace.

(* ---- BrokenIO ----------------------------------------------------------------------------------------- *)

Theorem C17_broken_always_raises : forall ops, br_run ops = broken_trace ops.
Proof. exact broken_always_raises. Qed.
Print Assumptions C17_broken_always_raises.

(* ---- KeyboardIO --------------------------------------------------------------------------------------- *)

(* Python's stable sort by tic is the delivery order (tic, then script position), and that order is unique *)
Theorem C17_keyboard_sort_is_deliver : forall script, sort_events script = deliver script.
Proof. exact sort_events_deliver. Qed.
Print Assumptions C17_keyboard_sort_is_deliver.

Theorem C17_keyboard_deliver_is_order : forall script, delivery_order script (deliver script).
Proof. exact deliver_is_order. Qed.
Print Assumptions C17_keyboard_deliver_is_order.

Theorem C17_keyboard_order_unique :
  forall script d1 d2, delivery_order script d1 -> delivery_order script d2 -> d1 = d2.
Proof. exact delivery_order_unique. Qed.
Print Assumptions C17_keyboard_order_unique.

(* every interleaving of reads, writes and get_output on KeyboardIO(ScriptedKeyEventSource(script)) is answered as
   specified: read k returns bit k of the concatenated polls (one status nibble per poll, keycode byte after an event).
   Hypothesis: keycodes are not negative (from_text guarantees 0..255, C17_script_codes). *)
Theorem C17_keyboard_trace :
  forall script ops,
    Forall (fun e => (0 <= k_code e)%Z) script ->
    kb_run (kb_init script) ops = device_trace (kb_input script) ops.
Proof. exact keyboard_trace. Qed.
Print Assumptions C17_keyboard_trace.

Theorem C17_keyboard_never_eof : forall script k, exists b, kb_input script k = Some b.
Proof. exact keyboard_never_eof. Qed.
Print Assumptions C17_keyboard_never_eof.

(* the first undelivered event is delivered at tic max(t, its tic): only idle polls (status 0) before it, its
   status nibble and keycode byte at that poll, and the next event cannot come before the following tic *)
Theorem C17_keyboard_head_delivery :
  forall e d t m,
    let idle := Z.to_nat (k_tic e - t) in
    kb_polls (e :: d) t (idle + S m) =
    concat (repeat (nibble 0) idle) ++
    (nibble (if k_down e then 9 else 8) ++ byte_bits (Z.to_N (k_code e))) ++ kb_polls d (Z.max t (k_tic e) + 1) m.
Proof. exact keyboard_head_delivery. Qed.
Print Assumptions C17_keyboard_head_delivery.

Theorem C17_keyboard_idle : forall t n, kb_polls [] t n = concat (repeat (nibble 0) n).
Proof. exact keyboard_idle. Qed.
Print Assumptions C17_keyboard_idle.

(* ---- ScriptedKeyEventSource.from_text (ASCII) ---------------------------------------------------------- *)

(* the script is accepted iff no line is malformed, and then yields the events of its lines in script order *)
Theorem C17_script_ok :
  forall ls n acc evs,
    parse_lines ls n acc = POk evs <-> Forall line_ok ls /\ evs = acc ++ flat_map line_events ls.
Proof. exact parse_lines_ok. Qed.
Print Assumptions C17_script_ok.

(* otherwise the device error names the first malformed line *)
Theorem C17_script_error :
  forall ls n acc k m,
    parse_lines ls n acc = PErr k m <->
    exists pre l post, ls = pre ++ l :: post /\ Forall line_ok pre /\ parse_line l = LBad k /\ m = n + N.of_nat (length pre).
Proof. exact parse_lines_err. Qed.
Print Assumptions C17_script_error.

Theorem C17_script_codes :
  forall text evs, parse_script text = POk evs -> Forall (fun e => (0 <= k_code e < 256)%Z) evs.
Proof. exact parse_script_codes. Qed.
Print Assumptions C17_script_codes.

Theorem C17_keyboard_script_trace :
  forall text evs ops,
    parse_script text = POk evs -> kb_run (kb_init evs) ops = device_trace (kb_input evs) ops.
Proof. exact keyboard_script_trace. Qed.
Print Assumptions C17_keyboard_script_trace.

(* ---- non-vacuity: the definitions compute what one expects on concrete inputs -------------------------- *)

(* 11 bits: one byte 0x4D (lsb first: 1 0 1 1 0 0 1 0) and three pending bits *)
Example ex_pack :
  pack [true; false; true; true; false; false; true; false; true; true; false] = ([77], [true; true; false]).
Proof. reflexivity. Qed.

Example ex_packs_holds : packs [true; false; true; true; false; false; true; false; true; true; false] [77] [true; true; false].
Proof. apply C17_pack_characterised. reflexivity. Qed.

(* FixedIO(b'\x05'): 9 reads = bits 1 0 1 0 0 0 0 0 then EOF; 9 writes then strict get_output = IncompleteOutput,
   lenient = the one full byte *)
Example ex_fixed_trace :
  fx_run (fx_init [5]) (repeat OpRead 10 ++ map OpWrite [true; true; false; false; false; false; false; true; true] ++ [OpGet false; OpGet true; OpRead]) =
  [OBit true; OBit false; OBit true; OBit false; OBit false; OBit false; OBit false; OBit false; OEof; OEof] ++
  repeat ODone 9 ++ [OIncomplete; OBytes [131]; OEof].
Proof. reflexivity. Qed.

Example ex_fixed_eof_exactly_after_last_bit :
  fixed_input [5; 200] 15 = Some true /\ fixed_input [5; 200] 16 = None.
Proof. split; reflexivity. Qed.

(* a script with a tie (tic 5 twice, script order kept) and an out-of-order line (tic 1 last); its keycodes
   satisfy the hypothesis of C17_keyboard_trace *)
Example ex_script_hypothesis : Forall (fun e => (0 <= k_code e)%Z) [mkkev 5 true 65; mkkev 5 false 65; mkkev 1 true 13].
Proof. repeat constructor; discriminate. Qed.

Example ex_deliver : deliver [mkkev 5 true 65; mkkev 5 false 65; mkkev 1 true 13] = [mkkev 1 true 13; mkkev 5 true 65; mkkev 5 false 65].
Proof. reflexivity. Qed.

(* polls at tics 0..6: idle, tic-1 event (status 9, code 13), idle x3, then the two tic-5 events on tics 5 and 6 *)
Example ex_polls :
  kb_polls (deliver [mkkev 5 true 65; mkkev 5 false 65; mkkev 1 true 13]) 0 7 =
  nibble 0 ++ (nibble 9 ++ byte_bits 13) ++ nibble 0 ++ nibble 0 ++ nibble 0 ++ (nibble 9 ++ byte_bits 65) ++ (nibble 8 ++ byte_bits 65).
Proof. reflexivity. Qed.

Example ex_keyboard_run :
  kb_run (kb_init [mkkev 5 true 65; mkkev 5 false 65; mkkev 1 true 13]) (repeat OpRead 8) =
  map OBit [false; false; false; false; true; false; false; true].
Proof. reflexivity. Qed.

(* "5, down, 0x41\n# c\n 1,UP,7\n5,1,0b11" *)
Example ex_parse :
  parse_script [53; 44; 32; 100; 111; 119; 110; 44; 32; 48; 120; 52; 49; 10; 35; 32; 99; 10; 32; 49; 44; 85; 80; 44; 55; 10; 53; 44; 49; 44; 48; 98; 49; 49] =
  POk [mkkev 5 true 65; mkkev 1 false 7; mkkev 5 true 3].
Proof. reflexivity. Qed.

(* "1,down,65\n2,sideways,3": line 2 has a bad down/up value *)
Example ex_parse_error :
  parse_script [49; 44; 100; 111; 119; 110; 44; 54; 53; 10; 50; 44; 115; 105; 100; 101; 119; 97; 121; 115; 44; 51] = PErr BAD_DOWN_UP 2.
Proof. reflexivity. Qed.
