(* Common imports and the arithmetic set-up used by every file of the development. *)
From Coq Require Export NArith ZArith List Bool Lia ZifyBool ZifyN ZifyNat FMapPositive.
Export ListNotations.

Ltac Zify.zify_post_hook ::= Z.div_mod_to_equations.

Global Arguments N.add : simpl never.
Global Arguments N.mul : simpl never.
Global Arguments N.sub : simpl never.
Global Arguments N.shiftl : simpl never.
Global Arguments N.shiftr : simpl never.
Global Arguments N.land : simpl never.
Global Arguments N.lor : simpl never.
Global Arguments N.lxor : simpl never.
Global Arguments N.pow : simpl never.
Global Arguments N.div : simpl never.
Global Arguments N.modulo : simpl never.
Global Arguments N.ones : simpl never.
Global Arguments N.testbit : simpl never.
Global Arguments Z.add : simpl never.
Global Arguments Z.mul : simpl never.
Global Arguments Z.sub : simpl never.
Global Arguments Z.pow : simpl never.
Global Arguments Z.div : simpl never.
Global Arguments Z.modulo : simpl never.

(* Word-addressed memory: a finite map from word address to word value. *)
Definition mem := PositiveMap.t N.
Definition key (a : N) : positive := N.succ_pos a.
Definition mget (m : mem) (a : N) : option N := PositiveMap.find (key a) m.
Definition mset (m : mem) (a : N) (v : N) : mem := PositiveMap.add (key a) v m.
Definition mget0 (m : mem) (a : N) : N := match mget m a with Some v => v | None => 0%N end.
Definition mem_of_list (l : list (N * N)) : mem :=
  fold_left (fun m p => mset m (fst p) (snd p)) l (PositiveMap.empty N).

Lemma key_inj a b : key a = key b -> a = b.
Proof. unfold key; intros H. apply (f_equal Pos.pred_N) in H. now rewrite !N.pos_pred_succ in H. Qed.

Lemma mget_mset_same m a v : mget (mset m a v) a = Some v.
Proof. unfold mget, mset. apply PositiveMap.gss. Qed.

Lemma mget_mset_other m a b v : a <> b -> mget (mset m a v) b = mget m b.
Proof. unfold mget, mset; intros H. apply PositiveMap.gso. intros E; apply H. symmetry. now apply key_inj. Qed.

Lemma mget0_mset_same m a v : mget0 (mset m a v) a = v.
Proof. unfold mget0. now rewrite mget_mset_same. Qed.

Lemma mget0_mset_other m a b v : a <> b -> mget0 (mset m a v) b = mget0 m b.
Proof. unfold mget0; intros H. now rewrite mget_mset_other. Qed.

Lemma mget_empty a : mget (PositiveMap.empty N) a = None.
Proof. unfold mget. apply PositiveMap.gempty. Qed.
