(* Bit-level lemmas on N used by the engine refinement proofs. *)
From FJ Require Import Lib.Base.
Local Open Scope N_scope.

Lemma shiftl_1_pow2 n : N.shiftl 1 n = 2 ^ n.
Proof. now rewrite N.shiftl_1_l. Qed.

Lemma testbit_bit off i : N.testbit (N.shiftl 1 off) i = (off =? i).
Proof. rewrite shiftl_1_pow2. apply N.pow2_bits_eqb. Qed.

Lemma lt_pow2_testbit_high v n i : v < 2 ^ n -> n <= i -> N.testbit v i = false.
Proof. intros H Hi. rewrite <- (N.mod_small v (2 ^ n)) by exact H. now apply N.mod_pow2_bits_high. Qed.

Lemma testbit_high_lt_pow2 v n : (forall i, n <= i -> N.testbit v i = false) -> v < 2 ^ n.
Proof.
  intros H. destruct (N.eq_dec v 0) as [->|Hv]. { apply N.neq_0_lt_0. now apply N.pow_nonzero. }
  apply N.log2_lt_pow2; [lia|].
  destruct (N.lt_ge_cases (N.log2 v) n) as [|Hge]; [assumption|].
  specialize (H _ Hge). rewrite N.bit_log2 in H by exact Hv. discriminate.
Qed.

Lemma ones_testbit n i : N.testbit (N.ones n) i = (i <? n).
Proof.
  destruct (N.ltb_spec i n).
  - now apply N.ones_spec_low.
  - now apply N.ones_spec_high.
Qed.

Lemma land_ones_small v n : v < 2 ^ n -> N.land v (N.ones n) = v.
Proof. intros H. rewrite N.land_ones. now apply N.mod_small. Qed.

Lemma land_ones_lt v n : N.land v (N.ones n) < 2 ^ n.
Proof. rewrite N.land_ones. apply N.mod_lt. now apply N.pow_nonzero. Qed.

(* the featured loop's flip (read the bit, write its negation) equals the XOR flip *)
Lemma flip_set v off n : v < 2 ^ n -> off < n -> N.testbit v off = false ->
  N.land (N.lor v (N.shiftl 1 off)) (N.ones n) = N.lxor v (N.shiftl 1 off).
Proof.
  intros Hv Ho Hb. apply N.bits_inj; intros i.
  rewrite N.land_spec, N.lor_spec, N.lxor_spec, ones_testbit, testbit_bit.
  destruct (N.ltb_spec i n) as [Hi|Hi].
  - rewrite andb_true_r. destruct (N.eqb_spec off i) as [->|]; [now rewrite Hb|].
    now rewrite orb_false_r, xorb_false_r.
  - rewrite andb_false_r. rewrite (lt_pow2_testbit_high v n i Hv Hi).
    destruct (N.eqb_spec off i); [lia|reflexivity].
Qed.

Lemma ones_sub_bit n off : off < n -> N.ones n - N.shiftl 1 off = N.ldiff (N.ones n) (N.shiftl 1 off).
Proof.
  intros Ho. apply N.sub_nocarry_ldiff. apply N.bits_inj; intros i.
  rewrite N.ldiff_spec, testbit_bit, ones_testbit, N.bits_0.
  destruct (N.eqb_spec off i) as [->|]; [|reflexivity].
  destruct (N.ltb_spec i n); [reflexivity|lia].
Qed.

Lemma flip_clear v off n : v < 2 ^ n -> off < n -> N.testbit v off = true ->
  N.land (N.land v (N.ones n - N.shiftl 1 off)) (N.ones n) = N.lxor v (N.shiftl 1 off).
Proof.
  intros Hv Ho Hb. rewrite ones_sub_bit by exact Ho. apply N.bits_inj; intros i.
  rewrite !N.land_spec, N.ldiff_spec, N.lxor_spec, ones_testbit, testbit_bit.
  destruct (N.ltb_spec i n) as [Hi|Hi].
  - destruct (N.eqb_spec off i) as [->|]; [rewrite Hb; reflexivity|].
    simpl. now rewrite !andb_true_r, xorb_false_r.
  - rewrite (lt_pow2_testbit_high v n i Hv Hi). destruct (N.eqb_spec off i); [lia|reflexivity].
Qed.

Lemma lxor_bit_lt v off n : v < 2 ^ n -> off < n -> N.lxor v (N.shiftl 1 off) < 2 ^ n.
Proof.
  intros Hv Ho. apply testbit_high_lt_pow2. intros i Hi.
  rewrite N.lxor_spec, testbit_bit, (lt_pow2_testbit_high v n i Hv Hi).
  destruct (N.eqb_spec off i); [lia|reflexivity].
Qed.

Lemma lor_bit_lt v off n : v < 2 ^ n -> off < n -> N.lor v (N.shiftl 1 off) < 2 ^ n.
Proof.
  intros Hv Ho. apply testbit_high_lt_pow2. intros i Hi.
  rewrite N.lor_spec, testbit_bit, (lt_pow2_testbit_high v n i Hv Hi).
  destruct (N.eqb_spec off i); [lia|reflexivity].
Qed.

Lemma land_lt_l v x n : v < 2 ^ n -> N.land v x < 2 ^ n.
Proof.
  intros Hv. apply testbit_high_lt_pow2. intros i Hi.
  now rewrite N.land_spec, (lt_pow2_testbit_high v n i Hv Hi).
Qed.

Lemma land_1 x : N.land x 1 = N.b2n (N.testbit x 0).
Proof. destruct x as [|[p|p|]]; reflexivity. Qed.

Lemma testbit_as_shift v off : (N.land (N.shiftr v off) 1 =? 1) = N.testbit v off.
Proof.
  rewrite land_1, N.shiftr_spec by lia. rewrite N.add_0_l.
  destruct (N.testbit v off); reflexivity.
Qed.

(* the unsigned single-compare range tests of the C loops and the two-compare tests of the fast loop *)
Lemma shiftr_lt a n k : a < 2 ^ (n + k) -> N.shiftr a k < 2 ^ n.
Proof.
  intros H. rewrite N.shiftr_div_pow2. apply N.div_lt_upper_bound. { now apply N.pow_nonzero. }
  now rewrite <- N.pow_add_r, N.add_comm.
Qed.
