From FJ Require Import Lib.Base.
(* Byte strings and the little-endian integer codecs of Python's struct module ('<H', '<L', '<Q', '<B').
   A byte string is a list of N; encoders only produce values < 256, decoders accept any list
   (theorems quantified over "all byte strings" therefore cover more than the 256-valued ones). *)
Local Open Scope N_scope.

Definition bytes := list N.

(* v as n little-endian bytes (the low 8n bits of v) *)
Fixpoint le_enc (n : nat) (v : N) : bytes :=
  match n with O => [] | S k => (v mod 256) :: le_enc k (v / 256) end.

Fixpoint le_dec (b : bytes) : N :=
  match b with [] => 0 | x :: r => x + 256 * le_dec r end.

Definition is_byte (x : N) : bool := x <? 256.
Definition all_bytes (b : bytes) : bool := forallb is_byte b.

Definition u16_enc := le_enc 2.
Definition u32_enc := le_enc 4.
Definition u64_enc := le_enc 8.

(* f.read(n) followed by struct.unpack of an n-byte format: fails (struct.error) on a short read *)
Definition take (n : nat) (b : bytes) : option (bytes * bytes) :=
  if (length b <? n)%nat then None else Some (firstn n b, skipn n b).

(* the field of n bytes at offset off of an already length-checked chunk *)
Definition u_at (off n : nat) (b : bytes) : N := le_dec (firstn n (skipn off b)).

Fixpoint bytes_eqb (a b : bytes) : bool :=
  match a, b with
  | [], [] => true
  | x :: a', y :: b' => (x =? y) && bytes_eqb a' b'
  | _, _ => false
  end.

(* compact literals for generated case files: the byte string is cut into 32-byte chunks, each written as
   one little-endian number; `len` is the true length (the last chunk is zero-padded) *)
Definition of_chunks (len : nat) (chunks : list N) : bytes := firstn len (flat_map (le_enc 32) chunks).

(* ---------------------------------------------------------------------------------------------- *)

Lemma le_enc_length n v : length (le_enc n v) = n.
Proof. revert v; induction n; intros; cbn [le_enc length]; [reflexivity | now rewrite IHn]. Qed.

Lemma le_enc_all_bytes n v : all_bytes (le_enc n v) = true.
Proof.
  revert v; induction n; intros; cbn [le_enc all_bytes forallb]; [reflexivity|].
  apply andb_true_intro; split; [|apply IHn].
  unfold is_byte. apply N.ltb_lt. apply N.mod_lt. discriminate.
Qed.

Lemma pow256_succ n : 256 ^ N.of_nat (S n) = 256 * 256 ^ N.of_nat n.
Proof. rewrite Nat2N.inj_succ, N.pow_succ_r'. reflexivity. Qed.

Lemma le_dec_enc n v : v < 256 ^ N.of_nat n -> le_dec (le_enc n v) = v.
Proof.
  revert v; induction n; intros v H.
  - cbn [le_enc le_dec]. change (256 ^ N.of_nat 0) with 1 in H. lia.
  - cbn [le_enc le_dec]. rewrite pow256_succ in H.
    rewrite IHn.
    + pose proof (N.div_mod v 256). lia.
    + apply N.div_lt_upper_bound; lia.
Qed.

(* without the range hypothesis the decoder returns the value reduced modulo 256^n *)
Lemma le_dec_enc_mod n v : le_dec (le_enc n v) = v mod 256 ^ N.of_nat n.
Proof.
  revert v; induction n; intros v.
  - cbn [le_enc le_dec]. change (256 ^ N.of_nat 0) with 1. now rewrite N.mod_1_r.
  - cbn [le_enc le_dec]. rewrite IHn, pow256_succ.
    assert (P : 256 ^ N.of_nat n <> 0) by (apply N.pow_nonzero; discriminate).
    rewrite (N.mod_mul_r v 256 (256 ^ N.of_nat n)) by (discriminate || exact P). reflexivity.
Qed.

Lemma le_dec_bound b : all_bytes b = true -> le_dec b < 256 ^ N.of_nat (length b).
Proof.
  induction b as [|x r IH]; intros H.
  - cbn. lia.
  - cbn [all_bytes forallb] in H. apply andb_prop in H. destruct H as [Hx Hr].
    unfold is_byte in Hx. apply N.ltb_lt in Hx. specialize (IH Hr).
    cbn [length le_dec]. rewrite pow256_succ. lia.
Qed.

Lemma le_enc_dec b : all_bytes b = true -> le_enc (length b) (le_dec b) = b.
Proof.
  induction b as [|x r IH]; intros H.
  - reflexivity.
  - cbn [all_bytes forallb] in H. apply andb_prop in H. destruct H as [Hx Hr].
    unfold is_byte in Hx. apply N.ltb_lt in Hx. specialize (IH Hr).
    cbn [length le_enc le_dec].
    replace ((x + 256 * le_dec r) mod 256) with x.
    2:{ lia. }
    replace ((x + 256 * le_dec r) / 256) with (le_dec r).
    2:{ lia. }
    now rewrite IH.
Qed.

Lemma le_enc_inj n a b : a < 256 ^ N.of_nat n -> b < 256 ^ N.of_nat n -> le_enc n a = le_enc n b -> a = b.
Proof. intros Ha Hb E. rewrite <- (le_dec_enc n a Ha), <- (le_dec_enc n b Hb). now rewrite E. Qed.

Lemma u16_roundtrip v : v < 2 ^ 16 -> le_dec (u16_enc v) = v.
Proof. intros H. apply le_dec_enc. exact H. Qed.
Lemma u32_roundtrip v : v < 2 ^ 32 -> le_dec (u32_enc v) = v.
Proof. intros H. apply le_dec_enc. exact H. Qed.
Lemma u64_roundtrip v : v < 2 ^ 64 -> le_dec (u64_enc v) = v.
Proof. intros H. apply le_dec_enc. exact H. Qed.

(* a w-bit word is w/8 bytes: 256^(w/8) = 2^w for the four supported widths *)
Lemma word_bound_8 : 256 ^ N.of_nat 1 = 2 ^ 8. Proof. reflexivity. Qed.
Lemma word_bound_16 : 256 ^ N.of_nat 2 = 2 ^ 16. Proof. reflexivity. Qed.
Lemma word_bound_32 : 256 ^ N.of_nat 4 = 2 ^ 32. Proof. reflexivity. Qed.
Lemma word_bound_64 : 256 ^ N.of_nat 8 = 2 ^ 64. Proof. reflexivity. Qed.

Lemma take_app n a b : length a = n -> take n (a ++ b) = Some (a, b).
Proof.
  intros H. unfold take. rewrite app_length, H.
  replace (n + length b <? n)%nat with false by (symmetry; apply Nat.ltb_ge; lia).
  subst n. now rewrite firstn_app, Nat.sub_diag, firstn_all, firstn_O, app_nil_r, skipn_app, Nat.sub_diag, skipn_all.
Qed.

Lemma take_short n b : (length b < n)%nat -> take n b = None.
Proof. intros H. unfold take. apply Nat.ltb_lt in H. now rewrite H. Qed.

Lemma take_some n b c r : take n b = Some (c, r) -> b = c ++ r /\ length c = n.
Proof.
  unfold take. destruct (length b <? n)%nat eqn:E; [discriminate|].
  intros H; injection H as <- <-. apply Nat.ltb_ge in E. split.
  - symmetry; apply firstn_skipn.
  - apply firstn_length_le. exact E.
Qed.

Lemma u_at_0 n a r : length a = n -> u_at 0 n (a ++ r) = le_dec a.
Proof.
  intros H. unfold u_at. cbn [skipn]. subst n.
  now rewrite firstn_app, Nat.sub_diag, firstn_all, firstn_O, app_nil_r.
Qed.

Lemma u_at_skip off n a r : length a = off -> u_at off n (a ++ r) = u_at 0 n r.
Proof.
  intros H. unfold u_at. subst off.
  now rewrite skipn_app, Nat.sub_diag, skipn_all.
Qed.

Lemma bytes_eqb_refl a : bytes_eqb a a = true.
Proof. induction a; cbn; [reflexivity|]. now rewrite N.eqb_refl, IHa. Qed.

Lemma bytes_eqb_eq a b : bytes_eqb a b = true <-> a = b.
Proof.
  split; [|intros ->; apply bytes_eqb_refl].
  revert b; induction a as [|x a IH]; destruct b as [|y b]; cbn; try discriminate; [reflexivity|].
  intros H. apply andb_prop in H. destruct H as [H1 H2]. apply N.eqb_eq in H1. subst. f_equal. now apply IH.
Qed.
